#!/bin/sh
# mkws.sh <name> : scratch workspaces for one work package (outside /repo and /verif):
#   /var/tmp/ws/<name>-verif  (git worktree of /verif, branch agent-<name>)
#   /var/tmp/ws/<name>-repo   (git worktree of /repo,  branch agent-<name>)
set -e
n="$1"
mkdir -p /var/tmp/ws
git -C /verif worktree add -q -b "agent-$n" "/var/tmp/ws/$n-verif" HEAD
git -C /repo worktree add -q -b "agent-$n" "/var/tmp/ws/$n-repo" HEAD
echo "/var/tmp/ws/$n-verif /var/tmp/ws/$n-repo"
