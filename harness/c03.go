package main

import (
	"fmt"
	"math"
	"math/rand"
	"sort"
	"strconv"
	"strings"
	"time"

	"github.com/rulego/streamsql"
	"github.com/rulego/streamsql/aggregator"
	"github.com/rulego/streamsql/functions"
)

// C03 — aggregate functions equal their mathematical definition.
//
// Three kinds of cases (cfg `mode`):
//
//	direct : one aggregator object (aggregator.CreateBuiltinAggregator(kind).New() or
//	         functions.CreateParameterizedAggregator for percentile p / nth_value n):
//	         ops `new` (instance = instance.New(), i.e. New from a *used* instance), `add <val>` and
//	         `perm rev|rot k` (a fresh instance fed with the same values in reversed / rotated order);
//	         obs `r <Result()>` after every op.
//	ga     : one aggregator.GroupAggregator: ops `row <k v …>` (Add), `results` (GetResults, rows
//	         sorted by group key), `reset`.
//	sql    : a query with CountingWindow(N) and a sync sink: ops `row …` (Emit) and a final `flush`
//	         (N sentinel rows, wait for their batch — a barrier, no sleep — then all batches in order).
//
// Values cross as tokens: n (nil) | t | f | i:<dec> | f:<16 hex of Float64bits> | s:<hex>.
// strconv.ParseFloat of every string and the %v / 'f' renderings of every float that occur in a
// case are handed to the model as `cfg pf` / `cfg fv` tables (Go runtime = trusted base).
type c03 struct{}

func init() { registry["C03"] = c03{} }

func (c03) Count(tier string) int {
	if tier == "thorough" {
		return 30000
	}
	return 900
}

var c03Kinds = []string{"count", "sum", "avg", "min", "max", "stddev", "stddevs", "var", "vars", "median",
	"percentile", "first_value", "last_value", "nth_value", "collect", "deduplicate", "merge_agg"}

func c03Numeric(k string) bool {
	switch k {
	case "first_value", "last_value", "nth_value", "collect", "deduplicate", "merge_agg":
		return false
	}
	return true
}

// ---------------------------------------------------------------- tokens

func ftok(x float64) string {
	if math.IsNaN(x) {
		return "f:nan"
	}
	return fmt.Sprintf("f:%016x", math.Float64bits(x))
}

func parseFtok(t string) float64 {
	if t == "f:nan" {
		return math.NaN()
	}
	b, err := strconv.ParseUint(t[2:], 16, 64)
	if err != nil {
		panic("bad float token " + t)
	}
	return math.Float64frombits(b)
}

// tokVal turns a value token into the Go value handed to the implementation.
// ints: even values travel as Go `int`, odd ones as `int64` (both occur in real rows).
func tokVal(t string) interface{} {
	switch {
	case t == "n":
		return nil
	case t == "t":
		return true
	case t == "f":
		return false
	case strings.HasPrefix(t, "i:"):
		i, err := strconv.ParseInt(t[2:], 10, 64)
		if err != nil {
			if u, uerr := strconv.ParseUint(t[2:], 10, 64); uerr == nil {
				return u // beyond int64: a Go uint64 (2^63 … 2^64-1)
			}
			panic("bad int token " + t)
		}
		if i%2 == 0 {
			return int(i)
		}
		return i
	case strings.HasPrefix(t, "f:"):
		return parseFtok(t)
	case strings.HasPrefix(t, "s:"):
		return unhx(t[2:])
	}
	panic("bad value token " + t)
}

func valTok(v interface{}) []string {
	switch x := v.(type) {
	case nil:
		return []string{"n"}
	case bool:
		return []string{btok(x)}
	case int:
		return []string{"i:" + itoa(int64(x))}
	case int64:
		return []string{"i:" + itoa(x)}
	case uint64:
		return []string{"i:" + strconv.FormatUint(x, 10)}
	case float64:
		return []string{ftok(x)}
	case string:
		return []string{"s:" + hx(x)}
	case []interface{}:
		out := []string{"["}
		for _, e := range x {
			out = append(out, valTok(e)...)
		}
		return append(out, "]")
	}
	return []string{fmt.Sprintf("?%T", v)}
}

// resTok renders a Result(); median / percentile: -0 canonicalised to +0 (sort.Float64s leaves the
// relative order of -0 and +0 open).
func resTok(kind string, v interface{}) []string {
	if f, ok := v.(float64); ok && (kind == "median" || kind == "percentile") && f == 0 {
		v = 0.0
	}
	return valTok(v)
}

// ---------------------------------------------------------------- value pools

var c03Ints = []int64{0, 1, -1, 2, 3, 7, -5, 10, 100, 1000000, 4, 4, 9007199254740993}
var c03Floats = []float64{0.5, 2.5, -1.5, 0.1, 0.2, 0.3, 1e-3, 1000000.25, 4, -0.75, 1e15 + 0.125, 3.3333333333333335}
var c03NumStrs = []string{"12.5", "7", "-3", "1e2", "0.1"}
var c03BadStrs = []string{"abc", "", " 1", "1,5", "x7"}
var c03Strs = []string{"a", "b", "a", "true", "1", "", "x,y", "<nil>"}

func genNum(rng *rand.Rand) string {
	switch k := rng.Intn(20); {
	case k < 1:
		// unsigned 64-bit values beyond int64: a conversion through int64 would wrap them to negative numbers
		return []string{"i:9223372036854775808", "i:18446744073709551615", "i:9223372036854777856"}[rng.Intn(3)]
	case k < 7:
		return "i:" + itoa(c03Ints[rng.Intn(len(c03Ints))])
	case k < 10:
		return "i:" + itoa(int64(rng.Intn(41)-20))
	case k < 15:
		return ftok(c03Floats[rng.Intn(len(c03Floats))])
	case k < 18:
		return ftok(float64(rng.Intn(161)-80) / 8) // dyadic
	case k < 19:
		return ftok(float64(rng.Intn(2001)-1000) / 10) // non-dyadic
	default:
		return ftok(rng.NormFloat64() * 100)
	}
}

// genInput: a value for an aggregate of the given kind; `wild` admits ±Inf, NaN, -0 (direct mode only).
func genInput(rng *rand.Rand, kind string, wild bool) string {
	k := rng.Intn(100)
	if c03Numeric(kind) {
		switch {
		case k < 64:
			return genNum(rng)
		case k < 80:
			return "n"
		case k < 86:
			return "s:" + hx(c03NumStrs[rng.Intn(len(c03NumStrs))])
		case k < 92:
			return "s:" + hx(c03BadStrs[rng.Intn(len(c03BadStrs))])
		case k < 97:
			return btok(rng.Intn(2) == 0)
		default:
			if wild {
				return []string{ftok(math.Inf(1)), ftok(math.Inf(-1)), "f:nan", ftok(math.Copysign(0, -1)), ftok(0)}[rng.Intn(5)]
			}
			return ftok(0)
		}
	}
	switch {
	case k < 40:
		return genNum(rng)
	case k < 60:
		return "n"
	case k < 85:
		return "s:" + hx(c03Strs[rng.Intn(len(c03Strs))])
	default:
		return btok(rng.Intn(2) == 0)
	}
}

// tables: `cfg pf` for every string token, `cfg fv` for every float token of the case.
func c03Tables(c *Case) {
	seen := map[string]bool{}
	var lines [][]string
	add := func(t string) {
		if seen[t] {
			return
		}
		seen[t] = true
		switch {
		case strings.HasPrefix(t, "s:"):
			s := unhx(t[2:])
			if f, err := strconv.ParseFloat(s, 64); err == nil {
				lines = append(lines, []string{"pf", hx(s), ftok(f)})
			} else {
				lines = append(lines, []string{"pf", hx(s), "e"})
			}
		case strings.HasPrefix(t, "f:") && t != "f:nan":
			f := parseFtok(t)
			lines = append(lines, []string{"fv", t[2:], hx(fmt.Sprintf("%v", f)), hx(strconv.FormatFloat(f, 'f', -1, 64))})
		}
	}
	for _, op := range c.Ops {
		for _, t := range op[1:] {
			add(t)
		}
	}
	sort.Slice(lines, func(i, j int) bool { return strings.Join(lines[i], " ") < strings.Join(lines[j], " ") })
	c.Cfg = append(c.Cfg, lines...)
}

// ---------------------------------------------------------------- generation

func (c03) Gen(rng *rand.Rand, tier string, idx int) Case {
	switch m := idx % 10; {
	case m < 5:
		return genDirect(rng, idx)
	case m < 8:
		return genGA(rng)
	default:
		return genSQL(rng)
	}
}

var c03Ps = []float64{0, 0.5, 0.95, 1, 0.25, 0.99, 0.3333333333333333}

func genDirect(rng *rand.Rand, idx int) Case {
	var c Case
	kind := c03Kinds[(idx/10*5+idx%10)%len(c03Kinds)] // every kind in turn
	c.Cfg = append(c.Cfg, []string{"mode", "direct"}, []string{"kind", kind})
	p, nth, ctor := 0.95, 1, "builtin"
	if kind == "percentile" && rng.Intn(4) > 0 {
		p, ctor = c03Ps[rng.Intn(len(c03Ps))], "param"
	}
	if kind == "nth_value" && rng.Intn(4) > 0 {
		nth, ctor = 1+rng.Intn(4), "param"
	}
	c.Cfg = append(c.Cfg, []string{"ctor", ctor}, []string{"p", ftok(p)}, []string{"nth", strconv.Itoa(nth)})
	wild := rng.Intn(6) == 0
	n := []int{0, 1, 2, 3, 4, 5, 6, 8, 9, 12}[rng.Intn(10)]
	runs := 1 + rng.Intn(3)
	for r := 0; r < runs; r++ {
		if r > 0 {
			c.Ops = append(c.Ops, []string{"new"})
		}
		var prev []string
		for i := 0; i < n; i++ {
			v := genInput(rng, kind, wild)
			if len(prev) > 0 && rng.Intn(5) == 0 { // repeats
				v = prev[rng.Intn(len(prev))]
			}
			prev = append(prev, v)
			c.Ops = append(c.Ops, []string{"add", v})
			if i > 0 && rng.Intn(6) == 0 { // the same values in another order, on a fresh instance
				if rng.Intn(2) == 0 {
					c.Ops = append(c.Ops, []string{"perm", "rev", "0"})
				} else {
					c.Ops = append(c.Ops, []string{"perm", "rot", strconv.Itoa(1 + rng.Intn(3))})
				}
			}
		}
		n = []int{0, 1, 2, 3, 4, 7}[rng.Intn(6)]
	}
	if len(c.Ops) == 0 {
		c.Ops = append(c.Ops, []string{"new"})
	}
	c.Stat = append(c.Stat, "direct-"+kind, "ctor-"+ctor)
	if wild {
		c.Stat = append(c.Stat, "wild-floats")
	}
	c03Tables(&c)
	return c
}

// a field of a ga / sql case
type c03Field struct {
	alias, kind string
	p           float64
	nth         int
	input       []string // star | col <hex> | <shape> <hex a> <hex b>
}

func (f c03Field) cfgLine() []string {
	p := "-"
	if f.kind == "percentile" {
		p = ftok(f.p)
	}
	return append([]string{"field", hx(f.alias), f.kind, p, strconv.Itoa(f.nth)}, f.input...)
}

func genRow(rng *rand.Rand, cols []string, gen map[string]func() string, missP int) []string {
	op := []string{"row"}
	for _, col := range cols {
		if rng.Intn(100) < missP {
			continue // missing
		}
		op = append(op, hx(col), gen[col]())
	}
	return op
}

func genGA(rng *rand.Rand) Case {
	var c Case
	c.Cfg = append(c.Cfg, []string{"mode", "ga"})
	ng := []int{0, 1, 1, 2}[rng.Intn(4)]
	gcols := []string{"g", "h"}[:ng]
	gl := []string{"groupby"}
	for _, g := range gcols {
		gl = append(gl, hx(g))
	}
	c.Cfg = append(c.Cfg, gl)
	nf := 1 + rng.Intn(4)
	var fields []c03Field
	numCols := []string{"a", "b", "n.x"}
	for i := 0; i < nf; i++ {
		kind := c03Kinds[rng.Intn(len(c03Kinds))]
		f := c03Field{alias: fmt.Sprintf("o%d", i), kind: kind, p: 0.95, nth: 1}
		switch k := rng.Intn(10); {
		case kind == "count" && k < 3:
			f.input = []string{"star"}
		case k < 6:
			f.input = []string{"col", hx([]string{"a", "b", "v", "n.x"}[rng.Intn(4)])}
		case k < 7 || kind == "merge_agg" || kind == "deduplicate":
			// NULL-producing expression that hands an original value on (no computed float, whose
			// rendering merge_agg / deduplicate would need)
			f.input = []string{"pick", hx([]string{"a", "v"}[rng.Intn(2)]), hx("b")}
		case k < 9:
			f.input = []string{"mul1", hx(numCols[rng.Intn(2)]), hx("b")}
		default:
			f.input = []string{"nilmul", hx("a"), hx(numCols[rng.Intn(3)])}
		}
		fields = append(fields, f)
		c.Cfg = append(c.Cfg, f.cfgLine())
		c.Stat = append(c.Stat, "ga-"+kind+"-"+f.input[0])
	}
	gen := map[string]func() string{
		"g": func() string {
			return []string{"s:" + hx("x"), "s:" + hx("y"), "s:" + hx("x"), "n", "i:1", "s:" + hx("z")}[rng.Intn(6)]
		},
		"h":   func() string { return []string{"s:" + hx("p"), "s:" + hx("q"), "n"}[rng.Intn(3)] },
		"a":   func() string { return genInput(rng, "sum", false) },
		"b":   func() string { return genInput(rng, "sum", false) },
		"n.x": func() string { return genInput(rng, "sum", false) },
		"v":   func() string { return genInput(rng, "collect", false) },
	}
	cols := append(append([]string{}, gcols...), "a", "b", "n.x", "v")
	batches := 1 + rng.Intn(4)
	for b := 0; b < batches; b++ {
		n := []int{0, 1, 2, 3, 5, 8}[rng.Intn(6)]
		for i := 0; i < n; i++ {
			c.Ops = append(c.Ops, genRow(rng, cols, gen, 12))
		}
		switch rng.Intn(8) {
		case 0: // results twice, then more rows without a reset (cumulative)
			c.Ops = append(c.Ops, []string{"results"}, []string{"results"})
		case 1: // reset without reading
			c.Ops = append(c.Ops, []string{"reset"})
		default:
			c.Ops = append(c.Ops, []string{"results"}, []string{"reset"})
		}
	}
	c.Ops = append(c.Ops, []string{"results"})
	c03Tables(&c)
	return c
}

// SQL text of one field
func (f c03Field) sql() string {
	name := func(h string) string { return unhx(h) }
	var arg string
	switch f.input[0] {
	case "star":
		arg = "*"
	case "col":
		arg = name(f.input[1])
	case "path":
		arg = name(f.input[1])
	case "mul1":
		arg = name(f.input[1]) + "*" + name(f.input[2]) + "+1"
	case "mul":
		arg = name(f.input[1]) + "*" + name(f.input[2])
	case "sub":
		arg = name(f.input[1]) + "-" + name(f.input[2])
	case "dbl", "pdbl":
		arg = name(f.input[1]) + "*2"
	case "half":
		arg = name(f.input[1]) + "*0.5"
	case "sesq":
		arg = name(f.input[1]) + "*1.5"
	}
	switch f.kind {
	case "percentile":
		arg += ", " + strconv.FormatFloat(f.p, 'f', -1, 64)
	case "nth_value":
		arg += ", " + strconv.Itoa(f.nth)
	}
	return f.kind + "(" + arg + ") AS " + f.alias
}

func genSQL(rng *rand.Rand) Case {
	var c Case
	n := []int{1, 2, 3, 4, 5, 7}[rng.Intn(6)]
	grouped := rng.Intn(3) == 0
	c.Cfg = append(c.Cfg, []string{"mode", "sql"}, []string{"n", strconv.Itoa(n)})
	gl := []string{"groupby"}
	if grouped {
		gl = append(gl, hx("g"))
	}
	c.Cfg = append(c.Cfg, gl)
	nf := 1 + rng.Intn(4)
	var fields []c03Field
	for i := 0; i < nf; i++ {
		kind := c03Kinds[rng.Intn(len(c03Kinds))]
		f := c03Field{alias: fmt.Sprintf("o%d", i), kind: kind, p: 0.95, nth: 1}
		if kind == "percentile" {
			f.p = []float64{0, 0.5, 0.95, 1, 0.25}[rng.Intn(5)]
		}
		if kind == "nth_value" {
			f.nth = 1 + rng.Intn(3)
		}
		switch k := rng.Intn(12); {
		case kind == "count" && k < 3:
			f.input = []string{"star"}
		case k < 6 || (!c03Numeric(kind) && k < 10):
			f.input = []string{"col", hx([]string{"a", "b", "v"}[rng.Intn(3)])}
		case k < 8 || !c03Numeric(kind):
			// nested path: evaluated by the expression engine, missing ⇒ NULL (first/last would see it)
			if kind == "first_value" || kind == "last_value" {
				f.input = []string{"col", hx("v")}
			} else {
				f.input = []string{"path", hx("n.x"), "-"}
			}
		default:
			// arithmetic over columns: only in front of numeric aggregates (result type irrelevant)
			shape := []string{"mul1", "mul", "sub", "dbl"}[rng.Intn(4)]
			f.input = []string{shape, hx("c"), hx("d")}
		}
		fields = append(fields, f)
		c.Stat = append(c.Stat, "sql-"+kind+"-"+f.input[0])
	}
	if rng.Intn(5) == 0 {
		// two aggregates whose arguments start with the same column and differ afterwards (a decimal literal, or a nested
		// path alone and under arithmetic): each is evaluated with its own argument text
		numKinds := []string{"sum", "avg", "min", "max", "count"}
		pair := [][2][]string{
			{{"half", hx("c"), "-"}, {"sesq", hx("c"), "-"}},
			{{"path", hx("m.y"), "-"}, {"pdbl", hx("m.y"), "-"}},
			{{"sesq", hx("c"), "-"}, {"dbl", hx("c"), "-"}},
		}[rng.Intn(3)]
		for j, in := range pair {
			f := c03Field{alias: fmt.Sprintf("p%d", j), kind: numKinds[rng.Intn(len(numKinds))], p: 0.95, nth: 1, input: in}
			fields = append(fields, f)
			c.Stat = append(c.Stat, "sql-"+f.kind+"-"+in[0])
		}
		c.Stat = append(c.Stat, "sql-shared-leading-column")
	}
	having := rng.Intn(3) == 0
	if having {
		// HAVING hm > 0 with hm = max(h), h in {0,1}: whole batches are rejected now and then, and the batch after a
		// rejected one must not see its rows
		fields = append(fields, c03Field{alias: "hm", kind: "max", p: 0.95, nth: 1, input: []string{"col", hx("h")}})
		c.Cfg = append(c.Cfg, []string{"having", hx("hm")})
		c.Stat = append(c.Stat, "sql-having")
	}
	fields = append(fields, c03Field{alias: "zc", kind: "count", p: 0.95, nth: 1, input: []string{"col", hx("zsent")}})
	late := 0
	if !grouped && !having && rng.Intn(6) == 0 {
		// a sink registered late: the first `late` windows fire while nobody listens (result channel of one slot, no sink);
		// what the sink then sees must be exactly the later windows, each over its own rows
		late = 2 + rng.Intn(2)
		fields = append(fields, c03Field{alias: "zp", kind: "count", p: 0.95, nth: 1, input: []string{"col", hx("zpre")}})
		c.Cfg = append(c.Cfg, []string{"latesink", strconv.Itoa(late)})
		c.Stat = append(c.Stat, "sql-late-sink")
	}
	var sel []string
	if grouped {
		sel = append(sel, "g")
	}
	for _, f := range fields {
		c.Cfg = append(c.Cfg, f.cfgLine())
		sel = append(sel, f.sql())
	}
	gb := "CountingWindow(" + strconv.Itoa(n) + ")"
	gwin := false
	plain := !having && late == 0
	for _, f := range fields {
		if f.input[0] != "col" && f.input[0] != "star" {
			plain = false
		}
	}
	if plain && rng.Intn(2) == 0 {
		// the same batches from the global window's own running aggregators (a second implementation of every aggregate):
		// a group fires at its n-th row and starts again from nothing
		gb = "GLOBAL WINDOW TRIGGER WHEN COUNT(*) >= " + strconv.Itoa(n)
		c.Stat = append(c.Stat, "sql-global-window")
		c.Cfg = append(c.Cfg, []string{"gwin", "1"})
		gwin = true
	}
	if grouped {
		gb = "g, " + gb
	}
	if having {
		gb += " HAVING hm > 0"
	}
	c.Cfg = append(c.Cfg, []string{"sql", hx("SELECT " + strings.Join(sel, ", ") + " FROM stream GROUP BY " + gb)})
	arith := func() string { // columns under arithmetic: numbers, NULL (missing through genRow)
		if rng.Intn(6) == 0 {
			return "n"
		}
		// the expression engine computes int∘int in integers (modelled); keep the 2^53+1 int out so that
		// no product overflows int64 (wrap-around of Go ints is not modelled; integer arithmetic is C06 / C12)
		for {
			if t := genNum(rng); t != "i:9007199254740993" && len(t) < 20 {
				return t
			}
		}
	}
	gen := map[string]func() string{
		"g":   func() string { return []string{"s:" + hx("x"), "s:" + hx("y"), "s:" + hx("w")}[rng.Intn(3)] },
		"a":   func() string { return genInput(rng, "sum", false) },
		"b":   func() string { return genInput(rng, "sum", false) },
		"n.x": func() string { return genInput(rng, "sum", false) },
		"v":   func() string { return genInput(rng, "collect", false) },
		"c":   arith,
		"d":   arith,
		"m.y": arith,
	}
	if gwin {
		// the property's own value domain: numbers (whole ones within ±2^53: they are held as float64 there), NULL, missing
		num := func() string {
			for {
				t := genNum(rng)
				if rng.Intn(5) == 0 {
					t = "n"
				}
				if !strings.HasPrefix(t, "i:") || len(t) < 17 {
					return t
				}
			}
		}
		gen["a"], gen["b"], gen["v"] = num, num, num
	}
	cols := []string{"a", "b", "n.x", "v", "c", "d", "m.y"}
	if grouped {
		cols = append([]string{"g"}, cols...)
	}
	total := n * (1 + rng.Intn(4))
	if late > 0 {
		total += late * n
	}
	if grouped {
		total = n*2 + rng.Intn(3*n+1)
	} else if rng.Intn(3) == 0 {
		total += rng.Intn(n) // not a multiple of N: the flush pads with sentinel rows
	}
	for i := 0; i < total; i++ {
		row := genRow(rng, cols, gen, 12)
		if grouped && len(row) > 1 && row[1] != hx("g") { // keep the group column present
			row = append([]string{"row", hx("g"), gen["g"]()}, row[1:]...)
		}
		if having {
			row = append(row, hx("h"), []string{"i:0", "i:0", "i:0", "i:1"}[rng.Intn(4)])
		}
		c.Ops = append(c.Ops, row)
	}
	c.Ops = append(c.Ops, []string{"flush"})
	c03Tables(&c)
	return c
}

// ---------------------------------------------------------------- execution

func cfgGet(c Case, key string) []string {
	for _, l := range c.Cfg {
		if len(l) > 0 && l[0] == key {
			return l[1:]
		}
	}
	return nil
}

type aggObj struct {
	add    func(interface{})
	result func() interface{}
	fresh  func() aggObj
}

func wrapLegacy(a aggregator.AggregatorFunction) aggObj {
	return aggObj{add: a.Add, result: a.Result, fresh: func() aggObj { return wrapLegacy(a.New()) }}
}

func wrapFn(a functions.AggregatorFunction) aggObj {
	return aggObj{add: a.Add, result: a.Result, fresh: func() aggObj { return wrapFn(a.New()) }}
}

func execDirect(c Case) [][][]string {
	kind := cfgGet(c, "kind")[0]
	var inst aggObj
	if cfgGet(c, "ctor")[0] == "param" {
		var arg interface{}
		if kind == "percentile" {
			arg = parseFtok(cfgGet(c, "p")[0])
		} else {
			n, _ := strconv.Atoi(cfgGet(c, "nth")[0])
			arg = n
		}
		a, err := functions.CreateParameterizedAggregator(kind, []interface{}{"x", arg})
		if err != nil {
			return [][][]string{{{"ctor-error", hx(err.Error())}}}
		}
		inst = wrapFn(a).fresh()
	} else {
		inst = wrapLegacy(aggregator.CreateBuiltinAggregator(aggregator.AggregateType(kind))).fresh()
	}
	var out [][][]string
	var hist []string // value tokens handed to the current instance, in order
	for _, op := range c.Ops {
		switch op[0] {
		case "new":
			inst = inst.fresh()
			hist = nil
		case "add":
			inst.add(tokVal(op[1]))
			hist = append(hist, op[1])
		case "perm": // fresh instance, same values, permuted order (reverse / rotate left by k)
			k, _ := strconv.Atoi(op[2])
			var p []string
			if op[1] == "rev" {
				for i := len(hist) - 1; i >= 0; i-- {
					p = append(p, hist[i])
				}
			} else if len(hist) > 0 {
				k %= len(hist)
				p = append(append(p, hist[k:]...), hist[:k]...)
			}
			inst = inst.fresh()
			for _, t := range p {
				inst.add(tokVal(t))
			}
			hist = p
		default:
			out = append(out, [][]string{{"bad-op"}})
			continue
		}
		out = append(out, [][]string{append([]string{"r"}, resTok(kind, inst.result())...)})
	}
	return out
}

// rowMap builds the Go row; a key "n.x" becomes a nested map.
func rowMap(op []string) map[string]interface{} {
	m := map[string]interface{}{}
	for i := 1; i+1 < len(op); i += 2 {
		k, v := unhx(op[i]), tokVal(op[i+1])
		if j := strings.Index(k, "."); j >= 0 {
			inner, _ := m[k[:j]].(map[string]interface{})
			if inner == nil {
				inner = map[string]interface{}{}
				m[k[:j]] = inner
			}
			inner[k[j+1:]] = v
		} else {
			m[k] = v
		}
	}
	return m
}

func parseFields(c Case) []c03Field {
	var fs []c03Field
	for _, l := range c.Cfg {
		if len(l) >= 6 && l[0] == "field" {
			f := c03Field{alias: unhx(l[1]), kind: l[2], p: 0.95, input: l[5:]}
			if l[3] != "-" {
				f.p = parseFtok(l[3])
			}
			f.nth, _ = strconv.Atoi(l[4])
			fs = append(fs, f)
		}
	}
	return fs
}

func plainNum(v interface{}) (float64, bool) {
	switch x := v.(type) {
	case int:
		return float64(x), true
	case int64:
		return float64(x), true
	case uint64:
		return float64(x), true
	case float64:
		return x, true
	}
	return 0, false
}

func lookupPath(m map[string]interface{}, k string) (interface{}, bool) {
	if j := strings.Index(k, "."); j >= 0 {
		inner, ok := m[k[:j]].(map[string]interface{})
		if !ok {
			return nil, false
		}
		v, ok := inner[k[j+1:]]
		return v, ok
	}
	v, ok := m[k]
	return v, ok
}

// evaluator closures registered with GroupAggregator.RegisterExpression in ga mode
func gaEvaluator(shape, a, b string) func(interface{}) (interface{}, error) {
	return func(data interface{}) (interface{}, error) {
		m := data.(map[string]interface{})
		va, oka := lookupPath(m, a)
		vb, okb := lookupPath(m, b)
		switch shape {
		case "pick": // value of column a, NULL when column b is missing or NULL; error when a is missing
			if !oka {
				return nil, fmt.Errorf("no such column")
			}
			if !okb || vb == nil {
				return nil, nil
			}
			return va, nil
		case "mul1":
			x, ok1 := plainNum(va)
			y, ok2 := plainNum(vb)
			if !oka || !okb || !ok1 || !ok2 {
				return nil, fmt.Errorf("operand not a number")
			}
			return x*y + 1, nil
		case "nilmul":
			if !oka || !okb || va == nil || vb == nil {
				return nil, nil
			}
			x, ok1 := plainNum(va)
			y, ok2 := plainNum(vb)
			if !ok1 || !ok2 {
				return nil, fmt.Errorf("operand not a number")
			}
			return x * y, nil
		}
		return nil, fmt.Errorf("unknown shape")
	}
}

func renderResultRows(fields []c03Field, gcols []string, rows []map[string]interface{}) [][]string {
	var lines [][]string
	for _, r := range rows {
		l := []string{"g"}
		for _, g := range gcols {
			l = append(l, valTok(r[g])...)
		}
		l = append(l, "|")
		for i, f := range fields {
			if i > 0 {
				l = append(l, ";")
			}
			v, ok := r[f.alias]
			if !ok {
				l = append(l, "absent")
				continue
			}
			l = append(l, resTok(f.kind, v)...)
		}
		lines = append(lines, l)
	}
	sort.Slice(lines, func(i, j int) bool { return strings.Join(lines[i], " ") < strings.Join(lines[j], " ") })
	return lines
}

func hexList(l []string) []string {
	var out []string
	for _, h := range l {
		out = append(out, unhx(h))
	}
	return out
}

func execGA(c Case) [][][]string {
	fields := parseFields(c)
	gcols := hexList(cfgGet(c, "groupby"))
	var afs []aggregator.AggregationField
	for _, f := range fields {
		af := aggregator.AggregationField{AggregateType: aggregator.AggregateType(f.kind), OutputAlias: f.alias}
		switch f.input[0] {
		case "star":
			af.InputField = "*"
		case "col":
			af.InputField = unhx(f.input[1])
		default:
			af.InputField = unhx(f.input[1])
		}
		afs = append(afs, af)
	}
	ga := aggregator.NewGroupAggregator(append([]string{}, gcols...), afs)
	for _, f := range fields {
		if f.input[0] != "star" && f.input[0] != "col" {
			a, b := unhx(f.input[1]), unhx(f.input[2])
			ga.RegisterExpression(f.alias, f.input[0], []string{a, b}, gaEvaluator(f.input[0], a, b))
		}
	}
	var out [][][]string
	for _, op := range c.Ops {
		switch op[0] {
		case "row":
			if err := ga.Add(rowMap(op)); err != nil {
				out = append(out, [][]string{{"err", hx(err.Error())}})
			} else {
				out = append(out, nil)
			}
		case "results":
			rs, err := ga.GetResults()
			if err != nil {
				out = append(out, [][]string{{"err", hx(err.Error())}})
			} else {
				out = append(out, renderResultRows(fields, gcols, rs))
			}
		case "reset":
			ga.Reset()
			out = append(out, nil)
		default:
			out = append(out, [][]string{{"bad-op"}})
		}
	}
	return out
}

var c03SentinelLost bool

func execSQL(c Case) [][][]string {
	fields := parseFields(c)
	gcols := hexList(cfgGet(c, "groupby"))
	n, _ := strconv.Atoi(cfgGet(c, "n")[0])
	sql := unhx(cfgGet(c, "sql")[0])
	out := make([][][]string, len(c.Ops))
	flushAt := -1
	var rows []map[string]interface{}
	for i, op := range c.Ops {
		switch op[0] {
		case "row":
			rows = append(rows, rowMap(op))
		case "flush":
			flushAt = i
		default:
			out[i] = [][]string{{"bad-op"}}
		}
	}
	if flushAt < 0 {
		return out
	}
	late := 0
	if l := cfgGet(c, "latesink"); len(l) > 0 {
		late, _ = strconv.Atoi(l[0])
	}
	opts := []streamsql.Option{presetOpt(), streamsql.WithDiscardLog()}
	if late > 0 {
		opts = append(opts, streamsql.WithBufferSizes(1000, 1, 50))
	}
	s := streamsql.New(opts...)
	defer s.Stop()
	if err := s.Execute(sql); err != nil {
		out[flushAt] = [][]string{{"exec-error", hx(err.Error())}}
		return out
	}
	ch := make(chan []map[string]interface{}, 4096)
	sink := func(r []map[string]interface{}) {
		// a window made of pre-sink rows only (zp = n) that was still on its way when the sink was added is not an observable
		if late > 0 && len(r) == 1 {
			if f, ok := r[0]["zp"].(float64); ok && int(f) == n {
				if z, ok := r[0]["zc"].(float64); ok && z == 0 {
					return
				}
			}
		}
		cp := make([]map[string]interface{}, len(r))
		copy(cp, r)
		ch <- cp
	}
	if late == 0 {
		s.AddSyncSink(sink)
	}
	for i, r := range rows {
		if late > 0 && i < late*n {
			r["zpre"] = 1
		}
		if late > 0 && i == late*n {
			time.Sleep(30 * time.Millisecond) // the early windows fire unobserved (no result depends on the pause)
			s.AddSyncSink(sink)
		}
		s.Emit(r)
	}
	if late > 0 && len(rows) <= late*n {
		s.AddSyncSink(sink)
	}
	// barrier: sentinel rows (own window key when grouped; after padding to a multiple of N otherwise)
	pad := 0
	if len(gcols) == 0 {
		pad = (n - len(rows)%n) % n
	}
	for i := 0; i < pad+n; i++ {
		sr := map[string]interface{}{"zsent": 1}
		if len(cfgGet(c, "having")) > 0 {
			sr["h"] = 1
		}
		if len(gcols) > 0 {
			sr[gcols[0]] = "~end"
		}
		s.Emit(sr)
	}
	isSentinel := func(b []map[string]interface{}) bool {
		for _, r := range b {
			// >= : a count that wrongly accumulates across batches still ends the wait
			if f, ok := r["zc"].(float64); ok && int(f) >= n {
				return true
			}
		}
		return false
	}
	var lines [][]string
	// the deadline is only reached when the implementation loses the sentinel batch; after the first
	// loss in this process the following cases wait briefly (a broken tree must not take minutes)
	wait := 3 * time.Second
	if c03SentinelLost {
		wait = 300 * time.Millisecond
	}
	deadline := time.After(wait)
	for bi := 0; ; bi++ {
		select {
		case b := <-ch:
			if isSentinel(b) {
				out[flushAt] = lines
				return out
			}
			for _, l := range renderResultRows(fields, gcols, b) {
				lines = append(lines, append([]string{"b", strconv.Itoa(bi)}, l...))
			}
		case <-deadline:
			c03SentinelLost = true
			out[flushAt] = append(lines, []string{"sentinel-batch-never-arrived"})
			return out
		}
	}
}

func (c03) Exec(c Case) [][][]string {
	mode := cfgGet(c, "mode")
	if len(mode) == 0 {
		return [][][]string{{{"bad-mode"}}}
	}
	switch mode[0] {
	case "direct":
		return execDirect(c)
	case "ga":
		return execGA(c)
	case "sql":
		return execSQL(c)
	}
	return [][][]string{{{"bad-mode"}}}
}
