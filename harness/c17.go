package main

import (
	"fmt"
	"math"
	"math/rand"
	"os"
	"strconv"
	"strings"
	"sync"
	"time"

	"github.com/rulego/streamsql"
	"github.com/rulego/streamsql/aggregator"
	"github.com/rulego/streamsql/types"
	"github.com/rulego/streamsql/window"
)

// C17 — GLOBAL WINDOW … TRIGGER WHEN p: a group fires exactly when p holds on the aggregates of
// its rows since it last fired, delivers exactly those aggregates, and restarts.
//
// cfg  mode direct|chan|sql        direct: processRow on the caller's goroutine (verif hook), explicit row times
//
//	chan  : public API (NewGlobalWindow, Start, Add, Callback), barrier = close input
//	sql   : streamsql.Execute / Emit / AddSyncSink, barrier = sentinel row
//
// cfg  keys <hex name>*            GROUP BY columns
// cfg  out <hex alias> <fn> <hex field|*>
// cfg  pred <prefix AST>           and P P | or P P | cmp <fn> <hex field|*> <gt|ge|lt|le|eq|ne> f:<bits>
// cfg  style <n>                   seed of the textual rendering of the predicate (case, blanks, parentheses, AND/&&)
// op   row <ts> <keycell>* (<hex field> <cell>)*     keycell: m | n | s:<hex>    cell: n | f:<bits> | i:<int> | j:<hex>
// obs  fire k <keycell>* o <val>* w <start> <end>    one line iff the row made its group deliver
type c17 struct{}

func init() { registry["C17"] = c17{} }

func (c17) Count(tier string) int {
	if tier == "thorough" {
		return 6000
	}
	return 400
}

// ---------------------------------------------------------------- predicate AST

type c17Call struct {
	fn    string
	field string // "*" = star
}

type c17Pred struct {
	kind string // and | or | cmp
	l, r *c17Pred
	call c17Call
	op   string
	lit  float64
}

func c17Ftok(x float64) string {
	if math.IsNaN(x) {
		return "f:nan"
	}
	return fmt.Sprintf("f:%016x", math.Float64bits(x))
}

func c17ParseFtok(s string) (float64, bool) {
	if strings.HasPrefix(s, "f:") && len(s) == 18 {
		b, err := strconv.ParseUint(s[2:], 16, 64)
		if err == nil {
			return math.Float64frombits(b), true
		}
	}
	if strings.HasPrefix(s, "i:") {
		n, err := strconv.ParseInt(s[2:], 10, 64)
		if err == nil {
			return float64(n), true
		}
	}
	return 0, false
}

func c17FieldTok(f string) string {
	if f == "*" {
		return "*"
	}
	return hx(f)
}

func c17UnfieldTok(s string) string {
	if s == "*" {
		return "*"
	}
	return unhx(s)
}

func (p *c17Pred) tokens() []string {
	switch p.kind {
	case "cmp":
		return []string{"cmp", p.call.fn, c17FieldTok(p.call.field), p.op, c17Ftok(p.lit)}
	default:
		return append(append([]string{p.kind}, p.l.tokens()...), p.r.tokens()...)
	}
}

func c17ParsePred(t []string) (*c17Pred, []string) {
	if len(t) == 0 {
		return nil, nil
	}
	switch t[0] {
	case "and", "or":
		l, rest := c17ParsePred(t[1:])
		if l == nil {
			return nil, nil
		}
		r, rest2 := c17ParsePred(rest)
		if r == nil {
			return nil, nil
		}
		return &c17Pred{kind: t[0], l: l, r: r}, rest2
	case "cmp":
		if len(t) < 5 {
			return nil, nil
		}
		lit, ok := c17ParseFtok(t[4])
		if !ok {
			return nil, nil
		}
		return &c17Pred{kind: "cmp", call: c17Call{t[1], c17UnfieldTok(t[2])}, op: t[3], lit: lit}, t[5:]
	}
	return nil, nil
}

func (p *c17Pred) leaves() []c17Call {
	if p.kind == "cmp" {
		return []c17Call{p.call}
	}
	return append(p.l.leaves(), p.r.leaves()...)
}

// c17RenderCall writes an aggregate call with a random layout (letter case of the name, blanks).
func c17RenderCall(rng *rand.Rand, c c17Call, sql bool) string {
	name := c.fn
	switch rng.Intn(3) {
	case 0:
		name = strings.ToUpper(name)
	case 1:
		name = strings.ToUpper(name[:1]) + name[1:]
	}
	arg := c.field
	if arg == "*" && !sql && rng.Intn(4) == 0 {
		arg = "" // COUNT() reads as COUNT(*)
	}
	switch rng.Intn(3) {
	case 0:
		return name + "(" + arg + ")"
	case 1:
		return name + "( " + arg + " )"
	default:
		if sql {
			return name + " (" + arg + ")"
		}
		return name + "(" + arg + ")"
	}
}

var c17OpText = map[string][]string{"gt": {">"}, "ge": {">="}, "lt": {"<"}, "le": {"<="}, "eq": {"=", "=="}, "ne": {"!="}}

func c17LitText(x float64) string { return strconv.FormatFloat(x, 'f', -1, 64) }

// render writes the predicate as text. parent: "" | and | or (for minimal parentheses).
func (p *c17Pred) render(rng *rand.Rand, sql bool, parent string, full bool) string {
	if p.kind == "cmp" {
		ops := c17OpText[p.op]
		op := ops[rng.Intn(len(ops))]
		if sql && op == "==" {
			op = "="
		}
		s := c17RenderCall(rng, p.call, sql) + " " + op + " " + c17LitText(p.lit)
		if full && rng.Intn(3) == 0 {
			return "(" + s + ")"
		}
		return s
	}
	var word string
	if p.kind == "and" {
		word = []string{" AND ", " and ", " && "}[rng.Intn(3)]
		if sql && word == " && " {
			word = " AND "
		}
	} else {
		word = []string{" OR ", " or ", " || "}[rng.Intn(3)]
		if sql && word == " || " {
			word = " OR "
		}
	}
	s := p.l.render(rng, sql, p.kind, full) + word + p.r.render(rng, sql, p.kind+"-right", full)
	// a right operand of the same connective needs parentheses to keep the AST's association;
	// an OR under an AND needs them for precedence
	need := full || (parent == "and" && p.kind == "or") || (parent == "and-right" && p.kind == "or") ||
		parent == p.kind+"-right"
	if need && parent != "" {
		return "(" + s + ")"
	}
	return s
}

// ---------------------------------------------------------------- case configuration

type c17Out struct {
	alias string
	call  c17Call
}

type c17Cfg struct {
	mode   string
	keys   []string
	outs   []c17Out
	pred   *c17Pred
	style  int64
	ttl    bool
	stats  bool
	outbuf int
}

func c17ParseCfg(c Case) (*c17Cfg, bool) {
	cfg := &c17Cfg{mode: "direct"}
	for _, l := range c.Cfg {
		if len(l) == 0 {
			continue
		}
		switch l[0] {
		case "ttl":
			cfg.ttl = true
		case "stats":
			cfg.stats = true
		case "outbuf":
			cfg.outbuf = 1
		case "mode":
			if len(l) > 1 {
				cfg.mode = l[1]
			}
		case "keys":
			for _, k := range l[1:] {
				cfg.keys = append(cfg.keys, unhx(k))
			}
		case "out":
			if len(l) != 4 {
				return nil, false
			}
			cfg.outs = append(cfg.outs, c17Out{unhx(l[1]), c17Call{l[2], c17UnfieldTok(l[3])}})
		case "pred":
			p, rest := c17ParsePred(l[1:])
			if p == nil || len(rest) != 0 {
				return nil, false
			}
			cfg.pred = p
		case "style":
			if len(l) > 1 {
				cfg.style, _ = strconv.ParseInt(l[1], 10, 64)
			}
		}
	}
	return cfg, cfg.pred != nil
}

type c17Row struct {
	special string // "nap" / "reap": not a row
	ts      int64
	data    map[string]interface{}
	id      float64 // value of the id field (0 = none)
}

func c17ParseRow(cfg *c17Cfg, op []string) (*c17Row, bool) {
	if len(op) < 2+len(cfg.keys) || op[0] != "row" {
		return nil, false
	}
	ts, err := strconv.ParseInt(op[1], 10, 64)
	if err != nil {
		return nil, false
	}
	r := &c17Row{ts: ts, data: map[string]interface{}{}}
	for i, k := range cfg.keys {
		t := op[2+i]
		switch {
		case t == "m":
		case t == "n":
			r.data[k] = nil
		case strings.HasPrefix(t, "s:"):
			r.data[k] = unhx(t[2:])
		default:
			return nil, false
		}
	}
	rest := op[2+len(cfg.keys):]
	if len(rest)%2 != 0 {
		return nil, false
	}
	for i := 0; i < len(rest); i += 2 {
		f, t := unhx(rest[i]), rest[i+1]
		switch {
		case t == "m":
		case t == "n":
			r.data[f] = nil
		case strings.HasPrefix(t, "j:"):
			r.data[f] = unhx(t[2:])
		case strings.HasPrefix(t, "i:"):
			n, err := strconv.ParseInt(t[2:], 10, 64)
			if err != nil {
				return nil, false
			}
			if n%2 == 0 {
				r.data[f] = int(n)
			} else {
				r.data[f] = n // int64
			}
			if f == "id" {
				r.id = float64(n)
			}
		default:
			x, ok := c17ParseFtok(t)
			if !ok {
				return nil, false
			}
			r.data[f] = x
			if f == "id" {
				r.id = x
			}
		}
	}
	return r, true
}

// ---------------------------------------------------------------- observables

func c17KeyCell(v interface{}, present bool) string {
	if !present || v == nil {
		return "n"
	}
	if s, ok := v.(string); ok {
		return "s:" + hx(s)
	}
	return fmt.Sprintf("?:%T", v)
}

func c17Val(v interface{}, present bool) string {
	if !present {
		return "absent"
	}
	switch x := v.(type) {
	case nil:
		return "n"
	case float64:
		return c17Ftok(x)
	}
	return fmt.Sprintf("?:%T", v)
}

// fireLine renders one delivered result map. bounds: print window_start/window_end as UnixNano.
func c17FireLine(cfg *c17Cfg, m map[string]interface{}, bounds bool) []string {
	known := map[string]bool{"window_start": true, "window_end": true}
	line := []string{"fire", "k"}
	for _, k := range cfg.keys {
		v, ok := m[k]
		line = append(line, c17KeyCell(v, ok))
		known[k] = true
	}
	line = append(line, "o")
	for _, o := range cfg.outs {
		v, ok := m[o.alias]
		line = append(line, c17Val(v, ok))
		known[o.alias] = true
	}
	line = append(line, "w")
	ws, ok1 := m["window_start"].(time.Time)
	we, ok2 := m["window_end"].(time.Time)
	switch {
	case !ok1 || !ok2:
		line = append(line, "missing", "missing")
	case bounds:
		line = append(line, itoa(ws.UnixNano()), itoa(we.UnixNano()))
	default:
		line = append(line, "x", "x")
	}
	for k := range m {
		if !known[k] {
			line = append(line, "extra:"+hx(k))
		}
	}
	return line
}

var c17AggTypes = map[string]aggregator.AggregateType{
	"count": aggregator.Count, "sum": aggregator.Sum, "avg": aggregator.Avg, "min": aggregator.Min, "max": aggregator.Max,
}

func c17WindowConfig(cfg *c17Cfg, cb func([]types.Row)) types.WindowConfig {
	sel := map[string]aggregator.AggregateType{}
	alias := map[string]string{}
	for _, o := range cfg.outs {
		sel[o.alias] = c17AggTypes[o.call.fn]
		alias[o.alias] = o.call.field
	}
	rng := rand.New(rand.NewSource(cfg.style))
	var ttl time.Duration
	if cfg.ttl {
		ttl = 10 * time.Second
	}
	var perf types.PerformanceConfig
	if cfg.outbuf > 0 {
		// an output channel of one slot that nobody reads (results are taken by the callback): it overflows at the second
		// firing and keeps overflowing — what is delivered through the callback does not depend on it
		perf.BufferConfig.WindowOutputSize = cfg.outbuf
	}
	return types.WindowConfig{
		PerformanceConfig: perf,
		CountStateTTL:     ttl,
		Type:              window.TypeGlobal,
		GroupByKeys:       cfg.keys,
		SelectFields:      sel,
		FieldAlias:        alias,
		TriggerCondition:  cfg.pred.render(rng, false, "", rng.Intn(3) == 0),
		Callback:          cb,
	}
}

func c17ErrObs(n int, msg string) [][][]string {
	out := make([][][]string, n)
	if n > 0 {
		out[0] = [][]string{{"error", hx(msg)}}
	}
	return out
}

// attribute delivered results to ops by the zid output (MAX(id)): the id of the last row of the segment.
func c17Attribute(cfg *c17Cfg, rows []*c17Row, results []map[string]interface{}) [][][]string {
	out := make([][][]string, len(rows))
	byID := map[float64]int{}
	for i, r := range rows {
		byID[r.id] = i
	}
	for _, m := range results {
		z, ok := m["zid"].(float64)
		i, ok2 := byID[z]
		if !ok || !ok2 {
			// cannot be attributed: show it on the last op so that it is not lost
			i = len(rows) - 1
			if i < 0 {
				continue
			}
			out[i] = append(out[i], append([]string{"unattributed"}, c17FireLine(cfg, m, false)...))
			continue
		}
		out[i] = append(out[i], c17FireLine(cfg, m, false))
	}
	return out
}

func (c17) Exec(c Case) [][][]string {
	for _, l := range c.Cfg {
		if len(l) == 2 && l[0] == "mode" && l[1] == "quotes" {
			return c17ExecQuotes(c)
		}
	}
	cfg, ok := c17ParseCfg(c)
	if !ok {
		return c17ErrObs(len(c.Ops), "bad cfg")
	}
	rows := make([]*c17Row, len(c.Ops))
	for i, op := range c.Ops {
		if op[0] == "nap" || op[0] == "reap" || op[0] == "reset" { // wall-clock ops of the STATETTL scenario (direct mode)
			rows[i] = &c17Row{special: op[0]}
			continue
		}
		r, ok := c17ParseRow(cfg, op)
		if !ok {
			return c17ErrObs(len(c.Ops), "bad op")
		}
		rows[i] = r
	}
	switch cfg.mode {
	case "direct":
		return c17ExecDirect(cfg, rows)
	case "chan":
		return c17ExecChan(cfg, rows)
	case "sql":
		return c17ExecSQL(cfg, rows)
	}
	return c17ErrObs(len(c.Ops), "bad mode")
}

func c17ExecDirect(cfg *c17Cfg, rows []*c17Row) [][][]string {
	var got []map[string]interface{}
	gw, err := window.NewGlobalWindow(c17WindowConfig(cfg, func(rs []types.Row) {
		for _, r := range rs {
			if m, ok := r.Data.(map[string]interface{}); ok {
				got = append(got, m)
			}
		}
	}))
	if err != nil {
		return c17ErrObs(len(rows), err.Error())
	}
	defer gw.Stop()
	out := make([][][]string, len(rows))
	for i, r := range rows {
		got = got[:0]
		switch r.special {
		case "nap":
			time.Sleep(2000 * time.Millisecond)
			continue
		case "reap":
			gw.VerifReapIdle(time.Now().Add(9000 * time.Millisecond))
			continue
		case "reset":
			// the reaper an hour later: every group has been idle beyond the TTL and is reaped; whatever comes next starts
			// from nothing (the model starts again from its empty state)
			gw.VerifReapIdle(time.Now().Add(time.Hour))
			continue
		}
		gw.VerifProcessRow(r.data, time.Unix(0, r.ts))
		for _, m := range got {
			out[i] = append(out[i], c17FireLine(cfg, m, true))
		}
	}
	return out
}

func c17ExecChan(cfg *c17Cfg, rows []*c17Row) [][][]string {
	var mu sync.Mutex
	var got []map[string]interface{}
	gw, err := window.NewGlobalWindow(c17WindowConfig(cfg, func(rs []types.Row) {
		mu.Lock()
		defer mu.Unlock()
		for _, r := range rs {
			if m, ok := r.Data.(map[string]interface{}); ok {
				got = append(got, m)
			}
		}
	}))
	if err != nil {
		return c17ErrObs(len(rows), err.Error())
	}
	gw.Start()
	for _, r := range rows {
		gw.Add(r.data)
	}
	gw.VerifCloseInputAndWait() // every queued row has been handled, in order
	mu.Lock()
	defer mu.Unlock()
	return c17Attribute(cfg, rows, got)
}

const c17Sentinel = "zsent"

var c17SentinelLost int

func c17SQL(cfg *c17Cfg) string {
	rng := rand.New(rand.NewSource(cfg.style))
	var sel []string
	sel = append(sel, cfg.keys...)
	for _, o := range cfg.outs {
		sel = append(sel, c17RenderCall(rng, o.call, true)+" AS "+o.alias)
	}
	q := "SELECT " + strings.Join(sel, ", ") + " FROM stream "
	if len(cfg.keys) > 0 {
		q += "GROUP BY " + strings.Join(cfg.keys, ", ") + ", "
	}
	// the sentinel disjunct is false (never NULL) on every real row: COUNT(zsent) = 0 there. It comes
	// first: the engine evaluates left to right and a NULL comparison in p would abort the evaluation.
	q += "GLOBAL WINDOW TRIGGER WHEN COUNT(" + c17Sentinel + ") >= 1 OR (" + cfg.pred.render(rng, true, "", rng.Intn(3) == 0) + ")"
	return q
}

func c17ExecSQL(cfg *c17Cfg, rows []*c17Row) [][][]string {
	s := streamsql.New(presetOpt(), streamsql.WithDiscardLog())
	defer s.Stop()
	if err := s.Execute(c17SQL(cfg)); err != nil {
		return c17ErrObs(len(rows), err.Error())
	}
	ch := make(chan map[string]interface{}, 4096)
	s.AddSyncSink(func(rs []map[string]interface{}) {
		for _, m := range rs {
			cp := make(map[string]interface{}, len(m))
			for k, v := range m {
				cp[k] = v
			}
			ch <- cp
		}
	})
	maxID := 0.0
	for i, r := range rows {
		s.Emit(r.data)
		if cfg.stats && i%3 == 2 {
			// management calls in mid-stream: reading and resetting the statistics, and the manual
			// trigger hook (a no-op for a global window), must not touch any group's running aggregates
			time.Sleep(3 * time.Millisecond) // let the rows emitted so far reach the window (no result depends on it)
			s.Stream().GetStats()
			s.Stream().ResetStats()
			s.TriggerWindow()
		}
		if r.id > maxID {
			maxID = r.id
		}
	}
	// sentinel: a row of a reserved group on which the predicate is certainly true; the pipeline is
	// FIFO end to end (one consumer per hop, synchronous sink), so its result is the last one
	sent := map[string]interface{}{c17Sentinel: 1, "id": maxID + 1}
	for _, k := range cfg.keys {
		sent[k] = "~sentinel~"
	}
	s.Emit(sent)
	var got []map[string]interface{}
	// a lost sentinel is itself reported as a failure; once that has happened the remaining
	// cases of the run do not wait long for theirs
	wait := 4 * time.Second
	if c17SentinelLost > 0 {
		wait = 250 * time.Millisecond
	}
	deadline := time.After(wait)
	for {
		select {
		case m := <-ch:
			if z, ok := m["zid"].(float64); ok && z == maxID+1 {
				if os.Getenv("C17_DEBUG") != "" {
					fmt.Fprintln(os.Stderr, "c17 sql:", len(got), "results; stream", s.Stream().GetStats(), "window", s.Stream().Window.GetStats())
				}
				return c17Attribute(cfg, rows, got)
			}
			got = append(got, m)
		case <-deadline:
			c17SentinelLost++
			out := c17Attribute(cfg, rows, got)
			if len(out) > 0 {
				out[len(out)-1] = append(out[len(out)-1], []string{"sentinel-lost"})
			}
			return out
		}
	}
}

// ---------------------------------------------------------------- generator

var c17Fields = []string{"v", "V", "v2", "w"}
var c17Fns = []string{"count", "sum", "avg", "min", "max"}
var c17Values = []float64{-3, -1, 0, 1, 1, 2, 2, 3, 5, 7, 10, 0.5, 2.5, 0.1, 0.2, 100}
var c17Lits = []float64{-1, 0, 1, 1, 2, 2, 3, 3, 4, 5, 6, 8, 10, 0.5, 2.5, 12}

func c17GenCall(rng *rand.Rand, direct bool) c17Call {
	fn := c17Fns[rng.Intn(len(c17Fns))]
	if fn == "count" && rng.Intn(2) == 0 {
		return c17Call{"count", "*"}
	}
	if direct && rng.Intn(25) == 0 {
		return c17Call{fn, "*"} // SUM(*) etc.: `*` feeds the constant 1
	}
	// v is the common field; V differs from it in case only, v2 has it as a prefix
	f := c17Fields[[]int{0, 0, 0, 1, 1, 2, 2, 3}[rng.Intn(8)]]
	return c17Call{fn, f}
}

func c17GenPred(rng *rand.Rand, depth int, pool []c17Call, direct bool) *c17Pred {
	if depth == 0 || rng.Intn(3) == 0 {
		var call c17Call
		if len(pool) > 0 && rng.Intn(2) == 0 {
			call = pool[rng.Intn(len(pool))] // a selected aggregate, or one already used in the predicate
		} else {
			call = c17GenCall(rng, direct)
		}
		ops := []string{"gt", "ge", "ge", "lt", "le", "eq", "ne"}
		return &c17Pred{kind: "cmp", call: call, op: ops[rng.Intn(len(ops))], lit: c17Lits[rng.Intn(len(c17Lits))]}
	}
	kind := "and"
	if rng.Intn(2) == 0 {
		kind = "or"
	}
	l := c17GenPred(rng, depth-1, pool, direct)
	r := c17GenPred(rng, depth-1, append(pool, l.leaves()...), direct)
	return &c17Pred{kind: kind, l: l, r: r}
}

func c17CellTok(rng *rand.Rand, x float64) string {
	if x == math.Trunc(x) && math.Abs(x) < 1e15 && rng.Intn(2) == 0 {
		return "i:" + itoa(int64(x))
	}
	return c17Ftok(x)
}

// c17GenQuotes: TRIGGER WHEN over a string-valued aggregate compared with a quoted literal that contains words and signs the
// predicate lowering rewrites outside literals (and / or / =), in single quotes, in double quotes, parenthesised and
// next to a second conjunct: all four spellings must fire on exactly the rows whose value equals the literal.
func c17GenQuotes(rng *rand.Rand) Case {
	var c Case
	c.Cfg = [][]string{{"mode", "quotes"}}
	lits := []string{"go and stop", "this or that", "a=b", "plain", "x AND y", "1 = 1 or 2", "a OR b", "="}
	for i := 0; i < 12; i++ {
		lit := lits[rng.Intn(len(lits))]
		op := []string{"eq", "eq2", "ne"}[rng.Intn(3)]
		var v string
		switch rng.Intn(4) {
		case 0, 1:
			v = "s:" + hx(lit)
		case 2:
			v = "s:" + hx(strings.NewReplacer(" and ", " && ", " or ", " || ", "=", "==", " AND ", " && ", " OR ", " || ").Replace(lit))
		default:
			v = "s:" + hx(lits[rng.Intn(len(lits))])
		}
		c.Ops = append(c.Ops, []string{"q", hx(lit), op, v})
	}
	c.Stat = append(c.Stat, "mode-quotes")
	return c
}

func c17ExecQuotes(c Case) [][][]string {
	out := make([][][]string, len(c.Ops))
	for i, op := range c.Ops {
		if len(op) != 4 || op[0] != "q" {
			out[i] = [][]string{{"bad-op"}}
			continue
		}
		lit, v := unhx(op[1]), unhx(op[3][2:])
		sym := map[string]string{"eq": "==", "eq2": "=", "ne": "!="}[op[2]]
		forms := []string{
			"LAST_VALUE(tag) " + sym + " '" + lit + "'",
			"LAST_VALUE(tag) " + sym + " \"" + lit + "\"",
			"(LAST_VALUE(tag) " + sym + " \"" + lit + "\")",
			"LAST_VALUE(tag) " + sym + " \"" + lit + "\" AND COUNT(*) >= 1",
		}
		line := []string{"fires"}
		for _, f := range forms {
			fired := false
			gw, err := window.NewGlobalWindow(types.WindowConfig{
				Type:             window.TypeGlobal,
				SelectFields:     map[string]aggregator.AggregateType{"cnt": aggregator.Count},
				FieldAlias:       map[string]string{"cnt": "*"},
				TriggerCondition: f,
				Callback:         func(rs []types.Row) { fired = true },
			})
			if err != nil {
				line = append(line, "err")
				continue
			}
			gw.VerifProcessRow(map[string]interface{}{"tag": v}, time.Unix(0, 1000))
			gw.Stop()
			line = append(line, btok(fired))
		}
		out[i] = [][]string{line}
	}
	return out
}

func (c17) Gen(rng *rand.Rand, tier string, idx int) Case {
	if idx%50 == 7 {
		return c17GenQuotes(rng)
	}
	var c Case
	mode := []string{"direct", "direct", "direct", "direct", "direct", "chan", "chan", "sql", "sql", "sql"}[rng.Intn(10)]
	direct := mode != "sql"
	c.Cfg = append(c.Cfg, []string{"mode", mode})
	// GROUP BY columns and the groups of this case
	nk := []int{0, 1, 1, 1, 1, 2, 2}[rng.Intn(7)]
	keyNames := []string{"k", "g"}[:nk]
	kl := []string{"keys"}
	for _, k := range keyNames {
		kl = append(kl, hx(k))
	}
	c.Cfg = append(c.Cfg, kl)
	alpha := []string{"s:" + hx("a"), "s:" + hx("b"), "s:" + hx("c"), "s:" + hx("d"), "n", "m"}
	risky := rng.Intn(5) == 0 && nk > 0
	if risky { // separator and escape bytes inside key parts, NULL next to the empty string and to the text \N
		alpha = []string{"s:" + hx("a|b"), "s:" + hx("a"), "s:" + hx("b"), "s:" + hx("b|c"), "s:" + hx("c"), "s:-", "n", "s:" + hx("|"), "s:" + hx(`\N`), "s:" + hx(`a\`), "m"}
		c.Stat = append(c.Stat, "risky-key-alphabet")
	}
	ngroups := 1 + rng.Intn(4)
	if nk == 0 {
		ngroups = 1
	}
	groups := make([][]string, ngroups)
	for i := range groups {
		g := make([]string, nk)
		for j := range g {
			g[j] = alpha[rng.Intn(len(alpha))]
		}
		groups[i] = g
	}
	c.Stat = append(c.Stat, fmt.Sprintf("keycols-%d", nk), fmt.Sprintf("groups-%d", ngroups))
	// SELECT outputs
	nout := 1 + rng.Intn(4)
	var pool []c17Call
	for i := 0; i < nout; i++ {
		call := c17GenCall(rng, direct)
		pool = append(pool, call)
		c.Cfg = append(c.Cfg, []string{"out", hx(fmt.Sprintf("o%d", i)), call.fn, c17FieldTok(call.field)})
	}
	if mode != "direct" {
		c.Cfg = append(c.Cfg, []string{"out", hx("zid"), "max", hx("id")})
	}
	// predicate
	p := c17GenPred(rng, 1+rng.Intn(3), pool, direct)
	c.Cfg = append(c.Cfg, append([]string{"pred"}, p.tokens()...))
	c.Cfg = append(c.Cfg, []string{"style", itoa(rng.Int63n(1 << 30))})
	lv := p.leaves()
	c.Stat = append(c.Stat, fmt.Sprintf("leaves-%d", len(lv)))
	// rows
	n := 6 + rng.Intn(30)
	if tier == "thorough" {
		n = 6 + rng.Intn(80)
	}
	if mode == "sql" && n > 40 {
		// the window's output buffer holds 50 batches (drop-oldest beyond that, which is C19's
		// subject); a case must not be able to have more deliveries in flight than that
		n = 40
	}
	nullRate := []int{0, 0, 10, 25, 60}[rng.Intn(5)] // percent of cells that are NULL / absent / non-numeric
	huge := rng.Intn(8) == 0
	if huge {
		c.Stat = append(c.Stat, "values-beyond-int64")
	}
	c.Stat = append(c.Stat, fmt.Sprintf("nullrate-%d", nullRate))
	for i := 0; i < n; i++ {
		g := groups[rng.Intn(len(groups))]
		op := []string{"row", itoa(int64(1000 + 10*i + rng.Intn(10)))}
		op = append(op, g...)
		for _, f := range c17Fields {
			var cell string
			switch r := rng.Intn(100); {
			case r < nullRate/3:
				cell = "n"
			case r < 2*nullRate/3:
				continue // absent
			case r < nullRate:
				cell = "j:" + hx("zz")
			default:
				cell = c17CellTok(rng, c17Values[rng.Intn(len(c17Values))])
				if huge && rng.Intn(3) == 0 {
					// whole float64 values beyond the int64 range: an aggregate over them is still an ordinary number to the predicate
					cell = c17Ftok([]float64{1e19, 1.5e19, 1e300}[rng.Intn(3)])
				}
			}
			op = append(op, hx(f), cell)
		}
		if mode != "direct" {
			op = append(op, hx("id"), "i:"+itoa(int64(i+1)))
		}
		c.Ops = append(c.Ops, op)
	}
	if mode != "sql" && rng.Intn(3) == 0 {
		c.Cfg = append(c.Cfg, []string{"outbuf", "1"})
		c.Stat = append(c.Stat, "unread-output-channel-of-one-slot")
	}
	if mode == "sql" && rng.Intn(3) == 0 {
		c.Cfg = append(c.Cfg, []string{"stats", "1"})
		c.Stat = append(c.Stat, "management-calls-midstream")
	}
	if mode == "direct" && len(c.Ops) >= 6 && rng.Intn(8) == 0 {
		// STATETTL 10 s and the reaper an hour later, in mid-stream: all groups are reaped with rows in them
		c.Cfg = append(c.Cfg, []string{"ttl", "1"})
		c.Stat = append(c.Stat, "statettl-all-groups-reaped")
		cut := 2 + rng.Intn(len(c.Ops)-3)
		ops := append([][]string(nil), c.Ops[:cut]...)
		ops = append(ops, []string{"reset"})
		c.Ops = append(ops, c.Ops[cut:]...)
		return c
	}
	if mode == "direct" && len(c.Ops) >= 6 && rng.Intn(20) == 0 {
		// STATETTL 10 s with the reaper run by hand: after a real pause of 1.2 s every group receives a row again,
		// then the reaper runs 9.4 s "later" — every group was active 9.4 s ago, none may be reaped, so the rest of
		// the case must go on as if there were no TTL (the model has none)
		c.Cfg = append(c.Cfg, []string{"ttl", "1"})
		c.Stat = append(c.Stat, "statettl-reaper")
		cut := 2 + rng.Intn(4) // early: most groups have an open window with a few rows in it
		if cut > len(c.Ops)-2 {
			cut = len(c.Ops) - 2
		}
		nk := 0
		for _, l := range c.Cfg {
			if l[0] == "keys" {
				nk = len(l) - 1
			}
		}
		seen := map[string][]string{}
		var order []string
		for _, op := range c.Ops[:cut] {
			k := strings.Join(op[2:2+nk], " ")
			if _, ok := seen[k]; !ok {
				order = append(order, k)
			}
			seen[k] = op
		}
		ops := append([][]string(nil), c.Ops[:cut]...)
		ops = append(ops, []string{"nap"})
		for i, k := range order {
			r := append([]string(nil), seen[k]...)
			r[1] = itoa(int64(1000 + 10*len(c.Ops) + i))
			ops = append(ops, r)
		}
		ops = append(ops, []string{"reap"})
		ops = append(ops, c.Ops[cut:]...)
		c.Ops = ops
	}
	return c
}
