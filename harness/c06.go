package main

import (
	"fmt"
	"math"
	"math/rand"
	"strconv"
	"strings"

	"github.com/rulego/streamsql"
	"github.com/rulego/streamsql/expr"
	"github.com/rulego/streamsql/functions"
	"github.com/rulego/streamsql/rsql"
)

// C06 — scalar expressions follow SQL arithmetic, comparison, logic, CASE and NULL rules.
//
// Two kinds of cases:
//   - expression cases: cfg `expr` (prefix encoding of the AST), `text` (the SQL text printed
//     from it), `bool t|f`; ops `compile` and `row <a> <b> <s> <t> <f> <n>`;
//   - function cases (no cfg): ops `fn <name> <cell>*` calling functions.Get(name) directly.
type c06 struct{}

func init() { registry["C06"] = c06{} }

func (c06) Count(tier string) int {
	if tier == "thorough" {
		return 4000
	}
	return 260
}

// ---------------------------------------------------------------- AST

type c06xn struct {
	k     string // lit str col paren neg arith cmp and or not caseS caseV call
	op    string
	s     string
	whole int
	q     int
	kids  []*c06xn    // operands / call args / [scrutinee] for caseV
	whens [][2]*c06xn // CASE arms
	els   *c06xn
}

func (n *c06xn) prec() int {
	switch n.k {
	case "or":
		return 1
	case "and":
		return 2
	case "not":
		return 3
	case "cmp":
		return 4
	case "arith":
		if n.op == "add" || n.op == "sub" {
			return 5
		}
		return 6
	case "neg":
		return 7
	}
	return 9
}

var c06aopText = map[string]string{"add": "+", "sub": "-", "mul": "*", "div": "/"}
var c06copText = map[string]string{"eq": "=", "ne": "!=", "lt": "<", "le": "<=", "gt": ">", "ge": ">="}

func c06wrapIf(b bool, s string) string {
	if b {
		return "(" + s + ")"
	}
	return s
}

func c06litText(whole, q int) string {
	return strconv.Itoa(whole) + []string{"", ".25", ".5", ".75"}[q%4]
}

// render prints SQL text with minimal parentheses by SQL precedence (mirror of Lean `Ex.render`).
func (n *c06xn) render() string {
	switch n.k {
	case "lit":
		return c06litText(n.whole, n.q)
	case "str":
		return "'" + n.s + "'"
	case "col":
		return c06n(n.s)
	case "paren":
		return "(" + n.kids[0].render() + ")"
	case "neg":
		return "-" + c06wrapIf(n.kids[0].prec() < 9, n.kids[0].render())
	case "arith":
		l, r := n.kids[0], n.kids[1]
		return c06wrapIf(l.prec() < n.prec(), l.render()) + " " + c06aopText[n.op] + " " + c06wrapIf(r.prec() <= n.prec(), r.render())
	case "cmp":
		l, r := n.kids[0], n.kids[1]
		return c06wrapIf(l.prec() <= 4, l.render()) + " " + c06copText[n.op] + " " + c06wrapIf(r.prec() <= 4, r.render())
	case "and":
		l, r := n.kids[0], n.kids[1]
		return c06wrapIf(l.prec() < 2, l.render()) + " AND " + c06wrapIf(r.prec() <= 2, r.render())
	case "or":
		l, r := n.kids[0], n.kids[1]
		return l.render() + " OR " + c06wrapIf(r.prec() <= 1, r.render())
	case "not":
		return "NOT " + c06wrapIf(n.kids[0].prec() < 3, n.kids[0].render())
	case "caseS", "caseV":
		var sb strings.Builder
		sb.WriteString("CASE")
		if n.k == "caseV" {
			sb.WriteString(" " + n.kids[0].render())
		}
		for _, w := range n.whens {
			sb.WriteString(" WHEN " + w[0].render() + " THEN " + w[1].render())
		}
		if n.els != nil {
			sb.WriteString(" ELSE " + n.els.render())
		}
		sb.WriteString(" END")
		return sb.String()
	case "call":
		var as []string
		for _, a := range n.kids {
			as = append(as, a.render())
		}
		return n.s + "(" + strings.Join(as, ", ") + ")"
	}
	return "?"
}

// enc is the prefix encoding the Lean driver decodes.
func (n *c06xn) enc(out *[]string) {
	switch n.k {
	case "lit":
		*out = append(*out, "L", strconv.Itoa(n.whole), strconv.Itoa(n.q))
	case "str":
		*out = append(*out, "S", hx(n.s))
	case "col":
		*out = append(*out, "C", hx(n.s))
	case "paren":
		*out = append(*out, "P")
		n.kids[0].enc(out)
	case "neg":
		*out = append(*out, "N")
		n.kids[0].enc(out)
	case "arith":
		*out = append(*out, "A", n.op)
		n.kids[0].enc(out)
		n.kids[1].enc(out)
	case "cmp":
		*out = append(*out, "M", n.op)
		n.kids[0].enc(out)
		n.kids[1].enc(out)
	case "and", "or":
		*out = append(*out, strings.ToUpper(n.k))
		n.kids[0].enc(out)
		n.kids[1].enc(out)
	case "not":
		*out = append(*out, "NOT")
		n.kids[0].enc(out)
	case "caseS", "caseV":
		if n.k == "caseS" {
			*out = append(*out, "CS")
		} else {
			*out = append(*out, "CV")
			n.kids[0].enc(out)
		}
		for _, w := range n.whens {
			*out = append(*out, "W")
			w[0].enc(out)
			w[1].enc(out)
		}
		if n.els != nil {
			*out = append(*out, "E")
			n.els.enc(out)
		} else {
			*out = append(*out, "X")
		}
	case "call":
		*out = append(*out, "F"+strconv.Itoa(len(n.kids)), hx(n.s))
		for _, a := range n.kids {
			a.enc(out)
		}
	}
}

// ---------------------------------------------------------------- generator (typed: num / text / bool)

type c06gen struct {
	rng  *rand.Rand
	stat map[string]bool
	not  bool // may use NOT
}

func (g *c06gen) tag(s string) { g.stat[s] = true }

func (g *c06gen) lit() *c06xn {
	if g.rng.Intn(4) == 0 {
		return &c06xn{k: "lit", whole: g.rng.Intn(4), q: 1 + g.rng.Intn(3)}
	}
	return &c06xn{k: "lit", whole: g.rng.Intn(12)}
}

func (g *c06gen) numCol() *c06xn {
	switch g.rng.Intn(9) {
	case 0:
		return &c06xn{k: "col", s: "n"}
	case 1, 2, 3, 4:
		return &c06xn{k: "col", s: "a"}
	}
	return &c06xn{k: "col", s: "b"}
}

func (g *c06gen) maybeParen(n *c06xn) *c06xn {
	if g.rng.Intn(9) == 0 {
		g.tag("redundant-paren")
		return &c06xn{k: "paren", kids: []*c06xn{n}}
	}
	return n
}

func (g *c06gen) num(d int) *c06xn {
	if d <= 0 {
		if g.rng.Intn(3) == 0 {
			return g.lit()
		}
		return g.numCol()
	}
	switch k := g.rng.Intn(20); {
	case k < 3:
		return g.numCol()
	case k < 4:
		return g.lit()
	case k < 12:
		op := []string{"add", "sub", "mul", "div"}[g.rng.Intn(4)]
		l, r := g.num(d-1), g.num(d-1)
		if op == "div" { // keep most divisors away from zero; zero divisors stay possible (outside the fragment)
			if g.rng.Intn(3) > 0 {
				r = &c06xn{k: "lit", whole: 1 + g.rng.Intn(4), q: []int{0, 0, 2}[g.rng.Intn(3)]}
			}
		}
		return g.maybeParen(&c06xn{k: "arith", op: op, kids: []*c06xn{l, r}})
	case k < 13:
		g.tag("unary-minus")
		o := g.num(d - 1)
		if o.k == "neg" {
			o = &c06xn{k: "paren", kids: []*c06xn{o}}
		}
		return &c06xn{k: "neg", kids: []*c06xn{o}}
	case k < 15:
		g.tag("call")
		switch g.rng.Intn(3) {
		case 0:
			return &c06xn{k: "call", s: "abs", kids: []*c06xn{g.num(d - 1)}}
		case 1:
			// a function with a fixed number (two) of arguments: as an operand of arithmetic it is what an item such as
			// `if_null(a, 0) + b` starts with
			g.tag("call-fixed-arity-2")
			return &c06xn{k: "call", s: "if_null", kids: []*c06xn{g.num(0), g.num(0)}}
		}
		return &c06xn{k: "call", s: "coalesce", kids: []*c06xn{g.num(d - 1), g.num(d - 1)}}
	case k < 18:
		return g.caseOf(d, "num")
	default:
		return g.maybeParen(g.num(d - 1))
	}
}

var c06textLits = []string{"foo", "q", "x", "Foo", "", "k"}

func (g *c06gen) text(d int) *c06xn {
	if d <= 0 {
		if g.rng.Intn(2) == 0 {
			return &c06xn{k: "str", s: c06textLits[g.rng.Intn(len(c06textLits))]}
		}
		return &c06xn{k: "col", s: []string{"s", "t"}[g.rng.Intn(2)]}
	}
	switch k := g.rng.Intn(10); {
	case k < 3:
		return &c06xn{k: "col", s: []string{"s", "t"}[g.rng.Intn(2)]}
	case k < 5:
		return &c06xn{k: "str", s: c06textLits[g.rng.Intn(len(c06textLits))]}
	case k < 8:
		g.tag("call")
		switch g.rng.Intn(3) {
		case 0:
			return &c06xn{k: "call", s: "upper", kids: []*c06xn{g.text(d - 1)}}
		case 1:
			return &c06xn{k: "call", s: "lower", kids: []*c06xn{g.text(d - 1)}}
		}
		return &c06xn{k: "call", s: "concat", kids: []*c06xn{g.text(d - 1), g.text(d - 1)}}
	case k < 9 && g.rng.Intn(2) == 0:
		// `+` between two texts (expr-lang concatenates; rows where a column is absent or NULL come before complete ones)
		g.tag("text-plus-text")
		return &c06xn{k: "arith", op: "add", kids: []*c06xn{g.text(0), g.text(0)}}
	default:
		return g.caseOf(d, "text")
	}
}

func (g *c06gen) boolOperand(d int) *c06xn {
	// an operand of AND/OR/NOT or a WHEN condition: condition-shaped (never a CASE, literal, arithmetic)
	b := g.boolean(d)
	for b.k == "caseS" || b.k == "caseV" {
		b = g.boolean(d)
	}
	return b
}

func (g *c06gen) boolean(d int) *c06xn {
	if d <= 0 {
		if g.rng.Intn(4) == 0 {
			return &c06xn{k: "col", s: "f"}
		}
		return g.cmp(0)
	}
	switch k := g.rng.Intn(20); {
	case k < 8:
		return g.cmp(d - 1)
	case k < 12:
		g.tag("and")
		return &c06xn{k: "and", kids: []*c06xn{g.boolOperand(d - 1), g.boolOperand(d - 1)}}
	case k < 16:
		g.tag("or")
		return &c06xn{k: "or", kids: []*c06xn{g.boolOperand(d - 1), g.boolOperand(d - 1)}}
	case k < 17:
		return &c06xn{k: "col", s: "f"}
	case k < 18:
		if g.not {
			g.tag("not")
			return &c06xn{k: "not", kids: []*c06xn{g.boolOperand(d - 1)}}
		}
		return g.cmp(d - 1)
	default:
		g.tag("redundant-paren")
		return &c06xn{k: "paren", kids: []*c06xn{g.boolOperand(d - 1)}}
	}
}

func (g *c06gen) cmp(d int) *c06xn {
	ops := []string{"eq", "ne", "lt", "le", "gt", "ge"}
	op := ops[g.rng.Intn(len(ops))]
	switch g.rng.Intn(6) {
	case 0, 1:
		g.tag("cmp-text")
		return &c06xn{k: "cmp", op: op, kids: []*c06xn{g.text(d), g.text(d)}}
	default:
		g.tag("cmp-num")
		return &c06xn{k: "cmp", op: op, kids: []*c06xn{g.num(d), g.num(d)}}
	}
}

func (g *c06gen) caseOf(d int, ty string) *c06xn {
	res := func() *c06xn {
		if ty == "num" {
			return g.num(d - 1)
		}
		return g.text(d - 1)
	}
	n := &c06xn{}
	arms := 1 + g.rng.Intn(3)
	if g.rng.Intn(3) == 0 {
		g.tag("case-simple")
		n.k = "caseV"
		numeric := g.rng.Intn(2) == 0
		val := func() *c06xn {
			if numeric {
				return g.num(0)
			}
			return g.text(0)
		}
		sc := val()
		if d > 1 && numeric && g.rng.Intn(2) == 0 {
			sc = g.num(1)
		}
		n.kids = []*c06xn{sc}
		for i := 0; i < arms; i++ {
			n.whens = append(n.whens, [2]*c06xn{val(), res()})
		}
	} else {
		g.tag("case-searched")
		n.k = "caseS"
		for i := 0; i < arms; i++ {
			n.whens = append(n.whens, [2]*c06xn{g.boolOperand(d - 1), res()})
		}
	}
	if g.rng.Intn(3) > 0 {
		n.els = res()
	} else {
		g.tag("case-no-else")
	}
	return n
}

// ---------------------------------------------------------------- rows

func c06fbits(x float64) string {
	if x == 0 {
		x = 0 // -0 → +0
	}
	if math.IsNaN(x) {
		return "f:7ff8000000000001"
	}
	return fmt.Sprintf("f:%016x", math.Float64bits(x))
}

func (g *c06gen) numCell(preferInt bool) string {
	switch k := g.rng.Intn(12); {
	case k == 0:
		return "m"
	case k == 1:
		return "n"
	case k == 2:
		g.tag("row-type-mix")
		return []string{"s:" + hx("foo"), "b:t", "s:" + hx("7")}[g.rng.Intn(3)]
	case k < 8 == preferInt:
		return "i:" + strconv.Itoa(g.rng.Intn(15)-3)
	default:
		return c06fbits(float64(g.rng.Intn(40)-8) / 4)
	}
}

var c06textVals = []string{"foo", "q", "x", "Foo", "", "k", "7", "10", "7.0", "fo"}

func (g *c06gen) textCell() string {
	switch k := g.rng.Intn(12); {
	case k == 0:
		return "m"
	case k == 1:
		return "n"
	case k == 2:
		g.tag("row-type-mix")
		return []string{"i:3", "b:f"}[g.rng.Intn(2)]
	default:
		return "s:" + hx(c06textVals[g.rng.Intn(len(c06textVals))])
	}
}

func (g *c06gen) row() []string {
	f := []string{"b:t", "b:f", "b:t", "b:f", "n", "m"}[g.rng.Intn(6)]
	nn := []string{"n", "n", "m"}[g.rng.Intn(3)]
	return []string{"row", g.numCell(true), g.numCell(false), g.textCell(), g.textCell(), f, nn}
}

func c06cellValue(tok string) (interface{}, bool) {
	switch {
	case tok == "m":
		return nil, false
	case tok == "n":
		return nil, true
	case tok == "b:t":
		return true, true
	case tok == "b:f":
		return false, true
	case strings.HasPrefix(tok, "i:"):
		i, _ := strconv.Atoi(tok[2:])
		return i, true
	case strings.HasPrefix(tok, "f:"):
		u, _ := strconv.ParseUint(tok[2:], 16, 64)
		return math.Float64frombits(u), true
	case strings.HasPrefix(tok, "s:"):
		return unhx(tok[2:]), true
	case strings.HasPrefix(tok, "A["): // array of cells: A[c;c;c]
		inner := strings.TrimSuffix(tok[2:], "]")
		arr := []interface{}{}
		if inner != "" {
			for _, p := range strings.Split(inner, ";") {
				v, _ := c06cellValue(p)
				arr = append(arr, v)
			}
		}
		return arr, true
	}
	return nil, true
}

func c06cellOut(v interface{}) string {
	switch x := v.(type) {
	case nil:
		return "n"
	case bool:
		return "b:" + btok(x)
	case string:
		return "s:" + hx(x)
	case int:
		return c06fbits(float64(x))
	case int8:
		return c06fbits(float64(x))
	case int16:
		return c06fbits(float64(x))
	case int32:
		return c06fbits(float64(x))
	case int64:
		return c06fbits(float64(x))
	case uint:
		return c06fbits(float64(x))
	case uint8:
		return c06fbits(float64(x))
	case uint32:
		return c06fbits(float64(x))
	case uint64:
		return c06fbits(float64(x))
	case float32:
		return c06fbits(float64(x))
	case float64:
		return c06fbits(x)
	}
	return "o:" + hx(fmt.Sprintf("%T:%v", v, v))
}

var c06siblings = []string{"a + b", "a - b", "a * b", "b - a"}

var c06colOrder = []string{"a", "b", "s", "t", "f", "n"}

// c06Names (cfg `names kw`): the columns a b s t f n are spelled order_id is_b origin island is_ok notes in the SQL text
// and in the rows — identifiers that begin like the word operators OR / IS / NOT of the expression engines
var c06Names map[string]string

var c06KwNames = map[string]string{"a": "order_id", "b": "is_b", "s": "origin", "t": "island", "f": "is_ok", "n": "notes"}

func c06n(col string) string {
	if m, ok := c06Names[col]; ok {
		return m
	}
	return col
}

func c06rowMap(op []string) map[string]interface{} {
	m := map[string]interface{}{}
	for i, c := range c06colOrder {
		if 1+i < len(op) {
			if v, present := c06cellValue(op[1+i]); present {
				m[c06n(c)] = v
			}
		}
	}
	return m
}

// ---------------------------------------------------------------- function slice

var c06fnSlice = []string{"abs", "floor", "round", "sqrt", "mod", "sign", "trunc", "upper", "lower", "trim", "ltrim", "rtrim",
	"concat", "substring", "replace", "indexof", "startswith", "endswith", "lpad", "rpad", "coalesce", "null_if", "if_null",
	"greatest", "least", "is_null", "is_not_null", "is_numeric", "is_string", "is_bool", "cast", "hex2dec", "dec2hex", "chr",
	"array_length", "array_contains", "array_position", "json_valid", "json_type", "md5", "sha1", "sha256", "sha512", "url_encode"}

func (g *c06gen) anyCell() string {
	pool := []string{"n", "i:0", "i:-3", "i:7", "i:65", "i:200", "i:1114112", "i:-1", c06fbits(2.5), c06fbits(-0.75), c06fbits(1e300), c06fbits(math.Inf(1)),
		c06fbits(math.NaN()), "b:t", "b:f", "s:" + hx("foo"), "s:" + hx(""), "s:" + hx("  a b "), "s:" + hx("12"), "s:" + hx("ff"), "s:" + hx("zz"),
		"s:" + hx("{\"a\":1}"), "s:" + hx("[1,2"), "s:" + hx("int"), "s:" + hx("float"), "s:" + hx("string"), "s:" + hx("bool"), "s:" + hx("o"),
		"A[]", "A[i:1;i:2;n]", "A[s:" + hx("a") + ";s:" + hx("b") + "]", "s:" + hx("a%b c/é")}
	return pool[g.rng.Intn(len(pool))]
}

func (g *c06gen) fnOp() []string {
	name := c06fnSlice[g.rng.Intn(len(c06fnSlice))]
	fn, ok := functions.Get(name)
	n := 1
	if ok {
		lo, hi := fn.GetMinArgs(), fn.GetMaxArgs()
		if hi < 0 || hi > lo+2 {
			hi = lo + 2
		}
		n = lo + g.rng.Intn(hi-lo+1)
		if g.rng.Intn(25) == 0 { // wrong arity now and then
			n = g.rng.Intn(5)
			g.tag("fn-wrong-arity")
		}
	}
	op := []string{"fn", name}
	related := []string{"foobar", "foo", "bar", "oba", "", "fo", "r", "foobarx", "Foo", " foo "}
	for i := 0; i < n; i++ {
		if g.rng.Intn(3) > 0 {
			switch name {
			case "startswith", "endswith", "indexof", "replace", "concat", "upper", "lower", "trim", "ltrim", "rtrim", "substring", "lpad", "rpad":
				// strings that are prefixes / suffixes / infixes of one another, so that both outcomes occur
				if !((name == "substring" || name == "lpad" || name == "rpad") && i == 1) {
					op = append(op, "s:"+hx(related[g.rng.Intn(len(related))]))
					continue
				}
				op = append(op, "i:"+strconv.Itoa(g.rng.Intn(9)-2))
				continue
			case "abs", "sign", "floor", "round", "sqrt", "mod", "trunc", "greatest", "least", "coalesce", "if_null", "null_if":
				op = append(op, []string{"i:-3", "i:0", "i:7", c06fbits(2.5), c06fbits(-0.75), "n", "i:2"}[g.rng.Intn(7)])
				continue
			}
		}
		op = append(op, g.anyCell())
	}
	return op
}

// ---------------------------------------------------------------- Gen / Exec

// tvl builds a three-valued-logic expression: [NOT] (p AND/OR q) [AND/OR [NOT] r] over comparisons `col OP literal`,
// either bare (SELECT value and WHERE) or as the condition of a searched CASE (hand-written evaluator).
func (g *c06gen) tvl() (*c06xn, bool) {
	atom := func() *c06xn {
		ops := []string{"eq", "ne", "lt", "le", "gt", "ge"}
		var n *c06xn
		if g.rng.Intn(5) == 0 {
			n = &c06xn{k: "cmp", op: ops[g.rng.Intn(2)], kids: []*c06xn{{k: "col", s: []string{"s", "t"}[g.rng.Intn(2)]}, {k: "str", s: c06textLits[g.rng.Intn(len(c06textLits))]}}}
		} else {
			n = &c06xn{k: "cmp", op: ops[g.rng.Intn(6)], kids: []*c06xn{g.numCol(), {k: "lit", whole: g.rng.Intn(8)}}}
		}
		if g.rng.Intn(4) == 0 {
			g.tag("not")
			n = &c06xn{k: "not", kids: []*c06xn{{k: "paren", kids: []*c06xn{n}}}}
		}
		return n
	}
	conn := func(l, r *c06xn) *c06xn {
		if g.rng.Intn(2) == 0 {
			g.tag("and")
			return &c06xn{k: "and", kids: []*c06xn{l, r}}
		}
		g.tag("or")
		return &c06xn{k: "or", kids: []*c06xn{l, r}}
	}
	e := conn(atom(), atom())
	if g.rng.Intn(2) == 0 {
		g.tag("not")
		e = &c06xn{k: "not", kids: []*c06xn{{k: "paren", kids: []*c06xn{e}}}}
	}
	if g.rng.Intn(2) == 0 {
		e = conn(e, atom())
		if g.rng.Intn(3) == 0 {
			g.tag("not")
			e = &c06xn{k: "not", kids: []*c06xn{{k: "paren", kids: []*c06xn{e}}}}
		}
	}
	g.tag("tvl-case")
	if g.rng.Intn(2) == 0 {
		g.tag("case-searched")
		n := &c06xn{k: "caseS"}
		n.whens = append(n.whens, [2]*c06xn{e, {k: "str", s: "foo"}})
		if g.rng.Intn(4) > 0 {
			n.els = &c06xn{k: "str", s: "q"}
		}
		return n, false
	}
	return e, true
}

// tvlRow: a, b (and n) each NULL, missing, low or high; text and flag columns as usual
func (g *c06gen) tvlRow() []string {
	cell := func() string { return []string{"n", "m", "i:0", "i:9", "i:3", c06fbits(2.5)}[g.rng.Intn(6)] }
	r := g.row()
	r[1], r[2] = cell(), cell()
	return r
}

// c06twin: the same expression with the letter case of its string literals swapped (of its columns when it has
// no literal with a letter): evaluated first, in the same process, it must not influence the expression itself
func c06twin(n *c06xn, flipCols bool) *c06xn {
	if n == nil {
		return nil
	}
	m := *n
	swap := func(s string) string {
		b := []byte(s)
		for i, ch := range b {
			if ch >= 'a' && ch <= 'z' {
				b[i] = ch - 32
			} else if ch >= 'A' && ch <= 'Z' {
				b[i] = ch + 32
			}
		}
		return string(b)
	}
	if n.k == "str" || (n.k == "col" && flipCols) {
		m.s = swap(n.s)
	}
	m.kids = nil
	for _, k := range n.kids {
		m.kids = append(m.kids, c06twin(k, flipCols))
	}
	m.whens = nil
	for _, w := range n.whens {
		m.whens = append(m.whens, [2]*c06xn{c06twin(w[0], flipCols), c06twin(w[1], flipCols)})
	}
	m.els = c06twin(n.els, flipCols)
	return &m
}

func (c06) Gen(rng *rand.Rand, tier string, idx int) Case {
	g := &c06gen{rng: rng, stat: map[string]bool{}, not: true}
	var c Case
	if idx%6 == 5 { // function-slice case
		g.tag("fn-case")
		var ops [][]string
		for i := 0; i < 40; i++ {
			ops = append(ops, g.fnOp())
		}
		// history: repeat a third of the calls later, in another order
		for i := 0; i < 14; i++ {
			ops = append(ops, ops[rng.Intn(40)])
		}
		c.Ops = ops
	} else {
		depth := 1 + rng.Intn(4)
		var e *c06xn
		isBool := false
		tvl := idx%6 == 4
		flip := idx%12 == 3
		chain := idx%12 == 9
		for tries := 0; ; tries++ {
			if tvl {
				e, isBool = g.tvl()
				break
			}
			if chain {
				// a flat chain `col OP lit AND col OP lit OR …` without a parenthesis, AND and OR mixed: SQL precedence
				// groups the ANDs first, whichever shortcut or engine answers
				ops := []string{"eq", "ne", "lt", "le", "gt", "ge"}
				atom := func() *c06xn {
					if g.rng.Intn(5) == 0 {
						return &c06xn{k: "cmp", op: ops[g.rng.Intn(2)], kids: []*c06xn{{k: "col", s: []string{"s", "t"}[g.rng.Intn(2)]}, {k: "str", s: c06textLits[g.rng.Intn(len(c06textLits))]}}}
					}
					return &c06xn{k: "cmp", op: ops[g.rng.Intn(6)], kids: []*c06xn{{k: "col", s: []string{"a", "b"}[g.rng.Intn(2)]}, {k: "lit", whole: g.rng.Intn(8)}}}
				}
				groups := 2 + g.rng.Intn(2)
				long := g.rng.Intn(groups)
				for gi := 0; gi < groups; gi++ {
					grp := atom()
					for k := g.rng.Intn(2); k > 0 || (gi == long && grp.k == "cmp"); k-- {
						grp = &c06xn{k: "and", kids: []*c06xn{grp, atom()}}
					}
					if e == nil {
						e = grp
					} else {
						e = &c06xn{k: "or", kids: []*c06xn{e, grp}}
					}
				}
				isBool = true
				g.tag("flat-and-or-chain")
				g.tag("and")
				g.tag("or")
				break
			}
			if flip {
				// a bare arithmetic expression (no quote, no parenthesis: the custom engine answers first); an ill-typed
				// row on which that engine gives up comes early, rows with NULL operands after it must be unaffected
				ops := []string{"add", "sub", "mul"}
				e = &c06xn{k: "arith", op: ops[g.rng.Intn(3)], kids: []*c06xn{{k: "col", s: "a"}, {k: "col", s: "b"}}}
				if g.rng.Intn(2) == 0 {
					e = &c06xn{k: "arith", op: "add", kids: []*c06xn{e, {k: "lit", whole: 1 + g.rng.Intn(5)}}}
				}
				g.tag("fast-path-then-ill-typed-row")
				break
			}
			switch rng.Intn(5) {
			case 0, 1:
				e = g.num(depth)
			case 2:
				e = g.text(depth)
			default:
				e = g.boolean(depth)
				isBool = true
			}
			// an expression field must hold an operator, a call or a CASE; the engine reads at most 100
			// lexer tokens per SELECT field, so the printed text is kept well below that
			if e.k != "col" && e.k != "lit" && e.k != "str" && e.k != "paren" && len(strings.Fields(e.render())) <= 60 {
				break
			}
			isBool = false
		}
		g.tag("depth-" + strconv.Itoa(depth))
		if !tvl && !flip && rng.Intn(4) == 0 {
			c06Names = c06KwNames
			defer func() { c06Names = nil }()
			c.Cfg = append(c.Cfg, []string{"names", "kw"})
			g.tag("column-names-like-word-operators")
		}
		var toks []string
		e.enc(&toks)
		c.Cfg = append(c.Cfg, append([]string{"expr"}, toks...))
		c.Cfg = append(c.Cfg, []string{"text", hx(e.render())})
		c.Cfg = append(c.Cfg, []string{"bool", btok(isBool)})
		if rng.Intn(3) == 0 {
			// a look-alike expression goes through the process-wide caches first
			tw := c06twin(e, false).render()
			if tw == e.render() {
				tw = c06twin(e, true).render()
			}
			if tw != e.render() {
				c.Cfg = append(c.Cfg, []string{"twin", hx(tw)})
				g.tag("primed-with-case-twin")
			}
		}
		c.Ops = append(c.Ops, []string{"compile"})
		var rows [][]string
		for i := 0; i < 10; i++ {
			if tvl {
				rows = append(rows, g.tvlRow())
			} else if chain {
				// mostly rows whose numeric columns are present and typed (the compiled shortcut answers those)
				r := g.row()
				if i < 8 {
					r[1], r[2] = "i:"+strconv.Itoa(rng.Intn(9)), []string{"i:" + strconv.Itoa(rng.Intn(9)), c06fbits(float64(rng.Intn(32)) / 4)}[rng.Intn(2)]
				}
				rows = append(rows, r)
			} else {
				rows = append(rows, g.row())
			}
		}
		// a fully typed, NULL-free row is always there
		rows = append(rows, []string{"row", "i:" + strconv.Itoa(rng.Intn(9)), c06fbits(float64(rng.Intn(20)) / 4), "s:" + hx("foo"), "s:" + hx("q"), "b:t", "n"})
		rng.Shuffle(len(rows), func(i, j int) { rows[i], rows[j] = rows[j], rows[i] })
		if flip {
			bad := g.row()
			bad[1] = []string{"s:" + hx("foo"), "b:t", "s:" + hx("7")}[rng.Intn(3)]
			nul := g.row()
			nul[1], nul[2] = []string{"n", "m"}[rng.Intn(2)], "i:5"
			nul2 := g.row()
			nul2[1], nul2[2] = "i:4", []string{"n", "m"}[rng.Intn(2)]
			rows = append([][]string{rows[0], bad, nul, nul2}, rows[1:]...)
		}
		c.Ops = append(c.Ops, rows...)
		// history: some rows once more, after rows of other types went through the same caches
		for i := 0; i < 4; i++ {
			c.Ops = append(c.Ops, rows[rng.Intn(len(rows))])
		}
	}
	for s := range g.stat {
		c.Stat = append(c.Stat, s)
	}
	return c
}

func c06cfgOf(c Case, k string) []string {
	for _, l := range c.Cfg {
		if len(l) > 0 && l[0] == k {
			return l[1:]
		}
	}
	return nil
}

func c06callFn(op []string) (out [][]string) {
	defer func() {
		if r := recover(); r != nil {
			out = [][]string{{"panic", hx(fmt.Sprint(r))}}
		}
	}()
	fn, ok := functions.Get(op[1])
	if !ok {
		return [][]string{{"err"}}
	}
	args := make([]interface{}, 0, len(op)-2)
	for _, t := range op[2:] {
		v, _ := c06cellValue(t)
		args = append(args, v)
	}
	if err := fn.Validate(args); err != nil {
		return [][]string{{"err"}}
	}
	v, err := fn.Execute(&functions.FunctionContext{Data: map[string]interface{}{}}, args)
	if err != nil {
		return [][]string{{"err"}}
	}
	return [][]string{{"v", c06cellOut(v)}}
}

type c06env struct {
	sel, whr   *streamsql.Streamsql
	selErr     error
	whrState   string // ok | rej | -
	etext      string
	hand       *expr.Expression
	handErr    error
	bridgeText string
}

func (e *c06env) close() {
	if e.sel != nil {
		e.sel.Stop()
	}
	if e.whr != nil {
		e.whr.Stop()
	}
}

func c06compile(text string, isBool bool) *c06env {
	env := &c06env{whrState: "-"}
	sql := "SELECT " + text + " AS r FROM stream"
	env.etext = ""
	if stmt, err := rsql.NewParser(sql).Parse(); err == nil {
		if cfg, _, err := stmt.ToStreamConfig(); err == nil && cfg != nil {
			if fe, ok := cfg.FieldExpressions["r"]; ok {
				env.etext = fe.Expression
			}
		}
	}
	env.sel = streamsql.New(presetOpt(), streamsql.WithDiscardLog())
	env.selErr = env.sel.Execute(sql)
	if isBool {
		env.whr = streamsql.New(presetOpt(), streamsql.WithDiscardLog())
		if err := env.whr.Execute("SELECT " + c06n("b") + " FROM stream WHERE " + text); err != nil {
			env.whrState = "rej"
		} else {
			env.whrState = "ok"
		}
	}
	src := env.etext
	if src == "" {
		src = text
	}
	env.bridgeText = src
	env.hand, env.handErr = expr.NewExpression(src)
	return env
}

func (e *c06env) evalRow(op []string) (out [][]string) {
	guard := func(name string, f func() string) {
		defer func() {
			if r := recover(); r != nil {
				out = append(out, []string{name, "panic:" + hx(fmt.Sprint(r))})
			}
		}()
		out = append(out, []string{name, f()})
	}
	guard("h", func() string {
		if e.handErr != nil || e.hand == nil {
			return "e"
		}
		v, isNull, err := e.hand.EvaluateValueWithNull(c06rowMap(op))
		if err != nil {
			return "e"
		}
		if isNull {
			return "n"
		}
		return c06cellOut(v)
	})
	guard("x", func() string {
		v, err := functions.GetExprBridge().EvaluateExpression(e.bridgeText, c06rowMap(op))
		if err != nil {
			return "e"
		}
		return c06cellOut(v)
	})
	// sibling expressions through the same process-wide caches: same first byte, same length,
	// different meaning — a cache that confuses entries shows here
	func() {
		line := []string{"k"}
		defer func() {
			if r := recover(); r != nil {
				line = append(line, "panic:"+hx(fmt.Sprint(r)))
			}
			out = append(out, line)
		}()
		for _, sib := range c06siblings {
			if c06Names != nil { // the siblings are written with the columns' spelling of this case
				sib = strings.NewReplacer("a", c06n("a"), "b", c06n("b")).Replace(sib)
			}
			v, err := functions.GetExprBridge().EvaluateExpression(sib, c06rowMap(op))
			if err != nil {
				line = append(line, "e")
			} else {
				line = append(line, c06cellOut(v))
			}
		}
	}()
	guard("r", func() string {
		if e.selErr != nil {
			return "exec-err"
		}
		res, err := e.sel.EmitSync(c06rowMap(op))
		if err != nil {
			return "emit-err"
		}
		if res == nil {
			return "dropped"
		}
		v, ok := res["r"]
		if !ok {
			return "no-column"
		}
		return c06cellOut(v)
	})
	guard("w", func() string {
		switch e.whrState {
		case "-":
			return "-"
		case "rej":
			return "rej"
		}
		res, err := e.whr.EmitSync(c06rowMap(op))
		if err != nil {
			return "emit-err"
		}
		return btok(res != nil)
	})
	return out
}

func (c06) Exec(c Case) [][][]string {
	var out [][][]string
	functions.VerifResetBridgeCaches()
	var env *c06env
	defer func() {
		if env != nil {
			env.close()
		}
	}()
	text := ""
	if t := c06cfgOf(c, "text"); len(t) > 0 {
		text = unhx(t[0])
	}
	isBool := false
	if b := c06cfgOf(c, "bool"); len(b) > 0 {
		isBool = b[0] == "t"
	}
	if nm := c06cfgOf(c, "names"); len(nm) > 0 && nm[0] == "kw" {
		c06Names = c06KwNames
		defer func() { c06Names = nil }()
	}
	for _, op := range c.Ops {
		switch op[0] {
		case "compile":
			if env != nil {
				env.close()
			}
			if tw := c06cfgOf(c, "twin"); len(tw) > 0 {
				// evaluate the look-alike first (results ignored): nothing it leaves behind may reach `text`
				te := c06compile(unhx(tw[0]), isBool)
				te.evalRow([]string{"row", "i:3", c06fbits(2.5), "s:" + hx("foo"), "s:" + hx("Q"), "b:t", "n"})
				te.close()
			}
			env = c06compile(text, isBool)
			et := "none"
			if env.etext != "" {
				et = hx(env.etext)
			}
			out = append(out, [][]string{{"etext", et}, {"sel", btok(env.selErr == nil)}, {"where", env.whrState}})
		case "row":
			if env == nil {
				env = c06compile(text, isBool)
			}
			out = append(out, env.evalRow(op))
		case "fn":
			out = append(out, c06callFn(op))
		default:
			out = append(out, [][]string{{"bad-op"}})
		}
	}
	return out
}
