// Correspondence harness for /verif (DESIGN.md §0, §3, Appendix A).
// It generates seeded cases, executes them on the real rulego/streamsql code
// (built from /repo's working tree with -tags verif) and prints the trace
// `case / cfg / op / obs / end` that the Lean driver replays on the model.
package main

import (
	"bufio"
	"encoding/hex"
	"fmt"
	"math"
	"math/rand"
	"os"
	"runtime"
	"sort"
	"strconv"
	"strings"
	"time"

	"github.com/rulego/streamsql"
	"github.com/rulego/streamsql/functions"
)

// Case is one block of the line protocol.
type Case struct {
	Prop string
	Seed int64
	Idx  int
	Cfg  [][]string
	Ops  [][]string
	Stat []string // generator-side branch tags (input distribution)
}

// Prop is implemented once per property.
type Prop interface {
	// Gen produces the idx-th case for a seed; all random choices come from rng.
	Gen(rng *rand.Rand, tier string, idx int) Case
	// Exec runs the case on the real implementation and returns, per op, the obs lines.
	Exec(c Case) [][][]string
	// Count is the number of generated cases for a tier.
	Count(tier string) int
}

var registry = map[string]Prop{}

func hx(s string) string {
	if s == "" {
		return "-"
	}
	return hex.EncodeToString([]byte(s))
}

func unhx(s string) string {
	if s == "-" {
		return ""
	}
	b, err := hex.DecodeString(s)
	if err != nil {
		panic("bad hex " + s)
	}
	return string(b)
}

func btok(b bool) string {
	if b {
		return "t"
	}
	return "f"
}

func itoa(i int64) string { return strconv.FormatInt(i, 10) }

func writeCase(w *bufio.Writer, c Case, obs [][][]string) {
	fmt.Fprintf(w, "case %s %d %d\n", c.Prop, c.Seed, c.Idx)
	for _, l := range c.Cfg {
		fmt.Fprintf(w, "cfg %s\n", strings.Join(l, " "))
	}
	for i, op := range c.Ops {
		fmt.Fprintf(w, "op %s\n", strings.Join(op, " "))
		if i < len(obs) {
			for _, o := range obs[i] {
				fmt.Fprintf(w, "obs %s\n", strings.Join(o, " "))
			}
		}
	}
	st := append([]string(nil), c.Stat...)
	sort.Strings(st)
	for _, s := range st {
		fmt.Fprintf(w, "stat %s\n", s)
	}
	fmt.Fprintf(w, "end\n")
}

// safeExec runs Exec and converts a panic into an obs line (a panic is an observable).
func safeExec(p Prop, c Case) (obs [][][]string) {
	curPreset = ""
	for _, l := range c.Cfg {
		if len(l) == 2 && l[0] == "preset" {
			curPreset = l[1]
		}
	}
	defer func() { curPreset = "" }()
	curNoise = false
	for _, l := range c.Cfg {
		if len(l) == 2 && l[0] == "noise" && l[1] == "1" {
			noisePrelude()
			curNoise = true
		}
	}
	defer func() { curNoise = false }()
	defer func() {
		if r := recover(); r != nil {
			obs = append(obs, [][]string{{"panic", hx(fmt.Sprint(r))}})
		}
	}()
	return p.Exec(c)
}

func parseCases(path string) []Case {
	f, err := os.Open(path)
	if err != nil {
		panic(err)
	}
	defer f.Close()
	var out []Case
	var cur *Case
	sc := bufio.NewScanner(f)
	sc.Buffer(make([]byte, 1<<20), 1<<26)
	for sc.Scan() {
		t := strings.Fields(sc.Text())
		if len(t) == 0 {
			continue
		}
		switch t[0] {
		case "case":
			seed, _ := strconv.ParseInt(t[2], 10, 64)
			idx, _ := strconv.Atoi(t[3])
			cur = &Case{Prop: t[1], Seed: seed, Idx: idx}
		case "cfg":
			if cur != nil {
				cur.Cfg = append(cur.Cfg, t[1:])
			}
		case "op":
			if cur != nil {
				cur.Ops = append(cur.Ops, t[1:])
			}
		case "end":
			if cur != nil {
				out = append(out, *cur)
				cur = nil
			}
		}
	}
	return out
}

func main() {
	if len(os.Args) < 2 {
		fmt.Fprintln(os.Stderr, "usage: verifharness gen <prop> <seed> <tier> | exec <file> | facts")
		os.Exit(2)
	}
	w := bufio.NewWriterSize(os.Stdout, 1<<20)
	defer w.Flush()
	switch os.Args[1] {
	case "gen":
		name, tier := os.Args[2], os.Args[4]
		seed, _ := strconv.ParseInt(os.Args[3], 10, 64)
		p, ok := registry[name]
		if !ok {
			fmt.Fprintln(os.Stderr, "unknown property", name)
			os.Exit(2)
		}
		n := p.Count(tier)
		for i := 0; i < n; i++ {
			rng := rand.New(rand.NewSource(seed*1000003 + int64(i)))
			c := p.Gen(rng, tier, i)
			c.Prop, c.Seed, c.Idx = name, seed, i
			withPreset(&c)
			// a fatal runtime error (not a panic) kills the process: the runner learns from this marker which case was running
			fmt.Fprintf(os.Stderr, "@case %d\n", i)
			writeCase(w, c, safeExec(p, c))
		}
	case "race":
		// the cases that run real goroutines against each other (a property opts in through RaceCase), executed one after
		// the other in a binary built with the race detector; the runner reads the detector's report from stderr
		name, tier := os.Args[2], os.Args[4]
		seed, _ := strconv.ParseInt(os.Args[3], 10, 64)
		p, ok := registry[name]
		if !ok {
			os.Exit(2)
		}
		rc, ok := p.(interface{ RaceCase(c Case) bool })
		if !ok {
			fmt.Fprintln(w, "race-cases 0")
			return
		}
		n, ran := p.Count(tier), 0
		for i := 0; i < n; i++ {
			rng := rand.New(rand.NewSource(seed*1000003 + int64(i)))
			c := p.Gen(rng, tier, i)
			c.Prop, c.Seed, c.Idx = name, seed, i
			withPreset(&c)
			if !rc.RaceCase(c) {
				continue
			}
			fmt.Fprintf(os.Stderr, "@case %d\n", i)
			safeExec(p, c)
			ran++
		}
		fmt.Fprintf(w, "race-cases %d\n", ran)
	case "printcase", "one": // the text of generated case <idx> without / with executing it (crash localisation)
		name, tier := os.Args[2], os.Args[4]
		seed, _ := strconv.ParseInt(os.Args[3], 10, 64)
		i, _ := strconv.Atoi(os.Args[5])
		p, ok := registry[name]
		if !ok {
			os.Exit(2)
		}
		rng := rand.New(rand.NewSource(seed*1000003 + int64(i)))
		c := p.Gen(rng, tier, i)
		c.Prop, c.Seed, c.Idx = name, seed, i
		withPreset(&c)
		if os.Args[1] == "printcase" {
			writeCase(w, c, nil)
		} else {
			writeCase(w, c, safeExec(p, c))
		}
	case "exec":
		for _, c := range parseCases(os.Args[2]) {
			p, ok := registry[c.Prop]
			if !ok {
				continue
			}
			writeCase(w, c, safeExec(p, c))
		}
	default:
		// property-specific sub-commands (e.g. a solo run in a fresh process)
		if f, ok := subcommands[os.Args[1]]; ok {
			f(w, os.Args[2:])
			return
		}
		os.Exit(2)
	}
}

// subcommands lets a property register a helper mode of the harness binary (run through os.Executable()).
var subcommands = map[string]func(w *bufio.Writer, args []string){}

// Performance presets (public options): every fifth generated case creates its Streamsql instances with
// WithHighPerformance() in front of the options the case sets itself (larger buffers, the expand strategy, more sink
// workers, monitoring on). No property mentions the preset: the observables must be what they are without it.
var curPreset string

// curNoise: the running case carries `noise 1` (single-row query helpers then also send a row that the instance's
// input schema rejects before the observed row)
var curNoise bool

func withPreset(c *Case) {
	if c.Idx%7 == 6 {
		c.Cfg = append(c.Cfg, []string{"noise", "1"})
		c.Stat = append(c.Stat, "after-noise-prelude")
	}
	if c.Idx%5 == 4 {
		c.Cfg = append(c.Cfg, []string{"preset", "high"})
		c.Stat = append(c.Stat, "preset-high-performance")
	}
	// WithLowLatency() (input buffer of 100, block strategy with a one-second timeout, window output buffer of 20) only
	// where a case never has more than a few rows or batches in flight, so that nothing can be dropped legitimately
	if c.Idx%5 == 3 && presetLowOK[c.Prop] {
		c.Cfg = append(c.Cfg, []string{"preset", "low"})
		c.Stat = append(c.Stat, "preset-low-latency")
	}
}

var presetLowOK = map[string]bool{"C05": true, "C06": true, "C12": true, "C13": true, "C14": true, "C16": true, "C20": true}

func presetOpt() streamsql.Option {
	if curPreset == "high" {
		return streamsql.WithHighPerformance()
	}
	if curPreset == "low" {
		return streamsql.WithLowLatency()
	}
	return func(*streamsql.Streamsql) {}
}

// noisePrelude (cfg `noise 1`, every seventh case): before the case runs, other instances of this process go through
// things that go wrong — statements that fail to parse or to compile and are then corrected, malformed rows (nil map,
// wrong types, NaN, missing and garbage timestamps), a sink and a custom function that panic or fail, Stop with rows in
// flight. None of it is an observable; the case that follows must behave as if it had not happened (process-wide caches,
// pools and registries are shared). The prelude waits for its own goroutines to end.
func noisePrelude() {
	base := runtime.NumGoroutine()
	try := func(f func()) {
		defer func() { _ = recover() }()
		f()
	}
	rows := []map[string]interface{}{nil, {}, {"a": "zz", "s": 5, "k": nil}, {"a": math.NaN(), "s": nil, "k": "x"}, {"a": 2, "s": "xy", "k": "x", "v": 1, "ts": int64(1700000000000)},
		{"a": []int{1}, "k": map[string]interface{}{"z": 1}, "v": "junk", "ts": "garbage"}, {"a": 3, "s": "x%", "k": "y", "v": 2.5, "ts": int64(4102444800000)}, {"a": -1, "k": "x", "v": nil}}
	_ = functions.RegisterCustomFunction("zznoise", functions.TypeCustom, "verif", "fails on odd input", 1, 1,
		func(ctx *functions.FunctionContext, args []interface{}) (interface{}, error) {
			if f, ok := args[0].(float64); ok && f == 3 {
				panic("zznoise")
			}
			if _, ok := args[0].(string); ok {
				return nil, fmt.Errorf("zznoise: text")
			}
			return args[0], nil
		})
	for _, q := range []struct{ bad, bad2, good string }{
		{"SELEC a FROM", "SELECT a FROM stream WHERE (a > 1", "SELECT a, upper(s) AS u, a + 1 AS b, zznoise(a) AS z FROM stream WHERE a > 1 AND s LIKE 'x%'"},
		{"SELECT k, count(* FROM stream", "SELECT k, count(*) AS c FROM stream WHERE a > 1 AND GROUP BY k, TumblingWindow('1s')",
			"SELECT k, count(*) AS c, sum(v) AS s FROM stream GROUP BY k, TumblingWindow('1s') WITH (TIMESTAMP='ts', TIMEUNIT='ms')"},
		{"SELECT lag(v OVER FROM stream", "SELECT lag(v) OVER (PARTITION BY k) AS p FROM stream WHERE v >", "SELECT k, lag(v) OVER (PARTITION BY k) AS p FROM stream WHERE v > 0"},
		{"SELECT k FROM stream GROUP BY k, CountingWindow(", "SELECT k, count(*) AS c FROM stream WHERE a in (1,2) GROUP BY k, CountingWindow(2)", "SELECT k, count(*) AS c, max(v) AS m FROM stream GROUP BY k, CountingWindow(2) HAVING c > 0 ORDER BY m DESC LIMIT 1"},
	} {
		s := streamsql.New(streamsql.WithDiscardLog())
		try(func() { _ = s.Execute(q.bad) })
		try(func() { _ = s.Execute(q.bad2) })
		try(func() { _ = s.Execute(q.good) })
		try(func() { s.AddSink(func(r []map[string]interface{}) { panic("noise sink") }) })
		try(func() { s.AddSyncSink(func(r []map[string]interface{}) {}) })
		for _, r := range rows {
			r := r
			try(func() { s.Emit(r) })
			try(func() { _, _ = s.EmitSync(r) })
		}
		try(func() { s.Stop() })
	}
	functions.Unregister("zznoise")
	deadline := time.Now().Add(3 * time.Second)
	for runtime.NumGoroutine() > base && time.Now().Before(deadline) {
		time.Sleep(time.Millisecond)
	}
}
