package main

import (
	"math/rand"
	"strconv"
	"strings"

	"github.com/rulego/streamsql/types"
)

// MATCH_RECOGNIZE part of the reference grammar:
//
//	SELECT * FROM source MATCH_RECOGNIZE ( [PARTITION BY col {, col}] ORDER BY col [ASC]
//	    [MEASURES expr AS alias {, …}] [ONE ROW PER MATCH | ALL ROWS PER MATCH]
//	    PATTERN ( atom {atom} ) [WITHIN 'd'] DEFINE sym AS cmp {, sym AS cmp} ) [WHERE cond] [ORDER BY alias] [LIMIT n]
//	atom := sym [ + | * | ? | {n} | {n,m} ] [?]  |  ( sym | sym )

// refPat is the generator's own pattern tree, printed in the same normal form as patStr prints rsql's.
type refAtom struct {
	syms     []string // one symbol, or the alternatives of a group
	min, max int      // quantifier; (1,1) = none
	lazy     bool
}

func (a refAtom) str() string {
	base := a.syms[0]
	if len(a.syms) > 1 {
		base = "(" + strings.Join(a.syms, " | ") + ")"
	}
	if a.min == 1 && a.max == 1 {
		return base
	}
	s := base + "{" + strconv.Itoa(a.min) + "," + strconv.Itoa(a.max) + "}"
	if a.lazy {
		s += "?"
	}
	return s
}

func (a refAtom) toks() []srcTok {
	var out []srcTok
	if len(a.syms) > 1 {
		out = append(out, opT("lparen"))
		for i, s := range a.syms {
			if i > 0 {
				out = append(out, opT("pipe"))
			}
			out = append(out, idT(s))
		}
		out = append(out, opT("rparen"))
	} else {
		out = append(out, idT(a.syms[0]))
	}
	switch {
	case a.min == 1 && a.max == 1:
	case a.min == 1 && a.max == -1:
		out = append(out, opT("plus"))
	case a.min == 0 && a.max == -1:
		out = append(out, opT("asterisk"))
	case a.min == 0 && a.max == 1:
		out = append(out, opT("question"))
	case a.min == a.max:
		out = append(out, opT("lbrace"), numT(strconv.Itoa(a.min)), opT("rbrace"))
	default:
		out = append(out, opT("lbrace"), numT(strconv.Itoa(a.min)), opT("comma"), numT(strconv.Itoa(a.max)), opT("rbrace"))
	}
	if a.lazy {
		out = append(out, opT("question"))
	}
	return out
}

// patStr prints rsql's pattern tree in a normal form: wrappers that carry no meaning (a sequence or a
// group around a single node) are transparent; alternations are parenthesised; quantifiers are {min,max}.
func patStr(n *types.PatternNode) string {
	if n == nil {
		return "<nil>"
	}
	switch n.Kind {
	case types.PatternLiteral:
		return n.Symbol
	case types.PatternSequence, types.PatternGroup:
		var parts []string
		for _, c := range n.Children {
			parts = append(parts, patStr(c))
		}
		return strings.Join(parts, " ")
	case types.PatternAlternation:
		var parts []string
		for _, c := range n.Children {
			parts = append(parts, patStr(c))
		}
		return "(" + strings.Join(parts, " | ") + ")"
	case types.PatternRepetition:
		s := "<none>"
		if len(n.Children) == 1 {
			s = patStr(n.Children[0])
			if strings.Contains(s, " ") && !strings.HasPrefix(s, "(") {
				s = "(" + s + ")"
			}
		}
		if n.Quant == nil {
			return s + "{?}"
		}
		s += "{" + strconv.Itoa(n.Quant.Min) + "," + strconv.Itoa(n.Quant.Max) + "}"
		if !n.Quant.Greedy {
			s += "?"
		}
		return s
	}
	return "<kind " + strconv.Itoa(int(n.Kind)) + ">"
}

func genMRStmt(rng *rand.Rand) refStmt {
	var st refStmt
	tag := func(s string) { st.tags = append(st.tags, s) }
	exp := func(l ...string) { st.exp = append(st.exp, l) }
	add := func(t ...srcTok) { st.toks = append(st.toks, t...) }
	tag("match-recognize")

	add(kwT("SELECT"), opT("asterisk"))
	exp("distinct", "f")
	exp("field", "0", hx("*"), "-")
	src := pick(rng, sources)
	add(kwT("FROM"), idT(src), kwT("MATCH_RECOGNIZE"), opT("lparen"))
	exp("source", hx(src))
	exp("salias", "-")

	var part []string
	if rng.Intn(2) == 0 {
		add(kwT("PARTITION"), kwT("BY"))
		n := 1 + rng.Intn(2)
		for i := 0; i < n; i++ {
			if i > 0 {
				add(opT("comma"))
			}
			c := []string{"deviceId", "grp"}[i]
			add(idT(c))
			part = append(part, hx(c))
		}
	}
	ts := pick(rng, []string{"ts", "eventTime", "order_ts"})
	add(kwT("ORDER"), kwT("BY"), idT(ts))
	if rng.Intn(3) == 0 {
		add(kwT("ASC"))
	}
	syms := []string{"A", "B", "C", "UP", "DOWN"}
	// pattern
	na := 1 + rng.Intn(3)
	var atoms []refAtom
	used := map[string]bool{}
	for i := 0; i < na; i++ {
		a := refAtom{syms: []string{syms[rng.Intn(len(syms))]}, min: 1, max: 1}
		if rng.Intn(5) == 0 {
			a.syms = []string{syms[rng.Intn(2)], syms[2+rng.Intn(3)]}
			tag("mr-alternation")
		}
		switch rng.Intn(8) {
		case 0:
			a.min, a.max = 1, -1
		case 1:
			a.min, a.max = 0, -1
		case 2:
			a.min, a.max = 0, 1
		case 3:
			a.min, a.max = 2+rng.Intn(2), 0
			a.max = a.min
		case 4:
			a.min, a.max = 1+rng.Intn(2), 3+rng.Intn(3)
		}
		if (a.min != 1 || a.max != 1) && rng.Intn(4) == 0 {
			a.lazy = true
			tag("mr-lazy-quantifier")
		}
		for _, s := range a.syms {
			used[s] = true
		}
		atoms = append(atoms, a)
	}
	var measures [][2]string
	var mtoks [][]srcTok
	if rng.Intn(3) > 0 {
		add(kwT("MEASURES"))
		n := 1 + rng.Intn(2)
		for i := 0; i < n; i++ {
			if i > 0 {
				add(opT("comma"))
			}
			var e []srcTok
			if rng.Intn(3) == 0 {
				e = []srcTok{idT("MATCH_NUMBER"), opT("lparen"), opT("rparen")}
			} else {
				e = []srcTok{idT(atoms[0].syms[0] + "." + pick(rng, []string{"v", "temp", "limit_x"}))}
			}
			alias := []string{"peak", "mn"}[i]
			add(e...)
			add(kwT("AS"), idT(alias))
			measures = append(measures, [2]string{tokJoin(e, false), alias})
			mtoks = append(mtoks, e)
		}
	}
	rows := 0
	switch rng.Intn(3) {
	case 0:
		add(kwT("ONE"), kwT("ROW"), kwT("PER"), kwT("MATCH"))
	case 1:
		add(kwT("ALL"), kwT("ROWS"), kwT("PER"), kwT("MATCH"))
		rows = 1
	}
	add(kwT("PATTERN"), opT("lparen"))
	var pparts []string
	for _, a := range atoms {
		add(a.toks()...)
		pparts = append(pparts, a.str())
	}
	add(opT("rparen"))
	within := int64(0)
	if rng.Intn(2) == 0 {
		d := pick(rng, []string{"5m", "30s", "1h"})
		add(kwT("WITHIN"), strT('\'', d))
		within = int64(dur(d))
	}
	add(kwT("DEFINE"))
	var defs [][2]string
	first := true
	for _, s := range syms {
		if !used[s] || rng.Intn(4) == 0 && !first {
			continue
		}
		if !first {
			add(opT("comma"))
		}
		first = false
		c := []srcTok{idT(pick(rng, []string{"v", "temp", "limit_x"})), opT(pick(rng, []string{"gt", "lt", "ge", "le", "ne"})), randLiteral(rng)}
		add(idT(s), kwT("AS"))
		add(c...)
		defs = append(defs, [2]string{s, tokJoin(c, false)})
	}
	add(opT("rparen"))

	// outer clauses
	where := ""
	if rng.Intn(3) == 0 {
		var scratch []string
		c := randCond(rng, [][]srcTok{{idT("peak")}, {idT("deviceId")}}, &scratch)
		add(kwT("WHERE"))
		add(c...)
		where = tokJoin(c, true)
		tag("mr-outer-where")
	}
	exp("where", hx(where))
	exp("groupby")
	exp("window", "-")
	exp("trigger", "-")
	exp("having", "-")
	exp("with", "-", "0", "0", "0", "0")
	ob := []string{"orderby"}
	if rng.Intn(4) == 0 {
		k := pick(rng, []string{"peak", "deviceId"})
		add(kwT("ORDER"), kwT("BY"), idT(k))
		dir := "ASC"
		if rng.Intn(2) == 0 {
			add(kwT("DESC"))
			dir = "DESC"
		}
		ob = append(ob, hx(k)+":"+dir)
		tag("mr-outer-order-by")
	}
	exp(ob...)
	limit := 0
	if rng.Intn(3) == 0 {
		limit = 1 + rng.Intn(20)
		add(kwT("LIMIT"), numT(strconv.Itoa(limit)))
	}
	exp("limit", strconv.Itoa(limit))

	exp("mr", "t")
	exp(append([]string{"mr-partition"}, part...)...)
	exp("mr-orderby", hx(ts)+":ASC")
	for i, m := range measures {
		exp("mr-measure", strconv.Itoa(i), hx(m[0]), hx(m[1]))
	}
	exp("mr-rows", strconv.Itoa(rows))
	exp("mr-pattern", hx(strings.Join(pparts, " ")))
	exp("mr-within", itoa(within))
	for i, d := range defs {
		exp("mr-define", strconv.Itoa(i), hx(d[0]), hx(d[1]))
	}

	exp("c-distinct", "f")
	exp("c-limit", strconv.Itoa(limit))
	exp("c-cond", hx(where))
	exp("c-groupfields")
	exp("c-needwindow", "f")
	exp("c-window", "tumbling")
	exp("c-with", "-", "0", "0", "0", "0", "ProcessingTime")
	exp("c-statettl", "0")
	exp(append([]string{"c-orderby"}, ob[1:]...)...)
	exp("c-trigger", "-")
	exp("c-mode", "2")
	return st
}

// mrObs: the MATCH_RECOGNIZE lines of parseObs
func mrObs(mr *types.MatchRecognizeSpec) [][]string {
	if mr == nil {
		return [][]string{{"mr", "f"}}
	}
	out := [][]string{{"mr", "t"}}
	l := []string{"mr-partition"}
	for _, p := range mr.PartitionBy {
		l = append(l, hx(p))
	}
	out = append(out, l)
	l = []string{"mr-orderby"}
	for _, o := range mr.OrderBy {
		l = append(l, hx(o.Expression)+":"+string(o.Direction))
	}
	out = append(out, l)
	for i, m := range mr.Measures {
		out = append(out, []string{"mr-measure", strconv.Itoa(i), hx(canonTokens(m.Expr)), hx(m.Alias)})
	}
	out = append(out, []string{"mr-rows", strconv.Itoa(int(mr.RowsPerMatch))})
	out = append(out, []string{"mr-pattern", hx(patStr(mr.Pattern))})
	out = append(out, []string{"mr-within", itoa(int64(mr.Within))})
	for i, d := range mr.Defines {
		out = append(out, []string{"mr-define", strconv.Itoa(i), hx(d.Symbol), hx(canonTokens(d.Cond))})
	}
	return out
}
