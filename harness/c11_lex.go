package main

import (
	"math/rand"
	"strconv"
	"strings"

	"github.com/rulego/streamsql/rsql"
)

// ---------------------------------------------------------------- execution on the real lexer

// lexObs runs rsql.NewLexer over the input: one `e <type> <pos>` line per lexical error the
// lexer recorded during a NextToken call, then that call's `t <type> <value> <pos> <line> <column> <prev>` line
// (prev = readPreviousIdentifier() right after the call, through the verif accessor).
func lexObs(input string) [][]string {
	l := rsql.NewLexer(input)
	er := rsql.NewErrorRecovery(nil)
	l.SetErrorRecovery(er)
	var out [][]string
	for i := 0; i <= len(input)+1; i++ {
		n0 := len(er.GetErrors())
		tok := l.NextToken()
		for _, e := range er.GetErrors()[n0:] {
			out = append(out, []string{"e", strconv.Itoa(int(e.Type)), strconv.Itoa(e.Position)})
		}
		out = append(out, []string{"t", strconv.Itoa(int(tok.Type)), hx(tok.Value), strconv.Itoa(tok.Pos),
			strconv.Itoa(tok.Line), strconv.Itoa(tok.Column), hx(l.VerifReadPreviousIdentifier())})
		if tok.Type == rsql.TokenEOF {
			return out
		}
	}
	return append(out, []string{"no-eof-within-input-length"})
}

// ---------------------------------------------------------------- source tokens (mirror of LexSpec.Src)

type srcTok struct {
	kind string // w n m s q o
	text string // word / digits / body
	q    byte   // quote of a string
	op   string // operator name
	kw   bool   // word that the grammar treats case-insensitively (lexer keyword, or ASC/DESC/JOIN…)
}

var opText = map[string]string{
	"comma": ",", "lparen": "(", "rparen": ")", "lbracket": "[", "rbracket": "]", "dot": ".", "question": "?",
	"pipe": "|", "lbrace": "{", "rbrace": "}", "plus": "+", "minus": "-", "asterisk": "*", "slash": "/",
	"eq1": "=", "eq2": "==", "ne": "!=", "gt": ">", "lt": "<", "ge": ">=", "le": "<=",
}
var opNames = []string{"comma", "lparen", "rparen", "lbracket", "rbracket", "dot", "question", "pipe", "lbrace", "rbrace",
	"plus", "minus", "asterisk", "slash", "eq1", "eq2", "ne", "gt", "lt", "ge", "le"}

func (t srcTok) enc() string {
	switch t.kind {
	case "s":
		return "s:" + strconv.Itoa(int(t.q)) + ":" + hx(t.text)
	case "o":
		return "o:" + t.op
	default:
		return t.kind + ":" + hx(t.text)
	}
}

func flipCase(b byte) byte {
	switch {
	case 'a' <= b && b <= 'z':
		return b - 32
	case 'A' <= b && b <= 'Z':
		return b + 32
	}
	return b
}

// spelled returns the token's text under a case mask ("" / "-" = none; '1' flips that byte; words only)
func (t srcTok) spelled(mask string) string {
	switch t.kind {
	case "w":
		b := []byte(t.text)
		for i := 0; i < len(b) && i < len(mask); i++ {
			if mask[i] == '1' {
				b[i] = flipCase(b[i])
			}
		}
		return string(b)
	case "n":
		return t.text
	case "m":
		return "-" + t.text
	case "s":
		return string(t.q) + t.text + string(t.q)
	case "q":
		return "`" + t.text + "`"
	default:
		return opText[t.op]
	}
}

// needSep mirrors LexSpec.needSep.
func needSep(a, b srcTok) bool {
	switch a.kind {
	case "w":
		return b.kind == "w" || b.kind == "n" || (b.kind == "o" && b.op == "dot")
	case "n", "m":
		return b.kind == "n" || (b.kind == "o" && b.op == "dot")
	case "o":
		switch a.op {
		case "minus":
			return b.kind == "n"
		case "eq1", "gt", "lt":
			return b.kind == "o" && (b.op == "eq1" || b.op == "eq2")
		}
	}
	return false
}

var wsChoices = []string{" ", "\t", "\n", "\r\n", "  ", " \n ", "\t\t", "\r"}

func randWs(rng *rand.Rand) string {
	s := wsChoices[rng.Intn(len(wsChoices))]
	if rng.Intn(4) == 0 {
		s += wsChoices[rng.Intn(len(wsChoices))]
	}
	return s
}

func randMask(rng *rand.Rand, n int, style int) string {
	b := make([]byte, n)
	for i := range b {
		b[i] = '0'
		switch style {
		case 1: // flip everything
			b[i] = '1'
		case 2: // random
			if rng.Intn(2) == 0 {
				b[i] = '1'
			}
		case 3: // first letter only
			if i == 0 {
				b[i] = '1'
			}
		}
	}
	if n == 0 {
		return "-"
	}
	return string(b)
}

var lexKeywords = []string{"SELECT", "FROM", "WHERE", "GROUP", "BY", "AS", "OR", "AND", "TUMBLINGWINDOW", "SLIDINGWINDOW",
	"COUNTINGWINDOW", "SESSIONWINDOW", "GLOBAL", "WINDOW", "TRIGGER", "WITH", "TIMESTAMP", "TIMEUNIT", "MAXOUTOFORDERNESS",
	"ALLOWEDLATENESS", "IDLETIMEOUT", "STATETTL", "ORDER", "DISTINCT", "LIMIT", "HAVING", "LIKE", "IS", "NULL", "NOT",
	"CASE", "WHEN", "THEN", "ELSE", "END", "OVER", "PARTITION"}
var lexTypos = []string{"SELCT", "SELECCT", "SELET", "FORM", "FRON", "FRMO", "WHER", "WHRE", "WEHRE", "GROPU", "GRUP", "GRPUP",
	"ODER", "ORDR", "OREDR", "DSITINCT", "DISTINC", "DISTINT"}
var lexIdents = []string{"a", "b1", "x_y", "_t", "deviceId", "s.a", "a.b.c", "limit_x", "orderby", "fromage", "selects", "t1.", "a..b", "Z9"}
var lexNumbers = []string{"0", "1", "42", "3.14", "1.2.3", "5.", "10..2", "007", "9007199254740993"}
var lexBodies = []string{"", "x", "LIMIT 1", "ORDER BY a", " WHERE x = 1 ", "FROM t", "select * from s", "a,b", "it", "%_", "\t\n", "--", "é", "\xff\xfe"}

func randSrcTok(rng *rand.Rand) srcTok {
	switch k := rng.Intn(20); {
	case k < 4:
		return srcTok{kind: "w", text: lexKeywords[rng.Intn(len(lexKeywords))], kw: true}
	case k < 5:
		return srcTok{kind: "w", text: lexTypos[rng.Intn(len(lexTypos))]}
	case k < 8:
		return srcTok{kind: "w", text: lexIdents[rng.Intn(len(lexIdents))]}
	case k < 10:
		return srcTok{kind: "n", text: lexNumbers[rng.Intn(len(lexNumbers))]}
	case k < 11:
		return srcTok{kind: "m", text: lexNumbers[rng.Intn(len(lexNumbers))]}
	case k < 14:
		q := byte('\'')
		other := "\""
		if rng.Intn(3) == 0 {
			q, other = '"', "'"
		}
		body := lexBodies[rng.Intn(len(lexBodies))]
		if rng.Intn(4) == 0 {
			body += other + lexBodies[rng.Intn(len(lexBodies))] // the other quote inside is plain text
		}
		if rng.Intn(6) == 0 {
			body += "`"
		}
		return srcTok{kind: "s", text: body, q: q}
	case k < 15:
		body := lexBodies[rng.Intn(len(lexBodies))]
		if rng.Intn(4) == 0 {
			body += "'"
		}
		return srcTok{kind: "q", text: body}
	default:
		return srcTok{kind: "o", op: opNames[rng.Intn(len(opNames))]}
	}
}

// renderOp builds a `lexr` op: tokens with the whitespace before each and a case mask.
// glue=false: whitespace wherever LexSpec.needSep asks for it (and randomly elsewhere);
// glue=true: one required separator is dropped on purpose (the layout theorem's hypothesis fails;
// the correspondence and the tokenization oracle still apply).
func renderOp(rng *rand.Rand, toks []srcTok, glue bool) ([]string, string) {
	var sb strings.Builder
	var enc []string
	drop := -1
	if glue {
		var cands []int
		for i := 1; i < len(toks); i++ {
			if needSep(toks[i-1], toks[i]) {
				cands = append(cands, i)
			}
		}
		if len(cands) > 0 {
			drop = cands[rng.Intn(len(cands))]
		}
	}
	for i, t := range toks {
		pre := ""
		must := i > 0 && needSep(toks[i-1], t)
		if i == drop {
			must = false
		} else if must || rng.Intn(3) == 0 {
			pre = randWs(rng)
		}
		mask := "-"
		if t.kind == "w" && rng.Intn(2) == 0 {
			mask = randMask(rng, len(t.text), 1+rng.Intn(3))
		}
		sb.WriteString(pre)
		sb.WriteString(t.spelled(mask))
		enc = append(enc, t.enc(), hx(pre), mask)
	}
	trail := ""
	if rng.Intn(3) == 0 {
		trail = randWs(rng)
	}
	sb.WriteString(trail)
	return append([]string{"lexr", hx(sb.String()), hx(trail)}, enc...), sb.String()
}

var sqlishAlphabet = []byte("abzAZ_09 .,()*'\"`-=<>!+/[]{}?|%;:#\t\n\r")

func randBytes(rng *rand.Rand) string {
	n := rng.Intn(24)
	b := make([]byte, n)
	switch rng.Intn(4) {
	case 0: // any byte, NUL included
		for i := range b {
			b[i] = byte(rng.Intn(256))
		}
	case 1: // sql-ish punctuation soup
		for i := range b {
			b[i] = sqlishAlphabet[rng.Intn(len(sqlishAlphabet))]
		}
	case 2: // keyword soup with odd separators
		var sb strings.Builder
		for sb.Len() < n {
			w := lexKeywords[rng.Intn(len(lexKeywords))]
			if rng.Intn(4) == 0 {
				w = lexTypos[rng.Intn(len(lexTypos))]
			}
			if rng.Intn(2) == 0 {
				w = strings.ToLower(w)
			}
			sb.WriteString(w)
			sb.WriteByte(sqlishAlphabet[rng.Intn(len(sqlishAlphabet))])
		}
		return sb.String()
	default: // digits, dots, minus signs
		al := []byte("0123456789..--a ")
		for i := range b {
			b[i] = al[rng.Intn(len(al))]
		}
	}
	if n > 0 && rng.Intn(10) == 0 {
		b[rng.Intn(n)] = 0
	}
	return string(b)
}

func genLexCase(rng *rand.Rand) Case {
	var c Case
	c.Cfg = append(c.Cfg, []string{"kind", "lexer"})
	seen := map[string]bool{}
	stat := func(s string) {
		if !seen[s] {
			seen[s] = true
			c.Stat = append(c.Stat, s)
		}
	}
	for i := 0; i < 14; i++ {
		switch k := rng.Intn(10); {
		case k < 4:
			c.Ops = append(c.Ops, []string{"lex", hx(randBytes(rng))})
			stat("lex-random-bytes")
		default:
			n := 1 + rng.Intn(9)
			toks := make([]srcTok, n)
			for j := range toks {
				toks[j] = randSrcTok(rng)
			}
			glue := k == 9
			op, _ := renderOp(rng, toks, glue)
			c.Ops = append(c.Ops, op)
			if glue {
				stat("lex-rendered-glued")
			} else {
				stat("lex-rendered")
			}
		}
	}
	return c
}
