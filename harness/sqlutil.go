package main

import (
	"time"

	"github.com/rulego/streamsql"
	"github.com/rulego/streamsql/schema"
)

// runRowQuery executes a non-aggregating query on one row through EmitSync.
// ok=false when Execute failed.
func runRowQuery(sql string, row map[string]interface{}) (out map[string]interface{}, execErr error, emitErr error) {
	opts := []streamsql.Option{presetOpt(), streamsql.WithDiscardLog()}
	if curNoise {
		// an input schema that says nothing about the query's columns; a row that it rejects (wrong type for zt) and that
		// carries text in every column the queries read goes first — the observed row is judged on its own
		opts = append(opts, streamsql.WithSchema(schema.Schema{Name: "noise", Fields: []schema.FieldDef{{Name: "zt", Type: schema.TypeFloat}}}))
	}
	s := streamsql.New(opts...)
	defer s.Stop()
	if err := s.Execute(sql); err != nil {
		return nil, err, nil
	}
	if curNoise {
		leak := map[string]interface{}{"zt": "bad", "id": "leak", "x": "leak", "y": "leak", "k": "leak", "name": "leak", "v": "leak",
			"b": map[string]interface{}{"x": "leak"}, "a": map[string]interface{}{"b": map[string]interface{}{"x": "leak"}}}
		_, _ = s.EmitSync(leak)
	}
	out, err := s.EmitSync(row)
	return out, nil, err
}

// runBatches executes an aggregating query, emitting rows and collecting sink
// deliveries until `want` batches arrived or the settle timeout expired.
func runBatches(sql string, rows []map[string]interface{}, want int, settle time.Duration) ([][]map[string]interface{}, error) {
	return runBatchesUntil(sql, rows, func(got [][]map[string]interface{}) bool { return len(got) >= want }, settle)
}

// runBatchesUntil collects sink deliveries until done(got) or the settle timeout.
func runBatchesUntil(sql string, rows []map[string]interface{}, done func([][]map[string]interface{}) bool, settle time.Duration) ([][]map[string]interface{}, error) {
	s := streamsql.New(presetOpt(), streamsql.WithDiscardLog())
	defer s.Stop()
	if err := s.Execute(sql); err != nil {
		return nil, err
	}
	ch := make(chan []map[string]interface{}, 1024)
	s.AddSyncSink(func(r []map[string]interface{}) {
		cp := make([]map[string]interface{}, len(r))
		copy(cp, r)
		ch <- cp
	})
	for _, r := range rows {
		s.Emit(r)
	}
	var got [][]map[string]interface{}
	deadline := time.After(settle)
	for !done(got) {
		select {
		case b := <-ch:
			got = append(got, b)
		case <-deadline:
			return got, nil
		}
	}
	return got, nil
}
