package main

import (
	"fmt"
	"math"
	"math/rand"
	"sort"
	"strconv"
	"strings"
	"time"

	"github.com/rulego/streamsql"
	"github.com/rulego/streamsql/cep"
	"github.com/rulego/streamsql/types"
)

// C15 — MATCH_RECOGNIZE: valid leftmost-longest matches per partition.
//
// A case is one query (pattern tree, DEFINE conditions, SKIP mode, WITHIN, ONE/ALL ROWS) and
// one interleaved stream of ≤ 12 rows over 1–3 partitions, executed either on cep.Engine
// directly (Process / Flush, observables per op) or through SQL (Execute / Emit / Stop,
// observables collected by a sync sink and shown at the final `flush` op).
//
// Row ids are distinct powers of two in arrival order, so the measure SUM(id) names the exact
// set of rows of a match.
type c15 struct{}

func init() { registry["C15"] = c15{} }

func (c15) Count(tier string) int {
	if tier == "thorough" {
		return 6000
	}
	return 400
}

// ---------------------------------------------------------------- pattern trees

type c15pnode struct {
	kind     byte // L S A G R P X
	sym      int
	children []*c15pnode
	min, max int
	greedy   bool
}

var c15symNames = []string{"A", "a", "B", "C"} // "a": pattern variables are case-sensitive, A and a are two variables

func (n *c15pnode) tokens() []string {
	switch n.kind {
	case 'L':
		return []string{"L", strconv.Itoa(n.sym)}
	case 'X':
		return []string{"X"}
	case 'R':
		g := "g"
		if !n.greedy {
			g = "r"
		}
		return append([]string{"R", strconv.Itoa(n.min), strconv.Itoa(n.max), g}, n.children[0].tokens()...)
	}
	out := []string{string(n.kind), strconv.Itoa(len(n.children))}
	for _, c := range n.children {
		out = append(out, c.tokens()...)
	}
	return out
}

func c15parsePTokens(t []string) (*c15pnode, []string) {
	if len(t) == 0 {
		panic("pattern tokens exhausted")
	}
	switch t[0] {
	case "L":
		s, _ := strconv.Atoi(t[1])
		return &c15pnode{kind: 'L', sym: s}, t[2:]
	case "X":
		return &c15pnode{kind: 'X'}, t[1:]
	case "R":
		mn, _ := strconv.Atoi(t[1])
		mx, _ := strconv.Atoi(t[2])
		c, rest := c15parsePTokens(t[4:])
		return &c15pnode{kind: 'R', min: mn, max: mx, greedy: t[3] == "g", children: []*c15pnode{c}}, rest
	}
	n, _ := strconv.Atoi(t[1])
	node := &c15pnode{kind: t[0][0]}
	rest := t[2:]
	for i := 0; i < n; i++ {
		var c *c15pnode
		c, rest = c15parsePTokens(rest)
		node.children = append(node.children, c)
	}
	return node, rest
}

func (n *c15pnode) toTypes() *types.PatternNode {
	out := &types.PatternNode{}
	for _, c := range n.children {
		out.Children = append(out.Children, c.toTypes())
	}
	switch n.kind {
	case 'L':
		out.Kind, out.Symbol = types.PatternLiteral, c15symNames[n.sym]
	case 'S':
		out.Kind = types.PatternSequence
	case 'A':
		out.Kind = types.PatternAlternation
	case 'G':
		out.Kind = types.PatternGroup
	case 'P':
		out.Kind = types.PatternPermute
	case 'X':
		out.Kind = types.PatternExclusion
	case 'R':
		out.Kind = types.PatternRepetition
		out.Quant = &types.Quantifier{Min: n.min, Max: n.max, Greedy: n.greedy}
	}
	return out
}

// sql renders the tree the way the parser reads it back into the same tree.
func (n *c15pnode) sql() string {
	switch n.kind {
	case 'L':
		return c15symNames[n.sym]
	case 'S':
		var p []string
		for _, c := range n.children {
			p = append(p, c.sql())
		}
		return strings.Join(p, " ")
	case 'A':
		var p []string
		for _, c := range n.children {
			p = append(p, c.sql())
		}
		return strings.Join(p, " | ")
	case 'G':
		return "(" + n.children[0].sql() + ")"
	case 'P':
		var p []string
		for _, c := range n.children {
			p = append(p, c.sql())
		}
		return "PERMUTE(" + strings.Join(p, ", ") + ")"
	case 'R':
		q := ""
		switch {
		case n.min == 0 && n.max == 1:
			q = "?"
		case n.min == 0 && n.max < 0:
			q = "*"
		case n.min == 1 && n.max < 0:
			q = "+"
		case n.max < 0:
			q = fmt.Sprintf("{%d,}", n.min)
		case n.max == n.min:
			q = fmt.Sprintf("{%d}", n.min)
		default:
			q = fmt.Sprintf("{%d,%d}", n.min, n.max)
		}
		if !n.greedy {
			q += "?"
		}
		return n.children[0].sql() + q
	}
	return "{- A -}"
}

// sqlOK: the tree is in the shape the SQL grammar produces (so SQL mode can be used).
func (n *c15pnode) sqlOK() bool {
	for _, c := range n.children {
		if !c.sqlOK() {
			return false
		}
	}
	switch n.kind {
	case 'X':
		return false
	case 'S':
		if len(n.children) < 2 {
			return false
		}
		for _, c := range n.children {
			if c.kind == 'S' || c.kind == 'A' {
				return false
			}
		}
	case 'A':
		if len(n.children) < 2 {
			return false
		}
		for _, c := range n.children {
			if c.kind == 'A' {
				return false
			}
		}
	case 'G':
		return len(n.children) == 1
	case 'P':
		return len(n.children) >= 1
	case 'R':
		k := n.children[0].kind
		if k != 'L' && k != 'G' && k != 'P' {
			return false
		}
		if n.min < 0 || (n.max >= 0 && n.max < n.min) {
			return false
		}
	}
	return true
}

type c15patGen struct {
	rng     *rand.Rand
	nsym    int
	lazy    bool // every quantifier reluctant
	budget  int  // remaining literals
	permute bool
}

func (g *c15patGen) lit() *c15pnode {
	g.budget--
	return &c15pnode{kind: 'L', sym: g.rng.Intn(g.nsym)}
}

func (g *c15patGen) atom(depth int) *c15pnode {
	r := g.rng.Intn(20)
	switch {
	case depth > 0 && r < 5 && g.budget > 1:
		return &c15pnode{kind: 'G', children: []*c15pnode{g.alt(depth - 1)}}
	case depth > 0 && r == 5 && g.budget > 1 && !g.permute:
		g.permute = true
		n := 2 + g.rng.Intn(2)
		p := &c15pnode{kind: 'P'}
		for i := 0; i < n; i++ {
			p.children = append(p.children, g.lit())
		}
		return p
	}
	return g.lit()
}

func (g *c15patGen) quantified(depth int) *c15pnode {
	a := g.atom(depth)
	r := g.rng.Intn(20)
	var mn, mx int
	switch {
	case r < 9:
		return a
	case r < 11:
		mn, mx = 0, 1
	case r < 13:
		mn, mx = 0, -1
	case r < 16:
		mn, mx = 1, -1
	case r < 17:
		mn = 1 + g.rng.Intn(3)
		mx = mn
	case r < 19:
		mn = g.rng.Intn(3)
		mx = mn + 1 + g.rng.Intn(2)
	default:
		mn, mx = 2, -1
	}
	return &c15pnode{kind: 'R', min: mn, max: mx, greedy: !g.lazy, children: []*c15pnode{a}}
}

func (g *c15patGen) seq(depth int) *c15pnode {
	n := 1 + g.rng.Intn(3)
	if g.rng.Intn(6) == 0 {
		n = 4
	}
	var cs []*c15pnode
	for i := 0; i < n && (i == 0 || g.budget > 0); i++ {
		cs = append(cs, g.quantified(depth))
	}
	if len(cs) == 1 {
		return cs[0]
	}
	return &c15pnode{kind: 'S', children: cs}
}

func (g *c15patGen) alt(depth int) *c15pnode {
	n := 1
	switch r := g.rng.Intn(20); {
	case r < 6:
		n = 2
	case r < 7:
		n = 3
	}
	var cs []*c15pnode
	for i := 0; i < n && (i == 0 || g.budget > 0); i++ {
		cs = append(cs, g.seq(depth))
	}
	if len(cs) == 1 {
		return cs[0]
	}
	return &c15pnode{kind: 'A', children: cs}
}

// c15oddTree: shapes only reachable by building the spec by hand (direct mode), incl. the ones Compile rejects.
func c15oddTree(rng *rand.Rand, nsym int) *c15pnode {
	l := func() *c15pnode { return &c15pnode{kind: 'L', sym: rng.Intn(nsym)} }
	switch rng.Intn(8) {
	case 0: // max < min
		return &c15pnode{kind: 'R', min: 3, max: 1, greedy: true, children: []*c15pnode{l()}}
	case 1:
		return &c15pnode{kind: 'S', children: []*c15pnode{l(), {kind: 'X'}}}
	case 2: // 7 symbols in PERMUTE
		p := &c15pnode{kind: 'P'}
		for i := 0; i < 7; i++ {
			p.children = append(p.children, l())
		}
		return p
	case 3: // negative min
		return &c15pnode{kind: 'R', min: -1, max: 2, greedy: true, children: []*c15pnode{l()}}
	case 4: // empty sequence inside a sequence, {0}
		return &c15pnode{kind: 'S', children: []*c15pnode{l(), {kind: 'S'}, {kind: 'R', min: 0, max: 0, greedy: true, children: []*c15pnode{l()}}, l()}}
	case 5: // repetition directly over a sequence / alternation (no group node)
		return &c15pnode{kind: 'R', min: 1, max: -1, greedy: true, children: []*c15pnode{{kind: 'S', children: []*c15pnode{l(), l()}}}}
	case 6: // nested unbounded repetition with a nullable body
		return &c15pnode{kind: 'S', children: []*c15pnode{{kind: 'R', min: 0, max: -1, greedy: true, children: []*c15pnode{{kind: 'G', children: []*c15pnode{{kind: 'R', min: 0, max: -1, greedy: true, children: []*c15pnode{l()}}}}}}, l()}}
	default: // empty group, single-child alternation
		return &c15pnode{kind: 'S', children: []*c15pnode{{kind: 'G'}, {kind: 'A', children: []*c15pnode{l()}}, l()}}
	}
}

// sample draws the symbols of one word of the pattern's language (bounded repetition counts).
func (n *c15pnode) sample(rng *rand.Rand, out *[]int) {
	switch n.kind {
	case 'L':
		*out = append(*out, n.sym)
	case 'S':
		for _, c := range n.children {
			c.sample(rng, out)
		}
	case 'A':
		if len(n.children) > 0 {
			n.children[rng.Intn(len(n.children))].sample(rng, out)
		}
	case 'G':
		if len(n.children) > 0 {
			n.children[0].sample(rng, out)
		}
	case 'P':
		for _, i := range rng.Perm(len(n.children)) {
			n.children[i].sample(rng, out)
		}
	case 'R':
		lo, hi := n.min, n.max
		if lo < 0 {
			lo = 0
		}
		if hi < 0 {
			hi = lo + 3
		}
		if hi < lo {
			hi = lo
		}
		k := lo + rng.Intn(hi-lo+1)
		for i := 0; i < k; i++ {
			n.children[0].sample(rng, out)
		}
	}
}

// ---------------------------------------------------------------- DEFINE conditions

type c15atom struct{ op, l, r string } // driver tokens (see Driver/C15.lean parseTerm)

var c15opSQL = map[string]string{"eq": "==", "ne": "!=", "gt": ">", "ge": ">=", "lt": "<", "le": "<="}

func c15termSQL(t string) string {
	symOf := func(s string) string {
		if s == "" {
			return ""
		}
		i, _ := strconv.Atoi(s)
		return c15symNames[i]
	}
	switch {
	case t == "v" || t == "c" || t == "w":
		return t
	case t == "first":
		return "FIRST(v)"
	case strings.HasPrefix(t, "k"):
		return t[1:]
	case strings.HasPrefix(t, "pv"):
		if t[2:] == "1" {
			return "PREV(v)"
		}
		return "PREV(v, " + t[2:] + ")"
	case strings.HasPrefix(t, "sum"):
		if s := symOf(t[3:]); s != "" {
			return "SUM(" + s + ".v)"
		}
		return "SUM(v)"
	case strings.HasPrefix(t, "cnt"):
		if s := symOf(t[3:]); s != "" {
			return "COUNT(" + s + ".*)"
		}
		return "COUNT(*)"
	case strings.HasPrefix(t, "max"):
		if s := symOf(t[3:]); s != "" {
			return "MAX(" + s + ".v)"
		}
		return "MAX(v)"
	case strings.HasPrefix(t, "min"):
		if s := symOf(t[3:]); s != "" {
			return "MIN(" + s + ".v)"
		}
		return "MIN(v)"
	case strings.HasPrefix(t, "sf"):
		return symOf(t[2:]) + ".v"
	}
	panic("bad term " + t)
}

func c15condSQL(as []c15atom) string {
	var p []string
	for _, a := range as {
		p = append(p, c15termSQL(a.l)+" "+c15opSQL[a.op]+" "+c15termSQL(a.r))
	}
	return strings.Join(p, " AND ")
}

func c15k(i int) string { return "k" + strconv.Itoa(i) }

// c15extraAtom: a condition over the current row, PREV or one aggregate.
func c15extraAtom(rng *rand.Rand, nsym int) (c15atom, string) {
	s := strconv.Itoa(rng.Intn(nsym))
	switch rng.Intn(12) {
	case 0:
		return c15atom{"gt", "v", c15k(2 + rng.Intn(4))}, "def-cur"
	case 1:
		return c15atom{"le", "v", c15k(4 + rng.Intn(4))}, "def-cur"
	case 2:
		return c15atom{"gt", "v", "pv1"}, "def-prev"
	case 3:
		return c15atom{"lt", "v", "pv1"}, "def-prev"
	case 4:
		return c15atom{"ge", "v", "pv2"}, "def-prev"
	case 5:
		return c15atom{"le", "sum", c15k(8 + rng.Intn(12))}, "def-agg"
	case 6:
		return c15atom{"le", "cnt", c15k(2 + rng.Intn(3))}, "def-agg"
	case 7:
		return c15atom{"lt", "sum" + s, c15k(6 + rng.Intn(8))}, "def-agg-sym"
	case 8:
		return c15atom{"lt", "cnt" + s, c15k(2 + rng.Intn(2))}, "def-agg-sym"
	case 9:
		return c15atom{"gt", "v", "sf" + s}, "def-symfield"
	case 10:
		return c15atom{"ge", "v", "max" + s}, "def-agg-sym"
	default:
		return c15atom{"ge", "v", "first"}, "def-first"
	}
}

// ---------------------------------------------------------------- generator

func (c15) Gen(rng *rand.Rand, tier string, idx int) Case {
	var c Case
	stat := func(s string) { c.Stat = append(c.Stat, s) }
	nsym := 1 + rng.Intn(4)
	lazy := rng.Intn(8) == 0
	var tree *c15pnode
	odd := rng.Intn(14) == 0
	if odd {
		tree = c15oddTree(rng, nsym)
		stat("pattern-odd-shape")
	} else {
		g := &c15patGen{rng: rng, nsym: nsym, lazy: lazy, budget: 2 + rng.Intn(5)}
		tree = g.alt(2)
		if g.permute {
			stat("pattern-permute")
		}
	}
	sqlMode := tree.sqlOK() && rng.Intn(3) == 0
	mode := "direct"
	if sqlMode {
		mode = "sql"
	}
	allRows := rng.Intn(2) == 0
	rowsTok := "one"
	if allRows {
		rowsTok = "all"
	}
	// DEFINE: exclusive classes (c == symbol index, classification forced by the row) or free
	exclusive := rng.Intn(2) == 0
	var defs [][]c15atom = make([][]c15atom, nsym)
	defined := make([]bool, nsym)
	for s := 0; s < nsym; s++ {
		if exclusive {
			defs[s] = []c15atom{{"eq", "c", c15k(s)}}
			defined[s] = true
			if rng.Intn(3) == 0 {
				a, tag := c15extraAtom(rng, nsym)
				defs[s] = append(defs[s], a)
				stat(tag)
			}
			continue
		}
		switch rng.Intn(5) {
		case 0: // undefined variable: always true
			stat("def-undefined")
		case 1:
			defs[s] = []c15atom{{"le", "c", c15k(s + 1)}}
			defined[s] = true
		case 2:
			defs[s] = []c15atom{{"ge", "c", c15k(s)}}
			defined[s] = true
		default:
			a, tag := c15extraAtom(rng, nsym)
			defs[s] = []c15atom{a}
			defined[s] = true
			stat(tag)
			if rng.Intn(2) == 0 {
				defs[s] = append([]c15atom{{"ne", "c", c15k((s + 1) % 4)}}, defs[s]...)
			}
		}
	}
	// poison rows: every DEFINE also asks `w > 0`; most rows carry w = 1, a few carry the STRING "x", on which the
	// comparison raises an evaluation error — such a row satisfies no DEFINE, and must leave nothing behind for
	// the rows (of any partition) evaluated after it
	poison := rng.Intn(5) == 0
	if poison {
		for s := 0; s < nsym; s++ {
			if defined[s] {
				defs[s] = append(defs[s], c15atom{"gt", "w", c15k(0)})
			}
		}
		stat("poison-rows")
	}
	if exclusive {
		stat("classes-exclusive")
	} else {
		stat("classes-overlapping")
	}
	// SKIP
	skip := []string{"past"}
	switch r := rng.Intn(10); {
	case r < 4:
	case r < 7:
		skip = []string{"next"}
	case exclusive && r == 7:
		skip = []string{"first", strconv.Itoa(rng.Intn(nsym))}
	case exclusive && r == 8:
		skip = []string{"last", strconv.Itoa(rng.Intn(nsym))}
	}
	within := 0
	if rng.Intn(4) == 0 {
		within = []int{2, 3, 5, 8}[rng.Intn(4)]
		stat("within-set")
		if rng.Intn(2) == 0 {
			c.Cfg = append(c.Cfg, []string{"wfrac", "1"})
			stat("within-fractional-number")
		}
	}
	if !sqlMode && within > 0 && rng.Intn(2) == 0 {
		// the small timestamps of the rows ride on a real epoch, in seconds, milliseconds, microseconds or nanoseconds (the
		// engine guesses the unit from the magnitude); WITHIN is the same number of those units
		c.Cfg = append(c.Cfg, []string{"tsscale", []string{"s", "ms", "us", "ns"}[rng.Intn(4)]})
		stat("epoch-timestamps")
	}
	if rng.Intn(3) == 0 {
		// the partition cap set to exactly the number of partitions of the case: reached, never exceeded, so no partition may be evicted
		c.Cfg = append(c.Cfg, []string{"pcap", "1"})
		stat("partition-cap-equals-partitions")
	}
	c.Cfg = append(c.Cfg, []string{"mode", mode}, []string{"rows", rowsTok}, append([]string{"skip"}, skip...),
		[]string{"within", strconv.Itoa(within)}, []string{"cls", "t"}, append([]string{"pat"}, tree.tokens()...))
	if !sqlMode && rng.Intn(10) == 0 {
		c.Cfg = append(c.Cfg, []string{"maxrows", strconv.Itoa(1 + rng.Intn(3))})
		stat("maxrows-set")
	}
	for s := 0; s < nsym; s++ {
		if defined[s] {
			l := []string{"def", strconv.Itoa(s)}
			for _, a := range defs[s] {
				l = append(l, a.op, a.l, a.r)
			}
			c.Cfg = append(c.Cfg, l)
		}
	}
	// rows: per partition a concatenation of sampled words, near misses and noise; then interleave
	nparts := 1 + rng.Intn(3)
	total := 4 + rng.Intn(9) // ≤ 12
	// long streams only where the reference matcher stays polynomial: forced classification, or
	// no DEFINE condition that looks at the classification of earlier rows
	labelSensitive := false
	for _, d := range defs {
		for _, a := range d {
			for _, t := range []string{a.l, a.r} {
				if len(t) > 3 && (strings.HasPrefix(t, "sum") || strings.HasPrefix(t, "cnt") || strings.HasPrefix(t, "max") || strings.HasPrefix(t, "min")) || strings.HasPrefix(t, "sf") {
					labelSensitive = true
				}
			}
		}
	}
	if tier == "thorough" && rng.Intn(4) == 0 && (exclusive || !labelSensitive) {
		total = 12 + rng.Intn(7)
	}
	parts := []string{"P", "Q", "R"}[:nparts]
	if rng.Intn(6) == 0 {
		parts[0] = "" // empty partition key
	}
	seqs := make([][]int, nparts) // class per row
	remaining := total
	for p := 0; p < nparts; p++ {
		want := remaining / (nparts - p)
		if p < nparts-1 && want > 1 {
			want = want - 1 + rng.Intn(3)
		}
		if want > remaining {
			want = remaining
		}
		var cls []int
		for len(cls) < want {
			switch rng.Intn(5) {
			case 0: // noise
				cls = append(cls, rng.Intn(4))
			default:
				var w []int
				tree.sample(rng, &w)
				if len(w) > 0 && rng.Intn(4) == 0 { // near miss
					w[rng.Intn(len(w))] = rng.Intn(4)
				}
				if len(w) > 0 && rng.Intn(6) == 0 {
					w = w[:len(w)-1]
				}
				cls = append(cls, w...)
			}
		}
		if len(cls) > want {
			cls = cls[:want]
		}
		seqs[p] = cls
		remaining -= len(cls)
	}
	c.Ops = append(c.Ops, []string{"new"})
	pos := make([]int, nparts)
	naps := 0
	ts := int64(0)
	id := int64(1)
	for {
		var avail []int
		for p := range seqs {
			if pos[p] < len(seqs[p]) {
				avail = append(avail, p)
			}
		}
		if len(avail) == 0 {
			break
		}
		p := avail[rng.Intn(len(avail))]
		if rng.Intn(3) > 0 && pos[p] > 0 { // keep some runs of one partition contiguous
			// stay
		}
		switch r := rng.Intn(10); {
		case r < 7:
			ts++
		case r < 9:
			ts += 3
		default:
			ts += 7
		}
		cl := seqs[p][pos[p]]
		pos[p]++
		v := rng.Intn(10)
		op := []string{"row", hx(parts[p]), itoa(id), itoa(ts), strconv.Itoa(cl), strconv.Itoa(v)}
		if poison {
			if rng.Intn(6) == 0 {
				op = append(op, "x")
			} else {
				op = append(op, "1")
			}
		}
		c.Ops = append(c.Ops, op)
		if sqlMode && within > 0 && naps < 2 && rng.Intn(6) == 0 {
			// a pause longer than the WITHIN sweeper's period (50 ms at least): the sweeper works on epoch-sized
			// timestamps only and must leave these partial matches alone
			c.Ops = append(c.Ops, []string{"nap"})
			naps++
			stat("nap-between-rows")
		}
		id *= 2
	}
	// keep the case away from the maxRuns guard (and the model's run list small): replay the
	// rows on a scratch engine and cut the stream where one partition holds too many runs
	if cut := c15cutAt(c, 150); cut < len(c.Ops) {
		c.Ops = c.Ops[:cut]
		stat("stream-cut-run-explosion")
	}
	c.Ops = append(c.Ops, []string{"flush"})
	if nparts > 1 {
		stat("partitions>1")
	}
	if lazy {
		stat("reluctant")
	}
	stat("skip-" + skip[0])
	stat("mode-" + mode)
	return c
}

// c15cutAt returns the index of the first row op after which some partition would hold more
// than `limit` live runs (len(c.Ops) if none).
func c15cutAt(c Case, limit int) int {
	cf := c15parse(c.Cfg)
	eng, err := cep.NewEngine(cf.spec())
	if err != nil {
		return len(c.Ops)
	}
	for i, op := range c.Ops {
		if op[0] != "row" {
			continue
		}
		row := c15row(op)
		row["ts"] = row["ts"].(int64) + cf.tsBase
		eng.Process(row, row["p"].(string))
		if r, _ := eng.VerifMaxRuns(); r > limit {
			return i
		}
	}
	return len(c.Ops)
}

// ---------------------------------------------------------------- execution

type c15conf struct {
	sql, allRows bool
	skip         []string
	within       int
	wfrac        bool // WITHIN written as a fractional number of microseconds
	tsBase       int64 // cfg tsscale: the rows' timestamps are tsBase + t, WITHIN is within × tsUnit nanoseconds
	tsUnit       int64
	maxRows      int
	tree         *c15pnode
	defs         map[int][]c15atom
}

func c15parse(cfg [][]string) c15conf {
	cf := c15conf{defs: map[int][]c15atom{}, skip: []string{"past"}, tsUnit: 1}
	for _, l := range cfg {
		switch l[0] {
		case "tsscale":
			switch l[1] {
			case "s":
				cf.tsBase, cf.tsUnit = 1_700_000_000, 1_000_000_000
			case "ms":
				cf.tsBase, cf.tsUnit = 1_700_000_000_000, 1_000_000
			case "us":
				cf.tsBase, cf.tsUnit = 1_700_000_000_000_000, 1_000
			case "ns":
				cf.tsBase, cf.tsUnit = 1_700_000_000_000_000_000, 1
			}
		case "mode":
			cf.sql = l[1] == "sql"
		case "rows":
			cf.allRows = l[1] == "all"
		case "skip":
			cf.skip = l[1:]
		case "within":
			cf.within, _ = strconv.Atoi(l[1])
		case "wfrac":
			cf.wfrac = true
		case "maxrows":
			cf.maxRows, _ = strconv.Atoi(l[1])
		case "pat":
			cf.tree, _ = c15parsePTokens(l[1:])
		case "def":
			s, _ := strconv.Atoi(l[1])
			for i := 2; i+3 <= len(l); i += 3 {
				cf.defs[s] = append(cf.defs[s], c15atom{l[i], l[i+1], l[i+2]})
			}
		}
	}
	return cf
}

func (cf c15conf) measures() []types.Measure {
	if cf.allRows {
		return []types.Measure{{Expr: "MATCH_NUMBER()", Alias: "mn"}, {Expr: "CLASSIFIER()", Alias: "cls"},
			{Expr: "COUNT(*)", Alias: "n"}, {Expr: "SUM(id)", Alias: "ids"}, {Expr: "PREV(id)", Alias: "pid"}, {Expr: "NEXT(id)", Alias: "nid"}}
	}
	return []types.Measure{{Expr: "MATCH_NUMBER()", Alias: "mn"}, {Expr: "FIRST(id)", Alias: "fid"}, {Expr: "LAST(id)", Alias: "lid"},
		{Expr: "COUNT(*)", Alias: "n"}, {Expr: "SUM(id)", Alias: "ids"}, {Expr: "SUM(v)", Alias: "sv"},
		{Expr: "CLASSIFIER()", Alias: "cls"}, {Expr: "LAST(p)", Alias: "pk"}}
}

func (cf c15conf) spec() *types.MatchRecognizeSpec {
	sp := &types.MatchRecognizeSpec{
		PartitionBy: []string{"p"},
		OrderBy:     []types.OrderByField{{Expression: "ts"}},
		Measures:    cf.measures(),
		Pattern:     cf.tree.toTypes(),
		Within:      time.Duration(int64(cf.within) * cf.tsUnit),
	}
	if cf.allRows {
		sp.RowsPerMatch = types.RowsPerMatchAll
	}
	switch cf.skip[0] {
	case "next":
		sp.Skip = types.SkipToNextRow
	case "first":
		sp.Skip = types.SkipToFirst
	case "last":
		sp.Skip = types.SkipToLast
	}
	if len(cf.skip) > 1 && cf.skip[1] != "-" {
		i, _ := strconv.Atoi(cf.skip[1])
		sp.SkipSymbol = c15symNames[i]
	}
	var syms []int
	for s := range cf.defs {
		syms = append(syms, s)
	}
	sort.Ints(syms)
	for _, s := range syms {
		sp.Defines = append(sp.Defines, types.MatchDefine{Symbol: c15symNames[s], Cond: c15condSQL(cf.defs[s])})
	}
	return sp
}

func (cf c15conf) sqlText() string {
	var ms []string
	for _, m := range cf.measures() {
		ms = append(ms, m.Expr+" AS "+m.Alias)
	}
	rows := "ONE ROW PER MATCH"
	if cf.allRows {
		rows = "ALL ROWS PER MATCH"
	}
	skip := "PAST LAST ROW"
	switch cf.skip[0] {
	case "next":
		skip = "TO NEXT ROW"
	case "first", "last":
		i, _ := strconv.Atoi(cf.skip[1])
		skip = "TO " + strings.ToUpper(cf.skip[0]) + " " + c15symNames[i]
	}
	sp := cf.spec()
	var ds []string
	for _, d := range sp.Defines {
		ds = append(ds, d.Symbol+" AS "+d.Cond)
	}
	q := "SELECT * FROM stream MATCH_RECOGNIZE (PARTITION BY p ORDER BY ts MEASURES " + strings.Join(ms, ", ") +
		" " + rows + " AFTER MATCH SKIP " + skip + " PATTERN (" + cf.tree.sql() + ")"
	if cf.within > 0 && cf.wfrac && time.Duration(float64(cf.within)/1000*float64(time.Microsecond)) == time.Duration(cf.within) {
		// the number + unit spelling with a fractional number: 0.005 US = 5 ns
		q += " WITHIN " + strconv.FormatFloat(float64(cf.within)/1000, 'f', -1, 64) + " US"
	} else if cf.within > 0 {
		q += fmt.Sprintf(" WITHIN %d NS", cf.within)
	}
	if len(ds) > 0 {
		q += " DEFINE " + strings.Join(ds, ", ")
	}
	return q + ")"
}

func c15numTok(v interface{}) string {
	switch x := v.(type) {
	case nil:
		return "n"
	case int:
		return strconv.Itoa(x)
	case int64:
		return itoa(x)
	case float64:
		if x == math.Trunc(x) && math.Abs(x) < 1e15 {
			return itoa(int64(x))
		}
		return "f:" + strconv.FormatUint(math.Float64bits(x), 16)
	case string:
		return "s:" + hx(x)
	}
	return "?" + hx(fmt.Sprint(v))
}

func c15clsTok(v interface{}) string {
	s, ok := v.(string)
	if !ok {
		return "?"
	}
	for i, n := range c15symNames {
		if n == s {
			return strconv.Itoa(i)
		}
	}
	return "?" + hx(s)
}

func c15strTok(v interface{}) string {
	s, ok := v.(string)
	if !ok {
		return "?" + hx(fmt.Sprint(v))
	}
	return hx(s)
}

// c15line renders one output row of the engine / the sink.
func c15line(cf c15conf, r map[string]interface{}) []string {
	if cf.allRows {
		return []string{"r", c15strTok(r["p"]), c15numTok(r["mn"]), c15numTok(r["id"]), c15clsTok(r["cls"]), c15numTok(r["n"]), c15numTok(r["ids"]), c15numTok(r["pid"]), c15numTok(r["nid"])}
	}
	return []string{"m", c15strTok(r["pk"]), c15numTok(r["mn"]), c15numTok(r["fid"]), c15numTok(r["lid"]), c15numTok(r["n"]), c15numTok(r["ids"]), c15numTok(r["sv"]), c15clsTok(r["cls"])}
}

func c15sortByPart(ls [][]string) [][]string {
	sort.SliceStable(ls, func(i, j int) bool { return ls[i][1] < ls[j][1] })
	return ls
}

func c15row(op []string) map[string]interface{} {
	id, _ := strconv.ParseInt(op[2], 10, 64)
	ts, _ := strconv.ParseInt(op[3], 10, 64)
	cl, _ := strconv.Atoi(op[4])
	v, _ := strconv.Atoi(op[5])
	row := map[string]interface{}{"p": unhx(op[1]), "id": id, "ts": ts, "c": cl, "v": v}
	if len(op) > 6 {
		if op[6] == "x" {
			row["w"] = "x"
		} else {
			w, _ := strconv.Atoi(op[6])
			row["w"] = w
		}
	}
	return row
}

func (c15) Exec(c Case) [][][]string {
	cf := c15parse(c.Cfg)
	if cf.sql {
		return c15execSQL(cf, c)
	}
	var out [][][]string
	var eng *cep.Engine
	for _, op := range c.Ops {
		switch op[0] {
		case "new":
			e, err := cep.NewEngine(cf.spec())
			if err != nil {
				out = append(out, [][]string{{"err"}})
				continue
			}
			if cf.maxRows > 0 {
				e.SetMaxRunRows(cf.maxRows)
			}
			if n := c15pcap(c); n > 0 {
				e.SetMaxPartitions(n)
			}
			eng = e
			out = append(out, [][]string{{"ok"}})
		case "row":
			if eng == nil {
				out = append(out, [][]string{{"no-engine"}})
				continue
			}
			row := c15row(op)
			row["ts"] = row["ts"].(int64) + cf.tsBase
			var ls [][]string
			for _, r := range eng.Process(row, row["p"].(string)) {
				ls = append(ls, c15line(cf, r))
			}
			out = append(out, ls)
		case "flush":
			if eng == nil {
				out = append(out, [][]string{{"no-engine"}})
				continue
			}
			var ls [][]string
			for _, r := range eng.Flush() {
				ls = append(ls, c15line(cf, r))
			}
			out = append(out, c15sortByPart(ls))
		default:
			out = append(out, [][]string{{"bad-op"}})
		}
	}
	return out
}

// SQL level: Execute / Emit / Stop.  The rows are consumed by the stream's own goroutine; the
// sync sink runs on that goroutine, so deliveries arrive in emission order.  Barrier before
// Stop: the input channel is empty (Stop then joins the consumer, which finishes the row it
// holds, and flushes).  Everything delivered is shown at the final `flush` op, grouped by partition.
func c15execSQL(cf c15conf, c Case) [][][]string {
	out := make([][][]string, 0, len(c.Ops))
	var s *streamsql.Streamsql
	var got [][]string
	for _, op := range c.Ops {
		switch op[0] {
		case "new":
			if n := c15pcap(c); n > 0 {
				s = streamsql.New(presetOpt(), streamsql.WithDiscardLog(), streamsql.WithAnalyticMaxPartitions(n))
			} else {
				s = streamsql.New(presetOpt(), streamsql.WithDiscardLog())
			}
			if err := s.Execute(cf.sqlText()); err != nil {
				s.Stop()
				s = nil
				out = append(out, [][]string{{"err"}})
				continue
			}
			s.AddSyncSink(func(rs []map[string]interface{}) {
				for _, r := range rs {
					got = append(got, c15line(cf, r))
				}
			})
			out = append(out, [][]string{{"ok"}})
		case "row":
			if s == nil {
				out = append(out, [][]string{{"no-engine"}})
				continue
			}
			s.Emit(c15row(op))
			out = append(out, nil)
		case "nap":
			time.Sleep(70 * time.Millisecond)
			out = append(out, nil)
		case "flush":
			if s == nil {
				out = append(out, [][]string{{"no-engine"}})
				continue
			}
			deadline := time.Now().Add(10 * time.Second)
			drained := false
			for time.Now().Before(deadline) {
				st := s.GetStats()
				if st["data_chan_len"] == 0 {
					drained = true
					break
				}
				time.Sleep(200 * time.Microsecond)
			}
			s.Stop() // joins the consumer, then Flush → sync sinks inline
			ls := c15sortByPart(got)
			if !drained {
				ls = append(ls, []string{"err", "input-not-drained"})
			}
			if d := s.GetStats()["input_dropped_count"]; d != 0 {
				ls = append(ls, []string{"err", "input-dropped"})
			}
			out = append(out, ls)
			s = nil
		default:
			out = append(out, [][]string{{"bad-op"}})
		}
	}
	if s != nil {
		s.Stop()
	}
	return out
}

// c15pcap: with cfg `pcap 1`, the number of distinct partition keys among the case's rows (0 = cap left at its default)
func c15pcap(c Case) int {
	on := false
	for _, l := range c.Cfg {
		if len(l) == 2 && l[0] == "pcap" && l[1] == "1" {
			on = true
		}
	}
	if !on {
		return 0
	}
	seen := map[string]bool{}
	for _, op := range c.Ops {
		if op[0] == "row" {
			if p, ok := c15row(op)["p"].(string); ok {
				seen[p] = true
			}
		}
	}
	return len(seen)
}
