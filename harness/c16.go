package main

import (
	"fmt"
	"math"
	"math/rand"
	"strconv"
	"strings"
	"time"

	"github.com/rulego/streamsql"
	"github.com/rulego/streamsql/stream"
)

// C16 — stream-table JOIN.
//
// modes (cfg mode):
//
//	enc    — encodeKey through its accessor: ops `enc v…` (tuple), `enc1 v` (single, non-slice key); obs `k <hex>`
//	tbl    — MemoryTableSource op sequences: `init <pid> v…` (constructor rows), `ups <pid> v…`, `del v…`, `del1 v`,
//	         `get v…`, `get1 v`; obs of get: `hit <pid>` / `miss`
//	sql    — SELECT id, m.pid … FROM stream [s] [LEFT] JOIN meta [m] ON … [WHERE m.grp = 1] through EmitSync, interleaved
//	         with UpsertTable / Delete: `ups`, `del`, `emit <id> v…`; obs of emit: `out <id> <pid|n>` / `drop`
//	sqlagg — … GROUP BY m.grp, CountingWindow(N) (async Emit; table ops only before the rows; sentinel barrier)
//
// Key component tokens: n (nil) m (missing field) i:<dec> (int) j:<dec> (int64) u:<dec> (uint) f:<dec> (float32 of an int)
// x:<bits>:… (float64) z (float64 -0) s:<hex> b:t|f.  cfg `fmt <bits> <hex>` lines give Go's FormatFloat(f,'f',-1,64)
// for every float64 value a number of the case converts to (number formatting is trusted Go runtime).
type c16 struct{}

func init() { registry["C16"] = c16{} }

func (c16) Count(tier string) int {
	if tier == "thorough" {
		return 4000
	}
	return 300
}

// ---- key components ---------------------------------------------------------------------------------

func c16Val(t string) (v interface{}, present bool) {
	p := strings.Split(t, ":")
	switch p[0] {
	case "j":
		i, _ := strconv.ParseInt(p[1], 10, 64)
		return i, true
	case "u":
		i, _ := strconv.ParseUint(p[1], 10, 64)
		return uint(i), true
	case "f":
		i, _ := strconv.ParseInt(p[1], 10, 64)
		return float32(i), true
	case "z":
		return math.Copysign(0, -1), true
	}
	return c04TokVal(t)
}

// c16Float: the float64 a numeric token converts to in numericKeyFloat (ok=false: not a number).
func c16Float(t string) (float64, bool) {
	v, present := c16Val(t)
	if !present {
		return 0, false
	}
	switch x := v.(type) {
	case int:
		return float64(x), true
	case int64:
		return float64(x), true
	case uint:
		return float64(x), true
	case float32:
		return float64(x), true
	case float64:
		if x == 0 {
			return 0, true
		}
		return x, true
	}
	return 0, false
}

var c16StrFrag = []string{"x", "y", "z", "\x1f", "\x1f", "s:", "n:", "\\", "1", "<nil>", "", "b:true", "|"}

func c16Str(rng *rand.Rand) string {
	n := rng.Intn(4)
	var sb strings.Builder
	for i := 0; i < n; i++ {
		sb.WriteString(c16StrFrag[rng.Intn(len(c16StrFrag))])
	}
	return sb.String()
}

// numeric look-alikes: the same value in several Go types, the text of a number as a string, -0, values around 2^53
func c16Num(rng *rand.Rand) string {
	base := []int64{0, 1, 1, 2, -1, 7, 10, 9007199254740992, 9007199254740993, 16777216, 16777217, 20000000, 20000001}[rng.Intn(13)] // incl. neighbours that collide as float32
	switch rng.Intn(9) {
	case 0:
		return "i:" + strconv.FormatInt(base, 10)
	case 1:
		return "j:" + strconv.FormatInt(base, 10)
	case 2:
		if base >= 0 {
			return "u:" + strconv.FormatInt(base, 10)
		}
		return "i:" + strconv.FormatInt(base, 10)
	case 3:
		return c04ValTok(float64(base), true)
	case 4:
		return c04ValTok(float64(base)+0.5, true)
	case 5:
		return c04ValTok(strconv.FormatInt(base, 10), true) // the string "1"
	case 6:
		if base == 0 {
			return "z"
		}
		return c04ValTok([]float64{1e21, 1e-7, 1.5, -2.25, 1e19, 2e19, 9223372036854775808, 1e19}[rng.Intn(8)], true) // incl. whole values beyond the int64 range
	case 7:
		if base < 1000 {
			return "f:" + strconv.FormatInt(base, 10)
		}
		return "j:" + strconv.FormatInt(base, 10)
	}
	return c04ValTok("n:"+strconv.FormatInt(base, 10), true) // the string that looks like an encoded number
}

func c16Comp(rng *rand.Rand, ty int) string {
	switch k := rng.Intn(14); {
	case k == 0:
		return "n"
	case k == 1:
		return "m"
	case k == 2:
		return "b:" + btok(rng.Intn(2) == 0)
	}
	if ty == 1 {
		return c16Num(rng)
	}
	return c04ValTok(c16Str(rng), true)
}

// c16Pool: key tuples of one arity, with shifted siblings across the 0x1f separator and type-tag look-alikes.
func c16Pool(rng *rand.Rand, arity, size int) [][]string {
	tys := make([]int, arity)
	for i := range tys {
		tys[i] = rng.Intn(2)
	}
	var pool [][]string
	for len(pool) < size {
		t := make([]string, arity)
		for i := range t {
			t[i] = c16Comp(rng, tys[i])
		}
		pool = append(pool, t)
		// the same number in another Go type (or its text as a string) in one component
		for i := range t {
			if f, ok := c16Float(t[i]); ok && rng.Intn(4) > 0 && f == math.Trunc(f) && math.Abs(f) < 1e15 {
				u := append([]string(nil), t...)
				n := strconv.FormatInt(int64(f), 10)
				alts := []string{"i:" + n, "j:" + n, c04ValTok(f, true), c04ValTok(n, true), c04ValTok(f+0.5, true)}
				if f >= 0 {
					alts = append(alts, "u:"+n)
				}
				if f == 0 {
					alts = append(alts, "z")
				}
				u[i] = alts[rng.Intn(len(alts))]
				pool = append(pool, u)
			}
		}
		if arity >= 2 && rng.Intn(2) == 0 {
			i := rng.Intn(arity - 1)
			a, b, c2 := []string{"x", ""}[rng.Intn(2)], []string{"y", "", "\\"}[rng.Intn(3)], []string{"z", ""}[rng.Intn(2)]
			u := append([]string(nil), t...)
			w := append([]string(nil), t...)
			if k := rng.Intn(3); k == 2 { // the escape byte itself unescaped: ("x\\", "y\x1fs:z") vs ("x\x1fs:y\\", "z")
				u[i], u[i+1] = c04ValTok(a+"\\", true), c04ValTok(b+"\x1fs:"+c2, true)
				w[i], w[i+1] = c04ValTok(a+"\x1fs:"+b+"\\", true), c04ValTok(c2, true)
			} else if k == 0 { // ("x\x1fs:y","z") vs ("x","y\x1fs:z")
				u[i], u[i+1] = c04ValTok(a+"\x1fs:"+b, true), c04ValTok(c2, true)
				w[i], w[i+1] = c04ValTok(a, true), c04ValTok(b+"\x1fs:"+c2, true)
			} else { // escape-byte siblings
				u[i], u[i+1] = c04ValTok(a+"\\", true), c04ValTok("s:"+b+"\x1fs:"+c2, true)
				w[i], w[i+1] = c04ValTok(a+"\x1fs:"+b+"\\", true), c04ValTok(c2, true)
			}
			pool = append(pool, u, w)
		}
	}
	return pool
}

func c16FmtCfg(c *Case) {
	seen := map[uint64]bool{}
	for _, op := range c.Ops {
		for _, t := range op[1:] {
			if !strings.Contains(t, ":") && t != "z" {
				continue // row / table-row ids, n, m
			}
			if f, ok := c16Float(t); ok {
				b := math.Float64bits(f)
				if !seen[b] {
					seen[b] = true
					c.Cfg = append(c.Cfg, []string{"fmt", strconv.FormatUint(b, 10), hx(strconv.FormatFloat(f, 'f', -1, 64))})
				}
			}
		}
	}
}

func (c16) Gen(rng *rand.Rand, tier string, idx int) Case {
	var c Case
	mode := []string{"enc", "tbl", "sql", "tbl", "sql", "sqlagg"}[idx%6]
	if tier == "thorough" && idx%25 == 24 {
		// free-running search (DESIGN §3.5): a concurrent updater against monotone reads; thorough tier only
		var c Case
		c.Cfg = [][]string{{"mode", "conc"}, {"keys", "1"}}
		c.Ops = [][]string{{"conc", strconv.Itoa(50 + rng.Intn(200))}}
		c.Stat = []string{"mode-conc"}
		return c
	}
	arity := []int{1, 1, 2, 2, 3}[rng.Intn(5)]
	c.Cfg = append(c.Cfg, []string{"mode", mode}, []string{"keys", strconv.Itoa(arity)})
	pool := c16Pool(rng, arity, 3+rng.Intn(3))
	pick := func() []string { return pool[rng.Intn(len(pool))] }
	c.Stat = append(c.Stat, "mode-"+mode, fmt.Sprintf("keys-%d", arity))
	switch mode {
	case "enc":
		for _, t := range pool {
			c.Ops = append(c.Ops, append([]string{"enc"}, t...))
			if arity == 1 && t[0] != "m" {
				c.Ops = append(c.Ops, []string{"enc1", t[0]})
			}
		}
	case "tbl":
		pid := 0
		for i := rng.Intn(3); i > 0; i-- {
			pid++
			c.Ops = append(c.Ops, append([]string{"init", strconv.Itoa(pid)}, pick()...))
		}
		for i := 0; i < 14+rng.Intn(10); i++ {
			switch k := rng.Intn(10); {
			case k < 3:
				pid++
				c.Ops = append(c.Ops, append([]string{"ups", strconv.Itoa(pid)}, pick()...))
			case k < 5:
				t := pick()
				if arity == 1 && t[0] != "m" && rng.Intn(2) == 0 {
					c.Ops = append(c.Ops, []string{"del1", t[0]})
				} else {
					c.Ops = append(c.Ops, append([]string{"del"}, t...))
				}
			default:
				t := pick()
				if arity == 1 && t[0] != "m" && rng.Intn(3) == 0 {
					c.Ops = append(c.Ops, []string{"get1", t[0]})
				} else {
					c.Ops = append(c.Ops, append([]string{"get"}, t...))
				}
			}
		}
	case "sql":
		c.Cfg = append(c.Cfg, []string{"jt", []string{"inner", "left"}[rng.Intn(2)]},
			// talias 2: the table alias is `k`, a prefix of the stream's key columns k0, k1, …; envelope 1: the stream
			// rows also carry top-level fields named like the aliases (`meta`, `m`, `k`, `s`)
			[]string{"salias", strconv.Itoa(rng.Intn(2))}, []string{"talias", strconv.Itoa(rng.Intn(3))},
			[]string{"envelope", strconv.Itoa(rng.Intn(3) / 2)},
			[]string{"where", strconv.Itoa(rng.Intn(3) / 2)}, []string{"swap", strconv.Itoa((rng.Intn(4) / 3) * (1 + rng.Intn(7)))}, // bit i: pair i is written table side first
			[]string{"nestkey", strconv.Itoa(rng.Intn(4) / 3)}, []string{"early", strconv.Itoa(rng.Intn(3) / 2)},
			// pre 1: an earlier LEFT JOIN with MORE ON pairs on an empty second table precedes the
			// modelled JOIN (identity on the observed columns; exercises per-JOIN key construction)
			[]string{"pre", strconv.Itoa(rng.Intn(3) / 2)})
		pid, id := 0, 0
		for i := 0; i < 14+rng.Intn(10); i++ {
			switch k := rng.Intn(10); {
			case k < 3:
				pid++
				c.Ops = append(c.Ops, append([]string{"ups", strconv.Itoa(pid)}, pick()...))
			case k < 4:
				c.Ops = append(c.Ops, append([]string{"del"}, pick()...))
			case k == 4 && rng.Intn(3) == 0:
				// a table write that is rejected (no such table): an error, and nothing changes for the rows that follow
				c.Ops = append(c.Ops, append([]string{"badups"}, pick()...))
			default:
				id++
				c.Ops = append(c.Ops, append([]string{"emit", strconv.Itoa(id)}, pick()...))
			}
		}
	default: // sqlagg
		c.Cfg = append(c.Cfg, []string{"jt", []string{"inner", "left"}[rng.Intn(2)]}, []string{"n", strconv.Itoa(1 + rng.Intn(3))})
		pid := 0
		for i := 0; i < 2+rng.Intn(4); i++ {
			pid++
			c.Ops = append(c.Ops, append([]string{"ups", strconv.Itoa(pid)}, pick()...))
		}
		if rng.Intn(2) == 0 {
			c.Ops = append(c.Ops, append([]string{"del"}, pick()...))
		}
		for id := 1; id <= 6+rng.Intn(10); id++ {
			c.Ops = append(c.Ops, append([]string{"emit", strconv.Itoa(id)}, pick()...))
		}
		c.Ops = append(c.Ops, []string{"flush"})
	}
	c16FmtCfg(&c)
	return c
}

// ---- execution ------------------------------------------------------------------------------------

func c16Key(toks []string) []interface{} {
	k := make([]interface{}, len(toks))
	for i, t := range toks {
		k[i], _ = c16Val(t) // a missing field reads as nil
	}
	return k
}

// c16Row builds a row with the key components under prefix0, prefix1, … (missing = field absent).
func c16Row(prefix string, toks []string) map[string]interface{} {
	row := map[string]interface{}{}
	for i, t := range toks {
		if v, present := c16Val(t); present {
			row[prefix+strconv.Itoa(i)] = v
		}
	}
	return row
}

func c16TableRow(pid int, toks []string) map[string]interface{} {
	row := c16Row("t", toks)
	row["pid"] = pid
	row["grp"] = pid % 2
	return row
}

func c16KeyFieldNames(prefix string, n int) []string {
	f := make([]string, n)
	for i := range f {
		f[i] = prefix + strconv.Itoa(i)
	}
	return f
}

func c16Tbl(c Case, arity int) [][][]string {
	var out [][][]string
	var initRows []map[string]interface{}
	var src *stream.MemoryTableSource
	ensure := func() {
		if src == nil {
			src = stream.NewMemoryTableSource("meta", c16KeyFieldNames("t", arity), initRows)
		}
	}
	for _, op := range c.Ops {
		switch op[0] {
		case "init":
			if src != nil {
				out = append(out, [][]string{{"late-init"}})
				continue
			}
			pid, _ := strconv.Atoi(op[1])
			initRows = append(initRows, c16TableRow(pid, op[2:]))
			out = append(out, nil)
		case "ups":
			ensure()
			pid, _ := strconv.Atoi(op[1])
			src.Upsert(c16TableRow(pid, op[2:]))
			out = append(out, nil)
		case "del":
			ensure()
			src.Delete(c16Key(op[1:]))
			out = append(out, nil)
		case "del1":
			ensure()
			v, _ := c16Val(op[1])
			src.Delete(v)
			out = append(out, nil)
		case "get", "get1":
			ensure()
			var key interface{} = c16Key(op[1:])
			if op[0] == "get1" {
				key, _ = c16Val(op[1])
			}
			row, ok := src.Lookup(key)
			if !ok {
				out = append(out, [][]string{{"miss"}})
			} else {
				out = append(out, [][]string{{"hit", fmt.Sprint(row["pid"])}})
			}
		default:
			out = append(out, [][]string{{"bad-op"}})
		}
	}
	return out
}

func c16JoinSQL(c Case, arity int, sel, tail string) string {
	salias, talias := c04CfgVal(c, "salias", "0") == "1", c04CfgVal(c, "talias", "0") == "1"
	swap, _ := strconv.Atoi(c04CfgVal(c, "swap", "0"))
	from, sp := "stream", ""
	if salias {
		from, sp = "stream s", "s."
	}
	join, tp := "JOIN meta", "meta."
	if talias {
		join, tp = "JOIN meta m", "m."
	}
	if c04CfgVal(c, "talias", "0") == "2" {
		join, tp = "JOIN meta k", "k."
	}
	if c04CfgVal(c, "jt", "inner") == "left" {
		join = "LEFT " + join
	}
	var on []string
	for i := 0; i < arity; i++ {
		l, r := fmt.Sprintf("%sk%d", sp, i), fmt.Sprintf("%st%d", tp, i)
		if c04CfgVal(c, "nestkey", "0") == "1" { // the stream-side key columns live in a nested object: kk.k0, kk.k1, …
			l = fmt.Sprintf("%skk.k%d", sp, i)
		}
		if swap>>uint(i)&1 == 1 { // each equality has its own orientation
			l, r = r, l
		}
		on = append(on, l+" = "+r)
	}
	pre := ""
	if c04CfgVal(c, "pre", "0") == "1" {
		var pon []string
		for i := 0; i <= arity; i++ { // arity+1 pairs, all on the first stream key column
			pon = append(pon, fmt.Sprintf("%sk0 = p.a%d", sp, i))
		}
		pre = " LEFT JOIN pre p ON " + strings.Join(pon, " AND ")
	}
	sql := "SELECT " + strings.ReplaceAll(sel, "m.", tp) + " FROM " + from + pre + " " + join + " ON " + strings.Join(on, " AND ")
	if c04CfgVal(c, "where", "0") == "1" {
		sql += " WHERE " + tp + "grp = 1"
	}
	return sql + strings.ReplaceAll(tail, "m.", tp)
}

func c16SQL(c Case, arity int) [][][]string {
	s := streamsql.New(presetOpt(), streamsql.WithDiscardLog())
	defer s.Stop()
	// `note` is a stream column that only the rows with an odd id carry (value = id): in a result it is that row's own
	// note or NULL, whatever rows were dropped or refused before (the by-construction check below)
	sql := c16JoinSQL(c, arity, "id, note, m.pid AS pid", "")
	if err := s.Execute(sql); err != nil {
		return [][][]string{{{"exec-error", hx(err.Error())}}}
	}
	if c04CfgVal(c, "early", "0") == "1" {
		// rows sent before the JOIN table exists are refused (an error / a silent drop); once the table is registered
		// the rows that follow are joined as if nothing had been refused
		_, _ = s.EmitSync(map[string]interface{}{"id": -5, "k0": "early"})
		s.Emit(map[string]interface{}{"id": -6, "k0": "early"})
	}
	src, err := s.RegisterTable("meta", nil)
	if err != nil {
		return [][][]string{{{"register-error", hx(err.Error())}}}
	}
	if c04CfgVal(c, "pre", "0") == "1" {
		if _, err := s.RegisterTable("pre", nil); err != nil {
			return [][][]string{{{"register-error", hx(err.Error())}}}
		}
	}
	var out [][][]string
	for _, op := range c.Ops {
		switch op[0] {
		case "ups":
			pid, _ := strconv.Atoi(op[1])
			if err := s.UpsertTable("meta", c16TableRow(pid, op[2:])); err != nil {
				out = append(out, [][]string{{"upsert-error", hx(err.Error())}})
				continue
			}
			out = append(out, nil)
		case "del":
			src.Delete(c16Key(op[1:]))
			out = append(out, nil)
		case "badups":
			if err := s.UpsertTable("nosuch", c16TableRow(-3, op[1:])); err != nil {
				out = append(out, [][]string{{"rejected"}})
			} else {
				out = append(out, [][]string{{"accepted"}})
			}
		case "emit":
			id, _ := strconv.Atoi(op[1])
			row := c16Row("k", op[2:])
			row["id"] = id
			if c04CfgVal(c, "envelope", "0") == "1" {
				// payload fields named like the aliases must not shadow the joined table row / the stream row
				junk := map[string]interface{}{"pid": -7, "grp": 1, "t0": "junk", "id": -9}
				row["meta"], row["m"], row["k"] = junk, junk, "junk"
				row["s"] = map[string]interface{}{"id": -9, "k0": "junk"}
				// … and like the selected table columns: an unmatched LEFT JOIN row reads NULL, never the payload
				row["pid"], row["grp"] = -5, 1
			}
			if c04CfgVal(c, "nestkey", "0") == "1" {
				c16NestKeys(row, arity)
			}
			if id%2 == 1 {
				row["note"] = id
			}
			res, err := s.EmitSync(row)
			switch {
			case err != nil:
				out = append(out, [][]string{{"emit-error", hx(err.Error())}})
			case res == nil:
				out = append(out, [][]string{{"drop"}})
			default:
				pid := "n"
				if v, ok := res["pid"]; ok && v != nil {
					pid = fmt.Sprint(v)
				}
				line := []string{"out", fmt.Sprint(res["id"]), pid}
				if note := res["note"]; (id%2 == 1 && fmt.Sprint(note) != strconv.Itoa(id)) || (id%2 == 0 && note != nil) {
					line = append(line, "note-of-another-row", fmt.Sprint(note))
				}
				out = append(out, [][]string{line})
			}
		default:
			out = append(out, [][]string{{"bad-op"}})
		}
	}
	return out
}

// c16NestKeys moves the key columns k0… of a stream row into the nested object kk; the object is a typed Go map when
// its values allow it (map[string]string / map[string]int / map[string]float64), a map[string]interface{} otherwise
func c16NestKeys(row map[string]interface{}, arity int) {
	inner := map[string]interface{}{}
	for i := 0; i < arity; i++ {
		k := "k" + strconv.Itoa(i)
		if v, ok := row[k]; ok {
			if s, isStr := row[k].(string); isStr && s == "junk" {
				continue // envelope decoration named like a key column: stays where it is
			}
			inner[k] = v
			delete(row, k)
		}
	}
	kinds := map[string]bool{}
	for _, v := range inner {
		kinds[fmt.Sprintf("%T", v)] = true
	}
	switch {
	case len(inner) > 0 && len(kinds) == 1 && kinds["string"]:
		m := map[string]string{}
		for k, v := range inner {
			m[k] = v.(string)
		}
		row["kk"] = m
	case len(inner) > 0 && len(kinds) == 1 && kinds["int"]:
		m := map[string]int{}
		for k, v := range inner {
			m[k] = v.(int)
		}
		row["kk"] = m
	case len(inner) > 0 && len(kinds) == 1 && kinds["float64"]:
		m := map[string]float64{}
		for k, v := range inner {
			m[k] = v.(float64)
		}
		row["kk"] = &m
	default:
		row["kk"] = inner
	}
}

func c16SQLAgg(c Case, arity int) [][][]string {
	n, _ := strconv.Atoi(c04CfgVal(c, "n", "1"))
	s := streamsql.New(presetOpt(), streamsql.WithDiscardLog())
	defer s.Stop()
	sql := c16JoinSQL(c, arity, "m.grp AS grp, count(*) AS c, collect(id) AS ids", fmt.Sprintf(" GROUP BY m.grp, CountingWindow(%d)", n))
	if err := s.Execute(sql); err != nil {
		return [][][]string{{{"exec-error", hx(err.Error())}}}
	}
	src, err := s.RegisterTable("meta", nil)
	if err != nil {
		return [][][]string{{{"register-error", hx(err.Error())}}}
	}
	ch := make(chan []map[string]interface{}, 4096)
	s.AddSyncSink(func(r []map[string]interface{}) {
		cp := make([]map[string]interface{}, len(r))
		copy(cp, r)
		ch <- cp
	})
	var out [][][]string
	for _, op := range c.Ops {
		switch op[0] {
		case "ups":
			pid, _ := strconv.Atoi(op[1])
			_ = s.UpsertTable("meta", c16TableRow(pid, op[2:]))
			out = append(out, nil)
		case "del":
			src.Delete(c16Key(op[1:]))
			out = append(out, nil)
		case "emit":
			id, _ := strconv.Atoi(op[1])
			row := c16Row("k", op[2:])
			row["id"] = id
			s.Emit(row)
			out = append(out, nil)
		case "flush":
			// sentinel: a table row with its own group value 7 and a key no generated key equals; n stream rows hit it
			sk := make([]string, arity)
			for i := range sk {
				sk[i] = c04ValTok("~sentinel~", true)
			}
			trow := c16Row("t", sk)
			trow["pid"], trow["grp"] = -1, 7
			_ = s.UpsertTable("meta", trow)
			for i := 1; i <= n; i++ {
				row := c16Row("k", sk)
				row["id"] = -i
				s.Emit(row)
			}
			var lines [][]string
			deadline := time.After(c04BarrierDeadline())
		wait:
			for {
				select {
				case b := <-ch:
					// a delivery is one window batch; the batch that holds sentinel rows (possibly mixed with
					// trailing real rows, the window shares one count buffer here) is the barrier and is dropped whole
					done := false
					for _, r := range b {
						if c04HasNegativeID(r) {
							done = true
						}
					}
					if done {
						break wait
					}
					for _, r := range b {
						lines = append(lines, c04ResultLine(r, []string{"grp"}))
					}
				case <-deadline:
					c04BarrierFailed = true
					lines = append(lines, []string{"sentinel-lost"})
					break wait
				}
			}
			out = append(out, c04SortLines(lines))
		default:
			out = append(out, [][]string{{"bad-op"}})
		}
	}
	return out
}

// c16Conc: one goroutine upserts pid = 1…n for one key while this goroutine keeps joining a row with that key.
// Every Upsert returns before the next begins, so under every schedule the pids read are non-decreasing, and the
// read after the updater has finished sees n. The verdict does not depend on timing.
func c16Conc(n int) [][]string {
	s := streamsql.New(presetOpt(), streamsql.WithDiscardLog())
	defer s.Stop()
	if err := s.Execute("SELECT id, m.pid AS pid FROM stream LEFT JOIN meta m ON k0 = m.t0"); err != nil {
		return [][]string{{"exec-error", hx(err.Error())}}
	}
	if _, err := s.RegisterTable("meta", nil); err != nil {
		return [][]string{{"register-error", hx(err.Error())}}
	}
	read := func() int {
		res, err := s.EmitSync(map[string]interface{}{"id": 1, "k0": "k"})
		if err != nil || res == nil {
			return -1
		}
		if v, ok := res["pid"].(int); ok {
			return v
		}
		return 0
	}
	done := make(chan struct{})
	go func() {
		defer close(done)
		for p := 1; p <= n; p++ {
			_ = s.UpsertTable("meta", map[string]interface{}{"t0": "k", "pid": p})
		}
	}()
	mono, last := true, 0
	for running := true; running; {
		select {
		case <-done:
			running = false
		default:
		}
		v := read()
		if v < last {
			mono = false
		}
		last = v
	}
	return [][]string{{"mono", btok(mono)}, {"final", strconv.Itoa(read())}}
}

func (c16) Exec(c Case) [][][]string {
	arity, _ := strconv.Atoi(c04CfgVal(c, "keys", "1"))
	switch c04CfgVal(c, "mode", "enc") {
	case "conc":
		var out [][][]string
		for _, op := range c.Ops {
			n, _ := strconv.Atoi(op[1])
			out = append(out, c16Conc(n))
		}
		return out
	case "tbl":
		return c16Tbl(c, arity)
	case "sql":
		return c16SQL(c, arity)
	case "sqlagg":
		return c16SQLAgg(c, arity)
	}
	var out [][][]string
	for _, op := range c.Ops {
		switch op[0] {
		case "enc":
			out = append(out, [][]string{{"k", hx(stream.VerifEncodeKey(c16Key(op[1:])))}})
		case "enc1":
			v, _ := c16Val(op[1])
			out = append(out, [][]string{{"k", hx(stream.VerifEncodeKey(v))}})
		default:
			out = append(out, [][]string{{"bad-op"}})
		}
	}
	return out
}
