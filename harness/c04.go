package main

import (
	"fmt"
	"github.com/rulego/streamsql/functions"
	"math"
	"math/rand"
	"sort"
	"strconv"
	"strings"
	"time"

	"github.com/rulego/streamsql"
	"github.com/rulego/streamsql/aggregator"
	"github.com/rulego/streamsql/types"
	"github.com/rulego/streamsql/window"
)

// C04 — GROUP BY partitions each batch by the grouping key tuple.
//
// modes (cfg mode): enc — the four key encoders through accessors; agg — GroupAggregator.Add/GetResults
// (what every time window feeds); cnt / glb — SQL with CountingWindow(N) / GLOBAL WINDOW TRIGGER WHEN count(*) >= N.
type c04 struct{}

func init() { registry["C04"] = c04{} }

func (c04) Count(tier string) int {
	if tier == "thorough" {
		return 3000
	}
	return 260
}

// ---- values -------------------------------------------------------------------------------------

// key values cross the protocol as tokens (see lean/Driver/C04.lean).
func c04ValTok(v interface{}, present bool) string {
	if !present {
		return "m"
	}
	switch x := v.(type) {
	case nil:
		return "n"
	case string:
		return "s:" + hx(x)
	case int:
		return "i:" + strconv.Itoa(x)
	case int64:
		return "i:" + strconv.FormatInt(x, 10)
	case bool:
		return "b:" + btok(x)
	case float64:
		return fmt.Sprintf("x:%d:%s:%s", math.Float64bits(x), hx(strconv.FormatFloat(x, 'f', -1, 64)), hx(fmt.Sprintf("%v", x)))
	}
	return "s:" + hx(fmt.Sprintf("?%T:%v", v, v))
}

func c04TokVal(t string) (v interface{}, present bool) {
	p := strings.Split(t, ":")
	switch p[0] {
	case "n":
		return nil, true
	case "m":
		return nil, false
	case "s":
		return unhx(p[1]), true
	case "i":
		i, _ := strconv.Atoi(p[1])
		return i, true
	case "b":
		return p[1] == "t", true
	case "x":
		b, _ := strconv.ParseUint(p[1], 10, 64)
		return math.Float64frombits(b), true
	}
	panic("bad value token " + t)
}

// string alphabet: separator-like bytes of all encoders, the NULL markers' letters, plain letters
var c04Frag = []string{"x", "y", "z", "<nil>", "中", "席", "-", "Ł", "A", "|", "|", "\\", "\x1f", "\x1f", ",", "\x00", "N", "\x00NULL", "\\N", "", "s:", "1", ":"}

func c04Str(rng *rand.Rand) string {
	n := rng.Intn(4)
	var sb strings.Builder
	for i := 0; i < n; i++ {
		sb.WriteString(c04Frag[rng.Intn(len(c04Frag))])
	}
	return sb.String()
}

var c04Floats = []float64{0.5, 1.5, 3, -2.25, 1e21, 1e-7, 100, 9007199254740993, math.Inf(1), 16777216, 16777217, 0.1, 0.10000000149011612} // incl. neighbours that collide at float32 precision

// c04ColVal draws a value of column type ty: 0 string, 1 int, 2 float, 3 bool; NULL / missing anywhere.
func c04ColVal(rng *rand.Rand, ty int) string {
	switch k := rng.Intn(12); {
	case k == 0:
		return "n"
	case k == 1:
		return "m"
	}
	switch ty {
	case 1:
		return c04ValTok([]int{0, 1, -1, 10, 12, 2, 123, 9007199254740992, 9007199254740993, 1838465273847561217, 1838465273847561218}[rng.Intn(11)], true) // incl. neighbours that collide as float64
	case 2:
		return c04ValTok(c04Floats[rng.Intn(len(c04Floats))], true)
	case 3:
		return c04ValTok(rng.Intn(2) == 0, true)
	}
	return c04ValTok(c04Str(rng), true)
}

// c04TuplePool draws a pool of tuples that sits on the split points of the encoders: for string columns a
// tuple is often derived from an earlier one by moving a separator-like fragment across a column border.
func c04TuplePool(rng *rand.Rand, arity, size int) [][]string {
	tys := make([]int, arity)
	for i := range tys {
		if rng.Intn(3) == 0 {
			tys[i] = 1 + rng.Intn(3)
		}
	}
	var pool [][]string
	for len(pool) < size {
		t := make([]string, arity)
		for i := range t {
			t[i] = c04ColVal(rng, tys[i])
		}
		pool = append(pool, t)
		if arity >= 2 && rng.Intn(2) == 0 {
			// shifted sibling: (a+sep+b, c) vs (a, b+sep+c) for each separator-like byte
			i := rng.Intn(arity - 1)
			if tys[i] == 0 && tys[i+1] == 0 {
				a, b, c2 := []string{"x", "", "y"}[rng.Intn(3)], []string{"y", "", "s:y", "\\"}[rng.Intn(4)], []string{"z", "", "N"}[rng.Intn(3)]
				sep := []string{"|", "\x1f", "\\|", "\x1fs:", "\x00NULL\x1f", "|\\N"}[rng.Intn(6)]
				u := append([]string(nil), t...)
				w := append([]string(nil), t...)
				u[i], u[i+1] = c04ValTok(a+sep+b, true), c04ValTok(c2, true)
				w[i], w[i+1] = c04ValTok(a, true), c04ValTok(b+sep+c2, true)
				pool = append(pool, u, w)
			}
		}
		if arity >= 2 && rng.Intn(3) == 0 {
			// escape-byte siblings: (a+esc, b+sep+c) vs (a+sep+b+esc, c) collide when the escape byte itself is not escaped
			i := rng.Intn(arity - 1)
			if tys[i] == 0 && tys[i+1] == 0 {
				a, b, c2 := []string{"x", ""}[rng.Intn(2)], []string{"y", "", "\\"}[rng.Intn(3)], []string{"z", ""}[rng.Intn(2)]
				sep := []string{"|", "\x1f"}[rng.Intn(2)]
				u := append([]string(nil), t...)
				w := append([]string(nil), t...)
				u[i], u[i+1] = c04ValTok(a+"\\", true), c04ValTok(b+sep+c2, true)
				w[i], w[i+1] = c04ValTok(a+sep+b+"\\", true), c04ValTok(c2, true)
				pool = append(pool, u, w)
			}
		}
		if arity >= 1 && rng.Intn(3) == 0 {
			// numeric neighbours that collide when a key is formatted at float32 precision / through float64
			i := rng.Intn(arity)
			var pair []string
			switch tys[i] {
			case 2:
				pair = [][]string{{c04ValTok(16777216.0, true), c04ValTok(16777217.0, true)}, {c04ValTok(0.1, true), c04ValTok(0.10000000149011612, true)}}[rng.Intn(2)]
			case 1:
				pair = []string{c04ValTok(9007199254740992, true), c04ValTok(9007199254740993, true)}
			}
			for _, v := range pair {
				u := append([]string(nil), t...)
				u[i] = v
				pool = append(pool, u)
			}
		}
		if arity >= 1 && rng.Intn(4) == 0 {
			// multi-byte twins whose code points share the low byte (U+4E2D / U+5E2D / '-', U+0141 / 'A'), next to a separator
			// or the escape byte: an encoder that truncates code points to bytes merges them
			i := rng.Intn(arity)
			if tys[i] == 0 {
				sep := []string{"|", "\\", "\x1f", "|1"}[rng.Intn(4)]
				pre := []string{"", "x"}[rng.Intn(2)]
				tw := [][]string{{"中", "席", "-"}, {"Ł", "A"}}[rng.Intn(2)]
				front := rng.Intn(2) == 0
				for _, ch := range tw {
					u := append([]string(nil), t...)
					if front {
						u[i] = c04ValTok(pre+ch+sep, true)
					} else {
						u[i] = c04ValTok(pre+sep+ch, true)
					}
					pool = append(pool, u)
				}
			}
		}
		if arity >= 1 && rng.Intn(4) == 0 {
			// NULL vs empty string vs the text of the NULL markers
			i := rng.Intn(arity)
			if tys[i] == 0 {
				for _, s := range []string{"n", "m", "s:-", c04ValTok("\x00NULL", true), c04ValTok("\\N", true)} {
					u := append([]string(nil), t...)
					u[i] = s
					pool = append(pool, u)
				}
			}
		}
	}
	return pool
}

func (c04) Gen(rng *rand.Rand, tier string, idx int) Case {
	var c Case
	arity := []int{0, 1, 1, 2, 2, 2, 3}[rng.Intn(7)]
	mode := []string{"enc", "fcnt", "agg", "ses", "cnt", "glb", "dcnt"}[idx%7]
	if mode == "fcnt" {
		arity = 2 + rng.Intn(2)
	}
	if mode == "dcnt" {
		arity = 1 + rng.Intn(3)
	}
	c.Cfg = append(c.Cfg, []string{"mode", mode}, []string{"arity", strconv.Itoa(arity)})
	pool := c04TuplePool(rng, arity, 3+rng.Intn(3))
	if mode == "fcnt" {
		return c04GenFnKeys(rng, c, arity, pool)
	}
	if mode == "dcnt" {
		return c04GenDotted(rng, c, arity, pool)
	}
	c.Stat = append(c.Stat, "mode-"+mode, fmt.Sprintf("arity-%d", arity))
	switch mode {
	case "enc":
		which := []string{"agg", "counting", "session", "global"}
		for _, t := range pool {
			for _, w := range which {
				c.Ops = append(c.Ops, append([]string{"enc", w}, t...))
			}
			// the session key of the same tuple handed over as a Go struct with string fields (window package API)
			allStr := len(t) >= 1 && len(t) <= 3
			for _, tok := range t {
				allStr = allStr && strings.HasPrefix(tok, "s:")
			}
			if allStr {
				c.Ops = append(c.Ops, append([]string{"enc", "sessionS"}, t...))
				c.Stat = append(c.Stat, "session-key-of-struct-row")
			}
		}
	default:
		if mode == "agg" && arity > 0 && rng.Intn(4) == 0 {
			c.Cfg = append(c.Cfg, []string{"fieldnames", "computed"})
			c.Stat = append(c.Stat, "agg-computed-key-names")
		}
		n := 1
		if mode == "cnt" || mode == "glb" {
			n = []int{1, 2, 2, 3}[rng.Intn(4)]
			c.Cfg = append(c.Cfg, []string{"n", strconv.Itoa(n)}, []string{"alias", strconv.Itoa(rng.Intn(8))}, []string{"bq", strconv.Itoa(rng.Intn(3) / 2)}) // bit i: group column i is selected AS k<i> (mixes of aliased and bare columns)
		}
		if mode == "ses" && arity >= 1 && arity <= 3 && rng.Intn(3) == 0 {
			// rows handed to the session window as Go structs with string fields (window package API; the SQL engine feeds
			// maps): every key value of the case is a text, the non-texts of the pool become texts that need escaping
			for i, t := range pool {
				t = append([]string(nil), t...)
				for j, tok := range t {
					if !strings.HasPrefix(tok, "s:") {
						t[j] = "s:" + hx([]string{"\\N", "a|b", "|", "\\", "n"}[rng.Intn(5)])
					}
				}
				pool[i] = t
			}
			c.Cfg = append(c.Cfg, []string{"structrows", "1"})
			c.Stat = append(c.Stat, "session-struct-rows")
		}
		nrows := 4 + rng.Intn(14)
		for i := 0; i < nrows; i++ {
			t := pool[rng.Intn(len(pool))]
			c.Ops = append(c.Ops, append([]string{"row", strconv.Itoa(i + 1)}, t...))
		}
		c.Ops = append(c.Ops, []string{"results"})
	}
	return c
}

// ---- scalar-function keys: GROUP BY f0(g0), f1(g1), …, CountingWindow(N) --------------------------------------
// The row ops carry the tuple of FUNCTION VALUES (what the property groups by), computed here with one call of the
// expression bridge per key and row — exactly what the engine evaluates per key; the raw rows travel in cfg lines.

func c04FnExpr(fn string, i int) string {
	if fn == "-" {
		return fmt.Sprintf("g%d", i)
	}
	if fn == "floorhalf" { // a computed key whose text contains a dot (it is not a nested path)
		return fmt.Sprintf("floor(g%d * 0.5)", i)
	}
	return fmt.Sprintf("%s(g%d)", fn, i)
}

func c04GenFnKeys(rng *rand.Rand, c Case, arity int, pool [][]string) Case {
	// column kinds from the pool's tokens
	fns := make([]string, arity)
	any := false
	for i := 0; i < arity; i++ {
		kind := ""
		for _, t := range pool {
			if len(t[i]) > 1 {
				kind = t[i][:1]
			}
		}
		switch kind {
		case "s":
			fns[i] = []string{"upper", "lower", "upper", "lower", "upper", "-"}[rng.Intn(6)]
		case "i", "x":
			fns[i] = []string{"abs", "abs", "floorhalf", "floorhalf", "-"}[rng.Intn(5)]
		default:
			fns[i] = []string{"upper", "abs"}[rng.Intn(2)] // all NULL / bool: the function fails or yields its NULL result
		}
		if fns[i] != "-" {
			any = true
		}
	}
	if !any {
		fns[0] = "upper"
	}
	n := []int{1, 2, 2, 3}[rng.Intn(4)]
	win := []string{"cnt", "cnt", "glb"}[rng.Intn(3)] // CountingWindow(N) or GLOBAL WINDOW TRIGGER WHEN count(*) >= N
	c.Cfg = append(c.Cfg, []string{"n", strconv.Itoa(n)}, append([]string{"fns"}, fns...), []string{"win", win})
	c.Stat = append(c.Stat, "fn-keys-window-"+win)
	nrows := 4 + rng.Intn(14)
	for i := 0; i < nrows; i++ {
		t := append([]string(nil), pool[rng.Intn(len(pool))]...)
		if rng.Intn(3) == 0 {
			// a key whose function has nothing to work on (NULL / missing / wrong type) in front of other keys
			j := rng.Intn(arity - 1)
			t[j] = []string{"n", "m", "b:t"}[rng.Intn(3)]
		}
		for j := range t {
			// floor(g * 0.5) over NULL / a bool: the bridge (group key) fails while the SELECT item's evaluator yields 0 —
			// NULL arithmetic inside a function argument is C06's recorded finding (null-operand-exprlang), not a
			// question of partitioning: such cells stay numeric here
			if fns[j] == "floorhalf" && (t[j] == "n" || t[j] == "m" || strings.HasPrefix(t[j], "b:")) {
				t[j] = c04ValTok([]float64{0.5, 3, 100, 7.25}[rng.Intn(4)], true)
			}
		}
		c.Cfg = append(c.Cfg, append([]string{"raw", strconv.Itoa(i + 1)}, t...))
		row := c04Row(i+1, t)
		fv := make([]string, arity)
		for j := range fv {
			if fns[j] == "-" {
				fv[j] = t[j]
				continue
			}
			v, err := functions.GetExprBridge().EvaluateExpression(c04FnExpr(fns[j], j), row)
			if err != nil {
				fv[j] = "m" // the key is not injected: the row has no such group column
				c.Stat = append(c.Stat, "fn-key-fails")
			} else {
				fv[j] = c04ValTok(v, true)
			}
		}
		c.Ops = append(c.Ops, append([]string{"row", strconv.Itoa(i + 1)}, fv...))
	}
	c.Ops = append(c.Ops, []string{"results"})
	c.Stat = append(c.Stat, "mode-fcnt", fmt.Sprintf("arity-%d", arity))
	return c
}

// ---- dotted keys: GROUP BY n.g0 (nested map) / m.g0 (column of a LEFT JOINed table), bare or under a scalar function ----
// A dotted GROUP BY column gets no window key (existing tests pin that; C09's recorded finding): CountingWindow(N) cuts the
// stream into chunks of N rows whatever their keys, and every chunk is one batch that GROUP BY partitions by tuple. The
// result lines come per batch (`b` marker); a leaf that is present with NULL and one that is missing (no table row, no
// column, no nested map) are both NULL to the property.

func c04DotExpr(style, fn string, i int) string {
	col := fmt.Sprintf("%s.g%d", map[string]string{"nest": "n", "join": "m"}[style], i)
	if fn == "-" {
		return col
	}
	return fn + "(" + col + ")"
}

// c04DotInner: the nested map / table row of one raw tuple; with nothing present every other row has no carrier at all
func c04DotInner(id int, toks []string) (map[string]interface{}, bool) {
	m := map[string]interface{}{}
	for i, t := range toks {
		if v, present := c04TokVal(t); present {
			m[fmt.Sprintf("g%d", i)] = v
		}
	}
	return m, len(m) > 0 || id%2 != 0
}

func c04GenDotted(rng *rand.Rand, c Case, arity int, pool [][]string) Case {
	style := []string{"nest", "join"}[rng.Intn(2)]
	fns := make([]string, arity)
	for i := 0; i < arity; i++ {
		fns[i] = "-"
		kind := ""
		for _, t := range pool {
			if len(t[i]) > 1 {
				kind = t[i][:1]
			}
		}
		if rng.Intn(3) == 0 {
			switch kind {
			case "s":
				fns[i] = []string{"upper", "lower"}[rng.Intn(2)]
			case "i", "x":
				fns[i] = "abs"
			}
		}
	}
	n := []int{1, 2, 3, 4}[rng.Intn(4)]
	c.Cfg = append(c.Cfg, []string{"n", strconv.Itoa(n)}, []string{"style", style}, append([]string{"fns"}, fns...))
	nrows := 4 + rng.Intn(14)
	for i := 0; i < nrows; i++ {
		t := append([]string(nil), pool[rng.Intn(len(pool))]...)
		// present-with-NULL next to missing, in any bare column; nothing at all (no table row / no nested map) when every
		// column is bare. A function key keeps an argument it can work on: what a scalar function makes of NULL is not
		// a question of partitioning (the key evaluator and the SELECT evaluator disagree on lower(NULL): C06's finding)
		if j := rng.Intn(arity); rng.Intn(3) == 0 && fns[j] == "-" {
			t[j] = []string{"n", "m"}[rng.Intn(2)]
		}
		bare := true
		for j := range t {
			if fns[j] != "-" {
				bare = false
				if t[j] == "n" || t[j] == "m" || strings.HasPrefix(t[j], "b:") {
					if fns[j] == "abs" {
						t[j] = c04ValTok([]int{3, -3, 12}[rng.Intn(3)], true)
					} else {
						t[j] = c04ValTok([]string{"Ab", "aB", "|x"}[rng.Intn(3)], true)
					}
				}
			}
		}
		if bare && rng.Intn(8) == 0 {
			for j := range t {
				t[j] = "m"
			}
		}
		c.Cfg = append(c.Cfg, append([]string{"raw", strconv.Itoa(i + 1)}, t...))
		// the function value of a key: the engine's own evaluation of the key text on the row as the window sees it (the
		// nested map, or the stream row with the joined table row under the alias)
		row := map[string]interface{}{"id": i + 1}
		if m, carrier := c04DotInner(i+1, t); carrier {
			row[map[string]string{"nest": "n", "join": "m"}[style]] = m
		}
		fv := make([]string, arity)
		for j := range fv {
			if fns[j] == "-" {
				fv[j] = t[j]
				continue
			}
			v, err := functions.GetExprBridge().EvaluateExpression(c04DotExpr(style, fns[j], j), row)
			if err != nil {
				fv[j] = "m"
				c.Stat = append(c.Stat, "fn-key-fails")
			} else {
				fv[j] = c04ValTok(v, true)
			}
		}
		c.Ops = append(c.Ops, append([]string{"row", strconv.Itoa(i + 1)}, fv...))
	}
	c.Ops = append(c.Ops, []string{"results"})
	c.Stat = append(c.Stat, "mode-dcnt", "style-"+style, fmt.Sprintf("arity-%d", arity))
	for _, f := range fns {
		if f != "-" {
			c.Stat = append(c.Stat, "dotted-function-key")
			break
		}
	}
	return c
}

func c04SQLDotted(style string, arity, n int, fns []string, raws [][]string) [][]string {
	names := make([]string, arity)
	var sel, gb []string
	for i := 0; i < arity; i++ {
		names[i] = fmt.Sprintf("k%d", i)
		e := c04DotExpr(style, fns[i], i)
		sel = append(sel, e+" AS "+names[i])
		gb = append(gb, e)
	}
	sel = append(sel, "count(*) AS c", "collect(id) AS ids")
	from := "stream"
	if style == "join" {
		from = "stream LEFT JOIN meta m ON id = m.rid"
	}
	sql := "SELECT " + strings.Join(sel, ", ") + " FROM " + from + " GROUP BY " + strings.Join(gb, ", ") + fmt.Sprintf(", CountingWindow(%d)", n)
	s := streamsql.New(presetOpt(), streamsql.WithDiscardLog())
	defer s.Stop()
	if err := s.Execute(sql); err != nil {
		return [][]string{{"exec-error", hx(err.Error())}}
	}
	if style == "join" {
		if _, err := s.RegisterTable("meta", nil); err != nil {
			return [][]string{{"register-error", hx(err.Error())}}
		}
	}
	ch := make(chan []map[string]interface{}, 4096)
	s.AddSyncSink(func(r []map[string]interface{}) {
		cp := make([]map[string]interface{}, len(r))
		copy(cp, r)
		ch <- cp
	})
	send := func(id int, toks []string) {
		m, carrier := c04DotInner(id, toks)
		row := map[string]interface{}{"id": id}
		switch style {
		case "nest":
			if carrier {
				row["n"] = m
			}
		case "join":
			if carrier {
				m["rid"] = id
				if err := s.UpsertTable("meta", m); err != nil {
					panic(err)
				}
			}
		}
		s.Emit(row)
	}
	for _, t := range raws {
		id, _ := strconv.Atoi(t[0])
		send(id, t[1:])
	}
	for i := 1; i <= n; i++ {
		toks := make([]string, arity)
		for j := range toks {
			toks[j] = c04ValTok("~sentinel~", true)
			if fns[j] == "abs" {
				toks[j] = c04ValTok(987654321, true)
			}
		}
		send(-i, toks)
	}
	var out [][]string
	deadline := time.After(c04BarrierDeadline())
	for {
		select {
		case b := <-ch:
			done := false
			var ls [][]string
			for _, r := range b {
				if c04HasSentinel(r) {
					done = true
				}
				if !c04HasNegativeID(r) {
					ls = append(ls, c04ResultLine(r, names))
				}
			}
			if len(ls) > 0 {
				out = append(out, []string{"b"})
				out = append(out, c04SortLines(ls)...)
			}
			if done {
				return out
			}
		case <-deadline:
			c04BarrierFailed = true
			return append(out, []string{"sentinel-lost"})
		}
	}
}

func c04SQLFn(arity, n int, fns []string, raws [][]string, win string) [][]string {
	names := make([]string, arity)
	var sel, gb []string
	for i := 0; i < arity; i++ {
		names[i] = fmt.Sprintf("k%d", i)
		e := c04FnExpr(fns[i], i)
		sel = append(sel, e+" AS "+names[i])
		gb = append(gb, e)
	}
	sel = append(sel, "count(*) AS c", "collect(id) AS ids")
	w := fmt.Sprintf(", CountingWindow(%d)", n)
	if win == "glb" {
		w = fmt.Sprintf(", GLOBAL WINDOW TRIGGER WHEN count(*) >= %d", n)
	}
	sql := "SELECT " + strings.Join(sel, ", ") + " FROM stream GROUP BY " + strings.Join(gb, ", ") + w
	s := streamsql.New(presetOpt(), streamsql.WithDiscardLog())
	defer s.Stop()
	if err := s.Execute(sql); err != nil {
		return [][]string{{"exec-error", hx(err.Error())}}
	}
	ch := make(chan []map[string]interface{}, 4096)
	s.AddSyncSink(func(r []map[string]interface{}) {
		cp := make([]map[string]interface{}, len(r))
		copy(cp, r)
		ch <- cp
	})
	for _, t := range raws {
		id, _ := strconv.Atoi(t[0])
		s.Emit(c04Row(id, t[1:]))
	}
	for i := 1; i <= n; i++ {
		row := map[string]interface{}{"id": -i}
		for j := 0; j < arity; j++ {
			row[fmt.Sprintf("g%d", j)] = "~sentinel~"
			if fns[j] == "abs" {
				row[fmt.Sprintf("g%d", j)] = 987654321
			}
		}
		s.Emit(row)
	}
	var out [][]string
	deadline := time.After(c04BarrierDeadline())
	for {
		select {
		case b := <-ch:
			done := false
			for _, r := range b {
				if c04HasNegativeID(r) {
					done = true
				} else {
					out = append(out, c04ResultLine(r, names))
				}
			}
			if done {
				return c04SortLines(out)
			}
		case <-deadline:
			c04BarrierFailed = true
			return append(c04SortLines(out), []string{"sentinel-lost"})
		}
	}
}

// ---- execution ----------------------------------------------------------------------------------

func c04CfgVal(c Case, key, dflt string) string {
	for _, l := range c.Cfg {
		if len(l) >= 2 && l[0] == key {
			return l[1]
		}
	}
	return dflt
}

// c04Computed (cfg `fieldnames computed`, mode agg): the group fields are named like computed keys the stream injects
// under their own text (`floor(g0*0.5)`): a name with dots and parentheses that is not a path.
var c04Computed bool

func c04FieldName(i int) string {
	if c04Computed {
		return fmt.Sprintf("floor(g%d*0.5)", i)
	}
	return fmt.Sprintf("g%d", i)
}

func c04Row(id int, toks []string) map[string]interface{} {
	row := map[string]interface{}{"id": id}
	for i, t := range toks {
		if v, present := c04TokVal(t); present {
			row[c04FieldName(i)] = v
		}
	}
	return row
}

func c04GroupFields(arity int) []string {
	f := make([]string, arity)
	for i := range f {
		f[i] = c04FieldName(i)
	}
	return f
}

func c04Enc(which string, toks []string) string {
	row := c04Row(0, toks)
	delete(row, "id")
	keys := c04GroupFields(len(toks))
	switch which {
	case "agg":
		ga := aggregator.NewGroupAggregator(keys, []aggregator.AggregationField{{InputField: "*", AggregateType: aggregator.Count, OutputAlias: "c"}})
		if err := ga.Add(row); err != nil {
			return "err:" + err.Error()
		}
		ks := aggregator.VerifGroupKeys(ga)
		if len(ks) != 1 {
			return fmt.Sprintf("err:%d-keys", len(ks))
		}
		return ks[0]
	case "counting":
		cw, err := window.NewCountingWindow(types.WindowConfig{Params: []interface{}{1}, GroupByKeys: keys})
		if err != nil {
			return "err:" + err.Error()
		}
		defer cw.Stop()
		return window.VerifCountingKey(cw, row)
	case "session":
		return window.VerifSessionKey(row, keys)
	case "sessionS":
		sk := make([]string, len(toks))
		for i := range sk {
			sk[i] = "G" + strconv.Itoa(i)
		}
		return window.VerifSessionKey(c04StructRow(0, toks), sk)
	default:
		gw, err := window.NewGlobalWindow(types.WindowConfig{GroupByKeys: keys, TriggerCondition: "count(*) >= 1",
			SelectFields: map[string]aggregator.AggregateType{"c": aggregator.Count}, FieldAlias: map[string]string{"c": "*"}})
		if err != nil {
			return "err:" + err.Error()
		}
		defer gw.Stop()
		return window.VerifGlobalKey(gw, row)
	}
}

// c04ResultLine renders one result row: `g v… c <count> ids <id…>`; names are the output column names.
func c04ResultLine(r map[string]interface{}, names []string) []string {
	l := []string{"g"}
	for _, n := range names {
		v, ok := r[n]
		if !ok {
			l = append(l, "n") // a group column that is absent from the result is NULL to the reader
			continue
		}
		l = append(l, c04ValTok(v, true))
	}
	l = append(l, "c", fmt.Sprint(r["c"]), "ids")
	if ids, ok := r["ids"].([]interface{}); ok {
		for _, id := range ids {
			l = append(l, fmt.Sprint(id))
		}
	} else if r["ids"] != nil {
		l = append(l, fmt.Sprintf("?%T", r["ids"]))
	}
	return l
}

func c04SortLines(ls [][]string) [][]string {
	sort.Slice(ls, func(i, j int) bool { return strings.Join(ls[i], " ") < strings.Join(ls[j], " ") })
	return ls
}

// c04BarrierDeadline bounds the wait for a quiescence barrier (sentinel result / exact row accounting).
// Reaching it is reported as a failure observable, never as a pass. Once a barrier has failed in this
// process the implementation is broken anyway, and the remaining cases only wait briefly.
var c04BarrierFailed bool

func c04BarrierDeadline() time.Duration {
	if c04BarrierFailed {
		return 200 * time.Millisecond
	}
	return 2 * time.Second
}

func c04HasSentinel(r map[string]interface{}) bool {
	ids, _ := r["ids"].([]interface{})
	for _, id := range ids {
		if fmt.Sprint(id) == "-1" {
			return true
		}
	}
	return false
}

func c04HasNegativeID(r map[string]interface{}) bool {
	ids, _ := r["ids"].([]interface{})
	for _, id := range ids {
		if strings.HasPrefix(fmt.Sprint(id), "-") {
			return true
		}
	}
	return false
}

// c04SQL runs the rows through a counting / global window query. Quiescence without a clock: n sentinel
// rows (ids -1…-n, a key tuple no generated value can collide with) follow the rows; the window goroutine,
// its output channel, the batch processor and the synchronous sink are all FIFO, so the result that
// contains id -1 is delivered after every result of the rows before it.
// c04BQ (cfg `bq 1`): the group columns are written as back-quoted identifiers in SELECT and GROUP BY
var c04BQ bool

func c04SQL(mode string, arity, n int, alias int, rows [][]string) [][]string {
	gf := c04GroupFields(arity)
	names := make([]string, arity)
	sel := make([]string, 0, arity+2)
	gfSQL := append([]string(nil), gf...)
	if c04BQ {
		for i := range gfSQL {
			gfSQL[i] = "`" + gfSQL[i] + "`"
		}
	}
	for i, f := range gfSQL {
		names[i] = gf[i]
		if alias&(1<<uint(i)) != 0 {
			names[i] = fmt.Sprintf("k%d", i)
			sel = append(sel, f+" AS "+names[i])
		} else {
			sel = append(sel, f)
		}
	}
	sel = append(sel, "count(*) AS c", "collect(id) AS ids")
	win := fmt.Sprintf("CountingWindow(%d)", n)
	if mode == "glb" {
		win = fmt.Sprintf("GLOBAL WINDOW TRIGGER WHEN count(*) >= %d", n)
	}
	sql := "SELECT " + strings.Join(sel, ", ") + " FROM stream GROUP BY " + strings.Join(append(append([]string(nil), gfSQL...), win), ", ")
	s := streamsql.New(presetOpt(), streamsql.WithDiscardLog())
	defer s.Stop()
	if err := s.Execute(sql); err != nil {
		return [][]string{{"exec-error", hx(err.Error())}}
	}
	ch := make(chan []map[string]interface{}, 4096)
	s.AddSyncSink(func(r []map[string]interface{}) {
		cp := make([]map[string]interface{}, len(r))
		copy(cp, r)
		ch <- cp
	})
	for i, t := range rows {
		id, _ := strconv.Atoi(t[0])
		_ = i
		s.Emit(c04Row(id, t[1:]))
	}
	for i := 1; i <= n; i++ {
		row := map[string]interface{}{"id": -i}
		for _, f := range gf {
			row[f] = "~sentinel~"
		}
		s.Emit(row)
	}
	var out [][]string
	deadline := time.After(c04BarrierDeadline())
	for {
		select {
		case b := <-ch:
			done := false
			for _, r := range b {
				if c04HasSentinel(r) {
					done = true
				}
				if !c04HasNegativeID(r) {
					out = append(out, c04ResultLine(r, names))
				}
			}
			if done {
				return c04SortLines(out)
			}
		case <-deadline:
			c04BarrierFailed = true
			return append(c04SortLines(out), []string{"sentinel-lost"})
		}
	}
}

// c04Session drives a real SessionWindow without its goroutine: Add every row (one session per encoded key, the
// one-hour gap never expires), Trigger() hands out one batch per session; every batch goes through a fresh
// GroupAggregator as stream.processWindowBatch does.
// struct rows of the session window (cfg structrows): exported string fields G0…, the row number in Id
type c04S1 struct {
	Id int
	G0 string
}
type c04S2 struct {
	Id     int
	G0, G1 string
}
type c04S3 struct {
	Id         int
	G0, G1, G2 string
}

var c04StructRows bool

func c04StructRow(id int, toks []string) interface{} {
	v := make([]string, 3)
	for i, t := range toks {
		if x, ok := c04TokVal(t); ok {
			v[i], _ = x.(string)
		}
	}
	switch len(toks) {
	case 1:
		return c04S1{id, v[0]}
	case 2:
		return c04S2{id, v[0], v[1]}
	}
	return c04S3{id, v[0], v[1], v[2]}
}

func c04Session(arity int, rows [][]string) [][]string {
	gf := c04GroupFields(arity)
	idField := "id"
	if c04StructRows {
		for i := range gf {
			gf[i] = "G" + strconv.Itoa(i)
		}
		idField = "Id"
	}
	sw, err := window.NewSessionWindow(types.WindowConfig{Params: []interface{}{"1h"}, GroupByKeys: gf})
	if err != nil {
		return [][]string{{"ctor-error", hx(err.Error())}}
	}
	defer sw.Stop()
	for _, t := range rows {
		id, _ := strconv.Atoi(t[0])
		if c04StructRows {
			sw.Add(c04StructRow(id, t[1:]))
		} else {
			sw.Add(c04Row(id, t[1:]))
		}
	}
	sw.Trigger()
	var ls [][]string
	for {
		select {
		case batch := <-sw.OutputChan():
			ga := aggregator.NewGroupAggregator(gf, []aggregator.AggregationField{
				{InputField: "*", AggregateType: aggregator.Count, OutputAlias: "c"},
				{InputField: idField, AggregateType: aggregator.Collect, OutputAlias: "ids"}})
			for _, r := range batch {
				if err := ga.Add(r.Data); err != nil {
					ls = append(ls, []string{"add-error", hx(err.Error())})
				}
			}
			res, _ := ga.GetResults()
			for _, r := range res {
				ls = append(ls, c04ResultLine(r, gf))
			}
		default:
			return c04SortLines(ls)
		}
	}
}

func (c04) Exec(c Case) [][][]string {
	mode := c04CfgVal(c, "mode", "enc")
	c04Computed = mode == "agg" && c04CfgVal(c, "fieldnames", "") == "computed"
	defer func() { c04Computed = false }()
	arity, _ := strconv.Atoi(c04CfgVal(c, "arity", "0"))
	n, _ := strconv.Atoi(c04CfgVal(c, "n", "1"))
	alias, _ := strconv.Atoi(c04CfgVal(c, "alias", "0"))
	c04BQ = c04CfgVal(c, "bq", "0") == "1"
	defer func() { c04BQ = false }()
	var out [][][]string
	var rows [][]string
	for _, op := range c.Ops {
		switch op[0] {
		case "enc":
			out = append(out, [][]string{{"k", hx(c04Enc(op[1], op[2:]))}})
		case "row":
			rows = append(rows, op[1:])
			out = append(out, nil)
		case "results":
			switch mode {
			case "agg":
				gf := c04GroupFields(arity)
				ga := aggregator.NewGroupAggregator(gf, []aggregator.AggregationField{
					{InputField: "*", AggregateType: aggregator.Count, OutputAlias: "c"},
					{InputField: "id", AggregateType: aggregator.Collect, OutputAlias: "ids"}})
				for _, t := range rows {
					id, _ := strconv.Atoi(t[0])
					if err := ga.Add(c04Row(id, t[1:])); err != nil {
						out = append(out, [][]string{{"add-error", hx(err.Error())}})
					}
				}
				res, err := ga.GetResults()
				if err != nil {
					out = append(out, [][]string{{"results-error", hx(err.Error())}})
					continue
				}
				var ls [][]string
				for _, r := range res {
					ls = append(ls, c04ResultLine(r, gf))
				}
				out = append(out, c04SortLines(ls))
			case "ses":
				c04StructRows = c04CfgVal(c, "structrows", "0") == "1"
				out = append(out, c04Session(arity, rows))
				c04StructRows = false
			case "dcnt":
				var fns []string
				var raws [][]string
				for _, l := range c.Cfg {
					switch l[0] {
					case "fns":
						fns = l[1:]
					case "raw":
						raws = append(raws, l[1:])
					}
				}
				out = append(out, c04SQLDotted(c04CfgVal(c, "style", "nest"), arity, n, fns, raws))
			case "fcnt":
				var fns []string
				var raws [][]string
				for _, l := range c.Cfg {
					switch l[0] {
					case "fns":
						fns = l[1:]
					case "raw":
						raws = append(raws, l[1:])
					}
				}
				out = append(out, c04SQLFn(arity, n, fns, raws, c04CfgVal(c, "win", "cnt")))
			default:
				out = append(out, c04SQL(mode, arity, n, alias, rows))
			}
		default:
			out = append(out, [][]string{{"bad-op"}})
		}
	}
	return out
}
