package main

// Deterministic scheduler for the protocol properties (C18, C19; DESIGN §5, §6.1).
//
// The stream package calls verifYieldPoint(point) at its synchronisation points (build tag
// verif). The scheduler installed here parks the calling goroutine at the points a property
// is interested in and releases exactly one parked goroutine per step. A step is over when
// every managed goroutine is parked at a yield point, has finished, or is *verifiably blocked*
// in the Go runtime (waiting for a lock or a channel): that is read from runtime.Stack, not
// inferred from elapsed time, so no verdict and no trace line depends on timing. Goroutines
// released into a wait that a timer ends by itself (100µs retry timers, the consumer's 100ms
// ticker, a block timeout) are simply waited for. A 10 s watchdog turns a scheduler bug or a
// real hang into the observable `stuck` instead of hanging the check.

import (
	"bytes"
	"os"
	"runtime"
	"strconv"
	"strings"
	"sync"
	"sync/atomic"
	"time"
)

var c19SchedDebug = os.Getenv("VERIF_SCHED_DEBUG") != ""

const (
	c19StNew = iota
	c19StParked
	c19StRunning
	c19StBlocked
	c19StFin
)

type c19Thread struct {
	name       string
	gid        int64
	resume     chan struct{}
	status     int
	point      string // parked: the point reached; running/blocked: the point released from
	moved      bool   // produced an event during the current step
	newBlocked bool   // became blocked during the current step
	timed      bool   // released into a wait that ends by itself
	bstate     string // runtime wait state seen when the thread was classified as blocked
	aux        interface{}
	// producers
	k      int  // next row
	inEmit bool // an Emit call is in progress
}

type c19Event struct {
	t     *c19Thread
	point string
	fin   bool
	aux   interface{}
}

type c19Sched struct {
	mu     sync.Mutex
	byGid  map[int64]*c19Thread
	byName map[string]*c19Thread
	order  []*c19Thread
	events chan c19Event
	free   atomic.Bool
	freeCh chan struct{}
	// configuration
	interesting map[string]bool
	timedPoints map[string]bool
	adopt       func(point string) string      // name for an unknown goroutine arriving at point ("" = let it pass)
	auxAt       func(point string) interface{} // evaluated by the arriving goroutine itself
	watchStray  string                         // also wait for unmanaged goroutines running code of this package path
	stuck       bool
}

func c19NewSched(points []string, timed []string) *c19Sched {
	s := &c19Sched{byGid: map[int64]*c19Thread{}, byName: map[string]*c19Thread{}, events: make(chan c19Event, 4096), freeCh: make(chan struct{}),
		interesting: map[string]bool{}, timedPoints: map[string]bool{}}
	for _, p := range points {
		s.interesting[p] = true
	}
	for _, p := range timed {
		s.timedPoints[p] = true
	}
	return s
}

func c19CurGid() int64 {
	var buf [64]byte
	n := runtime.Stack(buf[:], false)
	// "goroutine 123 [running]:"
	f := bytes.Fields(buf[:n])
	if len(f) < 2 {
		return -1
	}
	g, _ := strconv.ParseInt(string(f[1]), 10, 64)
	return g
}

// thread declares a managed thread (scheduler goroutine only).
func (s *c19Sched) thread(name string) *c19Thread {
	s.mu.Lock()
	defer s.mu.Unlock()
	if t, ok := s.byName[name]; ok {
		return t
	}
	t := &c19Thread{name: name, resume: make(chan struct{}, 1), status: c19StNew}
	s.byName[name] = t
	s.order = append(s.order, t)
	return t
}

// bind attaches the calling goroutine to a declared thread.
func (s *c19Sched) bind(name string) {
	gid := c19CurGid()
	s.mu.Lock()
	t := s.byName[name]
	t.gid = gid
	s.byGid[gid] = t
	s.mu.Unlock()
}

// yield is installed as the stream package's verifYield and also called by harness goroutines.
func (s *c19Sched) yield(point string) {
	if s.free.Load() || !s.interesting[point] {
		return
	}
	gid := c19CurGid()
	s.mu.Lock()
	t := s.byGid[gid]
	if t == nil && s.adopt != nil {
		if name := s.adopt(point); name != "" {
			if cand := s.byName[name]; cand != nil && cand.gid == 0 {
				cand.gid = gid
				s.byGid[gid] = cand
				t = cand
			}
		}
	}
	s.mu.Unlock()
	if t == nil {
		return
	}
	var aux interface{}
	if s.auxAt != nil {
		aux = s.auxAt(point)
	}
	s.events <- c19Event{t: t, point: point, aux: aux}
	select {
	case <-t.resume:
	case <-s.freeCh:
	}
}

// finish reports the end of a harness goroutine.
func (s *c19Sched) finish(name string) {
	if s.free.Load() {
		return
	}
	s.mu.Lock()
	t := s.byName[name]
	s.mu.Unlock()
	s.events <- c19Event{t: t, point: "fin", fin: true}
}

func (s *c19Sched) apply(e c19Event) {
	t := e.t
	if e.fin {
		t.status = c19StFin
	} else {
		t.status = c19StParked
	}
	t.point = e.point
	t.moved = true
	t.newBlocked = false
	t.timed = false
	if e.aux != nil {
		t.aux = e.aux
	}
}

func (s *c19Sched) drain() int {
	n := 0
	for {
		select {
		case e := <-s.events:
			s.apply(e)
			n++
		default:
			return n
		}
	}
}

// expect blocks until the named threads have parked for the first time.
func (s *c19Sched) expect(names ...string) bool {
	deadline := time.After(10 * time.Second)
	for {
		ok := true
		for _, n := range names {
			if t := s.byName[n]; t == nil || t.status == c19StNew {
				ok = false
			}
		}
		if ok {
			return true
		}
		select {
		case e := <-s.events:
			s.apply(e)
		case <-deadline:
			s.stuck = true
			return false
		}
	}
}

type c19GState struct {
	state   string
	inYield bool
	stack   string
}

// c19GoroutineStates parses runtime.Stack(all): goroutine id → wait state.
var c19StackBuf = make([]byte, 1<<18)

func c19GoroutineStates() map[int64]c19GState {
	var buf []byte
	for {
		n := runtime.Stack(c19StackBuf, true)
		if n < len(c19StackBuf) {
			buf = c19StackBuf[:n]
			break
		}
		c19StackBuf = make([]byte, 2*len(c19StackBuf))
	}
	out := map[int64]c19GState{}
	for _, blk := range strings.Split(string(buf), "\n\n") {
		if !strings.HasPrefix(blk, "goroutine ") {
			continue
		}
		nl := strings.IndexByte(blk, '\n')
		hdr := blk
		if nl >= 0 {
			hdr = blk[:nl]
		}
		// goroutine 12 [chan receive, 2 minutes]:
		sp := strings.IndexByte(hdr[10:], ' ')
		if sp < 0 {
			continue
		}
		gid, err := strconv.ParseInt(hdr[10:10+sp], 10, 64)
		if err != nil {
			continue
		}
		lb, rb := strings.IndexByte(hdr, '['), strings.LastIndexByte(hdr, ']')
		if lb < 0 || rb < lb {
			continue
		}
		st := hdr[lb+1 : rb]
		if c := strings.IndexByte(st, ','); c >= 0 {
			st = st[:c]
		}
		out[gid] = c19GState{stack: blk, state: st, inYield: strings.Contains(blk, "(*c19Sched).yield") || strings.Contains(blk, "(*c19Sched).finish") || strings.Contains(blk, "(*c19Sched).bind")}
	}
	return out
}

func c19BlockedState(g c19GState, timed bool) bool {
	if g.inYield {
		return false
	}
	switch g.state {
	case "sync.Mutex.Lock", "sync.RWMutex.RLock", "sync.RWMutex.Lock", "sync.Cond.Wait":
		return true
	case "semacquire":
		// also the state of a goroutine that waits for the runtime's own semaphores (e.g. to start
		// a GC cycle while this scheduler holds the world stopped): only WaitGroup.Wait counts
		return strings.Contains(g.stack, "sync.(*WaitGroup).Wait")
	case "select", "chan send", "chan receive", "select (no cases)":
		return !timed
	}
	return false
}

// settle waits until every managed goroutine is parked, finished or verifiably blocked.
func (s *c19Sched) settle() {
	deadline := time.Now().Add(10 * time.Second)
	for spin := 0; ; spin++ {
		s.drain()
		busy := false
		s.mu.Lock()
		for _, t := range s.order {
			if t.status == c19StNew && t.gid != 0 {
				t.status = c19StRunning // just adopted: on its way to its first park
			}
			if t.status == c19StRunning || t.status == c19StBlocked {
				busy = true
			}
		}
		s.mu.Unlock()
		if !busy && s.watchStray == "" {
			return
		}
		snap := c19GoroutineStates()
		if !busy {
			// nothing managed is running: a goroutine not yet known to the scheduler (a sink worker
			// that has just been handed a task) may still be on its way to its first yield point
			if s.drain() == 0 && !s.strayRunning(snap) {
				if c19SchedDebug {
					for gid, g := range snap {
						if strings.Contains(g.stack, "startSinkWorkerPool") {
							println("SETTLE-RETURN worker", gid, g.state, g.inYield)
						}
					}
				}
				return
			}
			if time.Now().After(deadline) {
				s.stuck = true
				return
			}
			runtime.Gosched()
			continue
		}
		// the snapshot is trusted only if nothing parked after it was taken: then every managed
		// goroutine was parked, finished or in the state the snapshot shows at one instant
		quiet := s.drain() == 0
		for _, t := range s.order {
			if t.status != c19StRunning && t.status != c19StBlocked {
				continue
			}
			g, alive := snap[t.gid]
			if !alive {
				// the goroutine returned without passing another yield point (consumer exit)
				t.status, t.point, t.moved, t.newBlocked = c19StFin, "fin", true, false
				continue
			}
			if c19BlockedState(g, t.timed) {
				t.bstate = g.state
				if t.status == c19StRunning {
					t.status, t.newBlocked = c19StBlocked, true
					if c19SchedDebug {
						println("BLOCKED", t.name, t.point, g.stack)
					}
				}
			} else {
				if t.status == c19StBlocked {
					t.status = c19StRunning
				}
				quiet = false
			}
		}
		if quiet && s.watchStray != "" && s.strayRunning(snap) {
			quiet = false
		}
		if quiet {
			return
		}
		if time.Now().After(deadline) {
			s.stuck = true
			return
		}
		if spin < 50 {
			runtime.Gosched()
		} else {
			time.Sleep(20 * time.Microsecond)
		}
	}
}

// strayRunning reports an unmanaged goroutine that is executing (not blocked in) the watched package.
func (s *c19Sched) strayRunning(snap map[int64]c19GState) bool {
	s.mu.Lock()
	defer s.mu.Unlock()
	for gid, g := range snap {
		if t, managed := s.byGid[gid]; managed && t.status != c19StNew {
			continue // its status is tracked by settle itself
		}
		if !strings.Contains(g.stack, s.watchStray) {
			continue
		}
		// anything that is not verifiably parked in the runtime counts as running (a goroutine that
		// waits for a runtime semaphore while this scheduler holds the world stopped shows as
		// `semacquire`, a preempted one as `preempted`, ...)
		if g.inYield || !c19BlockedState(g, false) {
			return true
		}
	}
	return false
}

// release lets a parked thread run; the caller then settles.
func (s *c19Sched) release(t *c19Thread) {
	t.status = c19StRunning
	t.timed = s.timedPoints[t.point]
	t.resume <- struct{}{}
}

func (s *c19Sched) clearMarks() {
	for _, t := range s.order {
		t.moved, t.newBlocked = false, false
	}
}

// freeAll ends scheduling: every yield point passes, every parked goroutine continues.
func (s *c19Sched) freeAll() {
	if s.free.CompareAndSwap(false, true) {
		close(s.freeCh)
	}
}
