package main

import (
	"math/rand"
	"strconv"
)

// C02 — watermark discipline: no early firing, no on-time loss, bounded late updates.
// Runs the tumbling, sliding and session windows with ALLOWEDLATENESS in {0, small, large},
// late rows just inside / outside the allowance, far-future and timestamp-less rows, and
// bursts faster than the trigger handler (undelivered watermarks).
type c02 struct{}

func init() { registry["C02"] = c02{} }

func (c02) Count(tier string) int {
	if tier == "thorough" {
		return 4000
	}
	return 450
}

// genLateOps: like genWindowOps, with more late rows placed around (window end + lateness) and
// with deliveries lagging behind the adds.
func genLateOps(rng *rand.Rand, c *Case, unit, ooo, lateness int64) {
	nextID := 1
	n := 10 + rng.Intn(30)
	front := int64(3)
	addOp := func(ts int64) {
		tok := itoa(ts)
		switch rng.Intn(12) { // timestamp field type variants
		case 0:
			tok = "f" + tok
		case 1:
			tok = "s" + tok
		case 2:
			tok = "t" + tok
		}
		c.Ops = append(c.Ops, []string{"add", strconv.Itoa(nextID), tok})
		nextID++
	}
	lag := rng.Intn(3) == 0 // trigger lags: few deliveries
	if lag {
		c.Stat = append(c.Stat, "trigger-lags")
	}
	for i := 0; i < n; i++ {
		r := rng.Intn(100)
		switch {
		case r < 40: // on-time progress
			front += int64(rng.Intn(3))
			addOp(tsBase + front*unit + rng.Int63n(unit))
		case r < 65: // late by a chosen distance: around ooo, around ooo+lateness, far beyond
			var back int64
			switch rng.Intn(5) {
			case 0:
				back = ooo + rng.Int63n(unit+1)
			case 1:
				back = ooo + lateness - 1 + int64(rng.Intn(3))
			case 2:
				back = ooo + lateness + unit + rng.Int63n(unit+1)
			case 3:
				back = ooo + unit + rng.Int63n(2*unit+1)
			default:
				back = ooo + 3*lateness + 5*unit
			}
			t := tsBase + front*unit - back
			if t < tsBase {
				t = tsBase
			}
			addOp(t)
		case r < 68:
			c.Ops = append(c.Ops, []string{"add", strconv.Itoa(nextID), []string{"none", "nil", "garbage"}[rng.Intn(3)]})
			nextID++
			c.Stat = append(c.Stat, "unplaceable-row")
		case r < 71:
			addOp(farFuture + int64(rng.Intn(1000)))
			c.Stat = append(c.Stat, "far-future-row")
		case r < 74:
			c.Ops = append(c.Ops, []string{"tick"})
		case r < 92:
			if lag && rng.Intn(3) > 0 {
				front += 1
				addOp(tsBase + front*unit)
				continue
			}
			op := []string{"deliver"}
			if rng.Intn(4) == 0 {
				back := ooo + rng.Int63n(lateness+2*unit+1)
				t := tsBase + front*unit - back
				if t < tsBase {
					t = tsBase
				}
				op = append(op, strconv.Itoa(rng.Intn(2))+":"+strconv.Itoa(nextID)+":"+itoa(t))
				nextID++
				c.Stat = append(c.Stat, "gap-add")
			}
			c.Ops = append(c.Ops, op)
		default:
			c.Ops = append(c.Ops, []string{"drain"})
		}
	}
	addOp(tsBase + (front+60)*unit + ooo + lateness)
	c.Ops = append(c.Ops, []string{"drain"}, []string{"tick"}, []string{"drain"})
}

func (c02) Gen(rng *rand.Rand, tier string, idx int) Case {
	var c Case
	if idx%15 == 14 {
		// SQL-level stage with ALLOWEDLATENESS: re-deliveries carry the same window bounds / window_id
		sz := []int64{1000, 500}[rng.Intn(2)]
		o := []int64{0, sz / 2, sz}[rng.Intn(3)]
		l := []int64{sz, 3 * sz, 20 * sz}[rng.Intn(3)]
		c.Cfg = [][]string{{"kind", "sqltumbling"}, {"size", itoa(sz)}, {"ooo", itoa(o)}, {"late", itoa(l)}, {"now", "0"}}
		genSQLWindow(rng, &c, sz, o+l/2)
		c.Stat = append(c.Stat, "sql-lateness>0")
		return c
	}
	switch k := rng.Intn(10); {
	case k < 5: // tumbling with lateness
		sizes := []int64{10, 1000, 7}
		size := sizes[rng.Intn(len(sizes))]
		ooo := []int64{0, size / 2, size, 2*size + 1}[rng.Intn(4)]
		late := []int64{0, 1, size / 2, size, 3 * size, 20 * size}[rng.Intn(6)]
		c.Cfg = [][]string{{"kind", "tumbling"}, {"mode", "et"}, {"size", itoa(size)}, {"ooo", itoa(ooo)}, {"late", itoa(late)}, {"now", "0"}}
		if rng.Intn(12) == 0 { // TIMEUNIT not declared: numeric timestamps are unplaceable, time.Time values still work
			c.Cfg = append(c.Cfg, []string{"tsunit", "0"})
			c.Stat = append(c.Stat, "no-timeunit")
		}
		genLateOps(rng, &c, size, ooo, late)
		c.Stat = append(c.Stat, "tumbling", "lateness="+map[bool]string{true: "0", false: ">0"}[late == 0])
	case k < 7: // sliding (late-update target chosen by Go map order: the driver takes the observed target as witness)
		p := [][2]int64{{2, 1}, {3, 2}, {5, 5}, {2, 3}}[rng.Intn(4)]
		u := []int64{1, 10, 1000}[rng.Intn(3)]
		size, slide := p[0]*u, p[1]*u
		ooo := []int64{0, slide, 2*size + 1}[rng.Intn(3)]
		late := []int64{0, 1, slide, 3 * size}[rng.Intn(4)]
		c.Cfg = [][]string{{"kind", "sliding"}, {"mode", "et"}, {"size", itoa(size)}, {"slide", itoa(slide)}, {"ooo", itoa(ooo)}, {"late", itoa(late)}, {"now", "0"}}
		genLateOps(rng, &c, slide, ooo, late)
		c.Stat = append(c.Stat, "sliding", "lateness="+map[bool]string{true: "0", false: ">0"}[late == 0])
	default: // session with lateness
		timeout := []int64{10, 1000, 3}[rng.Intn(3)]
		ooo := []int64{0, timeout / 2, timeout, 3 * timeout}[rng.Intn(4)]
		late := []int64{0, 1, timeout, 5 * timeout}[rng.Intn(4)]
		keys := [][]string{{"a"}, {"a", "b"}}[rng.Intn(2)]
		c.Cfg = [][]string{{"kind", "session"}, {"mode", "et"}, {"timeout", itoa(timeout)}, {"ooo", itoa(ooo)}, {"late", itoa(late)}, {"groupby", "k"}, {"now", "0"}}
		genSessionOps(rng, &c, timeout, ooo, keys, true)
		c.Stat = append(c.Stat, "session", "lateness="+map[bool]string{true: "0", false: ">0"}[late == 0])
	}
	return c
}

func (c02) Exec(c Case) [][][]string {
	if isSQLWindowCase(c) {
		return execSQLWindow(c)
	}
	return execWindow(c)
}
