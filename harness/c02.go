package main

import (
	"math/rand"
	"strconv"
)

// C02 — watermark discipline: no early firing, no on-time loss, bounded late updates.
// Runs the tumbling, sliding and session windows with ALLOWEDLATENESS in {0, small, large},
// late rows just inside / outside the allowance, far-future and timestamp-less rows, and
// bursts faster than the trigger handler (undelivered watermarks).
type c02 struct{}

func init() { registry["C02"] = c02{} }

func (c02) Count(tier string) int {
	if tier == "thorough" {
		return 4000
	}
	return 450
}

// genLateOps: like genWindowOps, with more late rows placed around (window end + lateness) and
// with deliveries lagging behind the adds.
func genLateOps(rng *rand.Rand, c *Case, unit, ooo, lateness int64) {
	gapEvery := 4 // one delivery in gapEvery carries an Add in its unlock gap
	if cfgStr(*c, "kind", "") == "sliding" && lateness > 0 {
		gapEvery = 2 // overlapping windows: the row of the gap often lies in the window being delivered
	}
	nextID := 1
	n := 10 + rng.Intn(30)
	front := int64(3)
	addOp := func(ts int64) {
		tok := itoa(ts)
		switch rng.Intn(12) { // timestamp field type variants
		case 0:
			tok = "f" + tok
		case 1:
			tok = "s" + tok
		case 2:
			tok = "t" + tok
		case 3:
			tok = "h" + tok
		case 4:
			tok = "q" + tok
		}
		c.Ops = append(c.Ops, []string{"add", strconv.Itoa(nextID), tok})
		nextID++
	}
	lag := rng.Intn(3) == 0 // trigger lags: few deliveries
	if lag {
		c.Stat = append(c.Stat, "trigger-lags")
	}
	for i := 0; i < n; i++ {
		r := rng.Intn(100)
		switch {
		case r < 40: // on-time progress
			front += int64(rng.Intn(3))
			addOp(tsBase + front*unit + rng.Int63n(unit))
		case r < 65: // late by a chosen distance: around ooo, around ooo+lateness, far beyond
			var back int64
			switch rng.Intn(5) {
			case 0:
				back = ooo + rng.Int63n(unit+1)
			case 1:
				back = ooo + lateness - 1 + int64(rng.Intn(3))
			case 2:
				back = ooo + lateness + unit + rng.Int63n(unit+1)
			case 3:
				back = ooo + unit + rng.Int63n(2*unit+1)
			default:
				back = ooo + 3*lateness + 5*unit
			}
			t := tsBase + front*unit - back
			if t < tsBase {
				t = tsBase
			}
			addOp(t)
		case r < 68:
			c.Ops = append(c.Ops, []string{"add", strconv.Itoa(nextID), []string{"none", "nil", "garbage"}[rng.Intn(3)]})
			nextID++
			c.Stat = append(c.Stat, "unplaceable-row")
		case r < 71:
			addOp(farFuture + int64(rng.Intn(1000)))
			c.Stat = append(c.Stat, "far-future-row")
		case r < 74:
			c.Ops = append(c.Ops, []string{"tick"})
		case r < 92:
			if lag && rng.Intn(3) > 0 {
				front += 1
				addOp(tsBase + front*unit)
				continue
			}
			op := []string{"deliver"}
			if rng.Intn(gapEvery) == 0 {
				back := ooo + rng.Int63n(lateness+2*unit+1)
				if gapEvery == 2 && rng.Intn(2) == 0 {
					back = ooo + 1 + rng.Int63n(2*unit) // just behind the watermark: inside the window that has just fired
				}
				t := tsBase + front*unit - back
				if t < tsBase {
					t = tsBase
				}
				if gapEvery == 2 && rng.Intn(2) == 0 {
					// aimed at the window being delivered (resolved when it is handed over)
					op = append(op, strconv.Itoa(rng.Intn(2))+":"+strconv.Itoa(nextID)+":@"+itoa(rng.Int63n(unit+1)))
					c.Stat = append(c.Stat, "gap-add-into-delivered-window")
				} else {
					op = append(op, strconv.Itoa(rng.Intn(2))+":"+strconv.Itoa(nextID)+":"+itoa(t))
				}
				nextID++
				c.Stat = append(c.Stat, "gap-add")
			}
			c.Ops = append(c.Ops, op)
		default:
			c.Ops = append(c.Ops, []string{"drain"})
		}
	}
	addOp(tsBase + (front+60)*unit + ooo + lateness)
	c.Ops = append(c.Ops, []string{"drain"}, []string{"tick"}, []string{"drain"})
}

// genSQLSessionLate: in-order rows of 1-2 keys; now and then a row of ANOTHER key far enough ahead closes the
// sessions open so far, the harness waits until one of them has reached the sink (`await <id>`), and a late row
// of that session (inside [first event, last event], well inside the allowance) follows.
func genSQLSessionLate(rng *rand.Rand, c *Case, timeout int64) {
	clock := int64(1_000_000_000)
	keys := []string{"a", "b"}[:1+rng.Intn(2)]
	id := 1
	type open struct {
		first, last int64
		ids         []int
	}
	cur := map[string]*open{}
	rounds := 1 + rng.Intn(3)
	for r := 0; r < rounds; r++ {
		for i := 0; i < 2+rng.Intn(5); i++ {
			k := keys[rng.Intn(len(keys))]
			clock += 1 + rng.Int63n(timeout/2)
			if o := cur[k]; o != nil && clock-o.last < timeout {
				o.last = clock
				o.ids = append(o.ids, id)
			} else {
				cur[k] = &open{first: clock, last: clock, ids: []int{id}}
			}
			c.Ops = append(c.Ops, []string{"row", strconv.Itoa(id), itoa(clock), hx(k)})
			id++
		}
		// close everything: a row of key "p" beyond every open session's end
		clock += 3 * timeout
		c.Ops = append(c.Ops, []string{"row", strconv.Itoa(id), itoa(clock), hx("p")})
		id++
		for _, k := range keys {
			o := cur[k]
			if o == nil {
				continue
			}
			c.Ops = append(c.Ops, []string{"await", strconv.Itoa(o.ids[0])})
			for j := 0; j < 1+rng.Intn(2); j++ {
				t := o.first + rng.Int63n(o.last-o.first+1)
				c.Ops = append(c.Ops, []string{"late", strconv.Itoa(id), itoa(t), hx(k)})
				id++
			}
			c.Stat = append(c.Stat, "sql-late-row-of-delivered-session")
		}
		cur = map[string]*open{}
		clock += timeout
	}
	c.Ops = append(c.Ops, []string{"row", strconv.Itoa(id), itoa(clock + 40*timeout), hx("zz")})
	c.Ops = append(c.Ops, []string{"row", strconv.Itoa(id + 1), itoa(clock + 80*timeout), hx("zz")})
	c.Ops = append(c.Ops, []string{"flush"})
	c.Stat = append(c.Stat, "sql-level")
}

// genNaturalIdleOps: Adds, naps and unforced ticker updates. A row that does not raise the largest event time still
// is an event of the source: a tick right after it must find the source busy however long ago the maximum last moved.
func genNaturalIdleOps(rng *rand.Rand, c *Case, unit int64) {
	nextID := 1
	front := int64(3)
	add := func(ts int64) {
		c.Ops = append(c.Ops, []string{"add", strconv.Itoa(nextID), itoa(ts)})
		nextID++
	}
	for i := 0; i < 1+rng.Intn(3); i++ {
		front += int64(rng.Intn(3))
		add(tsBase + front*unit + rng.Int63n(unit))
	}
	for round := 0; round < 1+rng.Intn(2); round++ {
		c.Ops = append(c.Ops, []string{"sleep"})
		switch rng.Intn(3) {
		case 0: // an event that does not move the maximum, then a tick: busy
			add(tsBase + (front-int64(rng.Intn(2)))*unit)
			c.Ops = append(c.Ops, []string{"ntick"})
		case 1: // a tick after the nap: idle
			c.Ops = append(c.Ops, []string{"ntick"})
		default: // an event that moves the maximum, then a tick: busy
			front += 1
			add(tsBase + front*unit + 1)
			c.Ops = append(c.Ops, []string{"ntick"})
		}
		c.Ops = append(c.Ops, []string{"deliver"})
		front += int64(rng.Intn(3))
		add(tsBase + front*unit + rng.Int63n(unit))
		if rng.Intn(2) == 0 {
			c.Ops = append(c.Ops, []string{"ntick"}, []string{"deliver"})
		}
	}
	c.Ops = append(c.Ops, []string{"drain"})
}

// genLiveIdleOps: event times half an hour behind the wall clock, MAXOUTOFORDERNESS of one or two hours: an idle ticker
// update sets the watermark to wall clock − MAXOUTOFORDERNESS, which is still behind every row, so nothing fires and
// nothing becomes late; the windows fire when an event an hour ahead arrives. Every decision is at least 29 minutes
// away from the wall clock, so the time the run itself takes cannot change one.
func genLiveIdleOps(rng *rand.Rand, c *Case, unit, oooUnits int64) {
	nextID := 1
	front := int64(0)
	add := func(ts int64) {
		c.Ops = append(c.Ops, []string{"add", strconv.Itoa(nextID), itoa(ts)})
		nextID++
	}
	deliver := func() {
		if rng.Intn(3) == 0 {
			c.Ops = append(c.Ops, []string{"drain"})
		} else {
			c.Ops = append(c.Ops, []string{"deliver"})
		}
	}
	for i := 0; i < 2+rng.Intn(4); i++ {
		front += int64(rng.Intn(3))
		add(tsBase + front*unit + rng.Int63n(unit))
		if rng.Intn(2) == 0 {
			deliver()
		}
	}
	for round := 0; round < 1+rng.Intn(2); round++ {
		c.Ops = append(c.Ops, []string{"itick"})
		deliver()
		for i := 1 + rng.Intn(3); i > 0; i-- { // rows around the front: on time, the idle watermark is half an hour behind them
			back := int64(rng.Intn(4))
			if back > front {
				back = front
			}
			add(tsBase + (front-back)*unit + rng.Int63n(unit))
		}
		if rng.Intn(2) == 0 {
			c.Ops = append(c.Ops, []string{"tick"})
		}
		front += 1 + int64(rng.Intn(3))
		add(tsBase + front*unit + rng.Int63n(unit))
		deliver()
	}
	front += oooUnits + int64(rng.Intn(3)) // an event MAXOUTOFORDERNESS ahead: the windows so far fire from event time
	add(tsBase + front*unit + rng.Int63n(unit))
	c.Ops = append(c.Ops, []string{"drain"})
	for i := rng.Intn(3); i > 0; i-- {
		front += int64(rng.Intn(2))
		add(tsBase + front*unit + rng.Int63n(unit))
	}
	c.Ops = append(c.Ops, []string{"itick"}, []string{"drain"})
	front += oooUnits + 5
	add(tsBase + front*unit)
	c.Ops = append(c.Ops, []string{"drain"})
}

// idleCase: the IDLETIMEOUT scenarios of one window kind ("tumbling" / "sliding"), shared by C01, C02 and C08
func idleCase(rng *rand.Rand, kind string) Case {
	var c Case
	size := int64(3_600_000_000_000)
	ooo := []int64{0, size / 2, size}[rng.Intn(3)]
	late := []int64{0, 0, size, 3 * size}[rng.Intn(4)]
	if rng.Intn(4) == 0 {
		// live timestamps (see genLiveIdleOps): windows of a second, tolerance of an hour or two
		unit := int64(1_000_000_000)
		oooU := []int64{3600, 7200}[rng.Intn(2)]
		late = []int64{0, 0, unit, 3 * unit}[rng.Intn(4)]
		if kind == "session" {
			c.Cfg = [][]string{{"kind", "session"}, {"mode", "et"}, {"timeout", itoa(unit)}, {"ooo", itoa(oooU * unit)}, {"late", itoa(late)}, {"groupby", "k"}, {"now", "0"}, {"idle", itoa(size)}, {"live", "1"}, {"tsadd", "0"}}
		} else if kind == "sliding" {
			c.Cfg = [][]string{{"kind", "sliding"}, {"mode", "et"}, {"size", itoa(2 * unit)}, {"slide", itoa(unit)}, {"ooo", itoa(oooU * unit)}, {"late", itoa(late)}, {"now", "0"}, {"idle", itoa(size)}, {"live", "1"}, {"tsadd", "0"}}
		} else {
			c.Cfg = [][]string{{"kind", "tumbling"}, {"mode", "et"}, {"size", itoa(unit)}, {"ooo", itoa(oooU * unit)}, {"late", itoa(late)}, {"now", "0"}, {"idle", itoa(size)}, {"live", "1"}, {"tsadd", "0"}}
		}
		c.Stat = append(c.Stat, kind, "idle-and-busy-ticks", "live-timestamps")
		genLiveIdleOps(rng, &c, unit, oooU)
		return c
	}
	if kind == "session" {
		c.Cfg = [][]string{{"kind", "session"}, {"mode", "et"}, {"timeout", itoa(size)}, {"ooo", itoa(ooo)}, {"late", itoa(late)}, {"groupby", "k"}, {"now", "0"}, {"idle", itoa(size)}}
	} else if kind == "sliding" {
		c.Cfg = [][]string{{"kind", "sliding"}, {"mode", "et"}, {"size", itoa(2 * size)}, {"slide", itoa(size)}, {"ooo", itoa(ooo)}, {"late", itoa(late)}, {"now", "0"}, {"idle", itoa(size)}}
	} else {
		c.Cfg = [][]string{{"kind", "tumbling"}, {"mode", "et"}, {"size", itoa(size)}, {"ooo", itoa(ooo)}, {"late", itoa(late)}, {"now", "0"}, {"idle", itoa(size)}}
	}
	c.Stat = append(c.Stat, kind, "idle-and-busy-ticks")
	if rng.Intn(3) == 0 {
		// nothing forced: IDLETIMEOUT 30 ms, real naps of 45 ms, the watermark's own idle detection decides
		setCfg(&c, "idle", "30000000")
		c.Stat = append(c.Stat, "natural-idle-detection")
		genNaturalIdleOps(rng, &c, size)
		return c
	}
	genIdleOps(rng, &c, size, ooo)
	return c
}

// genIdleOps: rounds of (idle tick, delivery, stale rows, busy tick, a stale row newer than everything seen, delivery)
func genIdleOps(rng *rand.Rand, c *Case, unit, ooo int64) {
	nextID := 1
	front := int64(3)
	add := func(ts int64) {
		c.Ops = append(c.Ops, []string{"add", strconv.Itoa(nextID), itoa(ts)})
		nextID++
	}
	deliver := func() {
		if rng.Intn(3) == 0 {
			c.Ops = append(c.Ops, []string{"drain"})
		} else {
			c.Ops = append(c.Ops, []string{"deliver"})
		}
	}
	for i := 0; i < 2+rng.Intn(4); i++ {
		front += int64(rng.Intn(3))
		add(tsBase + front*unit + rng.Int63n(unit))
		if rng.Intn(2) == 0 {
			deliver()
		}
	}
	for round := 0; round < 1+rng.Intn(3); round++ {
		c.Ops = append(c.Ops, []string{"itick"})
		deliver()
		for i := rng.Intn(3); i > 0; i-- { // stale rows: dropped, but they count as events of the source
			add(tsBase + (front-int64(rng.Intn(3)))*unit + rng.Int63n(unit))
		}
		for i := rng.Intn(3); i > 0; i-- {
			c.Ops = append(c.Ops, []string{"tick"})
		}
		front += 1 + int64(rng.Intn(3))
		add(tsBase + front*unit + rng.Int63n(unit)) // newer than every event so far, decades older than the watermark
		if rng.Intn(2) == 0 {
			c.Ops = append(c.Ops, []string{"tick"})
		}
		deliver()
	}
	c.Ops = append(c.Ops, []string{"itick"}, []string{"drain"})
}

func (p c02) Gen(rng *rand.Rand, tier string, idx int) Case {
	return maybeReset(rng, p.gen0(rng, tier, idx))
}

func (c02) gen0(rng *rand.Rand, tier string, idx int) Case {
	var c Case
	if idx%15 == 14 {
		// SQL-level stage with ALLOWEDLATENESS: re-deliveries carry the same window bounds / window_id
		sz := []int64{1000, 500, 90000}[rng.Intn(3)] // 90000 ms: tolerance and allowance are compound durations in Go's spelling ('1m30s', '4m30s')
		o := []int64{0, sz / 2, sz}[rng.Intn(3)]
		l := []int64{sz, 3 * sz, 20 * sz}[rng.Intn(3)]
		c.Cfg = [][]string{{"kind", "sqltumbling"}, {"size", itoa(sz)}, {"ooo", itoa(o)}, {"late", itoa(l)}, {"now", "0"}, {"spell", []string{"ms", "go"}[rng.Intn(2)]}}
		genSQLWindow(rng, &c, sz, o+l/2)
		c.Stat = append(c.Stat, "sql-lateness>0")
		return c
	}
	if idx%15 == 12 {
		// SQL-level session windows with ALLOWEDLATENESS: a late row of a session that has already been delivered
		to := []int64{1000, 500}[rng.Intn(2)]
		c.Cfg = [][]string{{"kind", "sqlsession"}, {"timeout", itoa(to)}, {"ooo", "0"}, {"late", itoa(200 * to)}, {"now", "0"}}
		genSQLSessionLate(rng, &c, to)
		c.Stat = append(c.Stat, "sql-session-lateness>0")
		return c
	}
	if idx%15 == 13 {
		// IDLETIMEOUT of one hour with idle AND busy ticker updates placed by the harness (hook
		// VerifWatermarkTickIdle): after an idle advance the watermark must stay where it is
		return idleCase(rng, []string{"sliding", "tumbling", "tumbling", "session"}[rng.Intn(4)])
	}
	switch k := rng.Intn(10); {
	case k < 5: // tumbling with lateness
		sizes := []int64{10, 1000, 7}
		size := sizes[rng.Intn(len(sizes))]
		ooo := []int64{0, size / 2, size, 2*size + 1}[rng.Intn(4)]
		late := []int64{0, 1, size / 2, size, 3 * size, 20 * size}[rng.Intn(6)]
		c.Cfg = [][]string{{"kind", "tumbling"}, {"mode", "et"}, {"size", itoa(size)}, {"ooo", itoa(ooo)}, {"late", itoa(late)}, {"now", "0"}}
		if rng.Intn(10) == 0 { // IDLETIMEOUT: a ticker update advances the watermark from the wall clock (hour-sized windows keep the trigger loop short)
			size = 3_600_000_000_000
			ooo = []int64{0, size / 2, size}[rng.Intn(3)]
			late = []int64{0, size, 3 * size}[rng.Intn(3)]
			c.Cfg = [][]string{{"kind", "tumbling"}, {"mode", "et"}, {"size", itoa(size)}, {"ooo", itoa(ooo)}, {"late", itoa(late)}, {"now", "0"}, {"idle", "1"}}
			c.Stat = append(c.Stat, "idle-timeout")
		}
		if rng.Intn(12) == 0 { // TIMEUNIT not declared: numeric timestamps are unplaceable, time.Time values still work
			c.Cfg = append(c.Cfg, []string{"tsunit", "0"})
			c.Stat = append(c.Stat, "no-timeunit")
		}
		genLateOps(rng, &c, size, ooo, late)
		bigEpoch(rng, &c)
		c.Stat = append(c.Stat, "tumbling", "lateness="+map[bool]string{true: "0", false: ">0"}[late == 0])
	case k < 7: // sliding (late-update target chosen by Go map order: the driver takes the observed target as witness)
		p := [][2]int64{{2, 1}, {3, 2}, {5, 5}, {2, 3}}[rng.Intn(4)]
		u := []int64{1, 10, 1000}[rng.Intn(3)]
		size, slide := p[0]*u, p[1]*u
		ooo := []int64{0, slide, 2*size + 1}[rng.Intn(3)]
		late := []int64{0, 1, slide, 3 * size}[rng.Intn(4)]
		c.Cfg = [][]string{{"kind", "sliding"}, {"mode", "et"}, {"size", itoa(size)}, {"slide", itoa(slide)}, {"ooo", itoa(ooo)}, {"late", itoa(late)}, {"now", "0"}}
		genLateOps(rng, &c, slide, ooo, late)
		bigEpoch(rng, &c)
		c.Stat = append(c.Stat, "sliding", "lateness="+map[bool]string{true: "0", false: ">0"}[late == 0])
	default: // session with lateness
		timeout := []int64{10, 1000, 3}[rng.Intn(3)]
		ooo := []int64{0, timeout / 2, timeout, 3 * timeout}[rng.Intn(4)]
		late := []int64{0, 1, timeout, 5 * timeout, 40 * timeout}[rng.Intn(5)]
		keys := [][]string{{"a"}, {"a", "b"}}[rng.Intn(2)]
		c.Cfg = [][]string{{"kind", "session"}, {"mode", "et"}, {"timeout", itoa(timeout)}, {"ooo", itoa(ooo)}, {"late", itoa(late)}, {"groupby", "k"}, {"now", "0"}}
		genSessionOps(rng, &c, timeout, ooo, keys, true)
		c.Stat = append(c.Stat, "session", "lateness="+map[bool]string{true: "0", false: ">0"}[late == 0])
	}
	return c
}

func (c02) Exec(c Case) [][][]string {
	if isSQLWindowCase(c) {
		return execSQLWindow(c)
	}
	return execWindow(c)
}
