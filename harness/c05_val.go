package main

// Value / row / SELECT-item codec and generators shared by the C05 and C20 harnesses.
// Protocol (pre-order):  n | i:<dec> | f:<16 hex> | s:<hex> | b:t | b:f | L:<k> v… | M:<k> (key v)…
// Map keys are sorted bytewise before printing (Go map order never crosses the protocol).

import (
	"reflect"
	"fmt"
	"math"
	"math/rand"
	"sort"
	"strconv"
	"strings"
)

func c05EncValue(v interface{}, out []string) []string { return c05EncDepth(v, out, 0) }

// c05EncDepth: a value that refers to itself (a map stored inside itself) is cut off, not followed for ever.
func c05EncDepth(v interface{}, out []string, depth int) []string {
	if depth > 24 {
		return append(out, "s:"+hx("<cycle>"))
	}
	switch x := v.(type) {
	case nil:
		return append(out, "n")
	case bool:
		return append(out, "b:"+btok(x))
	case int:
		return append(out, "i:"+itoa(int64(x)))
	case int64:
		return append(out, "i:"+itoa(x))
	case int32:
		return append(out, "i:"+itoa(int64(x)))
	case float64:
		if x != x {
			return append(out, "f:7ff8000000000000")
		}
		return append(out, fmt.Sprintf("f:%016x", math.Float64bits(x)))
	case string:
		return append(out, "s:"+hx(x))
	case []interface{}:
		out = append(out, "L:"+strconv.Itoa(len(x)))
		for _, e := range x {
			out = c05EncDepth(e, out, depth+1)
		}
		return out
	case map[string]interface{}:
		keys := make([]string, 0, len(x))
		for k := range x {
			keys = append(keys, k)
		}
		sort.Strings(keys)
		out = append(out, "M:"+strconv.Itoa(len(x)))
		for _, k := range keys {
			out = append(out, hx(k))
			out = c05EncDepth(x[k], out, depth+1)
		}
		return out
	case []map[string]interface{}:
		out = append(out, "L:"+strconv.Itoa(len(x)))
		for _, e := range x {
			out = c05EncDepth(e, out, depth+1)
		}
		return out
	default:
		return append(out, "s:"+hx(fmt.Sprintf("<%T:%v>", v, v)))
	}
}

func c05EncRow(r map[string]interface{}) []string { return c05EncValue(r, nil) }

func c05DecValue(t []string) (interface{}, []string) {
	if len(t) == 0 {
		panic("c05DecValue: out of tokens")
	}
	h, rest := t[0], t[1:]
	switch {
	case h == "n":
		return nil, rest
	case h == "b:t":
		return true, rest
	case h == "b:f":
		return false, rest
	case strings.HasPrefix(h, "i:"):
		n, err := strconv.ParseInt(h[2:], 10, 64)
		if err != nil {
			panic(err)
		}
		return int(n), rest
	case strings.HasPrefix(h, "f:"):
		b, err := strconv.ParseUint(h[2:], 16, 64)
		if err != nil {
			panic(err)
		}
		return math.Float64frombits(b), rest
	case strings.HasPrefix(h, "s:"):
		return unhx(h[2:]), rest
	case strings.HasPrefix(h, "L:"):
		k, _ := strconv.Atoi(h[2:])
		l := make([]interface{}, 0, k)
		for i := 0; i < k; i++ {
			var v interface{}
			v, rest = c05DecValue(rest)
			l = append(l, v)
		}
		return l, rest
	case strings.HasPrefix(h, "M:"):
		k, _ := strconv.Atoi(h[2:])
		m := make(map[string]interface{}, k)
		for i := 0; i < k; i++ {
			key := unhx(rest[0])
			var v interface{}
			v, rest = c05DecValue(rest[1:])
			m[key] = v
		}
		return m, rest
	}
	panic("c05DecValue: bad token " + h)
}

func c05DecRow(t []string) map[string]interface{} {
	v, rest := c05DecValue(t)
	m, ok := v.(map[string]interface{})
	if !ok || len(rest) != 0 {
		panic("c05DecRow: not a single map")
	}
	return m
}

func c05DeepCopy(v interface{}) interface{} {
	switch x := v.(type) {
	case []interface{}:
		l := make([]interface{}, len(x))
		for i, e := range x {
			l[i] = c05DeepCopy(e)
		}
		return l
	case map[string]interface{}:
		m := make(map[string]interface{}, len(x))
		for k, e := range x {
			m[k] = c05DeepCopy(e)
		}
		return m
	}
	return v
}

func c05CopyRow(r map[string]interface{}) map[string]interface{} {
	return c05DeepCopy(r).(map[string]interface{})
}

// ---------------------------------------------------------------- SELECT items

type c05PSub struct {
	isIdx bool
	idx   int64
	key   string
}
type c05PComp struct {
	name string
	subs []c05PSub
}
type c05PItem struct {
	kind     string // star | path | bq | lit
	comps    []c05PComp
	text     string // bq name or literal content
	alias    string
	hasAlias bool
	aliasBq  bool
}

func (c c05PComp) sql() string {
	var sb strings.Builder
	sb.WriteString(c.name)
	for _, s := range c.subs {
		if s.isIdx {
			fmt.Fprintf(&sb, "[%d]", s.idx)
		} else {
			fmt.Fprintf(&sb, "['%s']", s.key)
		}
	}
	return sb.String()
}

func (it c05PItem) srcSQL() string {
	switch it.kind {
	case "star":
		return "*"
	case "path":
		parts := make([]string, len(it.comps))
		for i, c := range it.comps {
			parts[i] = c.sql()
		}
		return strings.Join(parts, ".")
	case "bq":
		return "`" + it.text + "`"
	default:
		return "'" + it.text + "'"
	}
}

func (it c05PItem) sql() string {
	s := it.srcSQL()
	if it.hasAlias {
		if it.aliasBq {
			s += " AS `" + it.alias + "`"
		} else {
			s += " AS " + it.alias
		}
	}
	return s
}

func (it c05PItem) outName() string {
	if it.hasAlias {
		return it.alias
	}
	switch it.kind {
	case "bq", "lit":
		return it.text
	}
	return it.srcSQL()
}

func (it c05PItem) tokens() []string {
	al := "-"
	if it.hasAlias {
		if it.aliasBq {
			al = "q:" + hx(it.alias)
		} else {
			al = "a:" + hx(it.alias)
		}
	}
	switch it.kind {
	case "star":
		return []string{"item", "star"}
	case "path":
		t := []string{"item", "path", strconv.Itoa(len(it.comps))}
		for _, c := range it.comps {
			t = append(t, hx(c.name), strconv.Itoa(len(c.subs)))
			for _, s := range c.subs {
				if s.isIdx {
					t = append(t, "i", itoa(s.idx))
				} else {
					t = append(t, "k", hx(s.key))
				}
			}
		}
		return append(t, al)
	case "bq":
		return []string{"item", "bq", hx(it.text), al}
	default:
		return []string{"item", "lit", hx(it.text), al}
	}
}

func c05CompTokens(comps []c05PComp) []string {
	t := []string{strconv.Itoa(len(comps))}
	for _, c := range comps {
		t = append(t, hx(c.name), strconv.Itoa(len(c.subs)))
		for _, s := range c.subs {
			if s.isIdx {
				t = append(t, "i", itoa(s.idx))
			} else {
				t = append(t, "k", hx(s.key))
			}
		}
	}
	return t
}

// c05ParseCompTokens reads `<n> (<name> <nsubs> (i <int> | k <hex>)*)*` and returns the rest.
func c05ParseCompTokens(t []string) ([]c05PComp, []string) {
	n, _ := strconv.Atoi(t[0])
	t = t[1:]
	var comps []c05PComp
	for i := 0; i < n; i++ {
		c := c05PComp{name: unhx(t[0])}
		ns, _ := strconv.Atoi(t[1])
		t = t[2:]
		for j := 0; j < ns; j++ {
			if t[0] == "i" {
				v, _ := strconv.ParseInt(t[1], 10, 64)
				c.subs = append(c.subs, c05PSub{isIdx: true, idx: v})
			} else {
				c.subs = append(c.subs, c05PSub{key: unhx(t[1])})
			}
			t = t[2:]
		}
		comps = append(comps, c)
	}
	return comps, t
}

func c05ParseAliasTok(t string, it *c05PItem) {
	switch {
	case t == "-":
	case strings.HasPrefix(t, "a:"):
		it.hasAlias, it.alias = true, unhx(t[2:])
	case strings.HasPrefix(t, "q:"):
		it.hasAlias, it.aliasBq, it.alias = true, true, unhx(t[2:])
	default:
		panic("bad alias token " + t)
	}
}

// c05ParseItemTokens reads one `cfg item …` line (without the leading "item").
func c05ParseItemTokens(t []string) c05PItem {
	var it c05PItem
	it.kind = t[0]
	switch t[0] {
	case "star":
	case "path":
		n, _ := strconv.Atoi(t[1])
		t = t[2:]
		for i := 0; i < n; i++ {
			c := c05PComp{name: unhx(t[0])}
			ns, _ := strconv.Atoi(t[1])
			t = t[2:]
			for j := 0; j < ns; j++ {
				if t[0] == "i" {
					v, _ := strconv.ParseInt(t[1], 10, 64)
					c.subs = append(c.subs, c05PSub{isIdx: true, idx: v})
				} else {
					c.subs = append(c.subs, c05PSub{key: unhx(t[1])})
				}
				t = t[2:]
			}
			it.comps = append(it.comps, c)
		}
		c05ParseAliasTok(t[0], &it)
	case "bq", "lit":
		it.text = unhx(t[1])
		c05ParseAliasTok(t[2], &it)
	default:
		panic("bad item kind " + t[0])
	}
	return it
}

// ---------------------------------------------------------------- WHERE  <dotted col> OP <literal>

type c05PWhere struct {
	col []string
	op  string
	lit interface{}
}

func c05LitSQL(v interface{}) string {
	switch x := v.(type) {
	case int:
		return strconv.Itoa(x)
	case float64:
		return strconv.FormatFloat(x, 'f', -1, 64)
	case string:
		return "'" + x + "'"
	}
	panic("bad literal")
}

func (w *c05PWhere) sql() string {
	return strings.Join(w.col, ".") + " " + w.op + " " + c05LitSQL(w.lit)
}

func (w *c05PWhere) tokens() []string {
	if w == nil {
		return []string{"where", "none"}
	}
	t := []string{"where", strconv.Itoa(len(w.col))}
	for _, c := range w.col {
		t = append(t, hx(c))
	}
	t = append(t, w.op)
	return c05EncValue(w.lit, t)
}

func c05ParseWhereTokens(t []string) *c05PWhere {
	if t[0] == "none" {
		return nil
	}
	n, _ := strconv.Atoi(t[0])
	w := &c05PWhere{}
	for i := 0; i < n; i++ {
		w.col = append(w.col, unhx(t[1+i]))
	}
	w.op = t[1+n]
	w.lit, _ = c05DecValue(t[2+n:])
	return w
}

// ---------------------------------------------------------------- random values

var c05TopCols = []string{"a", "b", "c", "d", "e", "k1", "x_y", "Abc", "n"}
var c05MapKeys = []string{"b", "k", "c", "0", "1", "zz", "d", "x_y"}
var c05StrPool = []string{"", "v", "str", "x y", "a:b", "m", "mm", "Z", "0", "b.c"}

func c05GenScalar(rng *rand.Rand) interface{} {
	switch k := rng.Intn(20); {
	case k < 3:
		return nil
	case k < 9:
		return rng.Intn(13) - 4
	case k < 12:
		return float64(rng.Intn(33)-8) / 4
	case k < 17:
		return c05StrPool[rng.Intn(len(c05StrPool))]
	default:
		return rng.Intn(2) == 0
	}
}

func c05GenValue(rng *rand.Rand, depth int) interface{} {
	if depth <= 0 {
		return c05GenScalar(rng)
	}
	switch k := rng.Intn(20); {
	case k < 7:
		n := 1 + rng.Intn(3)
		m := map[string]interface{}{}
		for i := 0; i < n; i++ {
			m[c05MapKeys[rng.Intn(len(c05MapKeys))]] = c05GenValue(rng, depth-1)
		}
		return m
	case k < 12:
		n := rng.Intn(4)
		l := make([]interface{}, n)
		for i := range l {
			l[i] = c05GenValue(rng, depth-1)
		}
		return l
	default:
		return c05GenScalar(rng)
	}
}

func c05GenTemplate(rng *rand.Rand) map[string]interface{} {
	row := map[string]interface{}{}
	for _, c := range c05TopCols {
		if rng.Intn(4) > 0 {
			row[c] = c05GenValue(rng, 3)
		}
	}
	if rng.Intn(3) == 0 {
		row["x y"] = c05GenScalar(rng)
	}
	return row
}

func c05SortedKeys(m map[string]interface{}) []string {
	ks := make([]string, 0, len(m))
	for k := range m {
		ks = append(ks, k)
	}
	sort.Strings(ks)
	return ks
}

// c05MutateValue returns a perturbed deep copy: drops keys, nulls, retypes, resizes lists.
func c05MutateValue(rng *rand.Rand, v interface{}, depth int) interface{} {
	switch x := v.(type) {
	case map[string]interface{}:
		m := map[string]interface{}{}
		for _, k := range c05SortedKeys(x) {
			switch r := rng.Intn(12); {
			case r == 0: // drop
			case r == 1:
				m[k] = nil
			case r == 2:
				m[k] = c05GenValue(rng, depth)
			default:
				m[k] = c05MutateValue(rng, x[k], depth-1)
			}
		}
		if rng.Intn(8) == 0 {
			m[c05MapKeys[rng.Intn(len(c05MapKeys))]] = c05GenValue(rng, depth-1)
		}
		return m
	case []interface{}:
		var l []interface{}
		for _, e := range x {
			switch r := rng.Intn(10); {
			case r == 0:
			case r == 1:
				l = append(l, c05GenValue(rng, depth-1))
			default:
				l = append(l, c05MutateValue(rng, e, depth-1))
			}
		}
		if rng.Intn(6) == 0 {
			l = append(l, c05GenValue(rng, depth-1))
		}
		if l == nil {
			l = []interface{}{}
		}
		return l
	default:
		if rng.Intn(6) == 0 {
			return c05GenScalar(rng)
		}
		return v
	}
}

func c05IsIdentName(s string) bool {
	if s == "" || (s[0] >= '0' && s[0] <= '9') {
		return false
	}
	for i := 0; i < len(s); i++ {
		c := s[i]
		if !(c == '_' || c >= 'a' && c <= 'z' || c >= 'A' && c <= 'Z' || c >= '0' && c <= '9') {
			return false
		}
	}
	return true
}

// c05GenPath walks the template (so that paths mostly hit), with random wrong turns.
func c05GenPath(rng *rand.Rand, tmpl map[string]interface{}, allowNeg bool) []c05PComp {
	first := c05TopCols[rng.Intn(len(c05TopCols))]
	comps := []c05PComp{{name: first}}
	var cur interface{} = tmpl[first]
	steps := rng.Intn(4)
	for i := 0; i < steps; i++ {
		last := &comps[len(comps)-1]
		wrong := rng.Intn(7) == 0
		switch x := cur.(type) {
		case map[string]interface{}:
			ks := c05SortedKeys(x)
			k := c05MapKeys[rng.Intn(len(c05MapKeys))]
			if len(ks) > 0 && !wrong {
				k = ks[rng.Intn(len(ks))]
			}
			cur = x[k]
			if n, err := strconv.Atoi(k); err == nil && rng.Intn(2) == 0 {
				last.subs = append(last.subs, c05PSub{isIdx: true, idx: int64(n)}) // a[0] on a map with key "0"
			} else if c05IsIdentName(k) && rng.Intn(3) > 0 {
				comps = append(comps, c05PComp{name: k})
			} else {
				last.subs = append(last.subs, c05PSub{key: k})
			}
		case []interface{}:
			idx := int64(rng.Intn(5)) - 2
			if !allowNeg && idx < 0 {
				idx = int64(len(x)) // one past the end
			}
			if len(x) > 0 && !wrong {
				idx = int64(rng.Intn(len(x)))
				if allowNeg && rng.Intn(3) == 0 {
					idx -= int64(len(x)) // negative index, same element
				}
			}
			j := idx
			if j < 0 {
				j += int64(len(x))
			}
			if j >= 0 && j < int64(len(x)) {
				cur = x[j]
			} else {
				cur = nil
			}
			last.subs = append(last.subs, c05PSub{isIdx: true, idx: idx})
		default:
			// scalar / NULL / missing: keep walking into nothing
			switch rng.Intn(3) {
			case 0:
				comps = append(comps, c05PComp{name: c05MapKeys[rng.Intn(3)]})
			case 1:
				j := int64(rng.Intn(3)) - 1
				if !allowNeg && j < 0 {
					j = 2
				}
				last.subs = append(last.subs, c05PSub{isIdx: true, idx: j})
			default:
				last.subs = append(last.subs, c05PSub{key: c05MapKeys[rng.Intn(len(c05MapKeys))]})
			}
			cur = nil
		}
	}
	return comps
}

var c05AliasPool = []string{"x", "y", "out", "a", "b", "A1", "r_1", "q"}
var c05LitPool = []string{"lit", "", "a b", "i:q", "b.c", "x-y", "a", "ok", "7", "a:b:c"}

func c05GenItem(rng *rand.Rand, tmpl map[string]interface{}) c05PItem {
	var it c05PItem
	switch k := rng.Intn(20); {
	case k < 13:
		it.kind = "path"
		it.comps = c05GenPath(rng, tmpl, false)
	case k < 15:
		it.kind = "bq"
		it.text = []string{"x y", "a", "k1", "Abc", "no such"}[rng.Intn(5)]
	default:
		it.kind = "lit"
		it.text = c05LitPool[rng.Intn(len(c05LitPool))]
	}
	if rng.Intn(5) < 2 {
		it.hasAlias = true
		it.alias = c05AliasPool[rng.Intn(len(c05AliasPool))]
		if it.kind != "lit" && rng.Intn(5) == 0 {
			it.aliasBq = true
			it.alias = []string{"x y", "out", "a b c"}[rng.Intn(3)]
		}
	}
	return it
}

// c05SetPath stores v at the dotted column path, creating maps on the way; del removes the leaf.
func c05SetPath(row map[string]interface{}, col []string, v interface{}, del bool) {
	cur := row
	for i := 0; i < len(col)-1; i++ {
		next, ok := cur[col[i]].(map[string]interface{})
		if !ok {
			next = map[string]interface{}{}
			cur[col[i]] = next
		}
		cur = next
	}
	if del {
		delete(cur, col[len(col)-1])
	} else {
		cur[col[len(col)-1]] = v
	}
}

func c05GetPath(row map[string]interface{}, col []string) (interface{}, bool) {
	var cur interface{} = row
	for _, c := range col {
		m, ok := cur.(map[string]interface{})
		if !ok {
			return nil, false
		}
		cur, ok = m[c]
		if !ok {
			return nil, false
		}
	}
	return cur, true
}

func c05GenWhere(rng *rand.Rand, tmpl map[string]interface{}) *c05PWhere {
	w := &c05PWhere{}
	w.col = []string{c05TopCols[rng.Intn(len(c05TopCols))]}
	if rng.Intn(3) == 0 { // nested dotted column through maps of the template
		cur, _ := tmpl[w.col[0]].(map[string]interface{})
		for d := 0; d < 2; d++ {
			var cand []string
			for _, k := range c05SortedKeys(cur) {
				if c05IsIdentName(k) {
					cand = append(cand, k)
				}
			}
			if len(cand) == 0 {
				cand = []string{"b", "k", "zz"}
			}
			k := cand[rng.Intn(len(cand))]
			w.col = append(w.col, k)
			next, ok := cur[k].(map[string]interface{})
			if !ok || rng.Intn(2) == 0 {
				break
			}
			cur = next
		}
	}
	w.op = []string{"=", "!=", "<", "<=", ">", ">="}[rng.Intn(6)]
	switch rng.Intn(3) {
	case 0:
		w.lit = rng.Intn(9) - 3
		if rng.Intn(6) == 0 { // around ±2^53, where float64 stops telling neighbouring integers apart
			w.lit = (1<<53 + rng.Intn(4) - 1) * (1 - 2*rng.Intn(2))
		}
	case 1:
		w.lit = float64(rng.Intn(17)-4) / 4
	default:
		w.lit = []string{"m", "str", "b", "x y"}[rng.Intn(4)]
	}
	return w
}

// c05WhereValue picks a value of the literal's type around the literal (boundaries are frequent).
func c05WhereValue(rng *rand.Rand, w *c05PWhere) interface{} {
	switch l := w.lit.(type) {
	case int:
		if l > 1<<52 || l < -(1<<52) { // integers only: the neighbours are not float64 values
			return l + rng.Intn(5) - 2
		}
		if rng.Intn(3) == 0 {
			return float64(l) + float64(rng.Intn(5)-2)/4
		}
		return l + rng.Intn(5) - 2
	case float64:
		if rng.Intn(3) == 0 {
			return int(math.Floor(l)) + rng.Intn(3) - 1
		}
		return l + float64(rng.Intn(5)-2)/4
	case string:
		return []string{l, l + "z", "", "a", "z", l[:len(l)-1]}[rng.Intn(6)]
	}
	return nil
}

// c05Satisfying returns a column value that makes `col OP lit` true.
func c05Satisfying(w *c05PWhere) interface{} {
	switch l := w.lit.(type) {
	case int:
		switch w.op {
		case "<", "!=":
			return l - 1
		case ">":
			return l + 1
		}
		return l
	case float64:
		switch w.op {
		case "<", "!=":
			return l - 1
		case ">":
			return l + 1
		}
		return l
	case string:
		switch w.op {
		case "<":
			return ""
		case ">", "!=":
			return l + "z"
		}
		return l
	}
	return nil
}

// c05ApplyWhereColumn keeps WHERE inside the forms the property's text covers without appeal to C06:
// the compared column has the literal's type, or (never for !=) is NULL / missing.
func c05ApplyWhereColumn(rng *rand.Rand, w *c05PWhere, row map[string]interface{}) string {
	if w == nil {
		return "where-none"
	}
	k := rng.Intn(10)
	if w.op == "!=" || k < 8 {
		c05SetPath(row, w.col, c05WhereValue(rng, w), false)
		return "where-typed"
	}
	if k == 8 {
		c05SetPath(row, w.col, nil, false)
		return "where-null"
	}
	if len(w.col) > 1 && rng.Intn(2) == 0 {
		row[w.col[0]] = nil // the parent itself is NULL
		return "where-parent-null"
	}
	c05SetPath(row, w.col, nil, true)
	return "where-missing"
}

// c05Typify turns a JSON-like value into the same value held in typed Go containers: a map whose values are all ints
// becomes a map[string]int (float64 / string / bool alike), a slice likewise, every other container keeps
// interface{} elements; containers with an odd number of elements are held through a pointer. Scalars are unchanged.
// The field-path resolver must read such a value exactly as it reads the JSON-like one.
func c05Typify(v interface{}) interface{} {
	switch x := v.(type) {
	case map[string]interface{}:
		kinds := map[string]bool{}
		for _, e := range x {
			kinds[fmt.Sprintf("%T", e)] = true
		}
		var out interface{}
		switch {
		case len(x) > 0 && len(kinds) == 1 && kinds["int"]:
			m := map[string]int{}
			for k, e := range x {
				m[k] = e.(int)
			}
			out = m
			if len(x)%2 == 1 {
				return &m
			}
		case len(x) > 0 && len(kinds) == 1 && kinds["float64"]:
			m := map[string]float64{}
			for k, e := range x {
				m[k] = e.(float64)
			}
			out = m
		case len(x) > 0 && len(kinds) == 1 && kinds["string"]:
			m := map[string]string{}
			for k, e := range x {
				m[k] = e.(string)
			}
			out = m
		case len(x) > 0 && len(kinds) == 1 && kinds["bool"]:
			m := map[string]bool{}
			for k, e := range x {
				m[k] = e.(bool)
			}
			out = m
		default:
			m := map[string]interface{}{}
			for k, e := range x {
				m[k] = c05Typify(e)
			}
			out = m
			if len(x)%2 == 1 {
				return &m
			}
		}
		return out
	case []interface{}:
		kinds := map[string]bool{}
		for _, e := range x {
			kinds[fmt.Sprintf("%T", e)] = true
		}
		switch {
		case len(x) > 0 && len(kinds) == 1 && kinds["int"]:
			l := make([]int, len(x))
			for i, e := range x {
				l[i] = e.(int)
			}
			return l
		case len(x) > 0 && len(kinds) == 1 && kinds["string"]:
			l := make([]string, len(x))
			for i, e := range x {
				l[i] = e.(string)
			}
			return l
		case len(x) > 0 && len(kinds) == 1 && kinds["float64"]:
			l := make([]float64, len(x))
			for i, e := range x {
				l[i] = e.(float64)
			}
			if len(x)%2 == 1 {
				return &l
			}
			return l
		default:
			l := make([]interface{}, len(x))
			for i, e := range x {
				l[i] = c05Typify(e)
			}
			if len(x)%2 == 1 {
				return &l
			}
			return l
		}
	}
	return v
}

// c05Untypify is the inverse view: any typed container / pointer met in a looked-up value, as JSON-like value
func c05Untypify(v interface{}) interface{} {
	if v == nil {
		return nil
	}
	rv := reflect.ValueOf(v)
	for rv.Kind() == reflect.Ptr {
		if rv.IsNil() {
			return nil
		}
		rv = rv.Elem()
	}
	switch rv.Kind() {
	case reflect.Map:
		if rv.Type().Key().Kind() != reflect.String {
			return v
		}
		m := map[string]interface{}{}
		for _, k := range rv.MapKeys() {
			m[k.String()] = c05Untypify(rv.MapIndex(k).Interface())
		}
		return m
	case reflect.Slice:
		l := make([]interface{}, rv.Len())
		for i := range l {
			l[i] = c05Untypify(rv.Index(i).Interface())
		}
		return l
	}
	return rv.Interface()
}

// c05GenHomog: like c05GenValue, but a container often holds elements of one scalar kind only (so that c05Typify
// finds typed containers to build)
func c05GenHomog(rng *rand.Rand, depth int) interface{} {
	scalarOf := func(kind int) interface{} {
		switch kind {
		case 0:
			return rng.Intn(13) - 4
		case 1:
			return float64(rng.Intn(33)-8) / 4
		case 2:
			return c05StrPool[rng.Intn(len(c05StrPool))]
		default:
			return rng.Intn(2) == 0
		}
	}
	if depth <= 0 {
		return c05GenScalar(rng)
	}
	switch k := rng.Intn(20); {
	case k < 5: // homogeneous map
		kind, n := rng.Intn(4), 1+rng.Intn(3)
		m := map[string]interface{}{}
		for i := 0; i < n; i++ {
			m[c05MapKeys[rng.Intn(len(c05MapKeys))]] = scalarOf(kind)
		}
		return m
	case k < 8: // homogeneous list
		kind, n := rng.Intn(3), 1+rng.Intn(3)
		l := make([]interface{}, n)
		for i := range l {
			l[i] = scalarOf(kind)
		}
		return l
	case k < 13:
		n := 1 + rng.Intn(3)
		m := map[string]interface{}{}
		for i := 0; i < n; i++ {
			m[c05MapKeys[rng.Intn(len(c05MapKeys))]] = c05GenHomog(rng, depth-1)
		}
		return m
	case k < 16:
		n := rng.Intn(4)
		l := make([]interface{}, n)
		for i := range l {
			l[i] = c05GenHomog(rng, depth-1)
		}
		return l
	default:
		return c05GenScalar(rng)
	}
}
