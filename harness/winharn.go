package main

import (
	"fmt"
	"math/rand"
	"sort"
	"strconv"
	"strings"
	"time"

	"github.com/rulego/streamsql/types"
	"github.com/rulego/streamsql/window"
)

// Deterministic drive of the real event-time windows (DESIGN §2.1): the windows are
// constructed through their public constructors, Start() is never called, the
// watermark ticker interval is one hour, queued watermark values are popped from the
// real channel and handed to the real trigger handler through verif accessors, and
// the unlock gap is entered through SetCallback (an Add issued from inside the
// callback is the real "Add during the gap").

type winCfg struct {
	kind, mode             string
	size, slide, ooo, late int64
	timeout                int64
	keys                   []string
}

func cfgInt(c Case, key string, def int64) int64 {
	for _, l := range c.Cfg {
		if len(l) >= 2 && l[0] == key {
			v, err := strconv.ParseInt(l[1], 10, 64)
			if err == nil {
				return v
			}
		}
	}
	return def
}

func cfgStr(c Case, key, def string) string {
	for _, l := range c.Cfg {
		if len(l) >= 2 && l[0] == key {
			return l[1]
		}
	}
	return def
}

func setCfg(c *Case, key, val string) {
	for _, l := range c.Cfg {
		if len(l) >= 2 && l[0] == key {
			l[1] = val
			return
		}
	}
	c.Cfg = append(c.Cfg, []string{key, val})
}

func newWindow(c Case) (window.Window, error) {
	kind := cfgStr(c, "kind", "tumbling")
	mode := cfgStr(c, "mode", "et")
	wc := types.WindowConfig{
		TsProp:            "ts",
		TimeUnit:          time.Duration(cfgInt(c, "tsunit", 1)), // 1 = ns; 0 = TIMEUNIT not declared
		WatermarkInterval: time.Hour,
		MaxOutOfOrderness: time.Duration(cfgInt(c, "ooo", 0)),
		AllowedLateness:   time.Duration(cfgInt(c, "late", 0)),
		// idle 1: IDLETIMEOUT of 1 ns — every ticker update finds the source idle and advances the
		// watermark to (wall clock − MAXOUTOFORDERNESS), decades after all synthetic timestamps
		IdleTimeout: time.Duration(cfgInt(c, "idle", 0)),
	}
	if mode == "et" {
		wc.TimeCharacteristic = types.EventTime
	} else {
		wc.TimeCharacteristic = types.ProcessingTime
	}
	switch kind {
	case "tumbling":
		wc.Type = window.TypeTumbling
		wc.Params = []any{time.Duration(cfgInt(c, "size", 1000))}
		return window.NewTumblingWindow(wc)
	case "sliding":
		wc.Type = window.TypeSliding
		wc.Params = []any{time.Duration(cfgInt(c, "size", 1000)), time.Duration(cfgInt(c, "slide", 500))}
		return window.NewSlidingWindow(wc)
	case "session":
		wc.Type = window.TypeSession
		wc.Params = []any{time.Duration(cfgInt(c, "timeout", 1000))}
		if k := cfgStr(c, "groupby", ""); k != "" {
			wc.GroupByKeys = strings.Split(k, ",")
		}
		return window.NewSessionWindow(wc)
	}
	return nil, fmt.Errorf("unknown window kind %s", kind)
}

// tsShift (cfg `tsadd`): added to every numeric timestamp token of the running case — real nanosecond epochs lie above
// 2^53, where a detour through float64 moves a timestamp by up to 128 ns
var tsShift int64

// tsMul: TIMEUNIT of the running case in ns (1 unless cfg tsunit > 1), for the time.Time-typed timestamps
var tsMul int64 = 1

func rowOf(id string, ts string, key string) map[string]interface{} {
	n, _ := strconv.ParseInt(id, 10, 64)
	r := map[string]interface{}{"id": n}
	// timestamp field variants (window/factory.go extractTimestamp): int64 (plain digits), f<digits>
	// float64, s<digits> decimal string, t<digits> time.Time, "garbage" non-numeric string, "nil"
	// explicit nil, "none" field absent
	switch {
	case ts == "none":
	case ts == "nil":
		r["ts"] = nil
	case ts == "garbage":
		r["ts"] = "abc"
	case strings.HasPrefix(ts, "f"):
		t, _ := strconv.ParseInt(ts[1:], 10, 64)
		r["ts"] = float64(t + tsShift)
	case strings.HasPrefix(ts, "h"), strings.HasPrefix(ts, "q"): // a float64 with a fractional part (.5 / .75): truncated, not rounded
		t, _ := strconv.ParseInt(ts[1:], 10, 64)
		r["ts"] = float64(t+tsShift) + map[byte]float64{'h': 0.5, 'q': 0.75}[ts[0]]
	case strings.HasPrefix(ts, "s"):
		t, _ := strconv.ParseInt(ts[1:], 10, 64)
		r["ts"] = strconv.FormatInt(t+tsShift, 10)
	case strings.HasPrefix(ts, "t"):
		t, _ := strconv.ParseInt(ts[1:], 10, 64)
		r["ts"] = time.Unix(0, (t+tsShift)*tsMul)
	default:
		t, _ := strconv.ParseInt(ts, 10, 64)
		r["ts"] = t + tsShift
	}
	if key != "" {
		r["k"] = key
	}
	return r
}

// bigEpoch: in one case out of eight the timestamps move to a real nanosecond epoch (1.699e18, above 2^53) and the
// float64-typed ones become decimal strings (a float64 cannot carry such a value exactly, whoever converts it).
func bigEpoch(rng *rand.Rand, c *Case) {
	pick := rng.Intn(8)
	if pick > 1 {
		return
	}
	for _, l := range c.Cfg {
		if l[0] == "tsunit" || l[0] == "idle" {
			return
		}
	}
	if pick == 1 {
		msUnit(c)
		return
	}
	fix := func(tok string) string {
		if strings.HasPrefix(tok, "f") || strings.HasPrefix(tok, "h") || strings.HasPrefix(tok, "q") {
			return "s" + tok[1:]
		}
		return tok
	}
	for _, op := range c.Ops {
		switch op[0] {
		case "add":
			op[2] = fix(op[2])
		case "deliver", "pttick":
			for i := 1; i < len(op); i++ {
				p := strings.Split(op[i], ":")
				if len(p) >= 3 {
					p[2] = fix(p[2])
					op[i] = strings.Join(p, ":")
				}
			}
		}
	}
	c.Cfg = append(c.Cfg, []string{"tsadd", "1699000000000000000"})
	c.Stat = append(c.Stat, "ns-epoch-timestamps")
}

// msUnit: the case as it stands, read in milliseconds: TIMEUNIT becomes 1 ms (cfg tsunit 1000000), every duration of
// the configuration is multiplied by 10^6 and the timestamp tokens (unchanged) move to a millisecond epoch of 2023
// (cfg tsadd). float64 timestamps then carry milliseconds (exact, below 2^53), with or without a fractional part.
func msUnit(c *Case) {
	const mul = 1_000_000
	for _, l := range c.Cfg {
		switch l[0] {
		case "size", "slide", "ooo", "late":
			if v, err := strconv.ParseInt(l[1], 10, 64); err != nil || v > 1_000_000_000_000 {
				return
			}
		}
	}
	for _, op := range c.Ops {
		for _, tok := range op[1:] {
			if strings.Contains(tok, "@") {
				return // window-relative gap rows are written in nanoseconds
			}
			digits := strings.TrimLeft(tok, "fshqt")
			if p := strings.Split(tok, ":"); len(p) >= 3 {
				digits = strings.TrimLeft(p[2], "fshqt")
			}
			if v, err := strconv.ParseInt(digits, 10, 64); err == nil && v > 2_000_000_000_000_000 {
				return // far-future rows would leave int64 after the multiplication
			}
		}
	}
	for _, l := range c.Cfg {
		switch l[0] {
		case "size", "slide", "ooo", "late":
			v, _ := strconv.ParseInt(l[1], 10, 64)
			l[1] = itoa(v * mul)
		}
	}
	c.Cfg = append(c.Cfg, []string{"tsunit", itoa(mul)}, []string{"tsadd", itoa(1_700_000_000_000 - tsBase)})
	c.Stat = append(c.Stat, "ms-epoch-timestamps")
}

func emissionLine(kind string, rows []types.Row, late bool) []string {
	line := []string{"emit"}
	if late {
		line[0] = "lemit" // produced inside Add: a late update
	}
	if kind == "session" {
		k := "-"
		if len(rows) > 0 {
			if m, ok := rows[0].Data.(map[string]interface{}); ok {
				if s, ok := m["k"].(string); ok {
					k = hx(s)
				}
			}
		}
		line = append(line, k)
	}
	if len(rows) > 0 && rows[0].Slot != nil {
		line = append(line, itoa(rows[0].Slot.Start.UnixNano()), itoa(rows[0].Slot.End.UnixNano()))
	} else {
		line = append(line, "?", "?")
	}
	for _, r := range rows {
		if m, ok := r.Data.(map[string]interface{}); ok {
			line = append(line, fmt.Sprint(m["id"]))
		}
	}
	return line
}

// execWindow runs a window case. Ops:
//
//	add <id> <ts|none> [keyhex]     Add one row
//	deliver [k:id:ts[:keyhex]]...   pop one queued watermark (if any) and run the trigger handler;
//	                                 during the k-th emission's unlock gap, Add the given row
//	drain                            deliver until the watermark channel is empty
//	tick                             one watermark ticker update
//	pttick                           processing time: Trigger()
func execWindow(c Case) [][][]string {
	setCfg(&c, "now", itoa(time.Now().UnixNano()))
	if cfgInt(c, "live", 0) == 1 {
		// live timestamps: tsBase is moved to half an hour before the wall clock of this run (the Cfg carries a
		// `tsadd` placeholder that is overwritten in place, like `now`)
		setCfg(&c, "tsadd", itoa(time.Now().UnixNano()-tsBase-1_800_000_000_000))
	}
	tsShift = cfgInt(c, "tsadd", 0)
	tsMul = 1
	if u := cfgInt(c, "tsunit", 1); u > 1 {
		tsMul = u // a time.Time value carries the instant itself: token × TIMEUNIT
	}
	defer func() { tsShift, tsMul = 0, 1 }()
	w, err := newWindow(c)
	if err != nil {
		return [][][]string{{{"error", hx(err.Error())}}}
	}
	defer w.Stop()
	kind := cfgStr(c, "kind", "tumbling")
	var cur [][]string
	type gapAdd struct {
		k   int
		row map[string]interface{}
		rel string // "@off": the row's timestamp is (start of the window being delivered) + off
		id  string
		key string
	}
	var gaps []gapAdd
	emitted := 0
	inCallback := false
	inAdd := false
	var lastAddStart, lastAddEnd time.Time
	w.SetCallback(func(rows []types.Row) {
		cp := append([]types.Row(nil), rows...)
		cur = append(cur, emissionLine(kind, cp, inAdd))
		if inCallback {
			return // a late update caused by an Add in the gap: not a gap of its own
		}
		k := emitted
		emitted++
		inCallback = true
		for _, g := range gaps {
			if g.k == k {
				row := g.row
				if g.rel != "" {
					line := cur[len(cur)-1]
					start, _ := strconv.ParseInt(line[1], 10, 64)
					off, _ := strconv.ParseInt(g.rel[1:], 10, 64)
					row = rowOf(g.id, itoa(start+off-tsShift), g.key) // the emission line carries shifted times; rowOf shifts again
				}
				inAdd = true
				w.Add(row)
				inAdd = false
			}
		}
		inCallback = false
	})
	drainOut := func() {
		for {
			select {
			case <-w.OutputChan():
			default:
				return
			}
		}
	}
	deliverOnce := func() bool {
		t, ok := window.VerifPopWatermark(w)
		if !ok {
			return false
		}
		from := len(cur)
		window.VerifTrigger(w, t)
		if kind == "session" {
			canonSessionPass(cur[from:])
		}
		return true
	}
	var out [][][]string
	for _, op := range c.Ops {
		cur = nil
		gaps = nil
		emitted = 0
		switch op[0] {
		case "add":
			key := ""
			if len(op) > 3 {
				key = unhx(op[3])
			}
			lastAddStart = time.Now()
			inAdd = true
			w.Add(rowOf(op[1], op[2], key))
			inAdd = false
			lastAddEnd = time.Now()
		case "sleep": // real time passes (natural idle detection); the duration is cfg `nap` ns
			time.Sleep(time.Duration(cfgInt(c, "nap", 45_000_000)))
		case "ntick":
			// a ticker update with nothing forced: the watermark decides from its own clock whether the source is idle.
			// What it OUGHT to decide is measured here (wall time since the last Add, bracketed); only if the bracket
			// straddles IDLETIMEOUT (the process was stalled for that long) the implementation's own decision is taken.
			idle := time.Duration(cfgInt(c, "idle", 0))
			before := window.VerifCurrentWatermark(w)
			t0 := time.Now()
			window.VerifWatermarkTick(w)
			t1 := time.Now()
			flag := "b"
			switch {
			case lastAddEnd.IsZero():
				flag = "b"
			case t0.Sub(lastAddEnd) > idle:
				flag = "i"
			case t1.Sub(lastAddStart) <= idle:
				flag = "b"
			default:
				after := window.VerifCurrentWatermark(w)
				if after.After(before) && after.After(t0.Add(-time.Duration(cfgInt(c, "ooo", 0))-time.Second)) {
					flag = "ai"
				} else {
					flag = "ab"
				}
			}
			cur = append(cur, []string{"tickflag", flag})
		case "deliver":
			for _, g := range op[1:] {
				p := strings.Split(g, ":")
				if len(p) >= 3 {
					k, _ := strconv.Atoi(p[0])
					key := ""
					if len(p) > 3 {
						key = unhx(p[3])
					}
					g := gapAdd{k: k, row: rowOf(p[1], p[2], key), id: p[1], key: key}
					if strings.HasPrefix(p[2], "@") && kind != "session" {
						g.rel = p[2]
					}
					gaps = append(gaps, g)
				}
			}
			if !deliverOnce() {
				cur = append(cur, []string{"idle"})
			}
		case "drain":
			for deliverOnce() {
			}
		case "tick":
			if cfgInt(c, "idle", 0) > 1 { // IDLETIMEOUT configured and ticks placed explicitly: this one finds the source busy
				window.VerifWatermarkTickIdle(w, false)
			} else {
				window.VerifWatermarkTick(w)
			}
		case "itick":
			window.VerifWatermarkTickIdle(w, true)
		case "reset": // Window.Reset: the same object is used again, as a new window
			w.Reset()
			lastAddStart, lastAddEnd = time.Time{}, time.Time{}
		case "trigger": // manual flush (public as Streamsql.TriggerWindow)
			from := len(cur)
			w.Trigger()
			if kind == "session" {
				canonSessionPass(cur[from:])
			}
		case "pttick":
			for _, g := range op[1:] {
				p := strings.Split(g, ":")
				if len(p) >= 3 {
					k, _ := strconv.Atoi(p[0])
					gaps = append(gaps, gapAdd{k: k, row: rowOf(p[1], p[2], "")})
				}
			}
			w.Trigger()
		default:
			cur = append(cur, []string{"bad-op"})
		}
		drainOut()
		out = append(out, cur)
	}
	return out
}

// canonSessionPass: one expiry pass collects sessions in Go map order. Canonicalise the pass's
// lines in place — first firings sorted by key then start, late updates (from Adds in the
// unlock gap) after them in their order.
func canonSessionPass(seg [][]string) {
	var firsts, lates [][]string
	for _, l := range seg {
		if l[0] == "emit" {
			firsts = append(firsts, l)
		} else {
			lates = append(lates, l)
		}
	}
	sort.SliceStable(firsts, func(i, j int) bool {
		if firsts[i][1] != firsts[j][1] {
			return unhx(firsts[i][1]) < unhx(firsts[j][1])
		}
		a, _ := strconv.ParseInt(firsts[i][2], 10, 64)
		b, _ := strconv.ParseInt(firsts[j][2], 10, 64)
		return a < b
	})
	copy(seg, append(firsts, lates...))
}

// maybeReset: now and then the window object is used twice — the case's ops, Window.Reset(), the same ops again. After
// Reset the window is as new (the model starts again from its initial state), so the second run must repeat the first.
func maybeReset(rng *rand.Rand, c Case) Case {
	if strings.HasPrefix(cfgStr(c, "kind", "tumbling"), "sql") || cfgInt(c, "live", 0) == 1 || cfgStr(c, "mode", "et") != "et" {
		return c
	}
	fired := false
	for _, op := range c.Ops {
		switch op[0] {
		case "sleep", "ntick":
			return c
		case "deliver", "drain":
			fired = true
		}
	}
	if !fired || len(c.Ops) > 60 || rng.Intn(5) != 0 {
		return c
	}
	ops := append([][]string(nil), c.Ops...)
	c.Ops = append(append(ops, []string{"reset"}), ops...)
	c.Stat = append(c.Stat, "window-reset-and-reuse")
	return c
}
