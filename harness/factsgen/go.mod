module factsgen

go 1.18
