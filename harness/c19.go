package main

import (
	"fmt"
	"math/rand"
	"strconv"
	"sync"
	"sync/atomic"
	"time"

	"github.com/rulego/streamsql"
	"github.com/rulego/streamsql/stream"
	"github.com/rulego/streamsql/types"
)

// C19 — every emitted row is processed exactly once or counted as dropped.
// Schedule-driven: producers (harness goroutines calling Emit), the stream's own consumer
// goroutine and a Stop caller are parked at the verif yield points and released one at a time
// according to the op list (see c19_sched.go). Lines per op: `emit p k` (Emit called),
// `proc p k` (row seen by the sync sink), `ret p k` (Emit returned), `th <thread> <point>`
// (where a thread that moved is parked now / `blocked` / `fin`), `st input dropped len cap`.
type c19 struct{}

func init() { registry["C19"] = c19{} }

func (c19) Count(tier string) int {
	if tier == "thorough" {
		return 1500
	}
	return 320
}

var c19Points = []string{"emit.call", "send.lock", "send.send", "expand.enter", "expand.read", "expand.wlock",
	"expand.mig", "expand.done", "expand.retry", "drop.get", "drop.retry", "block.get", "block.send", "cons.recv",
	"stop.call", "stop.flag", "stop.done", "stop.nil", "stop.wait"}

func c19pick(rng *rand.Rand, xs ...int) int { return xs[rng.Intn(len(xs))] }

// c19TimeoutTok: t = a blocking timeout of 3 ms, f = none (0), n / N = none, spelled as a negative duration (-1 ns / -1 s)
func c19TimeoutTok(rng *rand.Rand, strat string, timeout bool) string {
	if timeout {
		return "t"
	}
	if strat == "block" && rng.Intn(3) == 0 {
		return []string{"n", "N"}[rng.Intn(2)]
	}
	return "f"
}

// RaceCase: the free-running rounds are also executed under the race detector (./check, race pass)
func (c19) RaceCase(c Case) bool { return len(c.Ops) == 1 && c.Ops[0][0] == "free" }

func (p c19) Gen(rng *rand.Rand, tier string, idx int) Case {
	c := p.gen0(rng, tier, idx)
	if idx%6 == 5 {
		c.Cfg = append(c.Cfg, []string{"badfirst", "1"})
		c.Stat = append(c.Stat, "execute-failed-before-the-real-one")
	}
	return c
}

func (c19) gen0(rng *rand.Rand, tier string, idx int) Case {
	var c Case
	strat := []string{"drop", "block", "expand", "expand", "expand"}[rng.Intn(5)]
	if idx%8 == 0 {
		strat = "expand" // directed expansion scenarios
	}
	capn := c19pick(rng, 1, 1, 2, 2, 3, 4)
	maxc := c19pick(rng, 0, capn, capn+1, capn+2, 2*capn+1, 10)
	if capn >= 2 && rng.Intn(8) == 0 {
		maxc = capn - 1 // a ceiling below the initial size: the buffer never grows (and the ceiling is not "no ceiling")
	}
	grow := [][2]int{{3, 2}, {2, 1}, {5, 4}, {1, 1}, {0, 1}, {3, 1}}[rng.Intn(6)]
	mininc := c19pick(rng, 0, 1, 1, 2, 3)
	thr := [][2]int{{1, 2}, {3, 4}, {1, 1}, {0, 1}, {9, 10}, {1, 4}}[rng.Intn(6)]
	timeout := strat == "block" && rng.Intn(3) == 0
	nprod := c19pick(rng, 1, 1, 2, 2, 3)
	rows := c19pick(rng, 2, 3, 3, 4, 5)
	if idx%8 == 0 {
		mininc, thr = c19pick(rng, 1, 2), [][2]int{{1, 2}, {1, 1}, {3, 4}}[rng.Intn(3)]
		maxc = c19pick(rng, 0, capn+2, 10)
		rows = c19pick(rng, 3, 4, 5)
	}
	c.Cfg = [][]string{{"strat", strat}, {"cap", itoa(int64(capn))}, {"max", itoa(int64(maxc))},
		{"grow", itoa(int64(grow[0])), itoa(int64(grow[1]))}, {"mininc", itoa(int64(mininc))},
		{"thr", itoa(int64(thr[0])), itoa(int64(thr[1]))}, {"timeout", c19TimeoutTok(rng, strat, timeout)},
		{"nprod", itoa(int64(nprod))}, {"rows", itoa(int64(rows))}}
	if rng.Intn(4) == 0 {
		// one row of the case is a nil map
		c.Cfg = append(c.Cfg, []string{"nilrow", itoa(int64(rng.Intn(nprod))), itoa(int64(rng.Intn(rows)))})
		c.Stat = append(c.Stat, "nil-map-row")
	}
	c.Stat = append(c.Stat, "strat-"+strat, fmt.Sprintf("nprod-%d", nprod), fmt.Sprintf("cap-%d", capn))
	if idx%40 == 39 {
		// option plumbing: a strategy name that is not one of the three canonical spellings must be refused at Execute
		// (accepting it and running some other strategy would, e.g., let "Block" drop rows)
		c.Cfg = append(c.Cfg, []string{"badstrat", []string{"Block", "BLOCK", "Expand", " drop", "blocking", "DROP"}[rng.Intn(6)]})
		c.Ops = [][]string{{"execute"}}
		c.Stat = append(c.Stat, "strategy-name-not-canonical")
		return c
	}
	if tier == "thorough" && idx%25 == 24 {
		// free-running stress (search only, DESIGN §3.5): real scheduler, conservation oracle
		c.Ops = [][]string{{"free", itoa(int64(200 + rng.Intn(800))), itoa(int64(rng.Intn(4)))}}
		c.Stat = append(c.Stat, "sched-free-running")
		return c
	}
	pn := func() string { return "p" + strconv.Itoa(rng.Intn(nprod)) }
	step := func(t string) { c.Ops = append(c.Ops, []string{"step", t}) }
	withStop := rng.Intn(10) == 0
	kind := rng.Intn(4)
	if idx%8 == 0 {
		kind = 4
	}
	switch kind {
	case 0, 1: // uniform random interleaving, consumer as likely as one producer
		n := 20 + rng.Intn(50)
		consW := 1 + rng.Intn(3)
		for i := 0; i < n; i++ {
			if rng.Intn(nprod*2+consW) < consW {
				step("cons")
			} else {
				step(pn())
			}
			if rng.Intn(25) == 0 {
				c.Ops = append(c.Ops, []string{"stats"})
			}
		}
		c.Stat = append(c.Stat, "sched-random")
	case 2: // bursts: producers fill the buffer while the consumer sleeps, then alternate
		for r := 0; r < 2+rng.Intn(3); r++ {
			p := pn()
			pt := []string{"emit.call", "send.send", "expand.wlock", "expand.mig", "drop.retry", "block.send", "expand.retry"}[rng.Intn(7)]
			c.Ops = append(c.Ops, []string{"run", p, pt, itoa(int64(4 + rng.Intn(30)))})
			for j := rng.Intn(4); j > 0; j-- {
				if rng.Intn(2) == 0 {
					step("cons")
				} else {
					step(pn())
				}
			}
		}
		c.Stat = append(c.Stat, "sched-burst")
	case 3: // slow consumer: long producer-only prefix
		n := 15 + rng.Intn(40)
		for i := 0; i < n; i++ {
			step(pn())
		}
		for i := rng.Intn(6); i > 0; i-- {
			step("cons")
			step(pn())
		}
		c.Stat = append(c.Stat, "sched-slow-consumer")
	case 4: // directed: the consumer acts while a migration is in progress
		p := pn()
		c.Ops = append(c.Ops, []string{"run", p, "expand.mig", "60"})
		for j := rng.Intn(3); j > 0; j-- {
			step(p)
		}
		for j := 1 + rng.Intn(3); j > 0; j-- {
			if rng.Intn(3) == 0 {
				step(pn())
			} else {
				step("cons")
			}
		}
		for j := rng.Intn(8); j > 0; j-- {
			if rng.Intn(2) == 0 {
				step(p)
			} else {
				step("cons")
			}
		}
		c.Stat = append(c.Stat, "sched-migration")
	}
	if rng.Intn(40) == 0 {
		c.Ops = append(c.Ops, []string{"tick"})
		c.Stat = append(c.Stat, "with-tick")
	}
	if withStop {
		n := 2 + rng.Intn(4)
		for i := 0; i < n; i++ {
			step("stop")
			for j := rng.Intn(3); j > 0; j-- {
				if rng.Intn(3) == 0 {
					step("cons")
				} else {
					step(pn())
				}
			}
		}
		c.Stat = append(c.Stat, "with-stop")
	}
	c.Ops = append(c.Ops, []string{"stats"})
	c.Ops = append(c.Ops, []string{"q", itoa(int64(nprod*rows*16 + 16))})
	c.Ops = append(c.Ops, []string{"stats"})
	return c
}

type c19run struct {
	s      *c19Sched
	ssql   *streamsql.Streamsql
	st     *stream.Stream
	nprod  int
	rows   int
	prods  []*c19Thread
	cons   *c19Thread
	stop   *c19Thread
	sinkMu sync.Mutex
	seen   [][2]int
	seenAt int
	rr     int
}

func c19cfgGet(c Case, key string) []string {
	for _, l := range c.Cfg {
		if len(l) > 0 && l[0] == key {
			return l[1:]
		}
	}
	return nil
}

func c19cfgInt(c Case, key string, d int) int {
	v := c19cfgGet(c, key)
	if len(v) == 0 {
		return d
	}
	n, err := strconv.Atoi(v[0])
	if err != nil {
		return d
	}
	return n
}

func c19cfgInt2(c Case, key string) (int, int) {
	v := c19cfgGet(c, key)
	if len(v) < 2 {
		return 0, 1
	}
	a, _ := strconv.Atoi(v[0])
	b, _ := strconv.Atoi(v[1])
	return a, b
}

func c19asInt(v interface{}) int {
	switch x := v.(type) {
	case int:
		return x
	case int64:
		return int(x)
	case float64:
		return int(x)
	}
	return -1
}

func (r *c19run) held() chan map[string]interface{} {
	if ch, ok := r.cons.aux.(chan map[string]interface{}); ok {
		return ch
	}
	return nil
}

func (r *c19run) finished(t *c19Thread) bool { return t.status == c19StFin }

func (r *c19run) contention(t *c19Thread) bool {
	if t == r.stop {
		if t.status == c19StParked && t.point == "stop.done" {
			for _, p := range r.prods {
				if (p.status == c19StParked || p.status == c19StBlocked) && (p.point == "expand.wlock" || p.point == "expand.mig") {
					return true
				}
			}
		}
		return false
	}
	if t != r.cons && t.status == c19StParked && t.point == "expand.wlock" && r.stop != nil && r.stop.status == c19StBlocked {
		return true
	}
	return false
}

func (r *c19run) heldEmpty() bool {
	if r.cons.status != c19StParked {
		return false
	}
	h := r.held()
	return h == nil || len(h) == 0
}

func (r *c19run) steppable(t *c19Thread) bool {
	return t.status == c19StParked && !r.contention(t) && !(t == r.cons && r.heldEmpty())
}

func (r *c19run) threads() []*c19Thread {
	out := append([]*c19Thread{}, r.prods...)
	out = append(out, r.cons)
	if r.stop != nil {
		out = append(out, r.stop)
	}
	return out
}

// doStep = the driver's doStep: release one thread, settle, report.
func (r *c19run) doStep(t *c19Thread, tick bool) [][]string {
	if t == nil {
		return [][]string{{"bad-thread"}}
	}
	if t.status != c19StParked || r.contention(t) || (t == r.stop && t.point == "stop.wait") {
		return [][]string{{"th", t.name, "skip"}, r.stLine()}
	}
	if t == r.cons && !tick && r.heldEmpty() {
		return [][]string{{"th", "cons", "skip-empty"}, r.stLine()}
	}
	var out [][]string
	r.s.clearMarks()
	wasIn := map[*c19Thread]bool{}
	for _, p := range r.prods {
		wasIn[p] = p.inEmit
	}
	if t != r.cons && t != r.stop && t.point == "emit.call" {
		out = append(out, []string{"emit", t.name[1:], strconv.Itoa(t.k)})
		t.inEmit = true
		wasIn[t] = true
		t.k++
	}
	r.s.release(t)
	r.s.settle()
	if r.s.stuck {
		return append(out, []string{"stuck"})
	}
	r.sinkMu.Lock()
	for _, pk := range r.seen[r.seenAt:] {
		out = append(out, []string{"proc", strconv.Itoa(pk[0]), strconv.Itoa(pk[1])})
	}
	r.seenAt = len(r.seen)
	r.sinkMu.Unlock()
	for _, p := range r.prods {
		if wasIn[p] && p.moved && (p.point == "emit.call" || p.point == "fin") && (p.status == c19StParked || p.status == c19StFin) {
			p.inEmit = false
			out = append(out, []string{"ret", p.name[1:], strconv.Itoa(p.k - 1)})
		}
	}
	for _, th := range r.threads() {
		if th.status == c19StBlocked && th.newBlocked {
			out = append(out, []string{"th", th.name, "blocked"})
		} else if th.moved && th.status != c19StBlocked && th.status != c19StRunning {
			out = append(out, []string{"th", th.name, th.point})
		}
	}
	return append(out, r.stLine())
}

func (r *c19run) counters() (int64, int64) {
	reg := r.st.MetricsRegistry()
	return reg.Counter(stream.InputCount).Value(), reg.Counter(stream.InputDroppedCount).Value()
}

func (r *c19run) stLine() []string {
	in, dr := r.counters()
	ch := r.st.VerifDataChan()
	hl := "-"
	if r.cons.status == c19StParked && r.held() != nil {
		hl = strconv.Itoa(len(r.held()))
	}
	return []string{"st", itoa(in), itoa(dr), strconv.Itoa(len(ch)), strconv.Itoa(cap(ch)), hl}
}

func (r *c19run) byName(n string) *c19Thread {
	for _, t := range r.threads() {
		if t.name == n {
			return t
		}
	}
	return nil
}

func (r *c19run) statsSafe() bool {
	for _, t := range r.threads() {
		if (t.status == c19StParked || t.status == c19StBlocked) && t.point == "expand.mig" {
			return false
		}
		if t.status == c19StBlocked && (t.point == "expand.wlock" || t.point == "stop.done") {
			return false
		}
	}
	return true
}

// qStep = the driver's doQ: one step of the quiescing policy (round-robin over producers and consumer).
func (r *c19run) qStep() [][]string {
	order := append(append([]*c19Thread{}, r.prods...), r.cons)
	n := len(order)
	for k := 0; k < n; k++ {
		idx := (r.rr + k) % n
		if r.steppable(order[idx]) {
			out := r.doStep(order[idx], false)
			r.rr = idx + 1
			return out
		}
	}
	if r.cons.status == c19StParked && r.heldEmpty() && len(r.st.VerifDataChan()) > 0 {
		return r.doStep(r.cons, true)
	}
	return [][]string{{"idle"}}
}

func (r *c19run) op(op []string) [][]string {
	switch {
	case len(op) == 2 && op[0] == "step":
		return r.doStep(r.byName(op[1]), false)
	case len(op) == 1 && op[0] == "tick":
		return r.doStep(r.cons, true)
	case len(op) == 4 && op[0] == "run":
		t := r.byName(op[1])
		mx, _ := strconv.Atoi(op[3])
		var out [][]string
		for i := 0; i < mx && t != nil; i++ {
			if (t.status == c19StParked || t.status == c19StFin) && t.point == op[2] || !r.steppable(t) {
				break
			}
			out = append(out, r.doStep(t, false)...)
			if r.s.stuck {
				break
			}
		}
		return out
	case len(op) == 2 && op[0] == "q":
		mx, _ := strconv.Atoi(op[1])
		var out [][]string
		for i := 0; i < mx && !r.s.stuck; i++ {
			one := r.qStep()
			out = append(out, one...)
			if len(one) == 1 && one[0][0] == "idle" {
				break
			}
		}
		return out
	case len(op) == 1 && op[0] == "stats":
		if !r.statsSafe() {
			return [][]string{{"stats", "unsafe"}}
		}
		st := r.ssql.GetStats()
		all := true
		for _, p := range r.prods {
			if p.inEmit {
				all = false
			}
		}
		return [][]string{{"stats", itoa(st[stream.InputCount]), itoa(st[stream.InputDroppedCount]),
			itoa(st[stream.DataChanLen]), itoa(st[stream.DataChanCap]), btok(all)}}
	}
	return [][]string{{"bad-op"}}
}

func c19perf(c Case) (types.PerformanceConfig, bool) {
	perf := types.DefaultPerformanceConfig()
	perf.BufferConfig.DataChannelSize = c19cfgInt(c, "cap", 1)
	perf.BufferConfig.MaxBufferSize = c19cfgInt(c, "max", 0)
	perf.BufferConfig.ResultChannelSize = 4096
	strat := "drop"
	if v := c19cfgGet(c, "strat"); len(v) > 0 {
		strat = v[0]
	}
	perf.OverflowConfig.Strategy = strat
	timeout := false
	if v := c19cfgGet(c, "timeout"); len(v) > 0 && v[0] == "t" {
		timeout = true
	}
	perf.OverflowConfig.BlockTimeout = 0
	if timeout {
		perf.OverflowConfig.BlockTimeout = 3 * time.Millisecond
	}
	if v := c19cfgGet(c, "timeout"); len(v) > 0 && v[0] == "n" {
		perf.OverflowConfig.BlockTimeout = -1
	} else if len(v) > 0 && v[0] == "N" {
		perf.OverflowConfig.BlockTimeout = -time.Second
	}
	gn, gd := c19cfgInt2(c, "grow")
	perf.OverflowConfig.ExpansionConfig.GrowthFactor = 0
	if gd > 0 {
		perf.OverflowConfig.ExpansionConfig.GrowthFactor = float64(gn) / float64(gd)
	}
	perf.OverflowConfig.ExpansionConfig.MinIncrement = c19cfgInt(c, "mininc", 0)
	tn, td := c19cfgInt2(c, "thr")
	perf.OverflowConfig.ExpansionConfig.TriggerThreshold = 0
	if td > 0 {
		perf.OverflowConfig.ExpansionConfig.TriggerThreshold = float64(tn) / float64(td)
	}
	perf.WorkerConfig.SinkWorkerCount = 1
	return perf, timeout
}

// c19free runs one free-running stress round: producers emit concurrently under the real
// scheduler, the sink is slowed down now and then, the round ends when the counters add up
// (or after 5 s). Lines: emit/proc/ret in the order of a global log, then one stats line.
func c19free(c Case, rowsPer, slow int) ([][]string, string) {
	nprod := c19cfgInt(c, "nprod", 1)
	perf, _ := c19perf(c)
	ssql := streamsql.New(presetOpt(), streamsql.WithDiscardLog(), streamsql.WithCustomPerformance(perf))
	c19BadFirst(ssql)
	if err := ssql.Execute("SELECT p, k FROM stream"); err != nil {
		return [][]string{{"execute-error"}}, "execute-error"
	}
	var mu sync.Mutex
	var log [][]string
	var nproc int64
	ssql.AddSyncSink(func(res []map[string]interface{}) {
		mu.Lock()
		for _, m := range res {
			log = append(log, []string{"proc", strconv.Itoa(c19asInt(m["p"])), strconv.Itoa(c19asInt(m["k"]))})
		}
		n := atomic.AddInt64(&nproc, int64(len(res)))
		mu.Unlock()
		if slow > 0 && n%int64(7*slow) == 0 {
			time.Sleep(30 * time.Microsecond)
		}
	})
	var wg sync.WaitGroup
	for i := 0; i < nprod; i++ {
		wg.Add(1)
		go func(i int) {
			defer wg.Done()
			for k := 0; k < rowsPer; k++ {
				mu.Lock()
				log = append(log, []string{"emit", strconv.Itoa(i), strconv.Itoa(k)})
				mu.Unlock()
				ssql.Emit(map[string]interface{}{"p": i, "k": k})
				mu.Lock()
				log = append(log, []string{"ret", strconv.Itoa(i), strconv.Itoa(k)})
				mu.Unlock()
			}
		}(i)
	}
	wg.Wait()
	total := int64(nprod * rowsPer)
	deadline := time.Now().Add(5 * time.Second)
	var st map[string]int64
	for {
		st = ssql.GetStats()
		if atomic.LoadInt64(&nproc)+st[stream.InputDroppedCount] == total && st[stream.DataChanLen] == 0 {
			break
		}
		if time.Now().After(deadline) {
			break
		}
		time.Sleep(200 * time.Microsecond)
	}
	mu.Lock()
	out := append([][]string{}, log...)
	mu.Unlock()
	st = ssql.GetStats()
	out = append(out, []string{"stats", itoa(st[stream.InputCount]), itoa(st[stream.InputDroppedCount]),
		itoa(st[stream.DataChanLen]), itoa(st[stream.DataChanCap]), "t"})
	ssql.Stop()
	// the Go-side copy of the oracle only decides whether the round is repeated
	why := ""
	seen := map[[2]string]bool{}
	last := map[string]int{}
	np := int64(0)
	for _, l := range out {
		if l[0] != "proc" {
			continue
		}
		np++
		key := [2]string{l[1], l[2]}
		if seen[key] {
			why = "once-only"
		}
		seen[key] = true
		k, _ := strconv.Atoi(l[2])
		if prev, ok := last[l[1]]; ok && k <= prev {
			why = "order"
		}
		last[l[1]] = k
	}
	if why == "" && (st[stream.InputCount] != total || np+st[stream.InputDroppedCount]+st[stream.DataChanLen] != total) {
		why = "conserved"
	}
	if mc := int64(c19cfgInt(c, "max", 0)); why == "" && mc > 0 && st[stream.DataChanCap] > mc && st[stream.DataChanCap] > int64(c19cfgInt(c, "cap", 1)) {
		why = "capacity"
	}
	return out, why
}

func (c19) Exec(c Case) [][][]string {
	c19BadFirstOn = len(c19cfgGet(c, "badfirst")) > 0
	defer func() { c19BadFirstOn = false }()
	if len(c.Ops) == 1 && len(c.Ops[0]) == 3 && c.Ops[0][0] == "free" {
		rowsPer, _ := strconv.Atoi(c.Ops[0][1])
		slow, _ := strconv.Atoi(c.Ops[0][2])
		out, why := c19free(c, rowsPer, slow)
		if why == "" {
			return [][][]string{out}
		}
		// a failure seen free-running counts only if it reproduces 3 of 3 times with the same input
		for i := 0; i < 2; i++ {
			o2, w2 := c19free(c, rowsPer, slow)
			if w2 == "" {
				return [][][]string{append([][]string{{"anomaly-unreproduced", why}}, o2...)}
			}
			out = o2
		}
		return [][][]string{out}
	}
	nprod, rows := c19cfgInt(c, "nprod", 1), c19cfgInt(c, "rows", 1)
	perf, timeout := c19perf(c)
	if v := c19cfgGet(c, "badstrat"); len(v) > 0 {
		perf.OverflowConfig.Strategy = v[0]
		ssql := streamsql.New(presetOpt(), streamsql.WithDiscardLog(), streamsql.WithCustomPerformance(perf))
		c19BadFirst(ssql)
		err := ssql.Execute("SELECT p, k FROM stream")
		ssql.Stop()
		if err != nil {
			return [][][]string{{{"refused"}}}
		}
		return [][][]string{{{"accepted"}}}
	}

	timed := []string{"expand.retry", "drop.retry", "cons.recv"}
	if timeout {
		timed = append(timed, "block.send")
	}
	s := c19NewSched(c19Points, timed)
	r := &c19run{s: s, nprod: nprod, rows: rows}
	var stp atomic.Pointer[stream.Stream]
	s.adopt = func(point string) string {
		if point == "cons.recv" {
			return "cons"
		}
		return ""
	}
	s.auxAt = func(point string) interface{} {
		if st := stp.Load(); point == "cons.recv" && st != nil {
			return st.VerifDataChan()
		}
		return nil
	}
	r.cons = s.thread("cons")
	for i := 0; i < nprod; i++ {
		r.prods = append(r.prods, s.thread("p"+strconv.Itoa(i)))
	}
	useStop := false
	for _, op := range c.Ops {
		if len(op) == 2 && op[0] == "step" && op[1] == "stop" {
			useStop = true
		}
	}
	if useStop {
		r.stop = s.thread("stop")
	}

	r.ssql = streamsql.New(presetOpt(), streamsql.WithDiscardLog(), streamsql.WithCustomPerformance(perf))
	stream.VerifSetYield(s.yield)
	defer stream.VerifSetYield(nil)
	obs := make([][][]string, 0, len(c.Ops))
	fail := func(why string) [][][]string {
		s.freeAll()
		r.ssql.Stop()
		return append(obs, [][]string{{why}})
	}
	// the stream pointer is needed by the consumer's first park: build through Execute, which
	// starts the consumer goroutine; VerifDataChan is read once r.st is set (the first park may
	// see r.st == nil, so the held channel is read again below)
	c19BadFirst(r.ssql)
	if err := r.ssql.Execute("SELECT p, k FROM stream"); err != nil {
		return fail("execute-error")
	}
	r.st = r.ssql.Stream()
	stp.Store(r.st)
	if !s.expect("cons") {
		return fail("stuck-start")
	}
	if eff := r.st.VerifBlockingTimeout(); eff != perf.OverflowConfig.BlockTimeout {
		// the option did not arrive as configured (e.g. "no timeout" silently replaced by a default)
		return fail("cfg-not-in-effect")
	}
	r.cons.aux = r.st.VerifDataChan()
	nilP, nilK := -1, -1
	if v := c19cfgGet(c, "nilrow"); len(v) == 2 {
		nilP, _ = strconv.Atoi(v[0])
		nilK, _ = strconv.Atoi(v[1])
	}
	r.ssql.AddSyncSink(func(res []map[string]interface{}) {
		r.sinkMu.Lock()
		for _, m := range res {
			if m["p"] == nil && m["k"] == nil && nilP >= 0 {
				// the case's one nil-map row (cfg nilrow): the engine reads it like an empty map; its identity is known
				r.seen = append(r.seen, [2]int{nilP, nilK})
				continue
			}
			r.seen = append(r.seen, [2]int{c19asInt(m["p"]), c19asInt(m["k"])})
		}
		r.sinkMu.Unlock()
	})
	var wg sync.WaitGroup
	for i := 0; i < nprod; i++ {
		wg.Add(1)
		go func(i int) {
			defer wg.Done()
			name := "p" + strconv.Itoa(i)
			s.bind(name)
			for k := 0; k < rows; k++ {
				s.yield("emit.call")
				if i == nilP && k == nilK {
					r.ssql.Emit(nil) // a nil map is a row like any other (Emit call counted, processed or counted dropped)
					continue
				}
				r.ssql.Emit(map[string]interface{}{"p": i, "k": k})
			}
			s.finish(name)
		}(i)
	}
	names := []string{}
	for _, p := range r.prods {
		names = append(names, p.name)
	}
	if useStop {
		wg.Add(1)
		go func() {
			defer wg.Done()
			s.bind("stop")
			s.yield("stop.call")
			r.ssql.Stop()
			s.finish("stop")
		}()
		names = append(names, "stop")
	}
	if !s.expect(names...) {
		return fail("stuck-start")
	}
	for _, op := range c.Ops {
		o := r.op(op)
		obs = append(obs, o)
		if s.stuck {
			break
		}
	}
	// teardown: everything runs free, then Stop joins the stream's goroutines
	s.freeAll()
	done := make(chan struct{})
	go func() { wg.Wait(); close(done) }()
	stopped := make(chan struct{})
	go func() {
		select {
		case <-done:
		case <-time.After(3 * time.Second):
		}
		r.ssql.Stop()
		close(stopped)
	}()
	select {
	case <-stopped:
	case <-time.After(15 * time.Second):
	}
	<-done
	return obs
}

// c19BadFirst (cfg `badfirst 1`, set by Exec): the caller's first Execute fails (a statement that does not parse, then one
// whose WHERE does not compile); the Execute that follows on the same instance must build the stream with the options
// the instance was created with.
var c19BadFirstOn bool

func c19BadFirst(s *streamsql.Streamsql) {
	if !c19BadFirstOn {
		return
	}
	_ = s.Execute("SELECT p, k FROM")
	_ = s.Execute("SELECT p, k FROM stream WHERE (p > 1")
}
