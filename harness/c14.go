package main

import (
	"fmt"
	"math"
	"math/rand"
	"sort"
	"strconv"
	"strings"
	"time"

	"github.com/rulego/streamsql"
	"github.com/rulego/streamsql/stream"
)

// C14 — analytic functions: sequential per partition, isolated across partitions.
//
// A case is one query, described structurally in cfg lines (the SQL text is built from them, and
// printed as `cfg sql` for the reader), plus `row` ops (one input row each) and a few `pkey` ops
// (partition key encoder alone). Every row is sent through two instances of the same query:
// EmitSync (obs `sync …`) and Emit + synchronous sink (obs `async …`).
type c14 struct{}

func init() { registry["C14"] = c14{} }

func (c14) Count(tier string) int {
	if tier == "thorough" {
		return 6000
	}
	return 1200
}

var c14ValCols = []string{"v", "u", "g"}
var c14KeyCols = []string{"k1", "k2"}

var c14ArgCols = []string{"v", "u", "g"}

// c14Style (cfg `colstyle`): how the query spells its columns.
//   nest — the partition keys are nested fields `dev.k1`, `dev.k2` (the rows carry them under `dev`)
//   qual — the stream has an alias (`FROM stream s`) and the column an analytic call works on is written `s.v`, `s.u`, `s.g`
var c14Style string

func c14SetStyle(cfg [][]string) func() {
	c14Style = ""
	for _, l := range cfg {
		if l[0] == "colstyle" && len(l) > 1 {
			c14Style = l[1]
		}
	}
	switch c14Style {
	case "nest":
		c14KeyCols = []string{"dev.k1", "dev.k2"}
	case "qual":
		c14ArgCols = []string{"s.v", "s.u", "s.g"} // the first argument of an analytic call only
	case "qualw": // also in wrapper expressions and WHEN / WHERE predicates (recorded finding: read as a nested path, NULL)
		c14ArgCols = []string{"s.v", "s.u", "s.g"}
		c14ValCols = []string{"s.v", "s.u", "s.g"}
	}
	return func() {
		c14Style = ""
		c14ArgCols = []string{"v", "u", "g"}
		c14ValCols = []string{"v", "u", "g"}
		c14KeyCols = []string{"k1", "k2"}
	}
}

// c14Shape puts the flat cells of a row where the query's spelling expects them.
func c14Shape(row map[string]interface{}) map[string]interface{} {
	if c14Style != "nest" {
		return row
	}
	dev := map[string]interface{}{}
	for _, k := range []string{"k1", "k2"} {
		if v, ok := row[k]; ok {
			dev[k] = v
			delete(row, k)
		}
	}
	row["dev"] = dev
	return row
}

// ---------------------------------------------------------------- tokens

func c14Fbits(x float64) string { return fmt.Sprintf("f:%016x", math.Float64bits(x)) }

func c14FloatOf(tok string) float64 {
	b, err := strconv.ParseUint(strings.TrimPrefix(tok, "f:"), 16, 64)
	if err != nil {
		panic("bad float token " + tok)
	}
	return math.Float64frombits(b)
}

// c14ValTok renders a Go value coming out of the engine.
func c14ValTok(v interface{}) string {
	switch x := v.(type) {
	case nil:
		return "n"
	case int:
		return "i:" + strconv.Itoa(x)
	case int64:
		return "i:" + strconv.FormatInt(x, 10)
	case int32:
		return "i:" + strconv.FormatInt(int64(x), 10)
	case float64:
		if x != x {
			return "f:nan"
		}
		return c14Fbits(x)
	case string:
		return "s:" + hx(x)
	case bool:
		return btok(x)
	case []interface{}:
		if len(x) == 2 {
			if p, ok := x[0].(string); ok {
				return "L:" + hx(p)
			}
		}
	case map[string]interface{}:
		if p, ok := x["p"].(string); ok && len(x) == 2 {
			return "P:" + hx(p)
		}
	}
	return "?:" + hx(fmt.Sprintf("%T|%v", v, v))
}

// c14Cell parses a value/key token into (value, present).
func c14Cell(tok string) (interface{}, bool) {
	switch {
	case tok == "m":
		return nil, false
	case tok == "n":
		return nil, true
	case tok == "t":
		return true, true
	case tok == "f":
		return false, true
	case strings.HasPrefix(tok, "i:"):
		n, err := strconv.Atoi(tok[2:])
		if err != nil {
			panic("bad int token " + tok)
		}
		return n, true
	case strings.HasPrefix(tok, "f:"):
		return c14FloatOf(tok), true
	case strings.HasPrefix(tok, "g:"): // float64 key, carried by its 'g' text
		x, err := strconv.ParseFloat(unhx(tok[2:]), 64)
		if err != nil {
			panic("bad float key token " + tok)
		}
		return x, true
	case strings.HasPrefix(tok, "s:"):
		return unhx(tok[2:]), true
	case strings.HasPrefix(tok, "L:"):
		return []interface{}{unhx(tok[2:]), 7}, true
	case strings.HasPrefix(tok, "P:"):
		return map[string]interface{}{"p": unhx(tok[2:]), "n": []interface{}{1}}, true
	}
	panic("bad value token " + tok)
}

func c14KeyFloatTok(x float64) string { return "g:" + hx(strconv.FormatFloat(x, 'g', -1, 64)) }

// ---------------------------------------------------------------- cfg → SQL

func c14Num(x float64) string { return strconv.FormatFloat(x, 'g', -1, 64) }

// pred token `<col>:<gt|lt>:f:<bits>`
func c14PredSQL(tok string) string {
	p := strings.SplitN(tok, ":", 3)
	col, _ := strconv.Atoi(p[0])
	op := ">"
	if p[1] == "lt" {
		op = "<"
	}
	return c14ValCols[col] + " " + op + " " + c14Num(c14FloatOf(p[2]))
}

func c14ColList(tok string, names []string) []string {
	var out []string
	if tok == "-" {
		return out
	}
	for _, s := range strings.Split(tok, ",") {
		i, _ := strconv.Atoi(s)
		out = append(out, names[i])
	}
	return out
}

func c14ArgSrcSQL(tok string) string {
	switch {
	case strings.HasPrefix(tok, "col:"):
		i, _ := strconv.Atoi(tok[4:])
		return c14ValCols[i]
	case strings.HasPrefix(tok, "const:f:"):
		return c14Num(c14FloatOf(tok[6:]))
	case strings.HasPrefix(tok, "const:s:"):
		return "'" + unhx(tok[8:]) + "'"
	}
	panic("bad arg source " + tok)
}

func c14Bool(tok string) string {
	if tok == "t" {
		return "true"
	}
	return "false"
}

// c14CallsSQL consumes n calls from toks and returns their SQL texts.
func c14CallsSQL(n int, toks []string, fieldIdx int) []string {
	var out []string
	for ; n > 0; n-- {
		col := func(s string) string { i, _ := strconv.Atoi(s); return c14ArgCols[i] }
		switch toks[0] {
		case "lag":
			args := []string{col(toks[1])}
			if toks[2] != "-" {
				args = append(args, toks[2])
			}
			if toks[3] != "-" {
				args = append(args, c14ArgSrcSQL(toks[3]))
			}
			if toks[4] != "-" {
				args = append(args, c14Bool(toks[4]))
			}
			out = append(out, "lag("+strings.Join(args, ", ")+")")
			toks = toks[5:]
		case "latest":
			args := []string{col(toks[1])}
			if toks[2] != "-" {
				args = append(args, c14ArgSrcSQL(toks[2]))
			}
			out = append(out, "latest("+strings.Join(args, ", ")+")")
			toks = toks[3:]
		case "hadchanged":
			out = append(out, "had_changed("+c14Bool(toks[1])+", "+strings.Join(c14ColList(toks[2], c14ValCols), ", ")+")")
			toks = toks[3:]
		case "changedcol":
			out = append(out, "changed_col("+c14Bool(toks[1])+", "+col(toks[2])+")")
			toks = toks[3:]
		case "changedcols":
			out = append(out, fmt.Sprintf("changed_cols(\"c%d_\", %s, %s)", fieldIdx, c14Bool(toks[1]), strings.Join(c14ColList(toks[2], c14ValCols), ", ")))
			toks = toks[3:]
		case "acc":
			args := []string{col(toks[2])}
			if toks[3] != "-" {
				args = append(args, c14PredSQL(toks[3]))
			}
			if toks[4] != "-" {
				args = append(args, c14PredSQL(toks[4]))
			}
			out = append(out, "acc_"+toks[1]+"("+strings.Join(args, ", ")+")")
			toks = toks[5:]
		default:
			panic("bad call " + toks[0])
		}
	}
	return out
}

// field tokens: <wrap> <part|-> <when|-> <ncalls> <call…>
func c14FieldSQL(toks []string, fieldIdx int) (expr string, multi bool) {
	n, _ := strconv.Atoi(toks[3])
	calls := c14CallsSQL(n, toks[4:], fieldIdx)
	switch {
	case toks[0] == "none":
		expr = calls[0]
	case toks[0] == "selfdiff":
		expr = calls[0] + " - " + calls[1]
	case strings.HasPrefix(toks[0], "colminus:"):
		i, _ := strconv.Atoi(toks[0][9:])
		expr = c14ValCols[i] + " - " + calls[0]
	default:
		panic("bad wrap " + toks[0])
	}
	var over []string
	if toks[1] != "-" {
		pcols := c14ColList(toks[1], c14KeyCols)
		if c14Style == "bq" { // the partition columns as back-quoted identifiers
			for i := range pcols {
				pcols[i] = "`" + pcols[i] + "`"
			}
		}
		over = append(over, "PARTITION BY "+strings.Join(pcols, ", "))
	}
	if toks[2] != "-" {
		over = append(over, "WHEN "+c14PredSQL(toks[2]))
	}
	if len(over) > 0 {
		expr += " OVER (" + strings.Join(over, " ") + ")"
	}
	return expr, toks[4] == "changedcols"
}

type c14Query struct {
	cap int
	sql string
}

func c14Build(cfg [][]string) c14Query {
	q := c14Query{}
	sel := []string{"id"}
	where := ""
	var wplain, wana string
	var wfield []string
	var wextra [][]string // further analytic conjuncts: <cmp> <field…>
	nf := 0
	for _, l := range cfg {
		switch l[0] {
		case "cap":
			q.cap, _ = strconv.Atoi(l[1])
		case "field":
			e, multi := c14FieldSQL(l[1:], nf)
			if multi {
				sel = append(sel, e)
			} else {
				sel = append(sel, fmt.Sprintf("%s AS r%d", e, nf))
			}
			nf++
		case "where":
			wplain, wana = l[1], l[2]
		case "wfield":
			wfield = l[1:]
		case "wfield2":
			wextra = append(wextra, l[1:])
		}
	}
	var conj []string
	if wplain != "" && wplain != "-" {
		conj = append(conj, c14PredSQL(wplain))
	}
	anaSQL := func(wana string, wfield []string, n int) string {
		e, _ := c14FieldSQL(wfield, n)
		if wana != "bool" {
			p := strings.SplitN(wana, ":", 2)
			op := ">"
			if p[0] == "lt" {
				op = "<"
			}
			e += " " + op + " " + c14Num(c14FloatOf(p[1]))
		}
		return e
	}
	if wana != "" && wana != "-" {
		conj = append(conj, anaSQL(wana, wfield, 99))
	}
	for i, x := range wextra {
		_ = i
		conj = append(conj, anaSQL(x[0], x[1:], 99))
	}
	if len(conj) == 1 {
		where = " WHERE id < 0 OR " + conj[0]
	} else if len(conj) >= 2 {
		where = " WHERE id < 0 OR (" + strings.Join(conj, " AND ") + ")"
	}
	from := " FROM stream"
	if c14Style == "qual" || c14Style == "qualw" {
		from = " FROM stream s"
	}
	q.sql = "SELECT " + strings.Join(sel, ", ") + from + where
	return q
}

// ---------------------------------------------------------------- execution

func c14Row(op []string) (int, map[string]interface{}) {
	id, _ := strconv.Atoi(op[1])
	row := map[string]interface{}{"id": id}
	names := []string{"k1", "k2", "v", "u", "g"}
	for i, n := range names {
		if v, ok := c14Cell(op[2+i]); ok {
			row[n] = v
		}
	}
	return id, c14Shape(row)
}

func c14Render(out map[string]interface{}) []string {
	if out == nil {
		return []string{"x"}
	}
	keys := make([]string, 0, len(out))
	for k := range out {
		if k != "id" {
			keys = append(keys, k)
		}
	}
	sort.Strings(keys)
	line := []string{"row"}
	for _, k := range keys {
		line = append(line, k+"="+c14ValTok(out[k]))
	}
	return line
}

func c14CopyRow(r map[string]interface{}) map[string]interface{} {
	cp := make(map[string]interface{}, len(r))
	for k, v := range r {
		cp[k] = v
	}
	return cp
}

func (c14) Exec(c Case) [][][]string {
	defer c14SetStyle(c.Cfg)()
	q := c14Build(c.Cfg)
	out := make([][][]string, len(c.Ops))
	fail := func(path, what string) {
		for i, op := range c.Ops {
			if op[0] == "row" {
				out[i] = append(out[i], []string{path, what})
			}
		}
	}
	// synchronous path: one EmitSync per row, on a fresh copy of the row (C20 is not ours)
	s := streamsql.New(presetOpt(), streamsql.WithDiscardLog(), streamsql.WithAnalyticMaxPartitions(q.cap))
	execErr := s.Execute(q.sql)
	if execErr != nil {
		fail("sync", "exec-error:"+hx(execErr.Error()))
	}
	for i, op := range c.Ops {
		switch op[0] {
		case "row":
			if execErr != nil {
				continue
			}
			_, row := c14Row(op)
			res, err := s.EmitSync(c14CopyRow(row))
			if err != nil {
				out[i] = append(out[i], []string{"sync", "emit-error:" + hx(err.Error())})
			} else {
				out[i] = append(out[i], append([]string{"sync"}, c14Render(res)...))
			}
		case "pkey":
			row := map[string]interface{}{}
			if v, ok := c14Cell(op[1]); ok {
				row["k1"] = v
			}
			if v, ok := c14Cell(op[2]); ok {
				row["k2"] = v
			}
			out[i] = [][]string{{"key", hx(stream.VerifAnalyticPartitionKey(c14ColList(op[3], c14KeyCols), c14Shape(row)))}}
		default:
			out[i] = [][]string{{"bad-op"}}
		}
	}
	s.Stop()
	// asynchronous path: Emit every row, then a sentinel row (id = -1, passes every generated WHERE
	// through the `id < 0 OR …` disjunct); deliveries are attributed to their input row by id.
	// The wait ends with the sentinel; the timeout only detects a lost sentinel, and a loss is
	// re-tried once on a fresh instance so that a starved scheduler cannot decide a verdict.
	lines, ok := c14Async(q, c)
	if !ok {
		lines, _ = c14Async(q, c)
	}
	for i, l := range lines {
		if l != nil {
			out[i] = append(out[i], l)
		}
	}
	return out
}

// c14Async runs the row ops through Emit + synchronous sink; one line per row op (nil for other ops).
func c14Async(q c14Query, c Case) ([][]string, bool) {
	lines := make([][]string, len(c.Ops))
	fail := func(what string) {
		for i, op := range c.Ops {
			if op[0] == "row" {
				lines[i] = []string{"async", what}
			}
		}
	}
	a := streamsql.New(presetOpt(), streamsql.WithDiscardLog(), streamsql.WithAnalyticMaxPartitions(q.cap))
	if err := a.Execute(q.sql); err != nil {
		fail("exec-error:" + hx(err.Error()))
		return lines, true
	}
	defer a.Stop()
	ch := make(chan []map[string]interface{}, 4096)
	a.AddSyncSink(func(r []map[string]interface{}) {
		cp := make([]map[string]interface{}, len(r))
		copy(cp, r)
		ch <- cp
	})
	for _, op := range c.Ops {
		if op[0] == "row" {
			_, row := c14Row(op)
			a.Emit(c14CopyRow(row))
		}
	}
	a.Emit(c14Shape(map[string]interface{}{"id": -1, "k1": "\x00sentinel", "k2": "\x00sentinel"}))
	got := map[int][]map[string]interface{}{}
	var order []int
	sentinel := false
	timeout := time.After(60 * time.Second)
	for !sentinel {
		select {
		case b := <-ch:
			for _, r := range b {
				id, _ := r["id"].(int)
				if id == -1 {
					sentinel = true
					continue
				}
				got[id] = append(got[id], r)
				order = append(order, id)
			}
		case <-timeout:
			fail("sentinel-lost")
			return lines, false
		}
	}
	inOrder := sort.IntsAreSorted(order)
	for i, op := range c.Ops {
		if op[0] != "row" {
			continue
		}
		id, _ := c14Row(op)
		switch rs := got[id]; {
		case !inOrder:
			lines[i] = []string{"async", "out-of-order"}
		case len(rs) == 0:
			lines[i] = []string{"async", "x"}
		case len(rs) == 1:
			lines[i] = append([]string{"async"}, c14Render(rs[0])...)
		default:
			lines[i] = []string{"async", "duplicated"}
		}
	}
	return lines, true
}

// ---------------------------------------------------------------- generator

func c14PredTok(rng *rand.Rand, col int) string {
	consts := []float64{0, 1, 1.5, 2}
	op := "gt"
	if rng.Intn(3) == 0 {
		op = "lt"
	}
	return fmt.Sprintf("%d:%s:%s", col, op, c14Fbits(consts[rng.Intn(len(consts))]))
}

func c14GenCall(rng *rand.Rand, c *Case) []string {
	col := strconv.Itoa(rng.Intn(2)) // v or u
	switch k := rng.Intn(12); {
	case k < 3:
		off, d, ign := "-", "-", "-"
		if rng.Intn(2) == 0 {
			off = []string{"1", "2", "3", "2", "0"}[rng.Intn(5)]
			if rng.Intn(2) == 0 {
				d = []string{"const:" + c14Fbits(-1), "col:1", "col:0", "const:s:" + hx("d")}[rng.Intn(4)]
				if rng.Intn(2) == 0 {
					ign = []string{"t", "f"}[rng.Intn(2)]
				}
			}
		}
		c.Stat = append(c.Stat, "fn-lag-off"+off)
		return []string{"lag", col, off, d, ign}
	case k < 4:
		d := "-"
		if rng.Intn(2) == 0 {
			d = []string{"const:" + c14Fbits(0), "col:1"}[rng.Intn(2)]
		}
		c.Stat = append(c.Stat, "fn-latest")
		return []string{"latest", col, d}
	case k < 6:
		cols := col
		if rng.Intn(3) == 0 {
			cols = "0,1"
		}
		c.Stat = append(c.Stat, "fn-had_changed")
		return []string{"hadchanged", []string{"t", "f"}[rng.Intn(2)], cols}
	case k < 7:
		c.Stat = append(c.Stat, "fn-changed_col")
		return []string{"changedcol", []string{"t", "f"}[rng.Intn(2)], col}
	case k < 8:
		cols := col
		if rng.Intn(2) == 0 {
			cols = "0,1"
		}
		c.Stat = append(c.Stat, "fn-changed_cols")
		return []string{"changedcols", []string{"t", "f"}[rng.Intn(2)], cols}
	default:
		kind := []string{"sum", "count", "avg", "min", "max"}[rng.Intn(5)]
		st, rs := "-", "-"
		if rng.Intn(2) == 0 {
			st = c14PredTok(rng, 2)
			if rng.Intn(3) > 0 {
				rs = c14PredTok(rng, 2)
			}
			c.Stat = append(c.Stat, "acc-start/reset")
		}
		c.Stat = append(c.Stat, "fn-acc_"+kind)
		return []string{"acc", kind, col, st, rs}
	}
}

func c14GenField(rng *rand.Rand, c *Case, forWhere bool) []string {
	part := []string{"0", "0", "0", "0,1", "1", "-"}[rng.Intn(6)]
	when := "-"
	if rng.Intn(3) == 0 {
		when = c14PredTok(rng, 2)
	}
	var calls []string
	wrap, n := "none", 1
	switch w := rng.Intn(8); {
	case forWhere || w < 5:
		calls = c14GenCall(rng, c)
		for forWhere && (calls[0] == "changedcols") {
			calls = c14GenCall(rng, c)
		}
	case w < 7: // v - lag(v …)
		off := []string{"-", "2"}[rng.Intn(2)]
		col := rng.Intn(2)
		wrap = fmt.Sprintf("colminus:%d", col)
		calls = []string{"lag", strconv.Itoa(col), off, "-", "-"}
		c.Stat = append(c.Stat, "wrap-col-minus-lag")
	default:
		wrap, n = "selfdiff", 2
		col := strconv.Itoa(rng.Intn(2))
		if rng.Intn(2) == 0 { // acc_max(v) - acc_min(v)
			calls = []string{"acc", "max", col, "-", "-", "acc", "min", col, "-", "-"}
			c.Stat = append(c.Stat, "wrap-max-minus-min")
		} else {
			// two different calls, the first of which is NULL on some rows (lag before its offset is reached, NULL
			// values): the second one's state must advance on those rows all the same
			col2 := strconv.Itoa(rng.Intn(2))
			kind := []string{"sum", "count", "avg", "min", "max"}[rng.Intn(5)]
			off := []string{"-", "2"}[rng.Intn(2)]
			calls = []string{"lag", col, off, "-", "-", "acc", kind, col2, "-", "-"}
			if rng.Intn(3) == 0 {
				calls = []string{"acc", kind, col2, "-", "-", "lag", col, off, "-", "-"}
			}
			c.Stat = append(c.Stat, "wrap-two-different-calls")
		}
	}
	return append([]string{wrap, part, when, strconv.Itoa(n)}, calls...)
}

var c14KeyStrings = []string{"a", "b", "a|b", "1", "", "nil", "a:b", "3:a|", "|", "int|1", "string|a"}

func c14GenKey(rng *rand.Rand) string {
	switch k := rng.Intn(20); {
	case k < 11:
		return "s:" + hx(c14KeyStrings[rng.Intn(len(c14KeyStrings))])
	case k < 14:
		return "i:" + strconv.Itoa([]int{1, 2, -1, 10}[rng.Intn(4)])
	case k < 16:
		return c14KeyFloatTok([]float64{1, 2.5, 1e21, 0.1, 1700000001, 1700000002, 16777217, 16777216, 0.12345678901, 0.12345678902}[rng.Intn(10)]) // incl. neighbours that collide at float32 precision
	case k < 17:
		return []string{"t", "f"}[rng.Intn(2)]
	case k < 19:
		return "n"
	default:
		return "m"
	}
}

// numericOnly: the column is an operand of a wrapper expression (`col - lag(col)`); the coercions
// expr-lang and the custom evaluator apply to bools and strings in arithmetic belong to C06.
func c14GenVal(rng *rand.Rand, numericOnly bool) string {
	k := rng.Intn(44)
	if numericOnly && k >= 36 {
		k = rng.Intn(36)
	}
	switch {
	case k < 20:
		return c14Fbits([]float64{0, 1, 2, 3, 0.1, 0.2, 0.5, -1, 2.5, 1e10, 7}[rng.Intn(11)])
	case k < 26:
		return "i:" + strconv.Itoa([]int{0, 1, 2, 3, -2, 7}[rng.Intn(6)])
	case k < 32:
		return "n"
	case k < 36:
		return "m"
	case k < 39:
		return "s:" + hx([]string{"x", "2", "v", ""}[rng.Intn(4)])
	case k < 40:
		return []string{"t", "f"}[rng.Intn(2)]
	case k < 42:
		// a list / a nested map as a column value (values that Go's == cannot compare): equal iff deeply equal
		return "L:" + hx([]string{"a", "b"}[rng.Intn(2)])
	default:
		return "P:" + hx([]string{"a", "b"}[rng.Intn(2)])
	}
}

func (c14) Gen(rng *rand.Rand, tier string, idx int) Case {
	var c Case
	cap := []int{2, 2, 2, 3, 3, 1, 0}[rng.Intn(7)]
	c.Cfg = append(c.Cfg, []string{"cap", strconv.Itoa(cap)})
	nf := 1 + rng.Intn(3)
	for i := 0; i < nf; i++ {
		c.Cfg = append(c.Cfg, append([]string{"field"}, c14GenField(rng, &c, false)...))
	}
	switch w := rng.Intn(10); {
	case w < 4:
		c.Cfg = append(c.Cfg, []string{"where", "-", "-"})
		c.Stat = append(c.Stat, "where-none")
	case w < 6:
		c.Cfg = append(c.Cfg, []string{"where", c14PredTok(rng, 2), "-"})
		c.Stat = append(c.Stat, "where-plain")
	default:
		plain := "-"
		if w >= 8 {
			plain = c14PredTok(rng, 2)
		}
		f := c14GenField(rng, &c, true)
		cmp := "gt:" + c14Fbits([]float64{0, 1, 2}[rng.Intn(3)])
		if rng.Intn(4) == 0 {
			cmp = "lt:" + c14Fbits(2)
		}
		if f[4] == "hadchanged" {
			cmp = "bool"
		}
		c.Cfg = append(c.Cfg, []string{"where", plain, cmp}, append([]string{"wfield"}, f...))
		c.Stat = append(c.Stat, "where-analytic")
		if rng.Intn(3) == 0 {
			// the same call text a second time with another OVER clause (other PARTITION BY / no WHEN): two
			// different state machines, each with its own partitions
			g := append([]string(nil), f...)
			g[1] = map[string]string{"-": "0", "0": "0,1", "1": "-", "0,1": "1"}[g[1]]
			if g[1] == "" {
				g[1] = "-"
			}
			if rng.Intn(2) == 0 {
				g[2] = "-"
			}
			if g[1] != f[1] || g[2] != f[2] {
				cmp2 := cmp
				if cmp != "bool" && rng.Intn(2) == 0 {
					cmp2 = "gt:" + c14Fbits([]float64{0, 1, 2}[rng.Intn(3)])
				}
				c.Cfg = append(c.Cfg, append([]string{"wfield2", cmp2}, g...))
				c.Stat = append(c.Stat, "where-two-analytic-calls")
			}
		}
	}
	// spelling of the columns: nested partition keys (`dev.k1`) / a stream alias with qualified value columns (`s.v`)
	hasFanOut := false
	for _, l := range c.Cfg {
		for _, t := range l {
			if t == "changedcols" {
				hasFanOut = true
			}
		}
	}
	switch k := rng.Intn(6); {
	case k == 0:
		c.Cfg = append(c.Cfg, []string{"colstyle", "nest"})
		c.Stat = append(c.Stat, "colstyle-nested-keys")
	case k == 1 && !hasFanOut:
		c.Cfg = append(c.Cfg, []string{"colstyle", "qual"})
		c.Stat = append(c.Stat, "colstyle-qualified-values")
	case k == 2:
		c.Cfg = append(c.Cfg, []string{"colstyle", "bq"})
		c.Stat = append(c.Stat, "colstyle-backquoted-keys")
	}
	c.Cfg = append(c.Cfg, []string{"sql", hx(c14Build(c.Cfg).sql)})
	// partitions: 2–5 key tuples, interleaved at random
	np := 2 + rng.Intn(4)
	keys := make([][2]string, np)
	for i := range keys {
		keys[i] = [2]string{c14GenKey(rng), c14GenKey(rng)}
	}
	if rng.Intn(3) == 0 && np >= 2 { // tuples that a separator-joined key would merge
		keys[0] = [2]string{"s:" + hx("a|"), "s:" + hx("b")}
		keys[1] = [2]string{"s:" + hx("a"), "s:" + hx("|b")}
	}
	if cap > 0 && np > cap {
		c.Stat = append(c.Stat, "partitions>cap")
	} else {
		c.Stat = append(c.Stat, "partitions<=cap")
	}
	nrows := 6 + rng.Intn(25)
	if tier == "thorough" {
		nrows = 6 + rng.Intn(55)
	}
	last, last2 := map[int][2]string{}, map[int][2]string{}
	numOnly := [2]bool{}
	for _, l := range c.Cfg {
		if l[0] == "field" && l[1] != "none" { // wrapper: its calls' argument columns must stay numeric/NULL
			for at := 5; at+4 < len(l)+0 && at < 5+5*2; at += 5 {
				if at >= len(l) {
					break
				}
				col, _ := strconv.Atoi(l[at+1])
				if l[at] == "acc" {
					col, _ = strconv.Atoi(l[at+2])
				}
				numOnly[col] = true
			}
		}
	}
	for i := 1; i <= nrows; i++ {
		p := rng.Intn(np)
		v, u := c14GenVal(rng, numOnly[0]), c14GenVal(rng, numOnly[1])
		if prev, ok := last[p]; ok && rng.Intn(3) == 0 { // repeats within a partition
			v = prev[0]
			if rng.Intn(2) == 0 {
				u = prev[1]
			}
		} else if prev, ok := last2[p]; ok && rng.Intn(4) == 0 { // X, other (often NULL), X again
			v = prev[0]
			if rng.Intn(2) == 0 {
				u = prev[1]
			}
		}
		if prev, ok := last[p]; ok {
			last2[p] = prev
		}
		last[p] = [2]string{v, u}
		g := c14Fbits([]float64{0, 1, 2, 3, 1.5}[rng.Intn(5)])
		switch rng.Intn(12) {
		case 0:
			g = "n"
		case 1:
			g = "m"
		case 2:
			g = "i:2"
		}
		c.Ops = append(c.Ops, []string{"row", strconv.Itoa(i), keys[p][0], keys[p][1], v, u, g})
	}
	for i := 0; i < 2; i++ {
		c.Ops = append(c.Ops, []string{"pkey", c14GenKey(rng), c14GenKey(rng), []string{"0", "0,1", "1", "1,0"}[rng.Intn(4)]})
	}
	return c
}
