package main

import (
	"math/rand"

	"github.com/rulego/streamsql/logger"
)

// C11 — SQL parser: total, layout-insensitive, faithful.
//
// Four kinds of cases (chosen by idx so every seed exercises all of them):
//
//	lexer      ops `lex` (byte strings) and `lexr` (source-token lists rendered in a layout):
//	           rsql.NewLexer's token stream vs the Lean lexer model, byte-exact (type, value, position,
//	           recorded lexical errors);
//	statement  one statement of the reference grammar (c11_stmt.go) rendered in several layouts and
//	           keyword spellings, op `parse` each: the clauses rsql extracted vs the generator's own
//	           expectation (`cfg exp`) and across layouts (complete canonical types.Config);
//	totality   op `total`: rsql.Parse under recover with a per-call timeout on byte soup and on
//	           mutated valid statements (a search).
type c11 struct{}

func init() { registry["C11"] = c11{} }

func (c11) Count(tier string) int {
	if tier == "thorough" {
		return 12000
	}
	return 640
}

func (c11) Gen(rng *rand.Rand, tier string, idx int) Case {
	switch idx % 4 {
	case 0:
		return genLexCase(rng)
	case 1, 2:
		return genStmtCase(rng, idx)
	default:
		return genTotalCase(rng, tier)
	}
}

func (c11) Exec(c Case) [][][]string {
	// the parser logs warnings to stdout through the process default logger; keep the trace clean
	prev := logger.GetDefault()
	logger.SetDefault(logger.NewDiscardLogger())
	defer logger.SetDefault(prev)
	out := make([][][]string, 0, len(c.Ops))
	for _, op := range c.Ops {
		switch op[0] {
		case "lex", "lexr":
			out = append(out, lexObs(unhx(op[1])))
		case "parse":
			out = append(out, parseObs(unhx(op[2])))
		case "total":
			out = append(out, totalObs(unhx(op[1])))
		default:
			out = append(out, [][]string{{"bad-op"}})
		}
	}
	return out
}
