package main

import (
	"math"
	"encoding/json"
	"fmt"
	"math/rand"
	"os"
	"runtime"
	"strconv"
	"sync"
	"sync/atomic"
	"time"

	"github.com/rulego/streamsql"
	"github.com/rulego/streamsql/functions"
	"github.com/rulego/streamsql/stream"
	"github.com/rulego/streamsql/types"
)

// C18 — lifecycle operations are safe under any interleaving, Stop is a barrier.
// Schedule-driven (see c19_sched.go): the stream's data processor (`eng`) and sink worker
// (`w0`), a user goroutine calling EmitSync (`c0`), one calling AddSink (`a0`) and two calling
// Stop (`s0`, `s1`) are parked at yield points and released one at a time; `emit` is executed
// inline. The registered sinks are harness closures of kind plain / panics / adds (= calls
// AddSink on the same instance) that park at `sink.enter` before doing anything.
// Lines per step: `sync id` (EmitSync called), `sink id` (a sink was invoked with row id),
// `refused id` (EmitSync returned an error), `th <thread> <point>`, `st stopped len pool nasync nsync`.
type c18 struct{}

func init() { registry["C18"] = c18{} }

func (c18) Count(tier string) int {
	if n, err := strconv.Atoi(os.Getenv("VERIF_C18_COUNT")); err == nil && n > 0 {
		return n // development aid: a smaller sample (a deadlocked case costs Stop's 5 s grace period)
	}
	if tier == "thorough" {
		return 1500
	}
	return 280 // the 21 exotic-value cases sit at idx%13 == 7, up to idx 267
}

var c18Points = []string{"cons.recv", "sinks.call", "sinks.submit", "stop.flag", "stop.done", "stop.nil",
	"stop.wait", "stop.joined", "sync.call", "add.call", "emit.call", "stop.call", "sink.enter"}

var c18Names = []string{"eng", "w0", "c0", "a0", "e0", "s0", "s1"}

func c18kinds(rng *rand.Rand, n int, allowAdds bool) []string {
	out := []string{}
	for i := 0; i < n; i++ {
		switch k := rng.Intn(6); {
		case k == 0:
			out = append(out, "panics")
		case k == 1 && allowAdds:
			out = append(out, "adds")
		default:
			out = append(out, "plain")
		}
	}
	return out
}

var c18Kinds = []string{"direct", "analytic", "cep", "tumbling", "sliding", "session", "counting", "global", "sliding-long", "tumbling-long", "global-each", "analytic-wrapped", "sliding-late", "tumbling-late", "session-late"}

var c18SQL = map[string]string{
	"direct":   "SELECT id FROM stream",
	"analytic": "SELECT id, lag(id) AS prev FROM stream",
	// event time with ALLOWEDLATENESS: the two producers' timestamps interleave, so late rows re-deliver fired windows while
	// GetStats / TriggerWindow / Stop run
	"sliding-late":  "SELECT COUNT(*) AS c FROM stream GROUP BY SlidingWindow('40ms','20ms') WITH (TIMESTAMP='ts', TIMEUNIT='ms', ALLOWEDLATENESS='10s')",
	"tumbling-late": "SELECT COUNT(*) AS c FROM stream GROUP BY TumblingWindow('20ms') WITH (TIMESTAMP='ts', TIMEUNIT='ms', ALLOWEDLATENESS='10s')",
	"session-late":  "SELECT k, COUNT(*) AS c FROM stream GROUP BY k, SessionWindow('20ms') WITH (TIMESTAMP='ts', TIMEUNIT='ms', ALLOWEDLATENESS='10s')",
	// analytic calls inside expressions: the wrapper is evaluated per row by the processor goroutine and by EmitSync callers at once
	"analytic-wrapped": "SELECT id, lag(id) + 1 AS p1, round(lag(v), 2) AS r, CASE WHEN lag(v) > 0 THEN 'up' ELSE 'flat' END AS t FROM stream",
	"cep":      "SELECT * FROM stream MATCH_RECOGNIZE (ORDER BY ts PATTERN (A+) DEFINE A AS v > 0)",
	"tumbling": "SELECT COUNT(*) AS c FROM stream GROUP BY TumblingWindow('20ms')",
	"sliding":  "SELECT COUNT(*) AS c FROM stream GROUP BY SlidingWindow('40ms','20ms')",
	"session":  "SELECT k, COUNT(*) AS c FROM stream GROUP BY k, SessionWindow('20ms')",
	"counting": "SELECT COUNT(*) AS c FROM stream GROUP BY CountingWindow(3)",
	"global":   "SELECT k, COUNT(*) AS c FROM stream GROUP BY k, GLOBAL WINDOW TRIGGER WHEN COUNT(*) >= 3",
	// fires on every row: with the block strategy, an output buffer of one and a slow sink the window goroutine is parked
	// in its hand-over whenever Stop arrives
	"global-each": "SELECT k, COUNT(*) AS c FROM stream GROUP BY k, GLOBAL WINDOW TRIGGER WHEN COUNT(*) >= 1",
	// windows far longer than the run: whatever waits for a window end must be released by Stop, not by the window
	"sliding-long":  "SELECT COUNT(*) AS c FROM stream GROUP BY SlidingWindow('60s','30s')",
	"tumbling-long": "SELECT COUNT(*) AS c FROM stream GROUP BY TumblingWindow('60s')",
}

// RaceCase: the free-running rounds are also executed under the race detector (./check, race pass)
func (c18) RaceCase(c Case) bool { return len(c.Ops) == 1 && c.Ops[0][0] == "free" }

func (c18) Gen(rng *rand.Rand, tier string, idx int) Case {
	var c Case
	if idx%13 == 7 {
		// rows whose values have unusual Go types ([]byte, typed nil pointers, Stringers, NaN, structs, typed containers …)
		// as key / sort column and as measured value, between ordinary rows
		k := idx / 13
		kind := c18ExoticKinds[k%len(c18ExoticKinds)]
		// the value list is walked in three slices: seven kinds × three slices cover every (kind, value) pair in 21 cases
		slice := (k / len(c18ExoticKinds)) % 3
		for p := slice * 6; p < slice*6+6; p++ {
			c.Ops = append(c.Ops, []string{"exotic", kind, strconv.Itoa(p)})
		}
		c.Stat = append(c.Stat, "exotic-row-values", "exotic-"+kind)
		return c
	}
	if idx%13 == 8 && idx/13 < 8 {
		// a custom function that panics for one ordinary value (and is handed the unusual ones too), in a SELECT item, in
		// WHERE and inside an aggregate argument of a windowed query
		kind := []string{"fnsel", "fnwhere", "fnagg", "fncep"}[(idx/13)%4]
		for _, p := range [][]int{{18, 0, 8}, {18, 12, 3}}[(idx/13)/4] {
			c.Ops = append(c.Ops, []string{"exotic", kind, strconv.Itoa(p)})
		}
		c.Stat = append(c.Stat, "exotic-row-values", "exotic-"+kind, "custom-function-panics")
		return c
	}
	if idx%97 == 5 || idx%97 == 37 || idx%97 == 69 {
		// Execute that fails AFTER the stream was built (the WHERE text passes the SQL parser but does not compile as a
		// filter): whatever Execute started must be torn down by the Stop that follows
		c.Cfg = [][]string{{"async"}, {"sync"}, {"qcap", "1"}, {"calls", "0"}, {"adds", "0"}, {"strat", "drop"},
			{"where", hx([]string{"a matches '['", "a > 1 AND", "(a > 1"}[rng.Intn(3)])}}
		c.Ops = [][]string{{"failexec"}}
		c.Stat = append(c.Stat, "execute-fails-after-build")
		if idx%97 != 5 {
			// … and the caller corrects the statement and calls Execute again on the same instance (Execute's error says a
			// failed call may be repeated); idx%97 == 69: an event-time window statement (window and watermark goroutines
			// exist from construction)
			c.Cfg = append(c.Cfg, []string{"retry", "1"})
			c.Stat = append(c.Stat, "execute-retried-after-failure")
			if idx%97 == 69 {
				c.Cfg = append(c.Cfg, []string{"stmt", "win"})
				c.Stat = append(c.Stat, "execute-retried-window-statement")
			}
		}
		return c
	}
	if (tier == "thorough" && idx%10 == 9) || (tier != "thorough" && idx%13 == 12) {
		// free-running stress over the query kinds (search only, DESIGN §3.5); a few rounds in the quick tier too
		kind := c18Kinds[(idx/10)%len(c18Kinds)]
		strat := []string{"drop", "block", "expand"}[rng.Intn(3)]
		asyncs := c18kinds(rng, rng.Intn(3), true)
		syncs := c18kinds(rng, 1+rng.Intn(2), true)
		if tier != "thorough" {
			// the quick tier walks a fixed table first (every kind once, with the strategy / sink that stresses it), then random
			k := idx / 13
			kind = c18Kinds[k%len(c18Kinds)]
			if k < len(c18Kinds) {
				strat = []string{"drop", "expand", "drop", "block", "expand", "drop", "block", "block", "drop", "block", "block", "drop", "drop", "expand", "drop"}[k]
				if kind == "cep" {
					syncs = []string{"adds", "plain"} // a re-entrant sink that is handed the matches flushed by Stop
				}
			}
		}
		c.Cfg = [][]string{append([]string{"async"}, asyncs...), append([]string{"sync"}, syncs...),
			{"qcap", strconv.Itoa(1 + rng.Intn(3))}, {"calls", "0"}, {"adds", "0"}, {"strat", strat}}
		c.Ops = [][]string{{"free", kind, strconv.Itoa(40 + rng.Intn(160))}}
		c.Stat = append(c.Stat, "sched-free-running", "kind-"+kind)
		return c
	}
	asyncs := c18kinds(rng, rng.Intn(3), true)
	syncs := c18kinds(rng, rng.Intn(3), true)
	if idx%6 == 0 { // re-entrant sync sink
		syncs = append(syncs, "adds")
	}
	if idx%6 == 1 && len(asyncs) == 0 {
		asyncs = []string{"plain"}
	}
	qcap := 1 + rng.Intn(2)
	calls := rng.Intn(4)
	adds := rng.Intn(3)
	c.Cfg = [][]string{append([]string{"async"}, asyncs...), append([]string{"sync"}, syncs...),
		{"qcap", strconv.Itoa(qcap)}, {"calls", strconv.Itoa(calls)}, {"adds", strconv.Itoa(adds)},
		{"strat", []string{"drop", "drop", "block", "expand"}[rng.Intn(4)]}}
	c.Stat = append(c.Stat, fmt.Sprintf("async-%d", len(asyncs)), fmt.Sprintf("sync-%d", len(syncs)))
	for _, k := range append(append([]string{}, asyncs...), syncs...) {
		if k != "plain" {
			c.Stat = append(c.Stat, "sink-"+k)
		}
	}
	step := func(t string) { c.Ops = append(c.Ops, []string{"step", t}) }
	work := []string{"eng", "eng", "w0", "c0", "c0", "a0"}
	nstop := rng.Intn(3) // 0, 1 or 2 Stop callers take part
	switch kind := rng.Intn(5); {
	case kind <= 1: // random interleaving, Stop somewhere in the second half
		n := 15 + rng.Intn(40)
		for i := 0; i < n; i++ {
			switch r := rng.Intn(10); {
			case r < 3:
				c.Ops = append(c.Ops, []string{"emit"})
			case nstop > 0 && i > n/2 && r < 6:
				step([]string{"s0", "s1"}[rng.Intn(nstop)])
			default:
				step(work[rng.Intn(len(work))])
			}
		}
		c.Stat = append(c.Stat, "sched-random")
	case kind == 2: // a worker holds a task while Stop runs
		c.Ops = append(c.Ops, []string{"emit"}, []string{"emit"})
		for i := 0; i < 4+rng.Intn(6); i++ {
			step("eng")
		}
		for i := 0; i < 6; i++ {
			step("s0")
		}
		for i := rng.Intn(6); i > 0; i-- {
			step([]string{"w0", "eng", "s1", "c0"}[rng.Intn(4)])
		}
		nstop = 2
		c.Stat = append(c.Stat, "sched-stop-vs-worker")
	case kind == 3: // Stop completes, then calls arrive
		c.Ops = append(c.Ops, []string{"emit"})
		for i := 0; i < 3+rng.Intn(4); i++ {
			step([]string{"eng", "c0"}[rng.Intn(2)])
		}
		c.Ops = append(c.Ops, []string{"q", "60"})
		for i := 0; i < 8; i++ {
			step("s0")
			if rng.Intn(3) == 0 {
				step([]string{"eng", "w0", "c0"}[rng.Intn(3)])
			}
		}
		for i := 0; i < 12; i++ {
			step([]string{"eng", "w0", "s0"}[rng.Intn(3)])
		}
		c.Ops = append(c.Ops, []string{"emit"})
		step("c0")
		step("c0")
		step("s1")
		nstop = 2
		c.Stat = append(c.Stat, "sched-after-stop")
	default: // EmitSync and the data processor dispatch concurrently, AddSink in between
		c.Ops = append(c.Ops, []string{"emit"}, []string{"emit"})
		for i := 0; i < 10+rng.Intn(20); i++ {
			step([]string{"eng", "c0", "a0", "w0", "c0"}[rng.Intn(5)])
		}
		if nstop > 0 {
			for i := 0; i < 6; i++ {
				step("s0")
				step([]string{"eng", "c0", "w0"}[rng.Intn(3)])
			}
		}
		c.Stat = append(c.Stat, "sched-dispatch")
	}
	c.Stat = append(c.Stat, fmt.Sprintf("stops-%d", nstop))
	c.Ops = append(c.Ops, []string{"q", "400"}, []string{"final"})
	return c
}

type c18run struct {
	s      *c19Sched
	ssql   *streamsql.Streamsql
	st     *stream.Stream
	th     map[string]*c19Thread
	calls  int
	adds   int
	nextID int64 // accessed atomically (a blocked caller goroutine is not ordered with the scheduler)
	mu     sync.Mutex
	seen   []int
	seenAt int
	refs   []int
	refsAt int
	pans   []string // panics that escaped from a public API call
	pansAt int
	done   bool // some Stop call has closed `done`
	emitID int  // id of the Emit call in progress (-1 = none)
	rr     int
}

func (r *c18run) w0idle() bool {
	t := r.th["w0"]
	return t.status == c19StBlocked && t.bstate == "select"
}

func (r *c18run) engEmpty() bool {
	t := r.th["eng"]
	return t.status == c19StParked && t.point == "cons.recv" && len(r.st.VerifDataChan()) == 0 && !r.done
}

func (r *c18run) steppable(t *c19Thread) bool {
	return t.status == c19StParked && !(t.name == "eng" && r.engEmpty())
}

func (r *c18run) stLine() []string {
	na, ns := r.st.VerifSinkCounts()
	return []string{"st", btok(r.st.VerifStopped()), strconv.Itoa(len(r.st.VerifDataChan())),
		strconv.Itoa(r.st.VerifSinkPoolLen()), strconv.Itoa(na), strconv.Itoa(ns)}
}

// collect prints what happened since the last collection (the driver's stepLines).
func (r *c18run) collect(pre [][]string) [][]string {
	out := pre
	if e := r.th["e0"]; r.emitID >= 0 && e.moved && (e.status == c19StParked || e.status == c19StFin) {
		out = append(out, []string{"emit", strconv.Itoa(r.emitID)})
		r.emitID = -1
	}
	r.mu.Lock()
	for _, id := range r.seen[r.seenAt:] {
		out = append(out, []string{"sink", strconv.Itoa(id)})
	}
	r.seenAt = len(r.seen)
	for _, id := range r.refs[r.refsAt:] {
		out = append(out, []string{"refused", strconv.Itoa(id)})
	}
	r.refsAt = len(r.refs)
	for _, n := range r.pans[r.pansAt:] {
		out = append(out, []string{"panicked", n})
	}
	r.pansAt = len(r.pans)
	r.mu.Unlock()
	for _, n := range c18Names {
		t := r.th[n]
		if t.status == c19StNew {
			continue
		}
		if t.moved && (t.point == "stop.done" || t.point == "stop.nil" || t.point == "stop.wait" || t.point == "stop.joined") {
			r.done = true
		}
		switch {
		case t.status == c19StBlocked && t.newBlocked && n == "w0" && t.bstate == "select":
			out = append(out, []string{"th", n, "idle"})
		case t.status == c19StBlocked && t.newBlocked:
			out = append(out, []string{"th", n, "blocked"})
		case t.moved && t.status != c19StBlocked && t.status != c19StRunning:
			out = append(out, []string{"th", n, t.point})
		}
	}
	return append(out, r.stLine())
}

func (r *c18run) doStep(t *c19Thread) [][]string {
	if t == nil {
		return [][]string{{"bad-thread"}}
	}
	if t.status != c19StParked {
		return [][]string{{"th", t.name, "skip"}, r.stLine()}
	}
	if t.name == "eng" && r.engEmpty() {
		return [][]string{{"th", "eng", "skip-empty"}, r.stLine()}
	}
	var pre [][]string
	r.s.clearMarks()
	if t.name == "c0" && t.point == "sync.call" {
		pre = append(pre, []string{"sync", strconv.Itoa(int(atomic.LoadInt64(&r.nextID)))})
	}
	if t.name == "e0" && t.point == "emit.call" {
		r.emitID = int(atomic.LoadInt64(&r.nextID)) // the Emit call in progress; reported when it returns
	}
	r.s.release(t)
	r.s.settle()
	if r.s.stuck {
		return append(pre, []string{"stuck"})
	}
	return r.collect(pre)
}

func (r *c18run) op(op []string) [][]string {
	switch {
	case len(op) == 1 && op[0] == "emit":
		return r.doStep(r.th["e0"])
	case len(op) == 2 && op[0] == "step":
		return r.doStep(r.th[op[1]])
	case len(op) == 2 && op[0] == "q":
		mx, _ := strconv.Atoi(op[1])
		var out [][]string
		for i := 0; i < mx && !r.s.stuck; i++ {
			n := len(c18Names)
			picked := false
			for k := 0; k < n; k++ {
				idx := (r.rr + k) % n
				if t := r.th[c18Names[idx]]; r.steppable(t) && !((t.name == "s0" || t.name == "s1") && t.point == "stop.call") {
					out = append(out, r.doStep(t)...)
					r.rr = idx + 1
					picked = true
					break
				}
			}
			if !picked {
				out = append(out, []string{"idle"})
				break
			}
		}
		return out
	case len(op) == 1 && op[0] == "final":
		var out [][]string
		for _, n := range c18Names {
			t := r.th[n]
			switch {
			case t.status == c19StNew:
			case n == "w0" && r.w0idle():
				out = append(out, []string{"final", n, "idle"})
			case t.status == c19StBlocked:
				out = append(out, []string{"final", n, "blocked"})
			default:
				out = append(out, []string{"final", n, t.point})
			}
		}
		return out
	}
	return [][]string{{"bad-op"}}
}

// c18free: one free-running round on the real scheduler. Producers, an EmitSync caller, AddSink,
// GetStats and TriggerWindow callers run concurrently; two Stop calls start when half of the rows
// are out; afterwards a few more calls are made. The log is ordered by a mutex.
func c18free(c Case, kind string, n int, base0 int) ([][]string, string) {
	perf := types.DefaultPerformanceConfig()
	perf.BufferConfig.DataChannelSize = 64
	perf.BufferConfig.MaxBufferSize = 256
	perf.OverflowConfig.Strategy = "drop"
	if v := c19cfgGet(c, "strat"); len(v) > 0 {
		perf.OverflowConfig.Strategy = v[0]
	}
	perf.OverflowConfig.BlockTimeout = 0
	perf.WorkerConfig.SinkPoolSize = c19cfgInt(c, "qcap", 1)
	perf.WorkerConfig.SinkWorkerCount = 2
	if perf.OverflowConfig.Strategy == "block" {
		// block without a timeout and a buffer of two: producers are parked inside Emit most of the time, also when
		// Stop arrives — Stop must release them
		perf.BufferConfig.DataChannelSize = 2
		// … and back-pressure all the way: a window output buffer of one batch and slow synchronous sinks park the
		// data processor inside Window.Add when Stop arrives
		perf.BufferConfig.WindowOutputSize = 1
	}
	slowSync := perf.OverflowConfig.Strategy == "block"
	base := runtime.NumGoroutine()
	if base0 >= 0 {
		// a re-run after a suspected leak: measured against the count before the FIRST run — a goroutine that run
		// left behind and that is still alive is still a leak
		base = base0
	}
	ssql := streamsql.New(presetOpt(), streamsql.WithDiscardLog(), streamsql.WithCustomPerformance(perf))
	if err := ssql.Execute(c18SQL[kind]); err != nil {
		return [][]string{{"execute-error"}}, "execute-error"
	}
	var mu sync.Mutex
	var log [][]string
	add := func(l ...string) { mu.Lock(); log = append(log, l); mu.Unlock() }
	half := make(chan struct{}) // closed when half of the rows have been sent: the two Stop calls start
	var mk func(kind string) func([]map[string]interface{})
	mk = func(sk string) func([]map[string]interface{}) {
		return func(res []map[string]interface{}) {
			id := -1
			if len(res) > 0 {
				id = c19asInt(res[0]["id"])
			}
			add("sink", strconv.Itoa(id))
			if slowSync {
				if kind == "global-each" {
					// once Stop is due the sink holds the consumer for 20 ms: the output buffer fills behind it and the
					// window goroutine is parked in its hand-over when Stop arrives
					select {
					case <-half:
						time.Sleep(20 * time.Millisecond)
					default:
						time.Sleep(700 * time.Microsecond)
					}
				}
				time.Sleep(300 * time.Microsecond)
			}
			switch sk {
			case "panics":
				panic("sink panic (harness)")
			case "adds":
				ssql.AddSink(mk("plain"))
			}
		}
	}
	for _, k := range c19cfgGet(c, "async") {
		ssql.AddSink(mk(k))
	}
	for _, k := range c19cfgGet(c, "sync") {
		ssql.AddSyncSink(mk(k))
	}
	guard := func(name string, f func()) {
		defer func() {
			if x := recover(); x != nil {
				add("panicked", name)
			}
		}()
		f()
	}
	row := func(id int) map[string]interface{} {
		v := id%3 - 1
		if kind == "cep" && id%14 != 0 {
			v = 1 // long runs of A: a match is still open when Stop arrives and is delivered by Stop's flush
		}
		return map[string]interface{}{"id": id, "k": []string{"a", "b"}[id%2], "v": v, "ts": int64(id)}
	}
	var sent int64
	var wg sync.WaitGroup
	for p := 0; p < 2; p++ {
		wg.Add(1)
		go func(p int) {
			defer wg.Done()
			for i := 0; i < n; i++ {
				id := 2 * (p*n + i)
				add("emit", strconv.Itoa(id))
				guard("e0", func() { ssql.Emit(row(id)) })
				if atomic.AddInt64(&sent, 1) == int64(n) {
					close(half)
				}
			}
		}(p)
	}
	wg.Add(4)
	go func() { // EmitSync
		defer wg.Done()
		for i := 0; i < n/2; i++ {
			id := 2 * (2*n + i)
			add("sync", strconv.Itoa(id))
			guard("c0", func() {
				if _, err := ssql.EmitSync(row(id)); err != nil {
					add("refused", strconv.Itoa(id))
				}
			})
		}
	}()
	go func() { // AddSink
		defer wg.Done()
		for i := 0; i < 3; i++ {
			guard("a0", func() { ssql.AddSink(mk("plain")) })
			runtime.Gosched()
		}
	}()
	go func() { // GetStats
		defer wg.Done()
		for i := 0; i < n; i++ {
			guard("g0", func() { ssql.GetStats() })
		}
	}()
	go func() { // TriggerWindow
		defer wg.Done()
		for i := 0; i < n/4; i++ {
			guard("t0", func() { ssql.TriggerWindow() })
			runtime.Gosched()
		}
	}()
	var swg sync.WaitGroup
	for _, sn := range []string{"s0", "s1"} {
		swg.Add(1)
		go func(sn string) {
			defer swg.Done()
			<-half
			guard(sn, func() { ssql.Stop() })
		}(sn)
	}
	stopped := make(chan struct{})
	go func() { swg.Wait(); close(stopped) }()
	select {
	case <-stopped:
	case <-time.After(20 * time.Second):
		// Stop has a grace period of 5 s: a Stop call that is still running after 20 s never returns
		add("stuck", "stop-never-returned")
		mu.Lock()
		out := append([][]string{}, log...)
		mu.Unlock()
		return out, "deadlock"
	}
	// both Stop calls have returned: from here on no sink may run
	add("th", "s0", "stop.flag")
	add("th", "s0", "fin")
	released := make(chan struct{})
	go func() { wg.Wait(); close(released) }()
	select {
	case <-released:
	case <-time.After(8 * time.Second):
		// a caller is still inside the instance long after Stop returned (e.g. a producer parked in Emit for good)
		add("stuck", "caller-still-inside-after-stop")
		mu.Lock()
		out := append([][]string{}, log...)
		mu.Unlock()
		return out, "deadlock"
	}
	for i := 0; i < 3; i++ {
		id := 2 * (3*n + i)
		add("emit", strconv.Itoa(id))
		guard("e0", func() { ssql.Emit(row(id)) })
	}
	id := 2 * (3*n + 3)
	add("sync", strconv.Itoa(id))
	guard("c0", func() {
		if _, err := ssql.EmitSync(row(id)); err != nil {
			add("refused", strconv.Itoa(id))
		}
	})
	// every goroutine of the instance must be gone; then nothing can be invoked any more
	deadline := time.Now().Add(2 * time.Second)
	for runtime.NumGoroutine() > base && time.Now().Before(deadline) {
		time.Sleep(time.Millisecond)
	}
	if runtime.NumGoroutine() > base {
		add("goroutines-left", strconv.Itoa(runtime.NumGoroutine()-base))
	}
	mu.Lock()
	out := append([][]string{}, log...)
	mu.Unlock()
	why := ""
	after := false
	for _, l := range out {
		switch {
		case l[0] == "th" && l[2] == "fin":
			after = true
		case l[0] == "sink" && after:
			why = "stop-barrier"
		case l[0] == "panicked":
			why = "panic"
		case l[0] == "goroutines-left":
			why = "leak"
		}
	}
	return out, why
}

// ---------------------------------------------------------------- exotic row values

// c18Stringer: a value-receiver Stringer; a typed nil pointer to it panics when its method is called through the pointer
type c18Stringer struct{ s string }

func (x c18Stringer) String() string { return x.s }

var c18ExoticSQL = map[string]string{
	"direct":  "SELECT id, k, v + 1 AS w FROM stream WHERE id >= 0",
	"join":    "SELECT id, m.loc AS loc FROM stream s LEFT JOIN meta m ON s.k = m.k",
	"orderby": "SELECT k, COUNT(*) AS c, MAX(id) AS id FROM stream GROUP BY k, CountingWindow(1) ORDER BY k",
	"batch":   "SELECT k, COUNT(*) AS c, MAX(id) AS id FROM stream GROUP BY k, TumblingWindow('30ms') ORDER BY k DESC",
	"cep":     "SELECT * FROM stream MATCH_RECOGNIZE (ORDER BY ts MEASURES LAST(id) AS id, MIN(w) AS mn, MAX(w) AS mx, AVG(w) AS av PATTERN (A+ B) DEFINE A AS v > 0, B AS v <= 0)",
	"cepopen": "SELECT * FROM stream MATCH_RECOGNIZE (ORDER BY ts MEASURES LAST(id) AS id, MIN(w) AS mn, MAX(w) AS mx PATTERN (A+) DEFINE A AS v > 0)",
	"groupfn": "SELECT upper(k) AS uk, COUNT(*) AS c, MAX(id) AS id FROM stream GROUP BY upper(k), CountingWindow(1)",
	// a custom function that panics for a negative number, in a SELECT item, in WHERE, and inside an aggregate argument
	// (evaluated by the window-output consumer): the row or batch is lost, later rows are processed
	"fnsel":   "SELECT id, zzboom(w) AS z FROM stream",
	"fnwhere": "SELECT id FROM stream WHERE zzboom(w) >= 0",
	"fnagg":   "SELECT COUNT(*) AS c, SUM(zzboom(w)) AS s, MAX(id) AS id FROM stream GROUP BY CountingWindow(1)",
	"fncep":   "SELECT * FROM stream MATCH_RECOGNIZE (ORDER BY ts MEASURES LAST(id) AS id PATTERN (A+ B) DEFINE A AS zzboom(w) >= 0 AND v > 0, B AS v <= 0)",
}

func init() {
	_ = functions.RegisterCustomFunction("zzboom", functions.TypeCustom, "verif", "panics for a negative number", 1, 1,
		func(ctx *functions.FunctionContext, args []interface{}) (interface{}, error) {
			switch x := args[0].(type) {
			case float64:
				if x < 0 {
					panic("zzboom")
				}
			case int:
				if x < 0 {
					panic("zzboom")
				}
			}
			return args[0], nil
		})
}

var c18ExoticKinds = []string{"direct", "join", "orderby", "batch", "cep", "cepopen", "groupfn"}

// c18ExoticValues: what a producer may legitimately put into a row map besides JSON-like values
func c18ExoticValues() []interface{} {
	var np *c18Stringer
	var nt *time.Time
	f32 := float32(0.1)
	return []interface{}{[]byte("ab"), np, nt, c18Stringer{"x"}, &c18Stringer{"y"}, time.Unix(1700000000, 0), "21.5°C", "",
		math.NaN(), math.Inf(1), uint64(1) << 63, &f32, struct{ A int }{1}, []int{1, 2}, map[string]int{"a": 1}, json.Number("7"), complex(1, 2), []interface{}{"p", 1},
		float64(-1)} // index 18: an ordinary number — the one the function of the fn* kinds panics for
}

// c18ExoticTwins: a second value of the same Go type for each entry of c18ExoticValues (two different keys of that type
// in one batch are compared by ORDER BY)
func c18ExoticTwins() []interface{} {
	var np *c18Stringer
	var nt *time.Time
	f32 := float32(0.2)
	return []interface{}{[]byte("cd"), np, nt, c18Stringer{"z"}, &c18Stringer{"w"}, time.Unix(1700000001, 0), "22.5°C", " ",
		math.NaN(), math.Inf(-1), uint64(1)<<63 + 2048, &f32, struct{ A int }{2}, []int{3}, map[string]int{"b": 2}, json.Number("8"), complex(2, 1), []interface{}{"q"},
		float64(-2)}
}

// c18exotic: one query, ordinary rows, rows carrying an exotic value in k / v / w, ordinary rows again, Stop.
func c18exotic(kind string, pick int) [][]string {
	var mu sync.Mutex
	var log [][]string
	add := func(l ...string) { mu.Lock(); log = append(log, l); mu.Unlock() }
	guard := func(name string, f func()) {
		defer func() {
			if x := recover(); x != nil {
				add("panicked", name)
			}
		}()
		f()
	}
	base := runtime.NumGoroutine()
	ssql := streamsql.New(presetOpt(), streamsql.WithDiscardLog())
	if err := ssql.Execute(c18ExoticSQL[kind]); err != nil {
		return [][]string{{"execute-error", hx(err.Error())}}
	}
	if kind == "join" {
		if _, err := ssql.RegisterTable("meta", nil); err != nil {
			return [][]string{{"register-error"}}
		}
		ssql.UpsertTable("meta", map[string]interface{}{"k": "a", "loc": "A"})
	}
	var seen sync.Map
	ssql.AddSyncSink(func(res []map[string]interface{}) {
		for _, r := range res {
			seen.Store(fmt.Sprint(r["id"]), true)
		}
	})
	ts := int64(0)
	row := func(id int, k, v, w interface{}) map[string]interface{} {
		ts++
		return map[string]interface{}{"id": id, "k": k, "v": v, "w": w, "ts": ts}
	}
	emit := func(r map[string]interface{}) { guard("emit", func() { ssql.Emit(r) }) }
	// ordinary rows (v: 1, 1, 0 closes a CEP match)
	emit(row(1, "a", 1, 1.5))
	emit(row(2, "a", 1, 2.5))
	emit(row(3, "a", 0, 0.5))
	vals, twins := c18ExoticValues(), c18ExoticTwins()
	x, x2 := vals[pick%len(vals)], twins[pick%len(vals)]
	y := x
	// the exotic value as the key / sort column (two different values of the type: ORDER BY compares them), then as a measured value
	emit(row(4, x, 1, 1.0))
	emit(row(5, x2, 0, 1.0)) // v = 0: a CEP match that began with the ordinary rows ends here; the next one sees exotic measures only
	emit(row(6, "a", 1, y))
	emit(row(7, "a", 1, y))
	emit(row(8, "a", 0, y))
	// ordinary rows again: they must be processed
	emit(row(101, "a", 1, 1.5))
	emit(row(102, "a", 1, 2.5))
	emit(row(103, "a", 0, 0.5))
	want := map[string][]string{"direct": {"101", "102", "103"}, "join": {"101", "102", "103"}, "orderby": {"101", "102", "103"},
		"batch": {"103"}, "cep": {"103"}, "groupfn": {"101", "102", "103"},
		"fnsel": {"101", "102", "103"}, "fnwhere": {"101", "102", "103"}, "fnagg": {"101", "102", "103"}, "fncep": {"103"}}[kind]
	deadline := time.Now().Add(3 * time.Second)
	missing := func() bool {
		for _, id := range want {
			if _, ok := seen.Load(id); !ok {
				return true
			}
		}
		return false
	}
	for missing() && time.Now().Before(deadline) {
		time.Sleep(2 * time.Millisecond)
	}
	if missing() {
		add("later-rows-lost", kind)
	}
	if kind == "join" {
		// a table write after the exotic lookups must return
		done := make(chan struct{})
		go func() {
			guard("upsert", func() { ssql.UpsertTable("meta", map[string]interface{}{"k": "b", "loc": "B"}) })
			close(done)
		}()
		select {
		case <-done:
		case <-time.After(3 * time.Second):
			add("table-write-blocked")
		}
	}
	if kind == "cepopen" {
		// an open match over exotic measured values is flushed by Stop
		emit(row(201, "a", 1, y))
		emit(row(202, "a", 1, y))
		time.Sleep(60 * time.Millisecond) // let the processor take them: the match must be open when Stop arrives
	}
	stopped := make(chan struct{})
	go func() { guard("stop", func() { ssql.Stop() }); close(stopped) }()
	select {
	case <-stopped:
	case <-time.After(20 * time.Second):
		add("stuck", "stop-never-returned")
		mu.Lock()
		defer mu.Unlock()
		return append([][]string{}, log...)
	}
	dl := time.Now().Add(2 * time.Second)
	for runtime.NumGoroutine() > base && time.Now().Before(dl) {
		time.Sleep(time.Millisecond)
	}
	if n := runtime.NumGoroutine() - base; n > 0 {
		add("goroutines-left", strconv.Itoa(n))
	}
	mu.Lock()
	defer mu.Unlock()
	return append([][]string{{"exotic-done", kind}}, log...)
}

// c18failExec: Execute returns an error; Stop must leave no goroutine of the half-built instance behind.
func c18failExec(c Case) [][]string {
	where := "a >"
	if v := c19cfgGet(c, "where"); len(v) > 0 {
		where = unhx(v[0])
	}
	base := runtime.NumGoroutine()
	ssql := streamsql.New(presetOpt(), streamsql.WithDiscardLog())
	head, tail := "SELECT id FROM stream", ""
	if v := c19cfgGet(c, "stmt"); len(v) > 0 && v[0] == "win" {
		head, tail = "SELECT k, count(*) AS c FROM stream", " GROUP BY k, TumblingWindow('1s') WITH (TIMESTAMP='ts', TIMEUNIT='ms')"
	}
	err := ssql.Execute(head + " WHERE " + where + tail)
	out := [][]string{{"execute", map[bool]string{true: "error", false: "ok"}[err != nil]}}
	if v := c19cfgGet(c, "retry"); len(v) > 0 && v[0] == "1" {
		err2 := ssql.Execute(head + tail)
		out = append(out, []string{"retry", map[bool]string{true: "error", false: "ok"}[err2 != nil]})
	}
	ssql.Stop()
	deadline := time.Now().Add(8 * time.Second)
	for runtime.NumGoroutine() > base && time.Now().Before(deadline) {
		time.Sleep(time.Millisecond)
	}
	if n := runtime.NumGoroutine() - base; n > 0 {
		out = append(out, []string{"goroutines-left", strconv.Itoa(n)})
	}
	return out
}

func (c18) Exec(c Case) [][][]string {
	if len(c.Ops) == 1 && c.Ops[0][0] == "failexec" {
		return [][][]string{c18failExec(c)}
	}
	if len(c.Ops) > 0 && c.Ops[0][0] == "exotic" {
		var out [][][]string
		for _, op := range c.Ops {
			pick, _ := strconv.Atoi(op[2])
			out = append(out, c18exotic(op[1], pick))
		}
		return out
	}
	if len(c.Ops) == 1 && len(c.Ops[0]) == 3 && c.Ops[0][0] == "free" {
		n, _ := strconv.Atoi(c.Ops[0][2])
		base0 := runtime.NumGoroutine()
		out, why := c18free(c, c.Ops[0][1], n, -1)
		if why == "" {
			return [][][]string{out}
		}
		// a failure seen free-running counts only if it shows three times with the same input (at most six rounds: what
		// depends on where Stop finds the goroutines does not show in every round)
		fails, clean := 1, [][]string(nil)
		for i := 0; i < 5 && fails < 3; i++ {
			o2, w2 := c18free(c, c.Ops[0][1], n, base0)
			if w2 == "" {
				clean = o2
				continue
			}
			fails++
			out = o2
		}
		if fails < 3 {
			return [][][]string{append([][]string{{"anomaly-unreproduced", why}}, clean...)}
		}
		return [][][]string{out}
	}
	perf := types.DefaultPerformanceConfig()
	perf.BufferConfig.DataChannelSize = 64
	perf.BufferConfig.ResultChannelSize = 4096
	perf.OverflowConfig.Strategy = "drop"
	if v := c19cfgGet(c, "strat"); len(v) > 0 {
		perf.OverflowConfig.Strategy = v[0]
	}
	perf.OverflowConfig.BlockTimeout = 0
	perf.BufferConfig.MaxBufferSize = 64
	perf.WorkerConfig.SinkPoolSize = c19cfgInt(c, "qcap", 1)
	perf.WorkerConfig.SinkWorkerCount = 1
	s := c19NewSched(c18Points, []string{"cons.recv"})
	s.watchStray = "rulego/streamsql/stream."
	r := &c18run{s: s, emitID: -1, th: map[string]*c19Thread{}, calls: c19cfgInt(c, "calls", 0), adds: c19cfgInt(c, "adds", 0)}
	for _, n := range c18Names {
		r.th[n] = s.thread(n)
	}
	s.adopt = func(point string) string {
		switch point {
		case "cons.recv":
			return "eng"
		case "sink.enter":
			return "w0"
		}
		return ""
	}
	r.ssql = streamsql.New(presetOpt(), streamsql.WithDiscardLog(), streamsql.WithCustomPerformance(perf))
	stream.VerifSetYield(s.yield)
	defer stream.VerifSetYield(nil)
	obs := make([][][]string, 0, len(c.Ops))
	fail := func(why string) [][][]string {
		s.freeAll()
		r.ssql.Stop()
		return append(obs, [][]string{{why}})
	}
	if err := r.ssql.Execute("SELECT id FROM stream"); err != nil {
		return fail("execute-error")
	}
	r.st = r.ssql.Stream()
	if !s.expect("eng") {
		return fail("stuck-start")
	}
	var mk func(kind string) func([]map[string]interface{})
	mk = func(kind string) func([]map[string]interface{}) {
		return func(res []map[string]interface{}) {
			s.yield("sink.enter")
			r.mu.Lock()
			for _, m := range res {
				r.seen = append(r.seen, c19asInt(m["id"]))
			}
			r.mu.Unlock()
			switch kind {
			case "panics":
				panic("sink panic (harness)")
			case "adds":
				r.ssql.AddSink(mk("plain"))
			}
		}
	}
	for _, k := range c19cfgGet(c, "async") {
		r.ssql.AddSink(mk(k))
	}
	for _, k := range c19cfgGet(c, "sync") {
		r.ssql.AddSyncSink(mk(k))
	}
	var wg sync.WaitGroup
	// guard runs one public API call; a panic that escapes is an observable
	guard := func(name string, f func()) {
		defer func() {
			if x := recover(); x != nil {
				r.mu.Lock()
				r.pans = append(r.pans, name)
				r.mu.Unlock()
			}
		}()
		f()
	}
	emits := 0
	for _, op := range c.Ops {
		if len(op) == 1 && op[0] == "emit" {
			emits++
		}
	}
	wg.Add(5)
	go func() { // e0: Emit caller (Emit can block behind Stop's pending write lock)
		defer wg.Done()
		s.bind("e0")
		for i := 0; i < emits; i++ {
			s.yield("emit.call")
			id := int(atomic.AddInt64(&r.nextID, 2) - 2)
			guard("e0", func() { r.ssql.Emit(map[string]interface{}{"id": id}) })
		}
		s.finish("e0")
	}()
	go func() { // c0: EmitSync caller
		defer wg.Done()
		s.bind("c0")
		for i := 0; i < r.calls; i++ {
			s.yield("sync.call")
			// the scheduler goroutine is waiting for this thread: nextID is stable here
			id := int(atomic.AddInt64(&r.nextID, 2) - 2)
			guard("c0", func() {
				if _, err := r.ssql.EmitSync(map[string]interface{}{"id": id}); err != nil {
					r.mu.Lock()
					r.refs = append(r.refs, id)
					r.mu.Unlock()
				}
			})
		}
		s.finish("c0")
	}()
	go func() { // a0: AddSink caller
		defer wg.Done()
		s.bind("a0")
		for i := 0; i < r.adds; i++ {
			s.yield("add.call")
			guard("a0", func() { r.ssql.AddSink(mk("plain")) })
		}
		s.finish("a0")
	}()
	for _, n := range []string{"s0", "s1"} {
		go func(n string) {
			defer wg.Done()
			s.bind(n)
			s.yield("stop.call")
			guard(n, func() { r.ssql.Stop() })
			s.finish(n)
		}(n)
	}
	if !s.expect("c0", "a0", "e0", "s0", "s1") {
		return fail("stuck-start")
	}
	for _, op := range c.Ops {
		obs = append(obs, r.op(op))
		if s.stuck {
			break
		}
	}
	// teardown
	s.freeAll()
	fin := make(chan struct{})
	go func() { wg.Wait(); close(fin) }()
	stopped := make(chan struct{})
	go func() { r.ssql.Stop(); close(stopped) }()
	select {
	case <-stopped:
	case <-time.After(12 * time.Second):
	}
	select {
	case <-fin:
	case <-time.After(3 * time.Second):
	}
	return obs
}
