package main

import (
	"math/rand"
	"strconv"
)

// C01 — tumbling windows: every accepted event exactly once, in its own window.
type c01 struct{}

func init() { registry["C01"] = c01{} }

func (c01) Count(tier string) int {
	if tier == "thorough" {
		return 4000
	}
	return 400
}

const tsBase = int64(1_000_000_000_000_000)        // 1e15 ns ≈ 11.6 days after the epoch
const farFuture = int64(7_258_118_400_000_000_000) // year 2200

// genWindowOps builds an event-time op sequence on the lattice k*unit + {0,1,unit-1} plus jitter.
func genWindowOps(rng *rand.Rand, c *Case, unit, ooo int64, allowLate bool, keys []string) {
	nextID := 1
	n := 8 + rng.Intn(30)
	front := int64(0) // largest lattice index used so far
	mkTs := func() int64 {
		var k int64
		switch rng.Intn(6) {
		case 0, 1, 2:
			front += int64(rng.Intn(3))
			k = front
		case 3: // around the out-of-orderness bound
			back := ooo/unit + int64(rng.Intn(3)) - 1
			k = front - back
		default:
			k = front - int64(rng.Intn(4))
		}
		if k < 0 {
			k = 0
		}
		var d int64
		switch rng.Intn(5) {
		case 0:
			d = 0
		case 1:
			d = 1 % unit
		case 2:
			d = unit - 1
		default:
			d = rng.Int63n(unit)
		}
		return tsBase + k*unit + d
	}
	key := func() string {
		if len(keys) == 0 {
			return ""
		}
		return keys[rng.Intn(len(keys))]
	}
	addOp := func(ts string) []string {
		op := []string{"add", strconv.Itoa(nextID), ts}
		if len(keys) > 0 {
			op = append(op, hx(key()))
		}
		nextID++
		return op
	}
	burst := rng.Intn(25) == 0
	for i := 0; i < n; i++ {
		switch r := rng.Intn(100); {
		case r < 62:
			tok := itoa(mkTs())
			if len(keys) == 0 {
				switch rng.Intn(16) { // timestamp field type variants (window/factory.go extractTimestamp)
				case 0:
					tok = "f" + tok
				case 1:
					tok = "s" + tok
				case 2:
					tok = "t" + tok
				case 3:
					tok = "h" + tok // float64 with fractional part .5: the integer part counts
				case 4:
					tok = "q" + tok // … .75
				}
			}
			c.Ops = append(c.Ops, addOp(tok))
		case r < 66:
			c.Ops = append(c.Ops, addOp("none"))
			c.Stat = append(c.Stat, "unplaceable-row")
		case r < 69:
			c.Ops = append(c.Ops, addOp(itoa(farFuture+int64(rng.Intn(1000)))))
			c.Stat = append(c.Stat, "far-future-row")
		case r < 73:
			c.Ops = append(c.Ops, []string{"tick"})
		case r < 90:
			op := []string{"deliver"}
			if rng.Intn(4) == 0 { // Add during the unlock gap of the first/second emission
				g := strconv.Itoa(rng.Intn(2)) + ":" + strconv.Itoa(nextID) + ":" + itoa(mkTs())
				if len(keys) > 0 {
					g += ":" + hx(key())
				}
				nextID++
				op = append(op, g)
				c.Stat = append(c.Stat, "gap-add")
			}
			c.Ops = append(c.Ops, op)
		default:
			c.Ops = append(c.Ops, []string{"drain"})
		}
		if burst && i == n/2 {
			c.Stat = append(c.Stat, "burst-150")
			for j := 0; j < 150; j++ {
				front++
				c.Ops = append(c.Ops, addOp(itoa(tsBase+front*unit+int64(rng.Intn(int(unit))))))
			}
		}
	}
	// closing flush: a far (but valid) timestamp pushes the watermark past every window, then drain
	c.Ops = append(c.Ops, addOp(itoa(tsBase+(front+50)*unit+ooo)))
	c.Ops = append(c.Ops, []string{"drain"}, []string{"tick"}, []string{"drain"})
}

func (p c01) Gen(rng *rand.Rand, tier string, idx int) Case {
	return maybeReset(rng, p.gen0(rng, tier, idx))
}

func (c01) gen0(rng *rand.Rand, tier string, idx int) Case {
	var c Case
	sizes := []int64{10, 1000, 7, 1, 3_600_000_000_000}
	size := sizes[rng.Intn(len(sizes))]
	oooChoices := []int64{0, size / 2, size, 2*size + 1, 5 * size}
	ooo := oooChoices[rng.Intn(len(oooChoices))]
	if idx%12 == 11 {
		// SQL-level stage: whole pipeline through the public API
		szs := []int64{1000, 500, 60000, 1500, 90000} // 1500 ms = '1.5s', 90000 ms = '1m30s' in Go's spelling
		sz := szs[rng.Intn(len(szs))]
		o := []int64{0, sz / 2, sz, 2*sz + 1}[rng.Intn(4)]
		c.Cfg = [][]string{{"kind", "sqltumbling"}, {"size", itoa(sz)}, {"ooo", itoa(o)}, {"late", "0"}, {"now", "0"}, {"spell", []string{"ms", "go"}[rng.Intn(2)]}}
		genSQLWindow(rng, &c, sz, o)
		maybeWinAPI(rng, &c)
		return c
	}
	if idx%12 == 10 {
		// IDLETIMEOUT: idle and busy ticker updates between the rows (forced, natural, live timestamps)
		return idleCase(rng, "tumbling")
	}
	if idx%12 == 9 {
		// ALLOWEDLATENESS > 0: fired intervals stay open for late rows and are purged when the allowance ends; the rows
		// of the pending intervals (boundary timestamps among them) must survive the purge
		late := []int64{1, size / 2, size, 3 * size}[rng.Intn(4)]
		if late == 0 {
			late = 1
		}
		c.Cfg = [][]string{{"kind", "tumbling"}, {"mode", "et"}, {"size", itoa(size)}, {"ooo", itoa(ooo)}, {"late", itoa(late)}, {"now", "0"}}
		genLateOps(rng, &c, size, ooo, late)
		bigEpoch(rng, &c)
		c.Stat = append(c.Stat, "event-time", "lateness>0")
		return c
	}
	if rng.Intn(6) == 0 {
		// processing time: explicit timestamps through TsProp, Trigger() as the timer
		c.Cfg = [][]string{{"kind", "tumbling"}, {"mode", "pt"}, {"size", itoa(size)}, {"ooo", "0"}, {"late", "0"}, {"now", "0"}}
		t := tsBase + rng.Int63n(size)
		id := 1
		c.Ops = append(c.Ops, []string{"add", strconv.Itoa(id), itoa(t)})
		first := t
		k := int64(0)
		for i := 0; i < 10+rng.Intn(20); i++ {
			if rng.Intn(3) == 0 {
				// the k-th tick happens at or after first + k*size
				k++
				if t < first+k*size {
					t = first + k*size
				}
				op := []string{"pttick"}
				if rng.Intn(3) == 0 { // an Add during the hand-off of the fired window (inside the callback)
					id++
					op = append(op, "0:"+strconv.Itoa(id)+":"+itoa(t))
					c.Stat = append(c.Stat, "pt-gap-add")
				}
				c.Ops = append(c.Ops, op)
			} else {
				id++
				t += rng.Int63n(size/2 + 1)
				c.Ops = append(c.Ops, []string{"add", strconv.Itoa(id), itoa(t)})
			}
		}
		for j := 0; j < 3; j++ {
			c.Ops = append(c.Ops, []string{"pttick"})
		}
		c.Stat = append(c.Stat, "processing-time")
		return c
	}
	c.Cfg = [][]string{{"kind", "tumbling"}, {"mode", "et"}, {"size", itoa(size)}, {"ooo", itoa(ooo)}, {"late", "0"}, {"now", "0"}}
	genWindowOps(rng, &c, size, ooo, false, nil)
	bigEpoch(rng, &c)
	c.Stat = append(c.Stat, "event-time")
	return c
}

func (c01) Exec(c Case) [][][]string {
	if isSQLWindowCase(c) {
		return execSQLWindow(c)
	}
	return execWindow(c)
}
