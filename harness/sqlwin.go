package main

import (
	"fmt"
	"math/rand"
	"sort"
	"strconv"
	"strings"
	"sync"
	"time"

	"github.com/rulego/streamsql"
	"github.com/rulego/streamsql/types"
	"github.com/rulego/streamsql/window"
)

// SQL-level stage of the event-time window properties (C01, C08, C10): the whole pipeline
// Emit → window goroutines → per-batch aggregation → window_id stamping → sync sink, through
// the public API. The real goroutines run free; a sentinel row (last but one) and a pusher row
// (last) make the end of the run observable without sleeping: results are delivered in order,
// so once the sentinel's window arrives every earlier window has been delivered.
// Observables (at the closing `flush` op): one line per result row in delivery order,
//   res <window_start ns> <window_end ns> <key hex> <count(*)> <sum(id)> <window_id ok t|f> b<batch number> <ids in collect() order…>
// The driver evaluates the declarative oracle on them (no model trace is compared here: which
// late rows are still accepted depends on the free-running schedule; the oracle allows both).

// sqlDur spells a duration of ms milliseconds: `1500ms`, or (cfg `spell go`) the way Go prints it — `1.5s`, `1m30s`, `500ms`
func sqlDur(c Case, ms int64) string {
	if cfgStr(c, "spell", "ms") == "go" {
		return (time.Duration(ms) * time.Millisecond).String()
	}
	return fmt.Sprintf("%dms", ms)
}

func sqlWindowClause(c Case) string {
	switch cfgStr(c, "kind", "") {
	case "sqltumbling":
		return fmt.Sprintf("TumblingWindow('%s')", sqlDur(c, cfgInt(c, "size", 1000)))
	case "sqlsliding":
		return fmt.Sprintf("SlidingWindow('%s','%s')", sqlDur(c, cfgInt(c, "size", 1000)), sqlDur(c, cfgInt(c, "slide", 500)))
	case "sqlsession":
		return fmt.Sprintf("SessionWindow('%s')", sqlDur(c, cfgInt(c, "timeout", 1000)))
	}
	return ""
}

// execWinAPIOnce (cfg `winapi 1`): the same rows, sentinel and observables, but through the window package's own API —
// NewTumblingWindow / NewSlidingWindow / NewSessionWindow, SetCallback, Start, Add — with the window's real goroutine; with
// cfg `reuse 1` the window object is first started, Reset() and started again (a window that has been reset is as new).
// A delivered batch is split by key (sessions hold one key; time windows hold all keys of the interval).
func execWinAPIOnce(c Case) ([][]string, bool) {
	ms := time.Millisecond
	wc := types.WindowConfig{TsProp: "ts", TimeUnit: ms, TimeCharacteristic: types.EventTime,
		MaxOutOfOrderness: time.Duration(cfgInt(c, "ooo", 0)) * ms, AllowedLateness: time.Duration(cfgInt(c, "late", 0)) * ms}
	var w window.Window
	var err error
	sentinelWant := 1
	switch cfgStr(c, "kind", "") {
	case "sqlsession":
		wc.Type, wc.Params, wc.GroupByKeys = window.TypeSession, []any{time.Duration(cfgInt(c, "timeout", 1000)) * ms}, []string{"k"}
		w, err = window.NewSessionWindow(wc)
	case "sqltumbling":
		wc.Type, wc.Params = window.TypeTumbling, []any{time.Duration(cfgInt(c, "size", 1000)) * ms}
		w, err = window.NewTumblingWindow(wc)
	default:
		size, slide := cfgInt(c, "size", 1000), cfgInt(c, "slide", 500)
		wc.Type, wc.Params = window.TypeSliding, []any{time.Duration(size) * ms, time.Duration(slide) * ms}
		sentinelWant = int((size + slide - 1) / slide)
		w, err = window.NewSlidingWindow(wc)
	}
	if err != nil {
		return [][]string{{"error", hx(err.Error())}}, true
	}
	defer w.Stop()
	var mu sync.Mutex
	var lines [][]string
	batchNo := 0
	sentinel := ""
	sentinelSeen := 0
	seen := make(chan struct{}, 1)
	w.SetCallback(func(rows []types.Row) {
		if len(rows) == 0 || rows[0].Slot == nil {
			return
		}
		mu.Lock()
		defer mu.Unlock()
		batchNo++
		var keys []string
		byKey := map[string][]int64{}
		for _, r := range rows {
			if m, ok := r.Data.(map[string]interface{}); ok {
				k := fmt.Sprint(m["k"])
				if _, ok := byKey[k]; !ok {
					keys = append(keys, k)
				}
				id, _ := toI64(m["id"])
				byKey[k] = append(byKey[k], id)
			}
		}
		sort.Strings(keys)
		for _, k := range keys {
			var sum int64
			for _, id := range byKey[k] {
				sum += id
			}
			line := []string{"res", itoa(rows[0].Slot.Start.UnixNano()), itoa(rows[0].Slot.End.UnixNano()), hx(k), strconv.Itoa(len(byKey[k])), itoa(sum), "t", "b" + strconv.Itoa(batchNo)}
			for _, id := range byKey[k] {
				line = append(line, itoa(id))
				if itoa(id) == sentinel {
					sentinelSeen++
					if sentinelSeen == sentinelWant {
						select {
						case seen <- struct{}{}:
						default:
						}
					}
				}
			}
			lines = append(lines, line)
		}
	})
	go func() { // nobody reads the output channel in this set-up; keep it from filling
		for range w.OutputChan() {
		}
	}()
	w.Start()
	if cfgInt(c, "reuse", 0) == 1 {
		w.Reset()
		w.Start()
	}
	var rowOps [][]string
	for _, op := range c.Ops {
		if op[0] == "row" {
			rowOps = append(rowOps, op)
		}
	}
	if len(rowOps) >= 2 {
		mu.Lock()
		sentinel = rowOps[len(rowOps)-2][1]
		mu.Unlock()
	}
	for _, op := range c.Ops {
		if op[0] != "row" && op[0] != "late" {
			continue
		}
		id, _ := strconv.ParseInt(op[1], 10, 64)
		r := map[string]interface{}{"id": id, "k": unhx(op[3])}
		if op[2] != "none" {
			t, _ := strconv.ParseInt(op[2], 10, 64)
			r["ts"] = t
		}
		w.Add(r)
	}
	ok := true
	select {
	case <-seen:
	case <-time.After(3 * time.Second):
		ok = false
	}
	mu.Lock()
	defer mu.Unlock()
	out := append([][]string(nil), lines...)
	if !ok {
		out = append(out, []string{"sentinel-lost"})
	}
	return out, ok
}

func execSQLWindowOnce(c Case) ([][]string, bool) {
	if cfgInt(c, "winapi", 0) == 1 {
		return execWinAPIOnce(c)
	}
	sql := "SELECT k, count(*) AS c, sum(id) AS s, collect(id) AS ids, window_start() AS ws, window_end() AS we FROM stream GROUP BY k, " +
		sqlWindowClause(c) + fmt.Sprintf(" WITH (TIMESTAMP='ts', TIMEUNIT='ms', MAXOUTOFORDERNESS='%s'", sqlDur(c, cfgInt(c, "ooo", 0)))
	if l := cfgInt(c, "late", 0); l > 0 {
		sql += fmt.Sprintf(", ALLOWEDLATENESS='%s'", sqlDur(c, l))
	}
	sql += ")"
	s := streamsql.New(presetOpt(), streamsql.WithDiscardLog())
	defer s.Stop()
	if err := s.Execute(sql); err != nil {
		return [][]string{{"error", hx(err.Error())}}, true
	}
	var mu sync.Mutex
	var lines [][]string
	batchNo := 0
	sentinel := ""
	// the sentinel sits on a slide-aligned instant: it is delivered once per covering window,
	// ceil(size/slide) times for a sliding window; the run is complete after the last of them
	sentinelSeen, sentinelWant := 0, 1
	if cfgStr(c, "kind", "") == "sqlsliding" {
		size, slide := cfgInt(c, "size", 1000), cfgInt(c, "slide", 500)
		sentinelWant = int((size + slide - 1) / slide)
	}
	seen := make(chan struct{}, 1)
	s.AddSyncSink(func(batch []map[string]interface{}) {
		rows := append([]map[string]interface{}(nil), batch...)
		sort.SliceStable(rows, func(i, j int) bool { return fmt.Sprint(rows[i]["k"]) < fmt.Sprint(rows[j]["k"]) })
		mu.Lock()
		defer mu.Unlock()
		batchNo++ // one sink call = one delivered batch (all groups of one window firing)
		for _, r := range rows {
			ws, _ := toI64(r["ws"])
			we, _ := toI64(r["we"])
			cnt, _ := toI64(r["c"])
			sum, _ := toI64(r["s"])
			line := []string{"res", itoa(ws), itoa(we), hx(fmt.Sprint(r["k"])), itoa(cnt), itoa(sum),
				btok(fmt.Sprint(r["window_id"]) == fmt.Sprintf("%d_%d", ws, we)), "b" + strconv.Itoa(batchNo)}
			if ids, ok := r["ids"].([]interface{}); ok {
				for _, x := range ids {
					id := fmt.Sprint(x)
					line = append(line, id)
					if id == sentinel {
						sentinelSeen++
						if sentinelSeen == sentinelWant {
							select {
							case seen <- struct{}{}:
							default:
							}
						}
					}
				}
			}
			lines = append(lines, line)
		}
	})
	// the sentinel is the last but one row
	var rowOps [][]string
	for _, op := range c.Ops {
		if op[0] == "row" {
			rowOps = append(rowOps, op)
		}
	}
	if len(rowOps) >= 2 {
		mu.Lock()
		sentinel = rowOps[len(rowOps)-2][1]
		mu.Unlock()
	}
	awaitOK := true
	for _, op := range c.Ops {
		if op[0] == "await" {
			// wait (no sleeping on a guess: poll the delivered lines) until a result holding row <id> has reached the sink
			deadline := time.Now().Add(3 * time.Second)
			for {
				mu.Lock()
				found := false
				for _, l := range lines {
					for _, x := range l[8:] {
						if x == op[1] {
							found = true
						}
					}
				}
				mu.Unlock()
				if found {
					break
				}
				if time.Now().After(deadline) {
					awaitOK = false
					break
				}
				time.Sleep(200 * time.Microsecond)
			}
			continue
		}
		if op[0] != "row" && op[0] != "late" { // `late`: a row like any other; the name tells the oracle that its session has been delivered
			continue
		}
		id, _ := strconv.ParseInt(op[1], 10, 64)
		r := map[string]interface{}{"id": id, "k": unhx(op[3])}
		if op[2] != "none" {
			t, _ := strconv.ParseInt(op[2], 10, 64)
			r["ts"] = t
		}
		s.Emit(r)
	}
	ok := true
	select {
	case <-seen:
	case <-time.After(3 * time.Second):
		ok = false
	}
	mu.Lock()
	defer mu.Unlock()
	out := append([][]string(nil), lines...)
	if !ok {
		out = append(out, []string{"sentinel-lost"})
	}
	if !awaitOK {
		out = append(out, []string{"await-timeout"})
		ok = false
	}
	return out, ok
}

func toI64(v interface{}) (int64, bool) {
	switch x := v.(type) {
	case int:
		return int64(x), true
	case int64:
		return x, true
	case float64:
		return int64(x), true
	case uint64:
		return int64(x), true
	}
	return 0, false
}

// execSQLWindow: ops `row <id> <ts ms|none> <key hex>` … `flush`. A run that loses its sentinel
// (scheduler hiccup under load) is repeated up to twice; only a persistent loss is reported.
func execSQLWindow(c Case) [][][]string {
	var res [][]string
	for attempt := 0; attempt < 3; attempt++ {
		var ok bool
		res, ok = execSQLWindowOnce(c)
		if ok {
			break
		}
	}
	var out [][][]string
	for _, op := range c.Ops {
		if op[0] == "flush" {
			out = append(out, res)
		} else {
			out = append(out, nil)
		}
	}
	return out
}

// genSQLWindow: timestamps in ms on the lattice k*unit + {0,1,unit-1} + jitter, keys a/b/c,
// out-of-order inside and outside the tolerance, rows without timestamp, a far-future row.
func genSQLWindow(rng *rand.Rand, c *Case, unit, ooo int64) {
	base := int64(1_000_000_000) // ms
	keys := []string{"a", "b", "c"}[:1+rng.Intn(3)]
	n := 8 + rng.Intn(25)
	front := int64(0)
	id := 1
	for i := 0; i < n; i++ {
		var k int64
		switch rng.Intn(6) {
		case 0, 1, 2:
			front += int64(rng.Intn(3))
			k = front
		case 3:
			k = front - (ooo/unit + int64(rng.Intn(3)) - 1)
		default:
			k = front - int64(rng.Intn(4))
		}
		if k < 0 {
			k = 0
		}
		var d int64
		switch rng.Intn(4) {
		case 0:
			d = 0
		case 1:
			d = unit - 1
		default:
			d = rng.Int63n(unit)
		}
		ts := itoa(base + k*unit + d)
		switch rng.Intn(40) {
		case 0:
			ts = "none"
			c.Stat = append(c.Stat, "sql-unplaceable-row")
		case 1:
			ts = itoa(7_258_118_400_000 + int64(rng.Intn(1000))) // year 2200 in ms
			c.Stat = append(c.Stat, "sql-far-future-row")
		}
		c.Ops = append(c.Ops, []string{"row", strconv.Itoa(id), ts, hx(keys[rng.Intn(len(keys))])})
		id++
	}
	// sentinel, then pusher
	// the sentinel sits on a window start (for slide > size not every instant is inside a window)
	st := base + (front+40)*unit
	st -= st % unit
	c.Ops = append(c.Ops, []string{"row", strconv.Itoa(id), itoa(st), hx("zz")})
	c.Ops = append(c.Ops, []string{"row", strconv.Itoa(id + 1), itoa(st + 40*unit + ooo), hx("zz")})
	c.Ops = append(c.Ops, []string{"flush"})
	c.Stat = append(c.Stat, "sql-level", "sql-keys="+strconv.Itoa(len(keys)))
}

func isSQLWindowCase(c Case) bool { return strings.HasPrefix(cfgStr(c, "kind", ""), "sql") }

// maybeWinAPI: a third of the free-running cases go through the window package's own API; half of those on a window
// object that was started, Reset() and started again
func maybeWinAPI(rng *rand.Rand, c *Case) {
	for _, op := range c.Ops {
		if op[0] == "await" || op[0] == "late" {
			return
		}
	}
	if rng.Intn(3) != 0 {
		return
	}
	c.Cfg = append(c.Cfg, []string{"winapi", "1"})
	c.Stat = append(c.Stat, "window-api")
	if rng.Intn(2) == 0 {
		c.Cfg = append(c.Cfg, []string{"reuse", "1"})
		c.Stat = append(c.Stat, "window-reset-then-started-again")
	}
}
