package main

import (
	"fmt"
	"math/rand"
	"runtime"
	"strconv"
	"strings"
	"time"

	"github.com/rulego/streamsql"
	"github.com/rulego/streamsql/types"
	"github.com/rulego/streamsql/window"
)

// C09 — counting windows: per key, consecutive batches of exactly N rows.
//
// modes (cfg mode):
//
//	win — the real CountingWindow with its goroutine (Start): ops `row <id> v…`, `reap`, `flush`;
//	      `flush` reports the batches delivered on OutputChan since the previous flush, in delivery order
//	sql — SELECT …, count(*), collect(id), first_value(id), last_value(id) … GROUP BY …, CountingWindow(N):
//	      ops `row …`, final `flush` reports the sink deliveries in order
//
// Key value tokens as in C04.
type c09 struct{}

func init() { registry["C09"] = c09{} }

func (c09) Count(tier string) int {
	if tier == "thorough" {
		return 4000
	}
	return 240
}

func (c09) Gen(rng *rand.Rand, tier string, idx int) Case {
	var c Case
	mode := []string{"win", "win", "sql"}[idx%3]
	n := []int{1, 2, 3, 7, 2, 3}[rng.Intn(6)]
	arity := []int{0, 1, 1, 2, 2, 3}[rng.Intn(6)]
	c.Cfg = append(c.Cfg, []string{"mode", mode}, []string{"arity", strconv.Itoa(arity)}, []string{"n", strconv.Itoa(n)})
	// 1–5 keys; the pool is C04's collision-prone one (shifted / NULL siblings)
	pool := c04TuplePool(rng, arity, 1+rng.Intn(3))
	if len(pool) > 5 {
		rng.Shuffle(len(pool), func(i, j int) { pool[i], pool[j] = pool[j], pool[i] })
		pool = pool[:5]
	}
	// per key: q·N + r rows, r = 0 (exact multiple) in about a third of the draws
	var seq []int
	for k := range pool {
		cnt := rng.Intn(3)*n + rng.Intn(n)
		if rng.Intn(3) == 0 {
			cnt = (1 + rng.Intn(3)) * n
		}
		if cnt > 24 {
			cnt = 24
		}
		for i := 0; i < cnt; i++ {
			seq = append(seq, k)
		}
	}
	switch rng.Intn(3) {
	case 0: // fully interleaved
		rng.Shuffle(len(seq), func(i, j int) { seq[i], seq[j] = seq[j], seq[i] })
	case 1: // blocks of one key, lightly perturbed
		for i := 0; i+1 < len(seq); i++ {
			if rng.Intn(4) == 0 {
				j := rng.Intn(len(seq))
				seq[i], seq[j] = seq[j], seq[i]
			}
		}
	}
	if mode == "sql" && rng.Intn(3) == 0 && len(seq) > 2 {
		// HAVING on last_value(id): the early chunks of every key are rejected, the later ones pass —
		// a rejected chunk must leave nothing behind for the next one
		c.Cfg = append(c.Cfg, []string{"having", strconv.Itoa(len(seq)/2 + 1)})
		c.Stat = append(c.Stat, "sql-having")
	}
	reaps, mgmt := 0, 0
	for i, k := range seq {
		c.Ops = append(c.Ops, append([]string{"row", strconv.Itoa(i + 1)}, pool[k]...))
		if idx%4 >= 2 && rng.Intn(6) == 0 {
			// management calls that must not touch the waiting rows: Stream().GetStats/ResetStats, TriggerWindow
			c.Ops = append(c.Ops, []string{[]string{"stats", "trig"}[rng.Intn(2)]})
			mgmt++
		}
		if mode == "win" {
			switch r := rng.Intn(40); {
			case r == 0 && idx%2 == 1:
				c.Ops = append(c.Ops, []string{"reap"})
				reaps++
			case r < 4:
				c.Ops = append(c.Ops, []string{"flush"})
			}
		}
	}
	c.Ops = append(c.Ops, []string{"flush"})
	c.Stat = append(c.Stat, "mode-"+mode, fmt.Sprintf("N-%d", n), fmt.Sprintf("keys-%d", len(pool)), fmt.Sprintf("arity-%d", arity))
	if reaps > 0 {
		c.Stat = append(c.Stat, "with-reap")
	}
	if mgmt > 0 {
		c.Stat = append(c.Stat, "with-management-calls")
	}
	return c
}

// ---- win mode -----------------------------------------------------------------------------------

type c09win struct {
	cw       *window.CountingWindow
	expected int // rows the goroutine must have accounted for (buffered + emitted) at quiescence
	emitted  int
	pending  [][]string // batches received since the last flush
}

func (w *c09win) drain() {
	for {
		select {
		case b := <-w.cw.OutputChan():
			l := []string{"e"}
			for _, r := range b {
				m, _ := r.Data.(map[string]interface{})
				l = append(l, fmt.Sprint(m["id"]))
			}
			w.emitted += len(b)
			w.pending = append(w.pending, l)
		default:
			return
		}
	}
}

// barrier waits until the window goroutine has processed every row handed to Add: a row is either in a
// per-key buffer or in a batch received from OutputChan. The condition is exact and monotone; no result
// is derived from how long it took.
func (w *c09win) barrier() bool {
	deadline := time.Now().Add(c04BarrierDeadline())
	for {
		w.drain()
		if window.VerifCountingBuffered(w.cw)+w.emitted == w.expected {
			w.drain()
			if window.VerifCountingBuffered(w.cw)+w.emitted == w.expected {
				return true
			}
		}
		if time.Now().After(deadline) {
			c04BarrierFailed = true
			return false
		}
		runtime.Gosched()
		time.Sleep(20 * time.Microsecond)
	}
}

// c09Fields / c09Row: with cfg `nest 1` every GROUP BY column is the dotted path o.g<i> into a nested map
// (the shape a joined table column has in an enriched row); otherwise the top-level field g<i>.
func c09Fields(arity int, nest bool) []string {
	f := c04GroupFields(arity)
	if nest {
		for i := range f {
			f[i] = "o." + f[i]
		}
	}
	return f
}

func c09Row(id int, toks []string, nest bool) map[string]interface{} {
	row := c04Row(id, toks)
	if !nest {
		return row
	}
	inner := map[string]interface{}{}
	for k, v := range row {
		if k != "id" {
			inner[k] = v
			delete(row, k)
		}
	}
	row["o"] = inner
	return row
}

func c09Win(c Case, arity, n int) [][][]string {
	nest := c04CfgVal(c, "nest", "0") == "1"
	cw, err := window.NewCountingWindow(types.WindowConfig{Params: []interface{}{n}, GroupByKeys: c09Fields(arity, nest)})
	if err != nil {
		return [][][]string{{{"ctor-error", hx(err.Error())}}}
	}
	cw.Start()
	defer cw.Stop()
	w := &c09win{cw: cw}
	var out [][][]string
	for _, op := range c.Ops {
		switch op[0] {
		case "row":
			id, _ := strconv.Atoi(op[1])
			cw.Add(c09Row(id, op[2:], nest))
			w.expected++
			out = append(out, nil)
		case "reap":
			if !w.barrier() {
				out = append(out, [][]string{{"barrier-timeout"}})
				continue
			}
			before := window.VerifCountingBuffered(cw)
			window.VerifCountingReap(cw, time.Now().Add(time.Hour))
			w.expected -= before - window.VerifCountingBuffered(cw)
			out = append(out, nil)
		case "flush":
			if !w.barrier() {
				out = append(out, [][]string{{"barrier-timeout"}})
				continue
			}
			out = append(out, w.pending)
			w.pending = nil
		case "stats", "trig":
			// the window-level management calls: GetStats / ResetStats, Trigger
			if op[0] == "stats" {
				cw.GetStats()
			} else {
				cw.Trigger()
			}
			out = append(out, nil)
		default:
			out = append(out, [][]string{{"bad-op"}})
		}
	}
	return out
}

// ---- sql mode -----------------------------------------------------------------------------------

func c09SQL(c Case, arity, n int) [][][]string {
	nest := c04CfgVal(c, "nest", "0") == "1"
	gf := c09Fields(arity, nest)
	sel := append(append([]string(nil), gf...), "count(*) AS c", "collect(id) AS ids", "first_value(id) AS f", "last_value(id) AS l")
	sql := "SELECT " + strings.Join(sel, ", ") + " FROM stream GROUP BY " + strings.Join(append(append([]string(nil), gf...), fmt.Sprintf("CountingWindow(%d)", n)), ", ")
	having := c04CfgVal(c, "having", "")
	if having != "" {
		sql += " HAVING l >= " + having + " OR l < 0" // the sentinel rows (negative ids) always pass
	}
	s := streamsql.New(presetOpt(), streamsql.WithDiscardLog())
	defer s.Stop()
	if err := s.Execute(sql); err != nil {
		return [][][]string{{{"exec-error", hx(err.Error())}}}
	}
	ch := make(chan []map[string]interface{}, 4096)
	s.AddSyncSink(func(r []map[string]interface{}) {
		cp := make([]map[string]interface{}, len(r))
		copy(cp, r)
		ch <- cp
	})
	var out [][][]string
	for _, op := range c.Ops {
		switch op[0] {
		case "row":
			id, _ := strconv.Atoi(op[1])
			s.Emit(c09Row(id, op[2:], nest))
			out = append(out, nil)
		case "stats":
			time.Sleep(3 * time.Millisecond) // let the rows emitted so far reach the window (no result depends on it)
			s.Stream().GetStats()
			s.Stream().ResetStats()
			out = append(out, nil)
		case "trig":
			s.TriggerWindow()
			out = append(out, nil)
		case "flush":
			// sentinel rows (ids -1…-n, own key tuple): FIFO all the way to the synchronous sink
			for i := 1; i <= n; i++ {
				st := make([]string, arity)
				for j := range st {
					st[j] = c04ValTok("~sentinel~", true)
				}
				s.Emit(c09Row(-i, st, nest))
			}
			var lines [][]string
			d := 0
			deadline := time.After(c04BarrierDeadline())
		wait:
			for {
				select {
				case b := <-ch:
					done := false
					var ls [][]string
					for _, r := range b {
						if c04HasSentinel(r) {
							done = true
						}
						if !c04HasNegativeID(r) {
							l := append([]string{"d", strconv.Itoa(d)}, c04ResultLine(r, gf)...)
							l = append(l, "f", fmt.Sprint(r["f"]), "l", fmt.Sprint(r["l"]))
							ls = append(ls, l)
						}
					}
					if len(ls) > 0 {
						lines = append(lines, c04SortLines(ls)...)
						d++
					}
					if done {
						break wait
					}
				case <-deadline:
					c04BarrierFailed = true
					lines = append(lines, []string{"sentinel-lost"})
					break wait
				}
			}
			out = append(out, lines)
		default:
			out = append(out, [][]string{{"bad-op"}})
		}
	}
	return out
}

func (c09) Exec(c Case) [][][]string {
	arity, _ := strconv.Atoi(c04CfgVal(c, "arity", "0"))
	n, _ := strconv.Atoi(c04CfgVal(c, "n", "1"))
	if c04CfgVal(c, "mode", "win") == "sql" {
		return c09SQL(c, arity, n)
	}
	return c09Win(c, arity, n)
}
