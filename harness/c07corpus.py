#!/usr/bin/env python3
"""Writes the hand-made C07 corpus witnesses (corpus/C07/*.ops) from readable descriptions.
Expressions are s-expressions:  (agg avg (col t))  (lit 1.8)  (bin add X Y)  (ref alias);
arguments: (col a) (star) (lit 2) (bin mul A B); predicates: (cmp gt X Y) (and P Q) (or P Q).
Run from /verif:  python3 harness/c07corpus.py"""
import struct, binascii, os

def hx(s): return binascii.hexlify(s.encode()).decode() if s else "-"
def fb(x): return "f:" + binascii.hexlify(struct.pack(">d", float(x))).decode()

def toks(e):
    k = e[0]
    if k == "agg": return ["agg", e[1]] + toks(e[2])
    if k == "col": return ["col", hx(e[1])]
    if k == "star": return ["star"]
    if k == "lit": return ["lit", fb(e[1])]
    if k == "ref": return ["ref", hx(e[1])]
    if k in ("bin", "cmp"): return [k, e[1]] + toks(e[2]) + toks(e[3])
    if k in ("and", "or"): return [k] + toks(e[1]) + toks(e[2])
    raise ValueError(k)

def rows(rs):
    out = []
    for d, a, b, t in rs:
        out += ["s:" + hx(d), fb(a), fb(b), fb(t)]
    return out

def case(name, idx, sql, mode, items, batches, having=None, order=(), limit=None, distinct=False, sentinel=None):
    L = [f"case C07 0 {idx}", "cfg sql " + hx(sql), "cfg mode " + mode, "cfg gcol " + hx("d"),
         "cfg cols " + " ".join(hx(c) for c in "abt")]
    for alias, e in items:
        L.append("cfg item " + hx(alias) + " " + " ".join(toks(e)))
    if having: L.append("cfg having " + " ".join(toks(having)))
    for col, d in order: L.append(f"cfg order {hx(col)} {d}")
    if limit is not None: L.append(f"cfg limit {limit}")
    L.append("cfg distinct " + ("t" if distinct else "f"))
    for b in batches:
        op = ["op", "batch", str(len(b))] + rows(b)
        if sentinel: op += ["sent", str(len(sentinel))] + rows(sentinel)
        L.append(" ".join(op))
    L.append("end")
    path = os.path.join(os.path.dirname(os.path.abspath(__file__)), "..", "corpus", "C07", name + ".ops")
    open(path, "w").write("\n".join(L) + "\n")

S = lambda n: [("~s", 1000, 1000, 1000)] * n

# O1 (DESIGN §5 C07): a compound item led by its only aggregate call was filed as an `expression`
# aggregate and reported the last row's value (122) instead of 1.8*avg+32 (86)
case("avg-times-literal", 0,
     "SELECT d, AVG(t) * 1.8 + 32 AS f FROM stream GROUP BY d, CountingWindow(3)", "e2e",
     [("f", ("bin", "add", ("bin", "mul", ("agg", "avg", ("col", "t")), ("lit", 1.8)), ("lit", 32)))],
     [[("x", 1, 1, 10), ("x", 1, 1, 30), ("x", 1, 1, 50)]], sentinel=S(3))

# O2: HAVING followed by ORDER BY: the ORDER BY text became part of the predicate, which then did
# not compile, and the batch was delivered unfiltered
case("having-then-order-by", 1,
     "SELECT d, AVG(t) AS av FROM stream GROUP BY d, CountingWindow(4) HAVING SUM(a) > 16 ORDER BY av DESC LIMIT 1", "direct",
     [("av", ("agg", "avg", ("col", "t")))],
     [[("x", 10, 1, 10), ("y", 1, 1, 30), ("x", 10, 1, 50), ("y", 2, 1, 70)]],
     having=("cmp", "gt", ("agg", "sum", ("col", "a")), ("lit", 16)), order=[("av", "d")], limit=1)

# found by the generated cases: an aggregate over an expression argument inside a compound item
# was never fed (the aggregator looked up a column literally named "a + 1") and the item was NULL
case("compound-agg-over-expression", 2,
     "SELECT d, SUM(a + 1) * 2 AS y FROM stream GROUP BY d, CountingWindow(3)", "direct",
     [("y", ("bin", "mul", ("agg", "sum", ("bin", "add", ("col", "a"), ("lit", 1))), ("lit", 2)))],
     [[("x", 1, 1, 10), ("y", 5, 1, 30), ("x", 3, 1, 50)]])

# found by the generated cases: an unselected HAVING aggregate over an expression argument was
# computed over the expression's first column only (SUM(a) instead of SUM(a * t))
case("having-agg-over-expression", 3,
     "SELECT d, SUM(a) AS s FROM stream GROUP BY d, CountingWindow(3) HAVING SUM(a * t) > 100", "direct",
     [("s", ("agg", "sum", ("col", "a")))],
     [[("x", 1, 1, 10), ("y", 5, 1, 30), ("x", 3, 1, 50)]],
     having=("cmp", "gt", ("agg", "sum", ("bin", "mul", ("col", "a"), ("col", "t"))), ("lit", 100)))

# found by the generated cases: two aggregates in one compound item, one over an expression
# argument: the per-row evaluator closed over the loop variable and evaluated the argument of
# the item's last-registered (textually first) call instead: AVG(b * b) came out as AVG(t)
case("compound-two-aggs-one-over-expression", 4,
     "SELECT d, AVG(t) + AVG((b * b)) AS y FROM stream GROUP BY d, CountingWindow(3)", "direct",
     [("y", ("bin", "add", ("agg", "avg", ("col", "t")), ("agg", "avg", ("bin", "mul", ("col", "b"), ("col", "b")))))],
     [[("x", 1, 2, 10), ("y", 5, 3, 30), ("x", 3, 4, 50)]])

# found by the generated cases: a HAVING aggregate whose argument has nested parentheses was filed
# as an `expression` aggregate (last row's value) because the single-call test used `[^)]*`
case("having-agg-nested-parens", 5,
     "SELECT d, SUM(a) AS s FROM stream GROUP BY d, CountingWindow(3) HAVING SUM(t * (b - 2)) <= 0", "direct",
     [("s", ("agg", "sum", ("col", "a")))],
     [[("x", 1, 1, 10), ("y", 5, 1, 30), ("x", 3, 4, 50), ("y", 1, 3, 10)]],
     having=("cmp", "le", ("agg", "sum", ("bin", "mul", ("col", "t"), ("bin", "sub", ("col", "b"), ("lit", 2)))), ("lit", 0)))

# found by the generated cases: a SELECT item that is one aggregate call in redundant parentheses
# was classified as neither aggregate nor expression and silently produced no column
case("parenthesised-single-aggregate", 6,
     "SELECT d, (AVG(t)) AS m, SUM(a) AS s FROM stream GROUP BY d, CountingWindow(3)", "direct",
     [("m", ("agg", "avg", ("col", "t"))), ("s", ("agg", "sum", ("col", "a")))],
     [[("x", 1, 1, 10), ("y", 5, 1, 30), ("x", 3, 4, 50)]])

# found by the generated cases: LIMIT 0 was indistinguishable from "no LIMIT" and delivered every row
case("limit-zero", 7,
     "SELECT d, SUM(a) AS s FROM stream GROUP BY d, CountingWindow(3) ORDER BY s LIMIT 0", "direct",
     [("s", ("agg", "sum", ("col", "a")))],
     [[("x", 1, 1, 10), ("y", 5, 1, 30), ("x", 3, 4, 50)]], order=[("s", "a")], limit=0)
