#!/usr/bin/env python3
"""Writes the hand-made C07 corpus witnesses (corpus/C07/*.ops) from readable descriptions.
Expressions are s-expressions:  (agg avg (col t))  (lit 1.8)  (bin add X Y)  (ref alias);
arguments: (col a) (star) (lit 2) (bin mul A B); predicates: (cmp gt X Y) (and P Q) (or P Q).
Run from /verif:  python3 harness/c07corpus.py"""
import struct, binascii, os

def hx(s): return binascii.hexlify(s.encode()).decode() if s else "-"
def fb(x): return "f:" + binascii.hexlify(struct.pack(">d", float(x))).decode()

def toks(e):
    k = e[0]
    if k == "agg": return ["agg", e[1]] + toks(e[2])
    if k == "col": return ["col", hx(e[1])]
    if k == "star": return ["star"]
    if k == "lit": return ["lit", fb(e[1])]
    if k == "ref": return ["ref", hx(e[1])]
    if k in ("bin", "cmp"): return [k, e[1]] + toks(e[2]) + toks(e[3])
    if k in ("and", "or"): return [k] + toks(e[1]) + toks(e[2])
    raise ValueError(k)

def rows(rs):
    out = []
    for d, a, b, t in rs:
        out += ["s:" + hx(d), fb(a), fb(b), fb(t)]
    return out

def case(name, idx, sql, mode, items, batches, having=None, order=(), limit=None, distinct=False, sentinel=None):
    L = [f"case C07 0 {idx}", "cfg sql " + hx(sql), "cfg mode " + mode, "cfg gcol " + hx("d"),
         "cfg cols " + " ".join(hx(c) for c in "abt")]
    for alias, e in items:
        L.append("cfg item " + hx(alias) + " " + " ".join(toks(e)))
    if having: L.append("cfg having " + " ".join(toks(having)))
    for col, d in order: L.append(f"cfg order {hx(col)} {d}")
    if limit is not None: L.append(f"cfg limit {limit}")
    L.append("cfg distinct " + ("t" if distinct else "f"))
    for b in batches:
        op = ["op", "batch", str(len(b))] + rows(b)
        if sentinel: op += ["sent", str(len(sentinel))] + rows(sentinel)
        L.append(" ".join(op))
    L.append("end")
    path = os.path.join(os.path.dirname(os.path.abspath(__file__)), "..", "corpus", "C07", name + ".ops")
    open(path, "w").write("\n".join(L) + "\n")

S = lambda n: [("~s", 1000, 1000, 1000)] * n

# O1 (DESIGN §5 C07): a compound item led by its only aggregate call was filed as an `expression`
# aggregate and reported the last row's value (122) instead of 1.8*avg+32 (86)
case("avg-times-literal", 0,
     "SELECT d, AVG(t) * 1.8 + 32 AS f FROM stream GROUP BY d, CountingWindow(3)", "e2e",
     [("f", ("bin", "add", ("bin", "mul", ("agg", "avg", ("col", "t")), ("lit", 1.8)), ("lit", 32)))],
     [[("x", 1, 1, 10), ("x", 1, 1, 30), ("x", 1, 1, 50)]], sentinel=S(3))

# O2: HAVING followed by ORDER BY: the ORDER BY text became part of the predicate, which then did
# not compile, and the batch was delivered unfiltered
case("having-then-order-by", 1,
     "SELECT d, AVG(t) AS av FROM stream GROUP BY d, CountingWindow(4) HAVING SUM(a) > 16 ORDER BY av DESC LIMIT 1", "direct",
     [("av", ("agg", "avg", ("col", "t")))],
     [[("x", 10, 1, 10), ("y", 1, 1, 30), ("x", 10, 1, 50), ("y", 2, 1, 70)]],
     having=("cmp", "gt", ("agg", "sum", ("col", "a")), ("lit", 16)), order=[("av", "d")], limit=1)
