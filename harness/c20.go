package main

import (
	"encoding/hex"
	"bufio"
	"fmt"
	"math/rand"
	"os"
	"os/exec"
	"sort"
	"strconv"
	"strings"
	"sync"
	"time"

	"github.com/rulego/streamsql"
	"github.com/rulego/streamsql/functions"
	"github.com/rulego/streamsql/schema"
)

// C20 — caller data is never modified; instances do not influence each other.
//
// One case = one query A (cfg sql / q …) of some kind (projection, analytic in SELECT / WHERE, function group
// key, plain window, JOIN, JOIN + window) and a second query B (cfg sql2 / q2 …).  Ops:
//
//	emitsync <row>                 EmitSync on A's instance (direct kinds)          obs: after <row>
//	emitall <L rows>               Emit every row, wait for quiescence              obs: after <L rows>, sinkrows <t|f>
//	paired <L rowsA> <L rowsB> <bits> <cold|warm>   A and B alone (cold caches) vs interleaved by <bits>   obs: pairedA <t|f>, pairedB <t|f>
//
// `after` is the caller's map re-read after the call (deep, canonical).  Quiescence: direct kinds wait for as
// many sink deliveries as a twin instance returned non-nil EmitSync results for copies of the same rows;
// window kinds append sentinel rows of their own group and wait for the sentinel's batch (single FIFO
// consumer: every earlier row has passed processItem by then).  Time-outs only end runs that are already wrong.
type c20 struct{}

func init() { registry["C20"] = c20{} }

func (c20) Count(tier string) int {
	if tier == "thorough" {
		return 1200
	}
	return 260
}

type c20Query struct {
	sql      string
	kind     string
	window   int  // CountingWindow(N); 0 = direct
	join     bool // needs table `meta`
	analytic []string
	multi    []bool
	places   int
	group    []string
}

const c20Sentinel = "zzsentinel"

// c20Family: queries that differ only in one column / constant — instances of one family send
// near-identical expression texts to the process-wide bridge caches.
func c20Family(rng *rand.Rand, fam int, variant int) c20Query {
	col := []string{"k", "g"}[variant%2]
	cst := []string{"1", "2", "3"}[variant%3]
	n := 1 + (fam+variant)%3
	N := strconv.Itoa(n)
	switch fam % 7 {
	case 6: // texts that differ in the letter case of a literal only
		lit := []string{"-zone", "-ZONE", "-Zone"}[variant%3]
		return c20Query{sql: "SELECT id, concat(upper(k), '" + lit + "') AS cz FROM stream", kind: "expr"}
	case 0:
		return c20Query{sql: "SELECT id, upper(" + col + ") AS u FROM stream", kind: "expr"}
	case 1:
		return c20Query{sql: "SELECT id, v + " + cst + " AS w FROM stream", kind: "expr"}
	case 2:
		return c20Query{sql: "SELECT id, concat(" + col + ", 'x') AS cx FROM stream WHERE v >= " + cst, kind: "expr"}
	case 3:
		return c20Query{sql: "SELECT upper(" + col + ") AS u, count(*) AS c FROM stream GROUP BY upper(" + col + "), CountingWindow(" + N + ")", kind: "groupfn", window: n, group: []string{"upper(" + col + ")"}}
	case 4:
		return c20Query{sql: "SELECT lower(" + col + ") AS l, sum(v) AS s FROM stream GROUP BY lower(" + col + "), CountingWindow(" + N + ")", kind: "groupfn", window: n, group: []string{"lower(" + col + ")"}}
	default:
		return c20Query{sql: "SELECT id, lag(v) AS p, upper(" + col + ") AS u FROM stream", kind: "analytic-select", analytic: []string{"p"}}
	}
}

// c20ForceIdx >= 0: c20Queries returns that member of its pool (the first cases of a run walk the pool once, so that
// every query kind is the first instance's query at least once whatever the seed)
var c20ForceIdx = -1

func c20Queries(rng *rand.Rand) c20Query {
	n := 1 + rng.Intn(3)
	N := strconv.Itoa(n)
	if c20ForceIdx < 0 && rng.Intn(4) == 0 {
		return c20Family(rng, rng.Intn(7), rng.Intn(6))
	}
	pool := []c20Query{
		{sql: "SELECT id, lag(v) AS p FROM stream", kind: "analytic-select", analytic: []string{"p"}},
		{sql: "SELECT id, v - lag(v) AS d FROM stream", kind: "analytic-select", analytic: []string{"d"}},
		{sql: "SELECT id, lag(v) AS p, latest(k) AS lk FROM stream", kind: "analytic-select", analytic: []string{"p", "lk"}},
		{sql: "SELECT id, acc_sum(v) AS s FROM stream WHERE v >= 0", kind: "analytic-select", analytic: []string{"s"}},
		{sql: "SELECT id, changed_col(true, v) AS cv FROM stream", kind: "analytic-select", analytic: []string{"cv"}},
		{sql: "SELECT id, changed_cols('c_', true, v, k) FROM stream", kind: "analytic-multi", analytic: []string{"changed_cols('c_', true, v, k)"}, multi: []bool{true}},
		{sql: "SELECT *, lag(v) AS p FROM stream", kind: "analytic-select", analytic: []string{"p"}},
		{sql: "SELECT id FROM stream WHERE had_changed(true, v)", kind: "analytic-where", places: 1},
		{sql: "SELECT * FROM stream WHERE lag(v) < 100", kind: "analytic-where", places: 1},
		{sql: "SELECT id, lag(v) AS p FROM stream WHERE had_changed(true, v)", kind: "analytic-both", analytic: []string{"p"}, places: 1},
		{sql: "SELECT id, latest(k) AS lk FROM stream WHERE had_changed(true, k) AND lag(v) < 100", kind: "analytic-both", analytic: []string{"lk"}, places: 2},
		{sql: "SELECT upper(k) AS uk, count(*) AS c FROM stream GROUP BY upper(k), CountingWindow(" + N + ")", kind: "groupfn", window: n, group: []string{"upper(k)"}},
		{sql: "SELECT lower(k) AS lk, sum(v) AS s FROM stream GROUP BY lower(k), CountingWindow(" + N + ")", kind: "groupfn", window: n, group: []string{"lower(k)"}},
		{sql: "SELECT upper(k) AS uk, dev, count(*) AS c FROM stream GROUP BY upper(k), dev, CountingWindow(" + N + ")", kind: "groupfn", window: n, group: []string{"upper(k)", "dev"}},
		{sql: "SELECT upper(k) AS uk, max(v) AS mx FROM stream WHERE v >= 0 GROUP BY upper(k), CountingWindow(" + N + ")", kind: "groupfn", window: n, group: []string{"upper(k)"}},
		{sql: "SELECT k, count(*) AS c, sum(v) AS s FROM stream GROUP BY k, CountingWindow(" + N + ")", kind: "window", window: n, group: []string{"k"}},
		{sql: "SELECT count(*) AS c, sum(v) AS s FROM stream GROUP BY CountingWindow(" + N + ")", kind: "window", window: n},
		// expressions over two bare columns: how they are evaluated depends on the row's value types
		{sql: "SELECT id, v + w AS s FROM stream", kind: "expr"},
		{sql: "SELECT *, v / 4 AS r FROM stream", kind: "expr"},
		{sql: "SELECT id, k, unnest(l) AS e FROM stream", kind: "unnest"},
		{sql: "SELECT id, array_remove(tags, 'x') AS ar FROM stream", kind: "expr"},
		{sql: "SELECT id, array_distinct(tags) AS ad, array_length(tags) AS al FROM stream", kind: "expr"},
		{sql: "SELECT id, abs(v - lag(v)) AS d FROM stream", kind: "analytic-select", analytic: []string{"d"}},
		{sql: "SELECT id, sqrt(lag(v)) AS sq, k FROM stream", kind: "analytic-select", analytic: []string{"sq"}},
		{sql: "SELECT id, changed_cols('c_', true, v, k) FROM stream", kind: "analytic-multi", analytic: []string{"changed_cols('c_', true, v, k)"}, multi: []bool{true}},
		{sql: "SELECT id, k, changed_cols('c_', true, v) FROM stream", kind: "analytic-multi", analytic: []string{"changed_cols('c_', true, v)"}, multi: []bool{true}},
		{sql: "SELECT id, CASE WHEN v > 5 THEN 'hi' WHEN w > 5 THEN 'mid' ELSE 'lo' END AS r FROM stream", kind: "expr"},
		{sql: "SELECT k, sum(v + w) AS s, max(v + w) AS m, count(*) AS c FROM stream GROUP BY k, CountingWindow(" + N + ")", kind: "window", window: n, group: []string{"k"}},
		// a function key that cannot be computed for some rows (v absent / NULL / text): nothing is injected, and nothing is written
		{sql: "SELECT floor(v * 0.1) AS fb, last_value(k) AS lk, count(*) AS c FROM stream GROUP BY floor(v * 0.1), CountingWindow(" + N + ")", kind: "groupfn", window: n, group: []string{"floor(v*0.1)"}},
		// a FROM alias without a JOIN: the row is still the caller's map (no enriched copy exists)
		{sql: "SELECT upper(k) AS uk, count(*) AS c FROM stream s GROUP BY upper(k), CountingWindow(" + N + ")", kind: "groupfn", window: n, group: []string{"upper(k)"}},
		{sql: "SELECT id, lag(v) AS p FROM stream s", kind: "analytic-select", analytic: []string{"p"}},
		{sql: "SELECT id FROM stream s WHERE had_changed(true, v)", kind: "analytic-where", places: 1},
		{sql: "SELECT s.id, m.loc FROM stream s JOIN meta m ON s.dev = m.dev", kind: "join", join: true},
		{sql: "SELECT s.id, m.loc FROM stream s LEFT JOIN meta m ON s.dev = m.dev WHERE s.v > 1", kind: "join", join: true},
		{sql: "SELECT s.id, m.loc, lag(s.v) AS p FROM stream s JOIN meta m ON s.dev = m.dev", kind: "join-analytic", join: true, analytic: []string{"p"}},
		{sql: "SELECT m.loc, count(*) AS c FROM stream s JOIN meta m ON s.dev = m.dev GROUP BY m.loc, CountingWindow(" + N + ")", kind: "join-window", join: true, window: n, group: []string{"m.loc"}},
		{sql: "SELECT upper(m.loc) AS ul, count(*) AS c FROM stream s LEFT JOIN meta m ON s.dev = m.dev GROUP BY upper(m.loc), CountingWindow(" + N + ")", kind: "join-groupfn", join: true, window: n, group: []string{"upper(m.loc)"}},
	}
	if c20ForceIdx >= 0 {
		return pool[c20ForceIdx%len(pool)]
	}
	if rng.Intn(6) == 0 { // a plain projection drawn from the C05 grammar
		tmpl := c20Template(rng)
		var items []c05PItem
		if rng.Intn(4) == 0 {
			items = []c05PItem{{kind: "star"}}
		} else {
			seen := map[string]bool{}
			for len(items) < 1+rng.Intn(3) {
				it := c05GenItem(rng, tmpl)
				if !seen[it.outName()] {
					seen[it.outName()] = true
					items = append(items, it)
				}
			}
		}
		return c20Query{sql: c05BuildSQL(items, nil), kind: "projection"}
	}
	return pool[rng.Intn(len(pool))]
}

func (q c20Query) tokens(tag string) []string {
	t := []string{tag, q.kind, btok(q.join), btok(q.window > 0), strconv.Itoa(len(q.analytic))}
	for i, a := range q.analytic {
		m := false
		if i < len(q.multi) {
			m = q.multi[i]
		}
		t = append(t, hx(a), btok(m))
	}
	t = append(t, strconv.Itoa(q.places), strconv.Itoa(len(q.group)))
	for _, g := range q.group {
		t = append(t, hx(g))
	}
	return t
}

func c20ParseQuery(sql string, t []string) c20Query {
	q := c20Query{sql: sql, kind: t[0], join: t[1] == "t"}
	na, _ := strconv.Atoi(t[3])
	t2 := t[4:]
	for i := 0; i < na; i++ {
		q.analytic = append(q.analytic, unhx(t2[0]))
		q.multi = append(q.multi, t2[1] == "t")
		t2 = t2[2:]
	}
	q.places, _ = strconv.Atoi(t2[0])
	ng, _ := strconv.Atoi(t2[1])
	for i := 0; i < ng; i++ {
		q.group = append(q.group, unhx(t2[2+i]))
	}
	if t[2] == "t" { // window size is in the SQL text
		i := strings.Index(sql, "CountingWindow(")
		j := strings.Index(sql[i:], ")")
		q.window, _ = strconv.Atoi(sql[i+len("CountingWindow(") : i+j])
	}
	return q
}

var c20Keys = []string{"a", "b", "Ab", "c d", ""}
var c20Devs = []string{"d1", "d2", "d9", "d1"}

func c20Template(rng *rand.Rand) map[string]interface{} {
	return c05GenTemplate(rng)
}

// c20Row: the columns the query pool reads (id, v, k, dev) plus random nested baggage.
func c20Row(rng *rand.Rand, id int) map[string]interface{} {
	row := map[string]interface{}{"id": id, "v": rng.Intn(40), "w": rng.Intn(10), "k": c20Keys[rng.Intn(len(c20Keys))], "g": c20Keys[rng.Intn(len(c20Keys))], "dev": c20Devs[rng.Intn(len(c20Devs))]}
	switch rng.Intn(10) {
	case 0:
		row["v"] = nil
	case 1:
		delete(row, "k")
	case 2:
		row["v"] = float64(rng.Intn(20)) / 4
	case 3:
		delete(row, "v") // an operand of the pool's expressions is absent (not NULL): nothing may add it to the caller's map
	case 4:
		delete(row, "w")
	}
	if rng.Intn(2) == 0 {
		row["m"] = c05GenValue(rng, 2)
	}
	// a slice of the caller's: functions that filter / reorder arrays must not do it in place
	row["tags"] = []interface{}{"p", "x", "q", "x", "r"}[:2+rng.Intn(4)]
	if rng.Intn(3) == 0 {
		row["l"] = []interface{}{c05GenValue(rng, 1), map[string]interface{}{"x": c05GenScalar(rng)}}
	}
	if rng.Intn(4) == 0 { // a column named like something the engine might inject
		row[[]string{"p", "upper(k)", "__analytic_0__", "c_v", "s"}[rng.Intn(5)]] = c05GenScalar(rng)
	}
	return row
}

func c20RowsTok(rows []map[string]interface{}) []string {
	l := make([]interface{}, len(rows))
	for i, r := range rows {
		l[i] = r
	}
	return c05EncValue(l, nil)
}

func c20DecRows(t []string) ([]map[string]interface{}, []string) {
	v, rest := c05DecValue(t)
	var rows []map[string]interface{}
	for _, e := range v.([]interface{}) {
		rows = append(rows, e.(map[string]interface{}))
	}
	return rows, rest
}

func (c20) Gen(rng *rand.Rand, tier string, idx int) Case {
	var c Case
	walk := idx < 48 // the pool has fewer members than that
	if walk {
		c20ForceIdx = idx
	}
	qa := c20Queries(rng)
	c20ForceIdx = -1
	qb := c20Queries(rng)
	skew := !walk && rng.Intn(6) == 0
	if skew {
		// same expression text over bare columns in both instances, differently typed rows (see below)
		n := 1 + rng.Intn(3)
		N := strconv.Itoa(n)
		skewQs := []c20Query{
			{sql: "SELECT id, v + w AS s FROM stream", kind: "expr"},
			{sql: "SELECT k, sum(v + w) AS s, max(v + w) AS m, count(*) AS c FROM stream GROUP BY k, CountingWindow(" + N + ")", kind: "window", window: n, group: []string{"k"}},
			{sql: "SELECT count(*) AS c, sum(v + w) AS s FROM stream GROUP BY CountingWindow(" + N + ")", kind: "window", window: n},
			{sql: "SELECT k, sum(v + w) AS s, max(v + w) AS m, count(*) AS c FROM stream GROUP BY k, CountingWindow(" + N + ")", kind: "window", window: n, group: []string{"k"}},
			{sql: "SELECT *, v / 4 AS r FROM stream", kind: "expr"},
		}
		qa = skewQs[rng.Intn(len(skewQs))]
		qb = qa
		c.Stat = append(c.Stat, "pair-same-sql")
	} else if walk {
		c.Stat = append(c.Stat, "pair-different-sql", "pool-walk")
	} else if rng.Intn(10) == 0 {
		// two instances whose expression texts differ in letter case only (a literal, or a column: k / K)
		v := rng.Intn(3)
		qa, qb = c20Family(rng, 6, v), c20Family(rng, 6, v+1+rng.Intn(2))
		if rng.Intn(3) == 0 {
			qa = c20Query{sql: "SELECT id, lower(k) AS lk FROM stream", kind: "expr"}
			qb = c20Query{sql: "SELECT id, lower(K) AS lk FROM stream", kind: "expr"}
		}
		c.Stat = append(c.Stat, "pair-case-twin-sql")
	} else if k := rng.Intn(8); k < 2 {
		qb = qa // same SQL in both instances
		c.Stat = append(c.Stat, "pair-same-sql")
	} else if k < 5 { // two members of one family: near-identical expression texts
		fam := rng.Intn(6)
		v := rng.Intn(6)
		qa, qb = c20Family(rng, fam, v), c20Family(rng, fam, v+1+rng.Intn(2))
		c.Stat = append(c.Stat, "pair-sibling-sql")
	} else {
		c.Stat = append(c.Stat, "pair-different-sql")
	}
	c.Stat = append(c.Stat, "kind-"+qa.kind)
	mkRow := func(id int) map[string]interface{} {
		r := c20Row(rng, id)
		if walk { // the pool walk shows every query a row without v, one with v NULL and one with v as text
			switch id % 5 {
			case 2:
				delete(r, "v")
			case 3:
				r["v"] = nil
			case 4:
				r["v"] = "12"
			}
		}
		if qa.kind == "unnest" || qb.kind == "unnest" {
			// an array of objects in every row: unnest expands it next to the other selected columns, and the
			// elements are the caller's own nested maps
			r["l"] = []interface{}{map[string]interface{}{"x": id, "y": "e"}, map[string]interface{}{"x": id + 1}}
		}
		return r
	}
	c.Cfg = append(c.Cfg, []string{"sql", hx(qa.sql)}, qa.tokens("q"), []string{"sql2", hx(qb.sql)}, qb.tokens("q2"))
	if rng.Intn(4) == 0 {
		// every instance of the case validates its input against a schema that declares a default for a column no row
		// carries (WithSchema): the default is for the engine, the caller's map stays as it was
		c.Cfg = append(c.Cfg, []string{"schema", "1"})
		c.Stat = append(c.Stat, "input-schema-with-default")
	}
	id := 1
	if qa.window == 0 {
		for i := 0; i < 2+rng.Intn(4); i++ {
			c.Ops = append(c.Ops, append([]string{"emitsync"}, c05EncRow(mkRow(id))...))
			id++
		}
	}
	var rows []map[string]interface{}
	for i := 0; i < 3+rng.Intn(6); i++ {
		rows = append(rows, mkRow(id))
		id++
	}
	c.Ops = append(c.Ops, append([]string{"emitall"}, c20RowsTok(rows)...))
	var ra, rb []map[string]interface{}
	for i := 0; i < 3+rng.Intn(5); i++ {
		ra = append(ra, mkRow(100+i))
	}
	for i := 0; i < 3+rng.Intn(5); i++ {
		rb = append(rb, mkRow(200+i))
	}
	if skew || rng.Intn(5) == 0 {
		// type skew: instance A sees its numeric columns as decimal strings, instance B as numbers —
		// anything the process remembers about "how to evaluate this expression text" from A's rows
		// would change B's results
		for _, r := range ra {
			for _, col := range []string{"v", "w"} {
				if x, ok := r[col].(int); ok {
					r[col] = strconv.Itoa(x)
				}
			}
		}
		c.Stat = append(c.Stat, "paired-type-skew")
	}
	bits := make([]byte, len(ra)+len(rb))
	na, nb := 0, 0
	for i := range bits {
		if nb >= len(rb) || (na < len(ra) && rng.Intn(2) == 0) {
			bits[i] = 'a'
			na++
		} else {
			bits[i] = 'b'
			nb++
		}
	}
	op := append([]string{"paired"}, c20RowsTok(ra)...)
	op = append(op, c20RowsTok(rb)...)
	temp := []string{"cold", "warm"}[rng.Intn(2)] // paired run on empty caches, or on the caches the solo runs left behind
	if skew {
		temp = "fresh"        // a process of its own
		if rng.Intn(2) == 0 { // instance A (string-typed) sees all its rows first
			bits = []byte(strings.Repeat("a", len(ra)) + strings.Repeat("b", len(rb)))
		}
	}
	c.Stat = append(c.Stat, "paired-"+temp)
	c.Ops = append(c.Ops, append(op, string(bits), temp))
	return c
}

// ---------------------------------------------------------------- running one instance

type c20Inst struct {
	q       c20Query
	s       *streamsql.Streamsql
	mu      sync.Mutex
	batches [][]map[string]interface{} // references to what the sink received
	snaps   [][]string                 // canonical content at delivery time
	syncOut [][]string                 // EmitSync results (direct kinds in paired runs)
	err     error
}

func c20Table() []map[string]interface{} {
	return []map[string]interface{}{{"dev": "d1", "loc": "L1"}, {"dev": "d2", "loc": "l2"}, {"dev": c20Sentinel, "loc": c20Sentinel}}
}

func c20Canon(b []map[string]interface{}) []string {
	rows := make([]string, len(b))
	for i, r := range b {
		cp := make(map[string]interface{}, len(r))
		for k, v := range r {
			if k != "window_id" { // wall-clock based
				cp[k] = v
			}
		}
		rows[i] = strings.Join(c05EncRow(cp), " ")
	}
	sort.Strings(rows) // rows of one batch are unordered (§2.4)
	return rows
}

// c20Schema (cfg `schema 1`): the instances of the running case are created with WithSchema
var c20Schema bool

// c20ChildEnv: the solo / pair processes create their instances the way this process does
func c20ChildEnv() []string {
	env := os.Environ()
	if c20Schema {
		env = append(env, "C20_SCHEMA=1")
	}
	return env
}

func c20New(q c20Query) *c20Inst {
	opts := []streamsql.Option{presetOpt(), streamsql.WithDiscardLog()}
	if c20Schema || os.Getenv("C20_SCHEMA") == "1" {
		opts = append(opts, streamsql.WithSchema(schema.Schema{Name: "c20", Fields: []schema.FieldDef{{Name: "zdef", Type: schema.TypeFloat, Default: float64(7)}}}))
	}
	in := &c20Inst{q: q, s: streamsql.New(opts...)}
	if in.err = in.s.Execute(q.sql); in.err != nil {
		return in
	}
	if q.join {
		if _, err := in.s.RegisterTable("meta", c20Table()); err != nil {
			in.err = err
			return in
		}
	}
	in.s.AddSyncSink(func(b []map[string]interface{}) {
		in.mu.Lock()
		in.batches = append(in.batches, b)
		in.snaps = append(in.snaps, c20Canon(b))
		in.mu.Unlock()
	})
	return in
}

func (in *c20Inst) nBatches() int {
	in.mu.Lock()
	defer in.mu.Unlock()
	return len(in.batches)
}

func (in *c20Inst) sawSentinel() bool {
	in.mu.Lock()
	defer in.mu.Unlock()
	for _, s := range in.snaps {
		for _, r := range s {
			if strings.Contains(r, hx(c20Sentinel)) || strings.Contains(r, hx(strings.ToUpper(c20Sentinel))) ||
				strings.Contains(r, hx(c20Sentinel+c20Sentinel)) {
				return true
			}
		}
	}
	return false
}

func c20WaitFor(cond func() bool) bool {
	deadline := time.Now().Add(5 * time.Second)
	for !cond() {
		if time.Now().After(deadline) {
			return false
		}
		time.Sleep(200 * time.Microsecond)
	}
	return true
}

// quiesce makes sure every row emitted so far has been through processItem.
// direct kinds: wait for `want` sink deliveries; window kinds: feed sentinel rows and wait for their batch.
func (in *c20Inst) quiesce(want int, emitted int) bool {
	if in.q.window == 0 {
		return c20WaitFor(func() bool { return in.nBatches() >= want })
	}
	if len(in.q.group) == 0 {
		pad := (in.q.window - emitted%in.q.window) % in.q.window
		for i := 0; i < pad; i++ {
			in.s.Emit(map[string]interface{}{"id": -1, "v": 0, "k": c20Sentinel, "g": c20Sentinel, "dev": c20Sentinel})
		}
		n := (emitted + pad) / in.q.window
		return c20WaitFor(func() bool { return in.nBatches() >= n })
	}
	for i := 0; i < in.q.window; i++ {
		in.s.Emit(map[string]interface{}{"id": -1, "v": 0, "k": c20Sentinel, "g": c20Sentinel, "dev": c20Sentinel})
	}
	return c20WaitFor(in.sawSentinel)
}

// directCount: how many of the rows yield a result, learnt from a twin instance fed copies through EmitSync.
func c20DirectCount(q c20Query, rows []map[string]interface{}) int {
	tw := c20New(q)
	defer tw.s.Stop()
	if tw.err != nil {
		return 0
	}
	n := 0
	for _, r := range rows {
		if out, err := tw.s.EmitSync(c05CopyRow(r)); err == nil && out != nil {
			n++
		}
	}
	return n
}

// outputs: what the instance produced, canonical, without the sentinel's batches.
func (in *c20Inst) outputs() []string {
	in.mu.Lock()
	defer in.mu.Unlock()
	var out []string
	out = append(out, fmt.Sprint(in.syncOut))
	for _, s := range in.snaps {
		j := strings.Join(s, " | ")
		if strings.Contains(j, hx(c20Sentinel)) || strings.Contains(j, hx(strings.ToUpper(c20Sentinel))) || strings.Contains(j, hx(c20Sentinel+c20Sentinel)) {
			continue
		}
		out = append(out, j)
	}
	return out
}

func (in *c20Inst) feed(r map[string]interface{}) {
	if in.q.window == 0 {
		out, err := in.s.EmitSync(r)
		switch {
		case err != nil:
			in.syncOut = append(in.syncOut, []string{"err"})
		case out == nil:
			in.syncOut = append(in.syncOut, []string{"none"})
		default:
			in.syncOut = append(in.syncOut, c05EncRow(out))
		}
		return
	}
	in.s.Emit(r)
}

func c20RunSolo(q c20Query, rows []map[string]interface{}) ([]string, bool) {
	functions.VerifResetExprCaches()
	in := c20New(q)
	defer in.s.Stop()
	if in.err != nil {
		return []string{"execerr"}, true
	}
	for _, r := range rows {
		in.feed(c05CopyRow(r))
	}
	ok := true
	if q.window > 0 {
		ok = in.quiesce(0, len(rows))
	}
	return in.outputs(), ok
}

// c20RunSoloFresh: the "alone" baseline in a FRESH PROCESS (the harness binary re-executes itself), so that
// process-wide state no reset hook knows about cannot leak from an earlier run into the baseline.
// c20ProtoLines: the protocol lines of a helper process (prefix "@@ "), whatever else it printed
func c20ProtoLines(outb []byte) []string {
	var lines []string
	for _, l := range strings.Split(string(outb), "\n") {
		if strings.HasPrefix(l, "@@ ") {
			lines = append(lines, strings.TrimRight(l[3:], "\r"))
		}
	}
	return lines
}

func c20RunSoloFresh(q c20Query, rows []map[string]interface{}) ([]string, bool) {
	exe, err := os.Executable()
	if err != nil {
		return c20RunSolo(q, rows)
	}
	args := append([]string{"c20solo", hx(q.sql)}, q.tokens("q")[1:]...)
	args = append(args, "--")
	args = append(args, c20RowsTok(rows)...)
	cmd := exec.Command(exe, args...)
	cmd.Env = c20ChildEnv()
	outb, err := cmd.Output()
	if err != nil {
		return []string{"solo-process-failed"}, false
	}
	lines := c20ProtoLines(outb)
	if len(lines) == 0 {
		return nil, false
	}
	ok := lines[0] == "ok"
	var out []string
	for _, l := range lines[1:] {
		if _, err := hex.DecodeString(l); err != nil && l != "-" {
			fmt.Fprintf(os.Stderr, "c20solo: undecodable output of the solo process:\n%s\n", outb)
			return []string{"solo-output-undecodable"}, false
		}
		out = append(out, unhx(l))
	}
	return out, ok
}

func init() {
	subcommands["c20solo"] = func(w *bufio.Writer, args []string) {
		sql := unhx(args[0])
		sep := 1
		for sep < len(args) && args[sep] != "--" {
			sep++
		}
		q := c20ParseQuery(sql, args[1:sep])
		rows, _ := c20DecRows(args[sep+1:])
		out, ok := c20RunSolo(q, rows)
		// the engine may log to stdout: every protocol line carries a prefix
		if ok {
			fmt.Fprintln(w, "@@ ok")
		} else {
			fmt.Fprintln(w, "@@ not-quiescent")
		}
		for _, l := range out {
			fmt.Fprintln(w, "@@ "+hx(l))
		}
	}
}

// c20RunPaired: both instances in this process, rows interleaved as `bits` says.
func c20RunPaired(qa, qb c20Query, ra, rb []map[string]interface{}, bits string) (pa, pb []string, okA, okB bool) {
	okA, okB = true, true
	ia, ib := c20New(qa), c20New(qb)
	ai, bi := 0, 0
	for _, w := range []byte(bits) {
		if w == 'a' && ai < len(ra) && ia.err == nil {
			ia.feed(c05CopyRow(ra[ai]))
			ai++
		} else if w == 'b' && bi < len(rb) && ib.err == nil {
			ib.feed(c05CopyRow(rb[bi]))
			bi++
		}
	}
	pa, pb = []string{"execerr"}, []string{"execerr"}
	if ia.err == nil {
		if qa.window > 0 {
			okA = ia.quiesce(0, len(ra))
		}
		pa = ia.outputs()
	}
	if ib.err == nil {
		if qb.window > 0 {
			okB = ib.quiesce(0, len(rb))
		}
		pb = ib.outputs()
	}
	ia.s.Stop()
	ib.s.Stop()
	return
}

func c20RunPairedFresh(qa, qb c20Query, ra, rb []map[string]interface{}, bits string) (pa, pb []string, ok bool) {
	exe, err := os.Executable()
	if err != nil {
		return []string{"no-exe"}, []string{"no-exe"}, false
	}
	args := append([]string{"c20pair", hx(qa.sql)}, qa.tokens("q")[1:]...)
	args = append(args, "--", hx(qb.sql))
	args = append(args, qb.tokens("q")[1:]...)
	args = append(args, "--")
	args = append(args, c20RowsTok(ra)...)
	args = append(args, c20RowsTok(rb)...)
	args = append(args, bits)
	pcmd := exec.Command(exe, args...)
	pcmd.Env = c20ChildEnv()
	outb, err := pcmd.Output()
	if err != nil {
		return []string{"pair-process-failed"}, []string{"pair-process-failed"}, false
	}
	lines := c20ProtoLines(outb)
	ok = len(lines) > 0 && lines[0] == "ok"
	cur := &pa
	for _, l := range lines[1:] {
		if l == "--" {
			cur = &pb
			continue
		}
		*cur = append(*cur, unhx(l))
	}
	return
}

func init() {
	subcommands["c20pair"] = func(w *bufio.Writer, args []string) {
		cut := func(a []string) ([]string, []string) {
			for i, x := range a {
				if x == "--" {
					return a[:i], a[i+1:]
				}
			}
			return a, nil
		}
		a, rest := cut(args)
		b, rest := cut(rest)
		qa := c20ParseQuery(unhx(a[0]), a[1:])
		qb := c20ParseQuery(unhx(b[0]), b[1:])
		ra, rest := c20DecRows(rest)
		rb, rest := c20DecRows(rest)
		pa, pb, okA, okB := c20RunPaired(qa, qb, ra, rb, rest[0])
		if okA && okB {
			fmt.Fprintln(w, "@@ ok")
		} else {
			fmt.Fprintln(w, "@@ not-quiescent")
		}
		for _, l := range pa {
			fmt.Fprintln(w, "@@ "+hx(l))
		}
		fmt.Fprintln(w, "@@ --")
		for _, l := range pb {
			fmt.Fprintln(w, "@@ "+hx(l))
		}
	}
}

func (c20) Exec(c Case) [][][]string {
	c20Schema = c04CfgVal(c, "schema", "0") == "1"
	defer func() { c20Schema = false }()
	var qa, qb c20Query
	var sqlA, sqlB string
	for _, l := range c.Cfg {
		switch l[0] {
		case "sql":
			sqlA = unhx(l[1])
		case "sql2":
			sqlB = unhx(l[1])
		case "q":
			qa = c20ParseQuery(sqlA, l[1:])
		case "q2":
			qb = c20ParseQuery(sqlB, l[1:])
		}
	}
	var out [][][]string
	hist := c20New(qa)
	defer hist.s.Stop()
	for _, op := range c.Ops {
		switch op[0] {
		case "emitsync":
			if hist.err != nil {
				out = append(out, [][]string{{"execerr"}})
				continue
			}
			row := c05DecRow(op[1:])
			func() {
				defer func() { recover() }()
				hist.s.EmitSync(row)
			}()
			out = append(out, [][]string{append([]string{"after"}, c05EncRow(row)...)})
		case "emitall":
			rows, _ := c20DecRows(op[1:])
			in := c20New(qa)
			if in.err != nil {
				in.s.Stop()
				out = append(out, [][]string{{"execerr"}})
				continue
			}
			want := 0
			if qa.window == 0 {
				want = c20DirectCount(qa, rows)
			}
			for _, r := range rows {
				in.s.Emit(r)
			}
			quiet := in.quiesce(want, len(rows))
			// rows handed to the sink must still read as they did at delivery
			stable := true
			in.mu.Lock()
			for i, b := range in.batches {
				if strings.Join(c20Canon(b), "|") != strings.Join(in.snaps[i], "|") {
					stable = false
				}
			}
			in.mu.Unlock()
			in.s.Stop()
			lines := [][]string{append([]string{"after"}, c20RowsTok(rows)...), {"sinkrows", btok(stable)}}
			if !quiet {
				lines = append(lines, []string{"not-quiescent"})
			}
			out = append(out, lines)
		case "paired":
			ra, rest := c20DecRows(op[1:])
			rb, rest := c20DecRows(rest)
			bits := rest[0]
			soloA, okA := c20RunSoloFresh(qa, ra)
			soloB, okB := c20RunSoloFresh(qb, rb)
			temp := ""
			if len(rest) >= 2 {
				temp = rest[1]
			}
			var pa, pb []string
			if temp == "fresh" {
				// the paired run too in a process of its own: nothing an earlier case evaluated is remembered
				var okP bool
				pa, pb, okP = c20RunPairedFresh(qa, qb, ra, rb, bits)
				okA, okB = okA && okP, okB && okP
			} else {
				if temp != "warm" {
					functions.VerifResetExprCaches()
				}
				var okPA, okPB bool
				pa, pb, okPA, okPB = c20RunPaired(qa, qb, ra, rb, bits)
				okA, okB = okA && okPA, okB && okPB
			}
			lines := [][]string{{"pairedA", btok(strings.Join(pa, "\n") == strings.Join(soloA, "\n"))},
				{"pairedB", btok(strings.Join(pb, "\n") == strings.Join(soloB, "\n"))}}
			if !okA || !okB {
				lines = append(lines, []string{"not-quiescent"})
			}
			out = append(out, lines)
		default:
			out = append(out, [][]string{{"bad-op"}})
		}
	}
	return out
}
