package main

import (
	"fmt"
	"math/rand"
	"strings"
	"time"

	"github.com/rulego/streamsql/rsql"
)

// totalObs: rsql.Parse under recover with a per-call timeout. `done` = it returned (a configuration or
// an error); anything else is a totality failure. This is a search for panics and hangs, not a proof.
func totalObs(sql string) [][]string {
	type res struct {
		panicked string
	}
	ch := make(chan res, 1)
	go func() {
		defer func() {
			if r := recover(); r != nil {
				ch <- res{fmt.Sprint(r)}
			}
		}()
		_, _, _ = rsql.Parse(sql)
		ch <- res{}
	}()
	select {
	case r := <-ch:
		if r.panicked != "" {
			return [][]string{{"panic", hx(r.panicked)}}
		}
		return [][]string{{"done"}}
	case <-time.After(10 * time.Second):
		return [][]string{{"timeout"}}
	}
}

var soupWords = []string{"SELECT", "FROM", "WHERE", "GROUP", "BY", "HAVING", "ORDER", "LIMIT", "WITH", "AS", "DISTINCT", "AND", "OR", "NOT",
	"LIKE", "IS", "NULL", "CASE", "WHEN", "THEN", "ELSE", "END", "OVER", "PARTITION", "GLOBAL", "WINDOW", "TRIGGER", "JOIN", "LEFT", "INNER", "ON",
	"MATCH_RECOGNIZE", "PATTERN", "DEFINE", "MEASURES", "TumblingWindow", "SlidingWindow", "CountingWindow", "SessionWindow",
	"TIMESTAMP", "TIMEUNIT", "ASC", "DESC", "a", "b", "s", "t.x", "SUM", "COUNT", "lag", "upper", "*", ",", "(", ")", "(", ")", "=", "==", "!=", ">", "<=", "+", "-",
	"1", "-1", "2.5", "'x'", "'5s'", "\"q\"", "`id`", "[", "]", ".", "?", "|", "{", "}", "'", "`", "!", "%", "\x00"}

func randSoup(rng *rand.Rand) string {
	n := rng.Intn(30)
	var sb strings.Builder
	for i := 0; i < n; i++ {
		sb.WriteString(soupWords[rng.Intn(len(soupWords))])
		if rng.Intn(5) > 0 {
			sb.WriteByte(' ')
		}
	}
	return sb.String()
}

// mutateStmt damages a valid statement: token deletion / duplication / swap / keyword insertion,
// truncation, byte insertion, clause repetition.
func mutateStmt(rng *rand.Rand) string {
	st := genStmt(rng)
	toks := append([]srcTok{}, st.toks...)
	nm := 1 + rng.Intn(3)
	for m := 0; m < nm && len(toks) > 1; m++ {
		i := rng.Intn(len(toks))
		switch rng.Intn(6) {
		case 5: // nest a call: f ( … )  →  f ( f ( … ) ), closing parenthesis at the end of the clause text
			fromEnd := rng.Intn(2) == 0 // prefer the last call of the statement half of the time
			for j := 0; j+1 < len(toks); j++ {
				k := (i + j) % (len(toks) - 1)
				if fromEnd {
					k = len(toks) - 2 - j
				}
				if toks[k].kind == "w" && toks[k+1].kind == "o" && toks[k+1].op == "lparen" {
					ins := []srcTok{toks[k], opT("lparen")}
					toks = append(toks[:k], append(ins, toks[k:]...)...)
					// close it after the matching parenthesis of the inner call
					depth, end := 0, len(toks)
					for e := k + 3; e < len(toks); e++ {
						if toks[e].kind == "o" && toks[e].op == "lparen" {
							depth++
						} else if toks[e].kind == "o" && toks[e].op == "rparen" {
							depth--
							if depth == 0 {
								end = e + 1
								break
							}
						}
					}
					toks = append(toks[:end], append([]srcTok{opT("rparen")}, toks[end:]...)...)
					break
				}
			}
		case 0:
			toks = append(toks[:i], toks[i+1:]...)
		case 1:
			toks = append(toks[:i+1], toks[i:]...)
		case 2:
			j := rng.Intn(len(toks))
			toks[i], toks[j] = toks[j], toks[i]
		case 3:
			ins := kwT(soupWords[rng.Intn(44)])
			toks = append(toks[:i], append([]srcTok{ins}, toks[i:]...)...)
		default:
			toks = append(toks, toks[i:]...) // repeat the tail (duplicate clauses)
		}
	}
	s := renderStmt(rng, toks, rng.Intn(5))
	switch rng.Intn(6) {
	case 0:
		if len(s) > 0 {
			s = s[:rng.Intn(len(s))]
		}
	case 1:
		if len(s) > 0 {
			i := rng.Intn(len(s))
			s = s[:i] + string([]byte{byte(rng.Intn(256))}) + s[i:]
		}
	}
	return s
}

func stress(rng *rand.Rand) string {
	n := 50 + rng.Intn(400)
	switch rng.Intn(6) {
	case 0: // more select fields than MaxSelectFields
		return "SELECT " + strings.Repeat("a, ", n) + "a FROM s"
	case 1: // deep parentheses
		return "SELECT " + strings.Repeat("(", n) + "a" + strings.Repeat(")", n) + " FROM s"
	case 2: // long predicate (iteration bound of parseWhere)
		return "SELECT a FROM s WHERE " + strings.Repeat("a > 1 AND ", n) + "a > 1"
	case 3: // unbalanced
		return "SELECT upper(" + strings.Repeat("upper(", n) + "a FROM s GROUP BY " + strings.Repeat("a, ", n)
	case 4:
		return "SELECT a FROM s GROUP BY a, TumblingWindow(" + strings.Repeat("'5s',", n)
	default:
		return "SELECT a FROM s ORDER BY " + strings.Repeat("a DESC, ", n) + " LIMIT " + strings.Repeat("9", n)
	}
}

// compactErr: statements that are well-formed except for ONE semantic error (unknown function,
// wrong argument count), written compactly and with long argument lists / operator chains — the
// error-reporting paths (context formatting, position arithmetic on re-joined clause text).
func c11CompactErr(rng *rand.Rand) string {
	names := []string{"myudf", "f", "nosuchfn", "abs", "upper", "concat", "zz9"}
	name := names[rng.Intn(len(names))]
	n := 1 + rng.Intn(16)
	args := make([]string, n)
	for i := range args {
		args[i] = []string{"a", "b", "c", "1", "'x'", "t.y", "-2", "2.5"}[rng.Intn(8)]
	}
	call := name + "(" + strings.Join(args, ",") + ")"
	sp := func() string { // optional blank
		if rng.Intn(4) == 0 {
			return " "
		}
		return ""
	}
	switch rng.Intn(7) {
	case 0:
		return "SELECT " + call + " FROM t"
	case 1:
		return "SELECT * FROM t WHERE " + name + "(0)" + strings.Repeat(sp()+"="+sp()+"1", n)
	case 2:
		return "SELECT a+b*" + call + strings.Repeat("+c", n) + " AS r FROM t"
	case 3:
		return "SELECT a,COUNT(*) AS c FROM t GROUP BY a,CountingWindow(3) HAVING " + call + ">1"
	case 4:
		return "SELECT a FROM t WHERE a>1 AND " + call + "=" + call + " ORDER BY a LIMIT 1"
	case 5:
		return "SELECT CASE WHEN " + call + ">0 THEN 1 ELSE 0 END AS r,b FROM t"
	default:
		return "SELECT " + call + "," + call + " FROM t WHERE " + call + strings.Repeat(sp()+"AND"+" a>1", n%4)
	}
}

func genTotalCase(rng *rand.Rand, tier string) Case {
	var c Case
	c.Cfg = append(c.Cfg, []string{"kind", "totality"})
	seen := map[string]bool{}
	stat := func(s string) {
		if !seen[s] {
			seen[s] = true
			c.Stat = append(c.Stat, s)
		}
	}
	for i := 0; i < 50; i++ {
		var s string
		switch k := rng.Intn(24); {
		case k >= 20:
			s = c11CompactErr(rng)
			stat("total-single-error-compact")
		case k < 4:
			s = randBytes(rng)
			stat("total-random-bytes")
		case k < 9:
			s = randSoup(rng)
			stat("total-token-soup")
		case k < 19:
			s = mutateStmt(rng)
			stat("total-mutated-statement")
		default:
			s = stress(rng)
			stat("total-stress")
		}
		c.Ops = append(c.Ops, []string{"total", hx(s)})
	}
	return c
}
