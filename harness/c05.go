package main

import (
	"fmt"
	"math/rand"
	"strconv"
	"strings"
	"sync"
	"time"

	"github.com/rulego/streamsql"
	"github.com/rulego/streamsql/functions"
	"github.com/rulego/streamsql/utils/fieldpath"
)

// C05 — non-aggregate queries are a stateless, ordered, row-wise filter and projection.
//
// One case = one query (cfg item…/where) and a history of rows.  Per row the same instance (which has
// seen all earlier rows) answers through EmitSync and a fresh instance answers for the row alone.
// `async` replays the whole history through Emit with two synchronous sinks and a reader of
// ToChannel(); `full` does the same with a tiny, unread result channel.  No sleeps: the number of
// deliveries to wait for comes from the EmitSync answers, a final sentinel row that satisfies WHERE
// by construction closes the sequence; time-outs only end a run that is already wrong.
type c05 struct{}

func init() { registry["C05"] = c05{} }

func (c05) Count(tier string) int {
	if tier == "thorough" {
		return 2500
	}
	return 130
}

func c05BuildSQL(items []c05PItem, w *c05PWhere) string {
	parts := make([]string, len(items))
	for i, it := range items {
		parts[i] = it.sql()
	}
	s := "SELECT " + strings.Join(parts, ", ") + " FROM stream"
	if w != nil {
		s += " WHERE " + w.sql()
	}
	return s
}

func (c05) Gen(rng *rand.Rand, tier string, idx int) Case {
	var c Case
	tmpl := c05GenTemplate(rng)
	var items []c05PItem
	if rng.Intn(10) == 0 {
		items = []c05PItem{{kind: "star"}}
		c.Stat = append(c.Stat, "select-star")
	} else {
		n := 1 + rng.Intn(5)
		seen := map[string]bool{}
		for len(items) < n {
			it := c05GenItem(rng, tmpl)
			if seen[it.outName()] && rng.Intn(4) > 0 { // duplicates of an output name are rare on purpose
				continue
			}
			seen[it.outName()] = true
			items = append(items, it)
			c.Stat = append(c.Stat, "item-"+it.kind)
		}
	}
	var w *c05PWhere
	if rng.Intn(10) < 7 {
		w = c05GenWhere(rng, tmpl)
		c.Stat = append(c.Stat, "where-op"+w.op)
	}
	for _, it := range items {
		c.Cfg = append(c.Cfg, it.tokens())
	}
	c.Cfg = append(c.Cfg, w.tokens())
	if w != nil && rng.Intn(4) == 0 {
		// the WHERE column goes through a custom identity function that is registered at run time, right before this
		// case's first Execute (earlier queries of the process have long been compiled): the filter must know it
		c.Cfg = append(c.Cfg, []string{"wherefn", "1"})
		c.Stat = append(c.Stat, "where-through-runtime-registered-function")
	}
	c.Cfg = append(c.Cfg, []string{"sql", hx(c05BuildSQL(items, w))})
	nrows := 3 + rng.Intn(8)
	for i := 0; i < nrows; i++ {
		var row map[string]interface{}
		if rng.Intn(5) == 0 {
			row = c05GenTemplate(rng)
		} else {
			row = c05MutateValue(rng, tmpl, 3).(map[string]interface{})
		}
		if w == nil && rng.Intn(8) == 0 {
			row = map[string]interface{}{} // a row without any field (SELECT * then yields a result with no column)
			c.Stat = append(c.Stat, "row-empty")
		}
		c.Stat = append(c.Stat, c05ApplyWhereColumn(rng, w, row))
		c.Ops = append(c.Ops, append([]string{"row"}, c05EncRow(row)...))
	}
	sent := c05CopyRow(tmpl)
	if w != nil {
		c05SetPath(sent, w.col, c05Satisfying(w), false)
	}
	c.Ops = append(c.Ops, append([]string{"async"}, c05EncRow(sent)...))
	c.Ops = append(c.Ops, append([]string{"full", strconv.Itoa(1 + rng.Intn(3))}, c05EncRow(sent)...))
	// the field-path resolver on its own (exported API): structured paths incl. negative subscripts,
	// then raw path strings that reach the parser's error / fallback branches
	for i := 0; i < 4; i++ {
		comps := c05GenPath(rng, tmpl, true)
		var data interface{} = c05MutateValue(rng, tmpl, 3)
		if rng.Intn(6) == 0 {
			data = c05GenValue(rng, 2)
		}
		op := append([]string{"path"}, c05CompTokens(comps)...)
		c.Ops = append(c.Ops, c05EncValue(data, op))
		if i%2 == 1 {
			// the same lookup on the same value held in typed Go containers (map[string]int, []string, pointers to containers, …)
			c.Ops = append(c.Ops, c05EncValue(data, append([]string{"tpath"}, c05CompTokens(comps)...)))
			// … and lookups in a value whose containers are mostly of one element kind
			hd := map[string]interface{}{}
			for _, col := range c05TopCols {
				hd[col] = c05GenHomog(rng, 2)
			}
			for j := 0; j < 3; j++ {
				c.Ops = append(c.Ops, c05EncValue(hd, append([]string{"tpath"}, c05CompTokens(c05GenPath(rng, hd, true))...)))
			}
			c.Stat = append(c.Stat, "path-typed-containers")
		}
	}
	for i := 0; i < 2; i++ {
		raw := c05RawPaths[rng.Intn(len(c05RawPaths))]
		if rng.Intn(3) == 0 {
			raw = c05PItem{kind: "path", comps: c05GenPath(rng, tmpl, true)}.srcSQL() + []string{"", ".", "[", "]", "[x]", "['", "xyz", ".."}[rng.Intn(8)]
		}
		c.Ops = append(c.Ops, c05EncValue(c05MutateValue(rng, tmpl, 3), []string{"rawpath", hx(raw)}))
	}
	return c
}

var c05RawPaths = []string{"", "a[x]", "a[", "a..b", ".a", "a.", "[0]", "a[ 1 ]", "a[\"k\"]", "a[+1]", "a[007]", "a[']", "a[\"]", "a['k\"]",
	"a[0]x.b", "a[-0]", "a['k'", "b[1][", "a.b[c].d", "c['']", "a[ 'k' ]", "a[9223372036854775808]", "a[-9223372036854775808]", "a[1_0]", ".", "a[]", "a['b.c']", "d[0].[1]"}

func c05PathRes(data interface{}, path string) (res []string) {
	defer func() {
		if r := recover(); r != nil {
			res = []string{"panic"}
		}
	}()
	v, ok := fieldpath.GetNestedField(data, path)
	if !ok {
		return []string{"missing"}
	}
	return c05EncValue(v, []string{"found"})
}

func c05PathResTyped(data interface{}, path string) (res []string) {
	defer func() {
		if r := recover(); r != nil {
			res = []string{"panic"}
		}
	}()
	v, ok := fieldpath.GetNestedField(data, path)
	if !ok {
		return []string{"missing"}
	}
	return c05EncValue(c05Untypify(v), []string{"found"})
}

func c05SyncRes(s *streamsql.Streamsql, row map[string]interface{}) (res []string) {
	defer func() {
		if r := recover(); r != nil {
			res = []string{"panic"}
		}
	}()
	out, err := s.EmitSync(row)
	if err != nil {
		return []string{"err", hx(err.Error())}
	}
	if out == nil {
		return []string{"none"}
	}
	return c05EncRow(out)
}

func c05BatchToks(b []map[string]interface{}) []string {
	t := []string{strconv.Itoa(len(b))}
	for _, r := range b {
		t = append(t, c05EncRow(r)...)
	}
	return t
}

// c05AsyncRun feeds rows through Emit and returns the sink log and the channel batches.
// want = number of batches to wait for; read=false leaves the result channel unread until the end.
func c05AsyncRun(sql string, rows []map[string]interface{}, want int, nSinks int, chanCap int, read bool) (sinkLog [][]string, chanLog [][]string, err error) {
	var s *streamsql.Streamsql
	if chanCap > 0 {
		s = streamsql.New(presetOpt(), streamsql.WithDiscardLog(), streamsql.WithBufferSizes(1000, chanCap, 50))
	} else {
		s = streamsql.New(presetOpt(), streamsql.WithDiscardLog())
	}
	defer s.Stop()
	if err = s.Execute(sql); err != nil {
		return nil, nil, err
	}
	var mu sync.Mutex
	count0 := 0
	sinkDone := make(chan struct{}, 1)
	for i := 0; i < nSinks; i++ {
		id := i
		s.AddSyncSink(func(b []map[string]interface{}) {
			mu.Lock()
			sinkLog = append(sinkLog, append([]string{"sink", strconv.Itoa(id)}, c05BatchToks(b)...))
			if id == nSinks-1 {
				count0++
				if count0 == want {
					select {
					case sinkDone <- struct{}{}:
					default:
					}
				}
			}
			mu.Unlock()
		})
	}
	ch := s.ToChannel()
	readerDone := make(chan struct{})
	stopReader := make(chan struct{})
	if read {
		go func() {
			defer close(readerDone)
			n := 0
			for n < want {
				select {
				case b := <-ch:
					mu.Lock()
					chanLog = append(chanLog, append([]string{"chan"}, c05BatchToks(b)...))
					mu.Unlock()
					n++
				case <-stopReader:
					return
				}
			}
		}()
	}
	for _, r := range rows {
		s.Emit(r)
	}
	deadline := time.Now().Add(5 * time.Second)
	select {
	case <-sinkDone:
	case <-time.After(time.Until(deadline)):
	}
	if read {
		select {
		case <-readerDone:
		case <-time.After(time.Until(deadline) + 100*time.Millisecond):
			close(stopReader)
			<-readerDone
		}
	} else {
	drain:
		for {
			select {
			case b := <-ch:
				chanLog = append(chanLog, append([]string{"chan"}, c05BatchToks(b)...))
			default:
				break drain
			}
		}
	}
	mu.Lock()
	defer mu.Unlock()
	return append([][]string(nil), sinkLog...), append([][]string(nil), chanLog...), nil
}

var c05FnSeq int

func (c05) Exec(c Case) [][][]string {
	var items []c05PItem
	var w *c05PWhere
	for _, l := range c.Cfg {
		switch l[0] {
		case "item":
			items = append(items, c05ParseItemTokens(l[1:]))
		case "where":
			w = c05ParseWhereTokens(l[1:])
		}
	}
	sql := c05BuildSQL(items, w)
	if w != nil && c04CfgVal(c, "wherefn", "0") == "1" {
		// some query has been compiled in this process before the function exists (also when the case is replayed alone)
		pre := streamsql.New(presetOpt(), streamsql.WithDiscardLog())
		_ = pre.Execute("SELECT a FROM stream WHERE abs(a) >= 0")
		pre.Stop()
		c05FnSeq++
		name := fmt.Sprintf("zzid%d", c05FnSeq)
		// … and a statement that calls the function was rejected while the function did not exist yet
		early := streamsql.New(streamsql.WithDiscardLog())
		_ = early.Execute("SELECT a FROM stream WHERE " + name + "(a) >= 0")
		early.Stop()
		_ = functions.RegisterCustomFunction(name, functions.TypeCustom, "verif", "identity", 1, 1,
			func(ctx *functions.FunctionContext, args []interface{}) (interface{}, error) { return args[0], nil })
		defer functions.Unregister(name)
		s := "SELECT "
		parts := make([]string, len(items))
		for i, it := range items {
			parts[i] = it.sql()
		}
		sql = s + strings.Join(parts, ", ") + " FROM stream WHERE " + name + "(" + strings.Join(w.col, ".") + ") " + w.op + " " + c05LitSQL(w.lit)
	}
	hist := streamsql.New(presetOpt(), streamsql.WithDiscardLog())
	defer hist.Stop()
	execErr := hist.Execute(sql)
	// the instance that answers through EmitSync has one synchronous sink and no other: what the sink is handed during
	// a call is the row the call returns (sync sinks run inline, so the log is complete when EmitSync returns)
	var histSink [][]map[string]interface{}
	if execErr == nil {
		hist.AddSyncSink(func(b []map[string]interface{}) {
			cp := make([]map[string]interface{}, len(b))
			copy(cp, b)
			histSink = append(histSink, cp)
		})
	}
	var out [][][]string
	var rows []map[string]interface{}
	passed := 0
	for _, op := range c.Ops {
		switch op[0] {
		case "row":
			if execErr != nil {
				out = append(out, [][]string{{"sync", "execerr"}, {"alone", "execerr"}})
				continue
			}
			rows = append(rows, c05DecRow(op[1:]))
			histSink = nil
			r1 := c05SyncRes(hist, c05DecRow(op[1:]))
			if r1[0] != "none" {
				passed++
			}
			ss := []string{"ssink", "none"}
			if len(histSink) == 1 && len(histSink[0]) == 1 {
				ss = append([]string{"ssink"}, c05EncRow(histSink[0][0])...)
			} else if len(histSink) > 0 {
				ss = []string{"ssink", "odd", strconv.Itoa(len(histSink))}
			}
			fresh := streamsql.New(presetOpt(), streamsql.WithDiscardLog())
			var r2 []string
			if err := fresh.Execute(sql); err != nil {
				r2 = []string{"execerr"}
			} else {
				r2 = c05SyncRes(fresh, c05DecRow(op[1:]))
			}
			fresh.Stop()
			out = append(out, [][]string{append([]string{"sync"}, r1...), append([]string{"alone"}, r2...), ss})
		case "async", "full":
			if execErr != nil {
				out = append(out, [][]string{{"execerr"}})
				continue
			}
			capN, rowToks, nSinks, read := 0, op[1:], 2, true
			if op[0] == "full" {
				capN, _ = strconv.Atoi(op[1])
				rowToks, nSinks, read = op[2:], 1, false
			}
			all := make([]map[string]interface{}, 0, len(rows)+1)
			for _, r := range rows {
				all = append(all, c05CopyRow(r))
			}
			all = append(all, c05DecRow(rowToks))
			// the sentinel closes the sequence only if it passes WHERE (it does by construction)
			probe := streamsql.New(presetOpt(), streamsql.WithDiscardLog())
			if err := probe.Execute(sql); err == nil {
				pr := c05SyncRes(probe, c05DecRow(rowToks))
				probe.Stop()
				if pr[0] == "none" || pr[0] == "err" || pr[0] == "panic" {
					out = append(out, [][]string{{"sentinel-filtered"}})
					continue
				}
			} else {
				probe.Stop()
			}
			sl, cl, err := c05AsyncRun(sql, all, passed+1, nSinks, capN, read)
			if err != nil {
				out = append(out, [][]string{{"execerr"}})
				continue
			}
			if op[0] == "full" {
				sl = nil // the sink only served as the barrier
			}
			lines := append(sl, cl...)
			if len(lines) == 0 {
				lines = [][]string{}
			}
			out = append(out, lines)
		case "path":
			comps, rest := c05ParseCompTokens(op[1:])
			data, _ := c05DecValue(rest)
			out = append(out, [][]string{c05PathRes(data, c05PItem{kind: "path", comps: comps}.srcSQL())})
		case "tpath":
			comps, rest := c05ParseCompTokens(op[1:])
			data, _ := c05DecValue(rest)
			out = append(out, [][]string{c05PathResTyped(c05Typify(data), c05PItem{kind: "path", comps: comps}.srcSQL())})
		case "rawpath":
			data, _ := c05DecValue(op[2:])
			out = append(out, [][]string{c05PathRes(data, unhx(op[1]))})
		default:
			out = append(out, [][]string{{"bad-op", fmt.Sprint(op)}})
		}
	}
	return out
}
