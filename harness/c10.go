package main

import (
	"math/rand"
	"strconv"
)

// C10 — session windows split a key's events at gaps above the timeout, each event once.
type c10 struct{}

func init() { registry["C10"] = c10{} }

func (c10) Count(tier string) int {
	if tier == "thorough" {
		return 4000
	}
	return 400
}

// genSessionOps: per-key timestamp sequences with dense bursts and gaps just below / at / above the
// timeout; mostly in order per key, sometimes out of order within the tolerance.
func genSessionOps(rng *rand.Rand, c *Case, timeout, ooo int64, keys []string, late bool) {
	nextID := 1
	n := 8 + rng.Intn(28)
	clock := tsBase // global event-time front
	inOrder := rng.Intn(3) > 0
	if inOrder {
		c.Stat = append(c.Stat, "in-order-input")
	} else {
		c.Stat = append(c.Stat, "out-of-order-input")
	}
	mkTs := func() int64 {
		switch rng.Intn(8) {
		case 0:
			clock += timeout - 1
		case 1:
			clock += timeout
		case 2:
			clock += timeout + 1
		case 3:
			clock += 3*timeout + rng.Int63n(timeout+1)
		default:
			clock += rng.Int63n(timeout/2 + 1)
		}
		if !inOrder && rng.Intn(3) == 0 {
			back := rng.Int63n(ooo + timeout + 1)
			if late && rng.Intn(2) == 0 {
				back = ooo + rng.Int63n(3*timeout+1)
			}
			t := clock - back
			if t < tsBase {
				t = tsBase
			}
			return t
		}
		return clock
	}
	addOp := func(ts string) []string {
		op := []string{"add", strconv.Itoa(nextID), ts, hx(keys[rng.Intn(len(keys))])}
		nextID++
		return op
	}
	manual := rng.Intn(5) == 0 // cases with manual flushes (TriggerWindow) between the Adds
	if manual {
		c.Stat = append(c.Stat, "manual-trigger")
	}
	for i := 0; i < n; i++ {
		if manual && rng.Intn(6) == 0 {
			// flush while sessions are open, then more rows of the same keys close by: they start fresh sessions
			c.Ops = append(c.Ops, []string{"trigger"})
			for j := 0; j < 2+rng.Intn(2); j++ {
				clock += rng.Int63n(timeout/2 + 1)
				c.Ops = append(c.Ops, addOp(itoa(clock)))
			}
			continue
		}
		if late && rng.Intn(12) == 0 {
			// two sessions of ONE key fired one after the other, both still inside the allowance when it is long enough;
			// then late rows for the older and for the newer of the two
			k := hx(keys[rng.Intn(len(keys))])
			t1 := clock + 2*timeout
			put := func(ts int64) {
				c.Ops = append(c.Ops, []string{"add", strconv.Itoa(nextID), itoa(ts), k})
				nextID++
			}
			if rng.Intn(2) == 0 {
				// a ladder: each row fires the session before it, so the key's own map key is free again when the next
				// session starts and is reused by a later fired session while the earlier ones are still open for late rows
				steps := 3 + rng.Intn(2)
				for j := 0; j < steps; j++ {
					put(t1 + int64(j)*(2*timeout+ooo))
					c.Ops = append(c.Ops, []string{"drain"})
				}
				clock = t1 + int64(steps-1)*(2*timeout+ooo)
				for j := 0; j < steps-1; j++ {
					if rng.Intn(3) > 0 {
						put(t1 + int64(j)*(2*timeout+ooo) + rng.Int63n(timeout))
					}
				}
				c.Stat = append(c.Stat, "late-rows-after-map-key-reuse")
				continue
			}
			put(t1)
			put(t1 + 2*timeout)
			clock = t1 + 4*timeout + ooo
			put(clock)
			c.Ops = append(c.Ops, []string{"drain"})
			put(t1 + rng.Int63n(timeout))
			if rng.Intn(2) == 0 {
				put(t1 + 2*timeout + rng.Int63n(timeout))
			}
			c.Stat = append(c.Stat, "late-row-of-older-fired-session")
			continue
		}
		switch r := rng.Intn(100); {
		case r < 64:
			c.Ops = append(c.Ops, addOp(itoa(mkTs())))
		case r < 67:
			c.Ops = append(c.Ops, addOp("none"))
		case r < 69:
			c.Ops = append(c.Ops, addOp(itoa(farFuture+int64(rng.Intn(1000)))))
		case r < 72:
			c.Ops = append(c.Ops, []string{"tick"})
		case r < 90:
			op := []string{"deliver"}
			if rng.Intn(4) == 0 {
				g := strconv.Itoa(rng.Intn(2)) + ":" + strconv.Itoa(nextID) + ":" + itoa(mkTs()) + ":" + hx(keys[rng.Intn(len(keys))])
				nextID++
				op = append(op, g)
				c.Stat = append(c.Stat, "gap-add")
			}
			c.Ops = append(c.Ops, op)
		default:
			c.Ops = append(c.Ops, []string{"drain"})
		}
	}
	c.Ops = append(c.Ops, addOp(itoa(clock+50*timeout+ooo)))
	c.Ops = append(c.Ops, []string{"drain"}, []string{"tick"}, []string{"drain"})
}

func (p c10) Gen(rng *rand.Rand, tier string, idx int) Case {
	return maybeReset(rng, p.gen0(rng, tier, idx))
}

func (c10) gen0(rng *rand.Rand, tier string, idx int) Case {
	var c Case
	if idx%12 == 10 {
		// IDLETIMEOUT: idle and busy ticker updates between the rows (forced, natural, live timestamps)
		return idleCase(rng, "session")
	}
	if idx%12 == 11 {
		to := []int64{1000, 500, 1500, 90000}[rng.Intn(4)]
		c.Cfg = [][]string{{"kind", "sqlsession"}, {"timeout", itoa(to)}, {"ooo", "0"}, {"late", "0"}, {"now", "0"}, {"spell", []string{"ms", "go"}[rng.Intn(2)]}}
		genSQLSession(rng, &c, to)
		maybeWinAPI(rng, &c)
		return c
	}
	timeouts := []int64{10, 1000, 1_000_000_000, 3}
	timeout := timeouts[rng.Intn(len(timeouts))]
	oooChoices := []int64{0, 0, timeout / 2, timeout, 3 * timeout}
	ooo := oooChoices[rng.Intn(len(oooChoices))]
	keysets := [][]string{{"a"}, {"a", "b"}, {"a", "b", "c"}}
	keys := keysets[rng.Intn(len(keysets))]
	c.Cfg = [][]string{{"kind", "session"}, {"mode", "et"}, {"timeout", itoa(timeout)}, {"ooo", itoa(ooo)}, {"late", "0"}, {"groupby", "k"}, {"now", "0"}}
	genSessionOps(rng, &c, timeout, ooo, keys, false)
	c.Stat = append(c.Stat, "keys="+strconv.Itoa(len(keys)))
	return c
}

func (c10) Exec(c Case) [][][]string {
	if isSQLWindowCase(c) {
		return execSQLWindow(c)
	}
	return execWindow(c)
}

// genSQLSession: in-order input (MAXOUTOFORDERNESS 0) over 1-3 keys with gaps below / at / above the timeout.
func genSQLSession(rng *rand.Rand, c *Case, timeout int64) {
	clock := int64(1_000_000_000)
	keys := []string{"a", "b", "c"}[:1+rng.Intn(3)]
	n := 8 + rng.Intn(25)
	id := 1
	for i := 0; i < n; i++ {
		switch rng.Intn(7) {
		case 0:
			clock += timeout - 1
		case 1:
			clock += timeout
		case 2:
			clock += timeout + 1
		case 3:
			clock += 3 * timeout
		default:
			clock += rng.Int63n(timeout/2 + 1)
		}
		c.Ops = append(c.Ops, []string{"row", strconv.Itoa(id), itoa(clock), hx(keys[rng.Intn(len(keys))])})
		id++
	}
	c.Ops = append(c.Ops, []string{"row", strconv.Itoa(id), itoa(clock + 40*timeout), hx("zz")})
	c.Ops = append(c.Ops, []string{"row", strconv.Itoa(id + 1), itoa(clock + 80*timeout), hx("zz")})
	c.Ops = append(c.Ops, []string{"flush"})
	c.Stat = append(c.Stat, "sql-level", "in-order-input")
}
