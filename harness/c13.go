package main

import (
	"fmt"
	"math/rand"
	"strings"
	"time"

	"github.com/rulego/streamsql/condition"
	"github.com/rulego/streamsql/expr"
	"github.com/rulego/streamsql/functions"
)

// C13 — LIKE and IS [NOT] NULL on every evaluation path.
type c13 struct{}

func init() { registry["C13"] = c13{} }

var likeAlpha = []byte{'a', 'b', '.', '%', '_', 'A', 'B'} // upper-case twins: LIKE is case-sensitive, and nothing keyed by a case-folded text may mix two patterns up

func (c13) Count(tier string) int {
	if tier == "thorough" {
		return 6000
	}
	return 300
}

func randWord(rng *rand.Rand, maxLen int) string {
	n := rng.Intn(maxLen + 1)
	b := make([]byte, n)
	for i := range b {
		b[i] = likeAlpha[rng.Intn(len(likeAlpha))]
	}
	return string(b)
}

// textFor expands a pattern into a text that matches it by definition, then
// optionally perturbs it, so that matches and near-misses are both frequent.
func textFor(rng *rand.Rand, p string) string {
	var sb strings.Builder
	for i := 0; i < len(p); i++ {
		switch p[i] {
		case '%':
			sb.WriteString(randWord(rng, 2))
		case '_':
			sb.WriteByte(likeAlpha[rng.Intn(len(likeAlpha))])
		default:
			sb.WriteByte(p[i])
		}
	}
	t := []byte(sb.String())
	switch rng.Intn(4) {
	case 0: // mutate one byte
		if len(t) > 0 {
			t[rng.Intn(len(t))] = likeAlpha[rng.Intn(len(likeAlpha))]
		}
	case 1: // drop or add a byte
		if len(t) > 0 && rng.Intn(2) == 0 {
			i := rng.Intn(len(t))
			t = append(t[:i], t[i+1:]...)
		} else {
			t = append(t, likeAlpha[rng.Intn(len(likeAlpha))])
		}
	}
	return string(t)
}

func (c13) Gen(rng *rand.Rand, tier string, idx int) Case {
	var c Case
	nops := 24
	for i := 0; i < nops; i++ {
		p := randWord(rng, 5)
		if rng.Intn(5) == 0 { // runs of wildcards at the ends
			p = strings.Repeat("%", rng.Intn(3)) + randWord(rng, 3) + strings.Repeat("%", rng.Intn(3))
		}
		t := randWord(rng, 6)
		if rng.Intn(3) > 0 {
			t = textFor(rng, p)
		}
		switch k := rng.Intn(16); {
		case k < 9:
			which := []string{"cond", "expr", "bridge"}[k%3]
			c.Ops = append(c.Ops, []string{"like", which, hx(t), hx(p)})
		case k < 11:
			c.Ops = append(c.Ops, []string{"conv", hx(p)})
		case k < 14:
			pos := []string{"where", "case", "having", "select", "select", "where1", "where2", "case2", "select2"}[rng.Intn(9)]
			c.Ops = append(c.Ops, []string{"sql", pos, hx(t), hx(p)})
			if pos == "select" && rng.Intn(2) == 0 {
				// the case twin of the pattern right behind it, on the same text
				c.Ops = append(c.Ops, []string{"sql", pos, hx(t), hx(swapCase(p))})
			}
			if rng.Intn(3) == 0 {
				// LIKE next to IS [NOT] NULL, on rows where x and y are present, NULL or missing
				pos2 := []string{"casecombo", "havingcombo"}[rng.Intn(2)]
				xc := []string{"p", "p", "n", "m"}[rng.Intn(4)]
				yc := []string{"p", "n", "m"}[rng.Intn(3)]
				if pos2 == "havingcombo" {
					xc = "p" // the group column is present; y decides
				}
				c.Ops = append(c.Ops, []string{"combo", pos2, hx(t), hx(p), xc, yc})
			}
		default:
			path := []string{"where", "case", "fn", "having"}[rng.Intn(4)]
			cell := []string{"m", "n", "p"}[rng.Intn(3)]
			neg := []string{"is", "not"}[rng.Intn(2)]
			c.Ops = append(c.Ops, []string{"isnull", path, cell, neg})
			if rng.Intn(2) == 0 {
				// a function call where a bare column is usual: coalesce(x, y), null_if(x, 'v') (x = 'v' | 'w' | NULL | missing)
				c.Ops = append(c.Ops, []string{"isnullf", []string{"where", "case"}[rng.Intn(2)], []string{"coalesce", "nullif"}[rng.Intn(2)],
					[]string{"m", "n", "p", "q"}[rng.Intn(4)], []string{"m", "n", "p"}[rng.Intn(3)], neg})
			}
		}
	}
	return c
}

// sentinelText: a text matching p by definition (% -> "", _ -> "a").
func sentinelText(p string) string {
	return strings.ReplaceAll(strings.ReplaceAll(p, "%", ""), "_", "a")
}

func sawMid(id string) func([][]map[string]interface{}) bool {
	return func(got [][]map[string]interface{}) bool {
		for _, b := range got {
			for _, r := range b {
				if fmt.Sprint(r["mid"]) == id {
					return true
				}
			}
		}
		return false
	}
}

func swapCase(s string) string {
	b := []byte(s)
	for i, ch := range b {
		if ch >= 'a' && ch <= 'z' {
			b[i] = ch - 32
		} else if ch >= 'A' && ch <= 'Z' {
			b[i] = ch + 32
		}
	}
	return string(b)
}

func c13Cell(row map[string]interface{}, col, cell, text string) {
	switch cell {
	case "p":
		row[col] = text
	case "n":
		row[col] = nil
	}
}

// sqlCombo: LIKE and IS NULL in one CASE / one HAVING. Results: casecombo L|N|E, havingcombo t|f.
func sqlCombo(pos, t, p, xc, yc string) string {
	row := map[string]interface{}{"id": 1}
	c13Cell(row, "x", xc, t)
	c13Cell(row, "y", yc, "v")
	switch pos {
	case "casecombo":
		out, e1, e2 := runRowQuery("SELECT id, CASE WHEN x LIKE '"+p+"' THEN 'L' WHEN y IS NULL THEN 'N' ELSE 'E' END AS r FROM stream", row)
		if e1 != nil || e2 != nil || out == nil {
			return "err"
		}
		return fmt.Sprint(out["r"])
	case "havingcombo":
		sent := map[string]interface{}{"id": 2, "x": sentinelText(p), "y": "v"}
		sql := "SELECT x, count(*) AS c, max(id) AS mid, last_value(y) AS ly FROM stream GROUP BY x, CountingWindow(1) HAVING x LIKE '" + p + "' AND ly IS NOT NULL"
		got, err := runBatchesUntil(sql, []map[string]interface{}{row, sent}, sawMid("2"), 2*time.Second)
		if err != nil {
			return "err"
		}
		if !sawMid("2")(got) {
			return "sentinel-lost"
		}
		return btok(sawMid("1")(got))
	}
	return "bad-pos"
}

func sqlLike(pos, t, p string) string {
	row := map[string]interface{}{"id": 1, "x": t}
	col := "x"
	// where1 / case2 / …: the operand is a nested column one or two levels down (b.x, a.b.x)
	if n := len(pos); n > 0 && (pos[n-1] == '1' || pos[n-1] == '2') {
		if pos[n-1] == '1' {
			row, col = map[string]interface{}{"id": 1, "b": map[string]interface{}{"x": t}}, "b.x"
		} else {
			row, col = map[string]interface{}{"id": 1, "a": map[string]interface{}{"b": map[string]interface{}{"x": t}}}, "a.b.x"
		}
		pos = pos[:n-1]
		switch pos {
		case "select":
			out, e1, e2 := runRowQuery("SELECT id, ("+col+" LIKE '"+p+"') AS r FROM stream", row)
			if e1 != nil || e2 != nil || out == nil {
				return "err"
			}
			return btok(fmt.Sprint(out["r"]) == "true")
		case "where":
			out, e1, e2 := runRowQuery("SELECT id FROM stream WHERE "+col+" LIKE '"+p+"'", row)
			if e1 != nil || e2 != nil {
				return "err"
			}
			return btok(out != nil)
		case "case":
			out, e1, e2 := runRowQuery("SELECT id, CASE WHEN "+col+" LIKE '"+p+"' THEN 1 ELSE 0 END AS r FROM stream", row)
			if e1 != nil || e2 != nil || out == nil {
				return "err"
			}
			return btok(fmt.Sprint(out["r"]) == "1")
		}
		return "bad-pos"
	}
	switch pos {
	case "select":
		out, e1, e2 := runRowQuery("SELECT id, (x LIKE '"+p+"') AS r FROM stream", row)
		if e1 != nil || e2 != nil || out == nil {
			return "err"
		}
		return btok(fmt.Sprint(out["r"]) == "true")
	case "where":
		out, e1, e2 := runRowQuery("SELECT id FROM stream WHERE x LIKE '"+p+"'", row)
		if e1 != nil || e2 != nil {
			return "err"
		}
		return btok(out != nil)
	case "case":
		out, e1, e2 := runRowQuery("SELECT id, CASE WHEN x LIKE '"+p+"' THEN 1 ELSE 0 END AS r FROM stream", row)
		if e1 != nil || e2 != nil || out == nil {
			return "err"
		}
		return btok(fmt.Sprint(out["r"]) == "1")
	case "having":
		// CountingWindow(1): one batch per row. A sentinel row that matches by definition
		// follows, so "filtered" is observed without waiting for a timeout.
		rows := []map[string]interface{}{row, {"id": 2, "x": sentinelText(p)}}
		got, err := runBatchesUntil("SELECT x, count(*) AS c, max(id) AS mid FROM stream GROUP BY x, CountingWindow(1) HAVING x LIKE '"+p+"'", rows, sawMid("2"), 2*time.Second)
		if err != nil {
			return "err"
		}
		if !sawMid("2")(got) {
			return "sentinel-lost"
		}
		return btok(sawMid("1")(got))
	}
	return "bad-pos"
}

func sqlIsNull(path, cell, neg string) string {
	row := map[string]interface{}{"id": 1}
	switch cell {
	case "n":
		row["x"] = nil
	case "p":
		row["x"] = "v"
	}
	kw := "IS NULL"
	fn := "is_null"
	if neg == "not" {
		kw = "IS NOT NULL"
		fn = "is_not_null"
	}
	switch path {
	case "where":
		out, e1, e2 := runRowQuery("SELECT id FROM stream WHERE x "+kw, row)
		if e1 != nil || e2 != nil {
			return "err"
		}
		return btok(out != nil)
	case "fn":
		out, e1, e2 := runRowQuery("SELECT id FROM stream WHERE "+fn+"(x)", row)
		if e1 != nil || e2 != nil {
			return "err"
		}
		return btok(out != nil)
	case "case":
		out, e1, e2 := runRowQuery("SELECT id, CASE WHEN x "+kw+" THEN 1 ELSE 0 END AS r FROM stream", row)
		if e1 != nil || e2 != nil || out == nil {
			return "err"
		}
		return btok(fmt.Sprint(out["r"]) == "1")
	case "having":
		// sentinel row: x is NULL resp. present, so the predicate is true for it by definition
		sent := map[string]interface{}{"id": 2, "x": "v"}
		if neg == "is" {
			sent = map[string]interface{}{"id": 2, "x": nil}
		}
		sql := "SELECT count(*) AS c, max(id) AS mid, last_value(x) AS lx FROM stream GROUP BY CountingWindow(1) HAVING lx " + kw
		got, err := runBatchesUntil(sql, []map[string]interface{}{row, sent}, sawMid("2"), 2*time.Second)
		if err != nil {
			return "err"
		}
		if !sawMid("2")(got) {
			return "sentinel-lost"
		}
		return btok(sawMid("1")(got))
	}
	return "bad-path"
}

// sqlIsNullFn: IS [NOT] NULL over a function call. x: m missing, n NULL, p 'v', q 'w'; y: m, n, p 'v'.
func sqlIsNullFn(path, fn, xc, yc, neg string) string {
	row := map[string]interface{}{"id": 1}
	switch xc {
	case "n":
		row["x"] = nil
	case "p":
		row["x"] = "v"
	case "q":
		row["x"] = "w"
	}
	c13Cell(row, "y", yc, "v")
	operand := "coalesce(x, y)"
	if fn == "nullif" {
		operand = "null_if(x, 'v')"
	}
	kw := "IS NULL"
	if neg == "not" {
		kw = "IS NOT NULL"
	}
	switch path {
	case "where":
		out, e1, e2 := runRowQuery("SELECT id FROM stream WHERE "+operand+" "+kw, row)
		if e1 != nil || e2 != nil {
			return "err"
		}
		return btok(out != nil)
	case "case":
		out, e1, e2 := runRowQuery("SELECT id, CASE WHEN "+operand+" "+kw+" THEN 1 ELSE 0 END AS r FROM stream", row)
		if e1 != nil || e2 != nil || out == nil {
			return "err"
		}
		return btok(fmt.Sprint(out["r"]) == "1")
	}
	return "bad-path"
}

func (c13) Exec(c Case) [][][]string {
	var out [][][]string
	for _, op := range c.Ops {
		switch op[0] {
		case "like":
			t, p := unhx(op[2]), unhx(op[3])
			var r bool
			switch op[1] {
			case "cond":
				r = condition.VerifMatchesLikePattern(t, p)
			case "expr":
				r = expr.VerifMatchLikePattern(t, p)
			default:
				r = functions.VerifBridgeMatchesLike(t, p)
			}
			out = append(out, [][]string{{"r", btok(r)}})
		case "conv":
			out = append(out, [][]string{{"rw", hx(functions.VerifConvertLike("x", unhx(op[1])))}})
		case "sql":
			out = append(out, [][]string{{"r", sqlLike(op[1], unhx(op[2]), unhx(op[3]))}})
		case "isnull":
			out = append(out, [][]string{{"r", sqlIsNull(op[1], op[2], op[3])}})
		case "isnullf":
			out = append(out, [][]string{{"r", sqlIsNullFn(op[1], op[2], op[3], op[4], op[5])}})
		case "combo":
			out = append(out, [][]string{{"r", sqlCombo(op[1], unhx(op[2]), unhx(op[3]), op[4], op[5])}})
		default:
			out = append(out, [][]string{{"bad-op"}})
		}
	}
	return out
}
