package main

import (
	"fmt"
	"math"
	"math/rand"
	"sort"
	"strconv"
	"strings"
	"time"

	"github.com/rulego/streamsql"
	"github.com/rulego/streamsql/logger"
	"github.com/rulego/streamsql/rsql"
	"github.com/rulego/streamsql/stream"
	"github.com/rulego/streamsql/types"
)

// C07 — post-aggregation clauses apply in relational order to each emitted batch.
//
// One case = one generated query (SQL text + the same query as a structured AST for the Lean
// model) and three batches.  Execution modes:
//
//	direct  rsql.Parse + stream.NewStream (public), batches pushed synchronously through the real
//	        processWindowBatch by the verif accessor stream.VerifBatchFeeder: 1–6 groups per batch,
//	        no goroutine involved, nothing to wait for.
//	win     rsql.Parse + stream.NewStream + Start + Emit, the real CountingWindow(N) with its
//	        GroupByKeys cleared (public config field), so a batch of N events holds several groups.
//	e2e     streamsql.New().Execute(sql) + Emit: CountingWindow(N) is keyed by the GROUP BY column,
//	        every batch is one group.
//
//	sorter  no query: rows with missing / numeric / bool / text cells are sorted by the real
//	        stream.NewSorter(keys).Sort (public) — the key shapes a grouped query cannot produce
//	        (a key missing in some rows only, bool and text keys).
//
// win/e2e never sleep-and-assert: every batch is followed by a sentinel batch (group "~s") whose
// values the generator chose so that HAVING accepts it; the deliveries seen before the sentinel's
// are the batch's.
type c07 struct{}

func init() { registry["C07"] = c07{} }

func (c07) Count(tier string) int {
	if tier == "thorough" {
		return 6000
	}
	return 500
}

const c07Sentinel = "~s"

// c07Lost counts sentinels that never arrived. A lost sentinel means the pipeline is broken (the
// sentinel batch passes HAVING by construction); after a few of them the wait is shortened so a
// badly broken tree is reported in seconds instead of timing out case by case.
var c07Lost int

func c07SentinelWait() time.Duration {
	if c07Lost >= 3 {
		return 250 * time.Millisecond
	}
	return 15 * time.Second
}

var c07Cols = []string{"a", "b", "t", "Aa", "BB", "T"} // "Aa" and "BB" have equal 31-polynomial hashes: SUM(Aa) / SUM(BB) once shared a placeholder; "t" / "T": column names are case-sensitive

// ---------------------------------------------------------------- AST

type c07Arg struct {
	kind string // col | star | lit | bin
	col  string
	lit  float64
	op   string
	l, r *c07Arg
}

type c07Expr struct {
	kind  string // agg | lit | bin | ref
	fn    string
	arg   *c07Arg
	lit   float64
	op    string
	l, r  *c07Expr
	name  string
	paren bool // render with a redundant pair of parentheses
}

type c07Pred struct {
	kind string // cmp | and | or
	cmp  string
	l, r *c07Expr
	p, q *c07Pred
}

type c07Item struct {
	alias string
	e     *c07Expr
}

type c07Query struct {
	items    []c07Item
	having   *c07Pred
	order    []string // "name a|d"
	orderTxt []string // " ASC" | " DESC" | ""
	limit    int      // -1 = none
	distinct bool
	n        int // CountingWindow(n)
	lower    bool
	compact  bool
	join     bool // the group column comes from a joined table: written m.d in SELECT / GROUP BY / ORDER BY, delivered as d
}

var c07OpSym = map[string]string{"add": "+", "sub": "-", "mul": "*", "div": "/"}
var c07CmpSym = map[string]string{"gt": ">", "ge": ">=", "lt": "<", "le": "<=", "eq": "=", "ne": "!="}

func c07Prec(op string) int {
	if op == "mul" || op == "div" {
		return 2
	}
	return 1
}

func c07Fbits(f float64) string { return fmt.Sprintf("f:%016x", math.Float64bits(f)) }

func c07LitText(f float64) string { return strconv.FormatFloat(f, 'f', -1, 64) }

func (a *c07Arg) sql(q *c07Query, parentPrec int, right bool) string {
	switch a.kind {
	case "col":
		return a.col
	case "star":
		return "*"
	case "lit":
		return c07LitText(a.lit)
	}
	p := c07Prec(a.op)
	sep := " "
	if q.compact {
		sep = ""
	}
	s := a.l.sql(q, p, false) + sep + c07OpSym[a.op] + sep + a.r.sql(q, p, true)
	if p < parentPrec || (p == parentPrec && right) {
		return "(" + s + ")"
	}
	return s
}

func (a *c07Arg) toks() []string {
	switch a.kind {
	case "col":
		return []string{"col", hx(a.col)}
	case "star":
		return []string{"star"}
	case "lit":
		return []string{"lit", c07Fbits(a.lit)}
	}
	return append(append([]string{"bin", a.op}, a.l.toks()...), a.r.toks()...)
}

func (e *c07Expr) sql(q *c07Query, parentPrec int, right bool) string {
	var s string
	switch e.kind {
	case "agg":
		fn := strings.ToUpper(e.fn)
		if q.lower {
			fn = e.fn
		}
		s = fn + "(" + e.arg.sql(q, 0, false) + ")"
	case "lit":
		s = c07LitText(e.lit)
	case "ref":
		s = e.name
	default:
		p := c07Prec(e.op)
		sep := " "
		if q.compact {
			sep = ""
		}
		s = e.l.sql(q, p, false) + sep + c07OpSym[e.op] + sep + e.r.sql(q, p, true)
		if p < parentPrec || (p == parentPrec && right) {
			s = "(" + s + ")"
		}
	}
	if e.paren {
		s = "(" + s + ")"
	}
	return s
}

func (e *c07Expr) toks() []string {
	switch e.kind {
	case "agg":
		return append([]string{"agg", e.fn}, e.arg.toks()...)
	case "lit":
		return []string{"lit", c07Fbits(e.lit)}
	case "ref":
		return []string{"ref", hx(e.name)}
	}
	return append(append([]string{"bin", e.op}, e.l.toks()...), e.r.toks()...)
}

func (p *c07Pred) sql(q *c07Query, inAnd bool) string {
	switch p.kind {
	case "cmp":
		return p.l.sql(q, 0, false) + " " + c07CmpSym[p.cmp] + " " + p.r.sql(q, 0, false)
	case "and":
		return p.p.sql(q, true) + " AND " + p.q.sql(q, true)
	}
	s := p.p.sql(q, false) + " OR " + p.q.sql(q, false)
	if inAnd {
		return "(" + s + ")"
	}
	return s
}

func (p *c07Pred) toks() []string {
	switch p.kind {
	case "cmp":
		return append(append([]string{"cmp", p.cmp}, p.l.toks()...), p.r.toks()...)
	}
	return append(append([]string{p.kind}, p.p.toks()...), p.q.toks()...)
}

func (q *c07Query) sql() string {
	var sb strings.Builder
	sb.WriteString("SELECT ")
	if q.distinct {
		sb.WriteString("DISTINCT ")
	}
	gcol, from := "d", "stream"
	if q.join {
		gcol, from = "m.d", "stream JOIN meta m ON k = m.id"
	}
	sb.WriteString(gcol)
	for _, it := range q.items {
		sb.WriteString(", " + it.e.sql(q, 0, false) + " AS " + it.alias)
	}
	fmt.Fprintf(&sb, " FROM %s GROUP BY %s, CountingWindow(%d)", from, gcol, q.n)
	if q.having != nil {
		sb.WriteString(" HAVING " + q.having.sql(q, false))
	}
	for i, o := range q.order {
		if i == 0 {
			sb.WriteString(" ORDER BY ")
		} else {
			sb.WriteString(", ")
		}
		key := strings.Fields(o)[0]
		if q.join && key == "d" {
			key = "m.d"
		}
		sb.WriteString(key + q.orderTxt[i])
	}
	if q.limit >= 0 {
		fmt.Fprintf(&sb, " LIMIT %d", q.limit)
	}
	return sb.String()
}

// ---------------------------------------------------------------- reference evaluation inside the generator
// (used only to steer HAVING literals to the data's boundaries and to pick a sentinel batch that
// HAVING accepts; verdicts come from the Lean oracle, never from here)

type c07Row struct {
	d    string
	vals []float64 // a, b, t, Aa, BB, T
}

func (a *c07Arg) eval(r c07Row) float64 {
	switch a.kind {
	case "col":
		for i, c := range c07Cols {
			if c == a.col {
				return r.vals[i]
			}
		}
		return math.NaN()
	case "star":
		return 1
	case "lit":
		return a.lit
	}
	return c07Apply(a.op, a.l.eval(r), a.r.eval(r))
}

func c07Apply(op string, x, y float64) float64 {
	switch op {
	case "add":
		return x + y
	case "sub":
		return x - y
	case "mul":
		return x * y
	}
	return x / y
}

func (e *c07Expr) eval(rows []c07Row, env map[string]float64) float64 {
	switch e.kind {
	case "lit":
		return e.lit
	case "ref":
		if v, ok := env[e.name]; ok {
			return v
		}
		return math.NaN()
	case "bin":
		return c07Apply(e.op, e.l.eval(rows, env), e.r.eval(rows, env))
	}
	sum, n := 0.0, 0.0
	mn, mx := math.Inf(1), math.Inf(-1)
	for _, r := range rows {
		v := e.arg.eval(r)
		sum += v
		n++
		mn = math.Min(mn, v)
		mx = math.Max(mx, v)
	}
	switch e.fn {
	case "sum":
		return sum
	case "avg":
		return sum / n
	case "min":
		return mn
	case "max":
		return mx
	}
	return n
}

func (p *c07Pred) eval(rows []c07Row, env map[string]float64) bool {
	switch p.kind {
	case "cmp":
		x, y := p.l.eval(rows, env), p.r.eval(rows, env)
		switch p.cmp {
		case "gt":
			return x > y
		case "ge":
			return x >= y
		case "lt":
			return x < y
		case "le":
			return x <= y
		case "eq":
			return x == y
		}
		return x != y
	case "and":
		return p.p.eval(rows, env) && p.q.eval(rows, env)
	}
	return p.p.eval(rows, env) || p.q.eval(rows, env)
}

func (q *c07Query) env(rows []c07Row) map[string]float64 {
	env := map[string]float64{}
	for _, it := range q.items {
		env[it.alias] = it.e.eval(rows, nil)
	}
	return env
}

// ---------------------------------------------------------------- generator

var c07Fns = []string{"sum", "avg", "min", "max", "count"}
var c07Lits = []float64{2, 3, 10, 32, 100, 0.5, 1.5, 1.8, 0.25, 4}

func c07GenArg(rng *rand.Rand, fn string, wantExpr bool) *c07Arg {
	col := func() *c07Arg { return &c07Arg{kind: "col", col: c07Cols[rng.Intn(len(c07Cols))]} }
	if !wantExpr {
		if fn == "count" && rng.Intn(2) == 0 {
			return &c07Arg{kind: "star"}
		}
		return col()
	}
	ops := []string{"add", "sub", "mul"}
	a := &c07Arg{kind: "bin", op: ops[rng.Intn(3)], l: col()}
	if rng.Intn(2) == 0 {
		a.r = col()
	} else {
		a.r = &c07Arg{kind: "lit", lit: float64(1 + rng.Intn(3))}
	}
	if rng.Intn(5) == 0 { // a * (b + 1)
		a = &c07Arg{kind: "bin", op: "mul", l: col(), r: a}
	}
	return a
}

// c07HashTwin: the last aggregate of the query under construction whose argument is the bare column Aa or BB;
// the next aggregate is then, half of the time, the same function over the other of the two — call texts with
// equal 31-polynomial hashes inside one query.
var c07HashTwin *c07Expr

func c07GenAgg(rng *rand.Rand, exprArgPct int) *c07Expr {
	if t := c07HashTwin; t != nil && rng.Intn(2) == 0 {
		other := map[string]string{"Aa": "BB", "BB": "Aa"}[t.arg.col]
		c07HashTwin = nil
		return &c07Expr{kind: "agg", fn: t.fn, arg: &c07Arg{kind: "col", col: other}}
	}
	fn := c07Fns[rng.Intn(len(c07Fns))]
	e := &c07Expr{kind: "agg", fn: fn, arg: c07GenArg(rng, fn, rng.Intn(100) < exprArgPct)}
	if e.arg.kind == "col" && (e.arg.col == "Aa" || e.arg.col == "BB") {
		c07HashTwin = e
	}
	return e
}

// c07NegLits is switched on per query (never together with the compact rendering, where
// "x--1" would start an SQL comment).
var c07NegLits bool

func c07Lit(rng *rand.Rand) *c07Expr {
	if c07NegLits && rng.Intn(4) == 0 {
		return &c07Expr{kind: "lit", lit: []float64{-1, -2.5}[rng.Intn(2)]}
	}
	return &c07Expr{kind: "lit", lit: c07Lits[rng.Intn(len(c07Lits))]}
}

// c07GenCompound builds an arithmetic expression over aggregates; the returned tag names its shape.
func c07GenCompound(rng *rand.Rand) (*c07Expr, string) {
	ops := []string{"add", "sub", "mul"}
	op := func() string { return ops[rng.Intn(3)] }
	divisor := func() *c07Expr {
		if rng.Intn(2) == 0 {
			return &c07Expr{kind: "agg", fn: "count", arg: &c07Arg{kind: "star"}}
		}
		return c07Lit(rng)
	}
	switch k := rng.Intn(12); {
	case k < 2: // AGG op lit (the aggregate leads)
		return &c07Expr{kind: "bin", op: op(), l: c07GenAgg(rng, 25), r: c07Lit(rng)}, "agg-op-lit"
	case k < 3: // AGG op lit op lit: AVG(t) * 1.8 + 32
		return &c07Expr{kind: "bin", op: "add", l: &c07Expr{kind: "bin", op: "mul", l: c07GenAgg(rng, 10), r: c07Lit(rng)}, r: c07Lit(rng)}, "agg-op-lit-op-lit"
	case k < 5: // lit op AGG
		return &c07Expr{kind: "bin", op: op(), l: c07Lit(rng), r: c07GenAgg(rng, 25)}, "lit-op-agg"
	case k < 7: // AGG op AGG
		return &c07Expr{kind: "bin", op: op(), l: c07GenAgg(rng, 25), r: c07GenAgg(rng, 25)}, "agg-op-agg"
	case k < 8: // AGG / divisor
		return &c07Expr{kind: "bin", op: "div", l: c07GenAgg(rng, 20), r: divisor()}, "agg-div"
	case k < 10: // (AGG op AGG) op lit   |   AGG op (lit op AGG)
		inner := &c07Expr{kind: "bin", op: op(), l: c07GenAgg(rng, 20), r: c07GenAgg(rng, 20)}
		if rng.Intn(2) == 0 {
			return &c07Expr{kind: "bin", op: op(), l: inner, r: c07Lit(rng)}, "nested-left"
		}
		return &c07Expr{kind: "bin", op: op(), l: c07GenAgg(rng, 20), r: &c07Expr{kind: "bin", op: op(), l: c07Lit(rng), r: c07GenAgg(rng, 20)}}, "nested-right"
	case k < 11: // (AGG - AGG) / divisor
		return &c07Expr{kind: "bin", op: "div", l: &c07Expr{kind: "bin", op: "sub", l: c07GenAgg(rng, 10), r: c07GenAgg(rng, 10)}, r: divisor()}, "nested-div"
	default: // redundant parentheses somewhere
		e := &c07Expr{kind: "bin", op: op(), l: c07GenAgg(rng, 20), r: c07Lit(rng)}
		switch rng.Intn(3) {
		case 0:
			e.l.paren = true
			return e, "paren-operand"
		case 1:
			e.r.paren = true
			return e, "paren-literal"
		}
		e.paren = true
		return e, "paren-whole"
	}
}

func c07Min(a, b int) int {
	if a < b {
		return a
	}
	return b
}

func c07GenRows(rng *rand.Rand, keys []string, n int) []c07Row {
	av := []float64{0, 1, 2, 3, 4, 6}
	bv := []float64{0.5, 1.5, 2.5, -1, 2}
	tv := []float64{10, 20, 30, 50}
	xv := []float64{1, 2, 5}
	yv := []float64{100, 200, -3}
	uv := []float64{7, 11, 13}
	rows := make([]c07Row, n)
	for i := range rows {
		rows[i] = c07Row{d: keys[rng.Intn(len(keys))], vals: []float64{av[rng.Intn(len(av))], bv[rng.Intn(len(bv))], tv[rng.Intn(len(tv))], xv[rng.Intn(len(xv))], yv[rng.Intn(len(yv))], uv[rng.Intn(len(uv))]}}
	}
	// every key of the batch appears at least once when there is room
	for i, k := range keys {
		if i < n {
			rows[i].d = k
		}
	}
	return rows
}

func c07Groups(rows []c07Row) [][]c07Row {
	idx := map[string]int{}
	var gs [][]c07Row
	for _, r := range rows {
		i, ok := idx[r.d]
		if !ok {
			i = len(gs)
			idx[r.d] = i
			gs = append(gs, nil)
		}
		gs[i] = append(gs[i], r)
	}
	return gs
}

func (c07) Gen(rng *rand.Rand, tier string, idx int) Case {
	if idx%8 == 7 {
		return c07GenSorter(rng)
	}
	var c Case
	c07HashTwin = nil
	q := &c07Query{limit: -1, lower: rng.Intn(4) == 0, compact: rng.Intn(4) == 0}
	stat := map[string]bool{}
	c07NegLits = !q.compact && rng.Intn(3) == 0
	if c07NegLits {
		stat["negative-literals"] = true
	}

	// mode
	mode := "direct"
	switch m := rng.Intn(20); {
	case m < 4:
		mode = "win"
	case m < 6:
		mode = "e2e"
	}

	// SELECT items
	nitems := 1 + rng.Intn(4)
	for i := 0; i < nitems; i++ {
		alias := fmt.Sprintf("p%d", i)
		var e *c07Expr
		switch k := rng.Intn(10); {
		case k < 3:
			e = c07GenAgg(rng, 0)
			stat["item:plain"] = true
		case k < 4:
			e = c07GenAgg(rng, 100)
			stat["item:plain-expr-arg"] = true
		case k < 5 && rng.Intn(3) == 0:
			e = c07GenAgg(rng, 20)
			e.paren = true
			stat["item:paren-single-agg"] = true
		default:
			var tag string
			e, tag = c07GenCompound(rng)
			stat["item:"+tag] = true
		}
		q.items = append(q.items, c07Item{alias, e})
	}

	// batches (data first: HAVING literals are steered by it)
	allKeys := []string{"x", "y", "z", "w", "v", "u"}
	nb := 3
	var batches [][]c07Row
	if mode == "direct" {
		q.n = 2 + rng.Intn(4)
		for b := 0; b < nb; b++ {
			k := 1 + rng.Intn(6)
			keys := append([]string(nil), allKeys...)
			rng.Shuffle(len(keys), func(i, j int) { keys[i], keys[j] = keys[j], keys[i] })
			batches = append(batches, c07GenRows(rng, keys[:k], k+rng.Intn(2*k+1)))
		}
	} else if mode == "win" {
		q.n = 3 + rng.Intn(8)
		for b := 0; b < nb; b++ {
			k := 1 + rng.Intn(c07Min(6, q.n))
			keys := append([]string(nil), allKeys...)
			rng.Shuffle(len(keys), func(i, j int) { keys[i], keys[j] = keys[j], keys[i] })
			batches = append(batches, c07GenRows(rng, keys[:k], q.n))
		}
	} else {
		q.n = 1 + rng.Intn(4)
		for b := 0; b < nb; b++ {
			batches = append(batches, c07GenRows(rng, []string{allKeys[rng.Intn(3)]}, q.n))
		}
	}
	var allGroups [][]c07Row
	for _, b := range batches {
		allGroups = append(allGroups, c07Groups(b)...)
	}

	// HAVING
	if rng.Intn(10) < 6 {
		natoms := 1 + rng.Intn(3)
		var atoms []*c07Pred
		for i := 0; i < natoms; i++ {
			var l *c07Expr
			switch k := rng.Intn(10); {
			case k < 3:
				l = &c07Expr{kind: "ref", name: q.items[rng.Intn(len(q.items))].alias}
				stat["having:alias"] = true
			case k < 5: // the call text of a selected plain aggregate, when there is one
				l = c07GenAgg(rng, 0)
				for _, it := range q.items {
					if it.e.kind == "agg" && !it.e.paren {
						cp := *it.e
						l = &cp
						stat["having:selected-call"] = true
						break
					}
				}
			case k < 7:
				l = c07GenAgg(rng, 0)
				stat["having:unselected-agg"] = true
			case k < 8:
				l = c07GenAgg(rng, 100)
				stat["having:agg-over-expr"] = true
			default:
				l, _ = c07GenCompound(rng)
				l.paren = false
				stat["having:compound"] = true
			}
			// literal near the value of some group
			g := allGroups[rng.Intn(len(allGroups))]
			v := l.eval(g, q.env(g))
			if math.IsNaN(v) || math.IsInf(v, 0) {
				v = 1
			}
			switch rng.Intn(4) {
			case 0:
				v += 1
			case 1:
				v -= 0.5
			}
			if v < 0 && !c07NegLits { // signed literals only in queries that opted in
				v = 0
			}
			v = math.Round(v*8) / 8
			cmps := []string{"gt", "ge", "lt", "le", "eq", "ne"}
			atoms = append(atoms, &c07Pred{kind: "cmp", cmp: cmps[rng.Intn(len(cmps))], l: l, r: &c07Expr{kind: "lit", lit: v}})
		}
		p := atoms[0]
		for _, a := range atoms[1:] {
			if rng.Intn(2) == 0 {
				p = &c07Pred{kind: "and", p: p, q: a}
			} else {
				p = &c07Pred{kind: "or", p: p, q: a}
			}
		}
		q.having = p
	}

	// ORDER BY
	nkeys := []int{0, 1, 1, 2, 2}[rng.Intn(5)]
	used := map[string]bool{}
	for i := 0; i < nkeys; i++ {
		name := q.items[rng.Intn(len(q.items))].alias
		switch rng.Intn(8) {
		case 0:
			name = "d"
		case 1:
			if rng.Intn(2) == 0 {
				name = "zz" // not an output column: missing in every row
			}
		}
		if used[name] {
			continue
		}
		used[name] = true
		switch rng.Intn(3) {
		case 0:
			q.order, q.orderTxt = append(q.order, name+" a"), append(q.orderTxt, "")
		case 1:
			q.order, q.orderTxt = append(q.order, name+" a"), append(q.orderTxt, " ASC")
		default:
			q.order, q.orderTxt = append(q.order, name+" d"), append(q.orderTxt, " DESC")
		}
	}

	// LIMIT
	maxGroups := 1
	for _, b := range batches {
		if n := len(c07Groups(b)); n > maxGroups {
			maxGroups = n
		}
	}
	if rng.Intn(10) < 6 {
		q.limit = 1 + rng.Intn(maxGroups+1)
		if rng.Intn(15) == 0 {
			q.limit = 0
		}
	}
	q.distinct = rng.Intn(4) == 0

	// sentinel for the goroutine-driven modes; without one the case runs in direct mode
	var sentinel []c07Row
	if mode != "direct" {
		if q.limit == 0 {
			mode = "direct"
		} else {
			for _, cand := range [][]float64{{1000, 1000, 1000, 1000, 1000, 1000}, {0, 0, 0, 0, 0, 0}, {-1000, -1000, -1000, -1000, -1000, -1000}, {1, 2, 3, 4, 5, 6}, {1000, 0, 0, 0, 0, 0}, {0, 0, 1000, 0, 1000, 0}, {2, 0.5, 10, 1, 100, 7}, {0, 0, 0, 1000, 0, 0}, {0, 0, 0, 0, 1000, 0}, {0, 0, 0, 0, 0, 1000}} {
				rows := make([]c07Row, q.n)
				for i := range rows {
					rows[i] = c07Row{d: c07Sentinel, vals: cand}
				}
				if q.having == nil || q.having.eval(rows, q.env(rows)) {
					sentinel = rows
					break
				}
			}
			if sentinel == nil {
				mode = "direct"
				stat["no-sentinel"] = true
			}
		}
	}
	stat["mode:"+mode] = true

	if mode == "win" && rng.Intn(3) == 0 {
		// the group column is a joined table's column, spelled with the table alias everywhere in the statement; the
		// delivered rows carry its flat name, and ORDER BY keys in any position must find it
		q.join = true
		hasD := false
		for _, o := range q.order {
			if strings.Fields(o)[0] == "d" {
				hasD = true
			}
		}
		if !hasD && len(q.order) <= 2 && rng.Intn(3) > 0 {
			q.order, q.orderTxt = append(q.order, "d "+[]string{"a", "d"}[rng.Intn(2)]), append(q.orderTxt, "")
			if strings.HasSuffix(q.order[len(q.order)-1], " d") {
				q.orderTxt[len(q.orderTxt)-1] = " DESC"
			}
		}
		c.Cfg = append(c.Cfg, []string{"join", "1"})
		stat["group-column-from-joined-table"] = true
	}
	sqlText := q.sql()
	if mode != "e2e" && q.limit > 0 && rng.Intn(3) == 0 {
		// the cap given programmatically: the statement carries no LIMIT, types.Config.Limit is set on the parsed
		// configuration (HasLimit stays false — the field exists only to tell LIMIT 0 from no LIMIT)
		lim := q.limit
		q.limit = -1
		sqlText = q.sql()
		q.limit = lim
		c.Cfg = append(c.Cfg, []string{"proglimit", strconv.Itoa(lim)})
		stat["limit-set-on-config"] = true
	}
	c.Cfg = append(c.Cfg, []string{"sql", hx(sqlText)}, []string{"mode", mode}, []string{"gcol", hx("d")})
	cols := []string{"cols"}
	for _, cn := range c07Cols {
		cols = append(cols, hx(cn))
	}
	c.Cfg = append(c.Cfg, cols)
	for _, it := range q.items {
		c.Cfg = append(c.Cfg, append([]string{"item", hx(it.alias)}, it.e.toks()...))
	}
	if q.having != nil {
		c.Cfg = append(c.Cfg, append([]string{"having"}, q.having.toks()...))
	}
	for _, o := range q.order {
		f := strings.Fields(o)
		c.Cfg = append(c.Cfg, []string{"order", hx(f[0]), f[1]})
	}
	if q.limit >= 0 {
		c.Cfg = append(c.Cfg, []string{"limit", strconv.Itoa(q.limit)})
	}
	c.Cfg = append(c.Cfg, []string{"distinct", btok(q.distinct)})

	rowToks := func(rows []c07Row) []string {
		var t []string
		for _, r := range rows {
			t = append(t, "s:"+hx(r.d))
			for _, v := range r.vals {
				t = append(t, c07Fbits(v))
			}
		}
		return t
	}
	// now and then one group of the FIRST batch lacks one column in all its rows: its aggregates over that column are NULL,
	// the expressions over them have no value — and the later batches (same query instance) are ordinary again
	holeGroup, holeCol := "", -1
	if q.having == nil && len(batches) > 1 && len(batches[0]) > 0 && rng.Intn(3) == 0 { // (HAVING over a NULL aggregate is expr-lang's nil semantics, C17's recorded class — not generated here)
		holeGroup, holeCol = batches[0][rng.Intn(len(batches[0]))].d, rng.Intn(len(c07Cols))
		stat["null-aggregate-in-first-batch"] = true
	}
	for bi, b := range batches {
		toks := rowToks(b)
		if bi == 0 && holeCol >= 0 {
			w := 1 + len(c07Cols)
			for ri, r := range b {
				if r.d == holeGroup {
					toks[ri*w+1+holeCol] = "m"
				}
			}
		}
		op := append([]string{"batch", strconv.Itoa(len(b))}, toks...)
		if sentinel != nil {
			op = append(append(op, "sent", strconv.Itoa(len(sentinel))), rowToks(sentinel)...)
		}
		c.Ops = append(c.Ops, op)
	}
	for s := range stat {
		c.Stat = append(c.Stat, s)
	}
	return c
}

// ---------------------------------------------------------------- execution

func c07CfgVal(c Case, key string) string {
	for _, l := range c.Cfg {
		if len(l) >= 2 && l[0] == key {
			return l[1]
		}
	}
	return ""
}

func c07ParseVal(tok string) (interface{}, bool) {
	switch {
	case tok == "m":
		return nil, false
	case tok == "n":
		return nil, true
	case strings.HasPrefix(tok, "f:"):
		b, err := strconv.ParseUint(tok[2:], 16, 64)
		if err != nil {
			panic("bad float token " + tok)
		}
		return math.Float64frombits(b), true
	case strings.HasPrefix(tok, "i:"):
		n, err := strconv.Atoi(tok[2:])
		if err != nil {
			panic("bad int token " + tok)
		}
		return n, true
	case strings.HasPrefix(tok, "u:"):
		n, err := strconv.ParseUint(tok[2:], 10, 64)
		if err != nil {
			panic("bad uint token " + tok)
		}
		return n, true
	case strings.HasPrefix(tok, "s:"):
		return unhx(tok[2:]), true
	case tok == "b:t":
		return true, true
	case tok == "b:f":
		return false, true
	}
	panic("bad value token " + tok)
}

func c07ParseRows(toks []string, n int, cols []string) ([]map[string]interface{}, []string) {
	rows := make([]map[string]interface{}, 0, n)
	for i := 0; i < n; i++ {
		r := map[string]interface{}{}
		if v, ok := c07ParseVal(toks[0]); ok {
			r["d"] = v
		}
		for j, cn := range cols {
			if v, ok := c07ParseVal(toks[1+j]); ok {
				r[cn] = v
			}
		}
		toks = toks[1+len(cols):]
		rows = append(rows, r)
	}
	return rows, toks
}

func c07ValTok(v interface{}) string {
	switch x := v.(type) {
	case nil:
		return "n"
	case float64:
		return c07Fbits(x)
	case float32:
		return c07Fbits(float64(x))
	case int:
		return c07Fbits(float64(x))
	case int64:
		return c07Fbits(float64(x))
	case string:
		return "s:" + hx(x)
	case bool:
		if x {
			return "b:t"
		}
		return "b:f"
	}
	return "s:" + hx(fmt.Sprintf("%T:%v", v, v))
}

func c07RowLine(r map[string]interface{}) []string {
	keys := make([]string, 0, len(r))
	for k := range r {
		if k != "window_id" { // wall-clock derived, never compared
			keys = append(keys, k)
		}
	}
	sort.Slice(keys, func(i, j int) bool { return hx(keys[i]) < hx(keys[j]) })
	line := []string{"row"}
	for _, k := range keys {
		line = append(line, hx(k), c07ValTok(r[k]))
	}
	return line
}

func c07DeliveryLines(deliveries [][]map[string]interface{}) [][]string {
	if len(deliveries) == 0 {
		return [][]string{{"none"}}
	}
	var out [][]string
	for _, d := range deliveries {
		out = append(out, []string{"deliver", strconv.Itoa(len(d))})
		for _, r := range d {
			out = append(out, c07RowLine(r))
		}
	}
	return out
}

func c07IsSentinel(b []map[string]interface{}) bool {
	for _, r := range b {
		if s, ok := r["d"].(string); ok && s == c07Sentinel {
			return true
		}
	}
	return false
}

func (c07) Exec(c Case) [][][]string {
	sql := unhx(c07CfgVal(c, "sql"))
	mode := c07CfgVal(c, "mode")
	if mode == "sorter" {
		return c07ExecSorter(c)
	}
	var cols []string
	for _, l := range c.Cfg {
		if l[0] == "cols" {
			for _, h := range l[1:] {
				cols = append(cols, unhx(h))
			}
		}
	}
	fail := func(msg string) [][][]string {
		out := make([][][]string, len(c.Ops))
		for i := range out {
			out[i] = [][]string{{"err", hx(msg)}}
		}
		return out
	}

	ch := make(chan []map[string]interface{}, 4096)
	sink := func(r []map[string]interface{}) {
		cp := make([]map[string]interface{}, len(r))
		for i, m := range r {
			mm := make(map[string]interface{}, len(m))
			for k, v := range m {
				mm[k] = v
			}
			cp[i] = mm
		}
		ch <- cp
	}
	var emit func(map[string]interface{})
	var feed func([]map[string]interface{})
	switch mode {
	case "e2e":
		s := streamsql.New(presetOpt(), streamsql.WithDiscardLog())
		defer s.Stop()
		if err := s.Execute(sql); err != nil {
			return fail("execute: " + err.Error())
		}
		s.AddSyncSink(sink)
		emit = s.Emit
	default:
		cfg, cond, err := rsql.Parse(sql)
		if err != nil {
			return fail("parse: " + err.Error())
		}
		cfg.Logger = logger.NewDiscardLogger()
		if pl := c07CfgVal(c, "proglimit"); pl != "" {
			cfg.Limit, _ = strconv.Atoi(pl)
		}
		if mode == "win" {
			cfg.WindowConfig.GroupByKeys = nil // one count window over all groups
		}
		st, err := stream.NewStream(*cfg)
		if err != nil {
			return fail("newstream: " + err.Error())
		}
		defer st.Stop()
		if err := st.RegisterFilter(cond); err != nil {
			return fail("filter: " + err.Error())
		}
		st.AddSyncSink(sink)
		if c07CfgVal(c, "join") == "1" {
			// table meta: one row {id: g, d: g} per group value of the case; the stream rows carry the value as k
			keys, err := st.JoinKeyFields("meta")
			if err != nil {
				return fail("joinkeys: " + err.Error())
			}
			seen := map[interface{}]bool{}
			var trows []map[string]interface{}
			for _, op := range c.Ops {
				for _, t := range op {
					if !strings.HasPrefix(t, "s:") {
						continue
					}
					if v, ok := c07ParseVal(t); ok {
						if sv, isStr := v.(string); isStr && !seen[sv] {
							seen[sv] = true
							trows = append(trows, map[string]interface{}{"id": sv, "d": sv})
						}
					}
				}
			}
			if _, err := st.RegisterMemoryTable("meta", keys, trows); err != nil {
				return fail("table: " + err.Error())
			}
			inner := st.Emit
			st.Start()
			emit = func(r map[string]interface{}) {
				if v, ok := r["d"]; ok {
					r["k"] = v
					delete(r, "d")
				}
				inner(r)
			}
		} else if mode == "win" {
			st.Start()
			emit = st.Emit
		} else {
			feed = stream.VerifBatchFeeder(st)
		}
	}

	var out [][][]string
	caseLost := false
	for _, op := range c.Ops {
		if op[0] != "batch" {
			out = append(out, [][]string{{"bad-op"}})
			continue
		}
		n, _ := strconv.Atoi(op[1])
		rows, rest := c07ParseRows(op[2:], n, cols)
		var deliveries [][]map[string]interface{}
		if feed != nil {
			feed(rows)
			for len(ch) > 0 {
				deliveries = append(deliveries, <-ch)
			}
			out = append(out, c07DeliveryLines(deliveries))
			continue
		}
		if len(rest) < 2 || rest[0] != "sent" {
			out = append(out, [][]string{{"err", hx("no sentinel in a goroutine-driven case")}})
			continue
		}
		m, _ := strconv.Atoi(rest[1])
		sent, _ := c07ParseRows(rest[2:], m, cols)
		for _, r := range rows {
			emit(r)
		}
		for _, r := range sent {
			emit(r)
		}
		if caseLost { // the stream's position is unknown after a lost sentinel
			out = append(out, [][]string{{"sentinel-lost"}})
			continue
		}
		lost := false
		deadline := time.After(c07SentinelWait())
	wait:
		for {
			select {
			case b := <-ch:
				if c07IsSentinel(b) {
					break wait
				}
				deliveries = append(deliveries, b)
			case <-deadline:
				lost = true
				break wait
			}
		}
		lines := c07DeliveryLines(deliveries)
		if lost {
			lines = append(lines, []string{"sentinel-lost"})
			caseLost = true
			c07Lost++
		}
		out = append(out, lines)
	}
	return out
}

// ---------------------------------------------------------------- the sorter alone

func c07GenSorter(rng *rand.Rand) Case {
	var c Case
	c.Cfg = append(c.Cfg, []string{"mode", "sorter"})
	ncols := 1 + rng.Intn(3)
	kinds := make([]string, ncols)
	cols := make([]string, ncols)
	for i := range cols {
		cols[i] = fmt.Sprintf("k%d", i)
		kinds[i] = []string{"num", "num", "bool", "text"}[rng.Intn(4)]
		c.Stat = append(c.Stat, "sorter-key:"+kinds[i])
	}
	nkeys := 1 + rng.Intn(ncols)
	for i := 0; i < nkeys; i++ {
		c.Cfg = append(c.Cfg, []string{"order", hx(cols[i]), []string{"a", "d"}[rng.Intn(2)]})
	}
	texts := []string{"", "a", "ab", "b", "B", "10", "9", "<"}
	for b := 0; b < 3; b++ {
		n := rng.Intn(8)
		op := []string{"sort", strconv.Itoa(n), strconv.Itoa(ncols)}
		for _, cn := range cols {
			op = append(op, hx(cn))
		}
		for r := 0; r < n; r++ {
			for i := range cols {
				if rng.Intn(4) == 0 {
					op = append(op, "m")
					continue
				}
				switch kinds[i] {
				case "num":
					if rng.Intn(5) == 0 {
						// unsigned 64-bit values on both sides of 2^63, among small ones
						op = append(op, "u:"+[]string{"9223372036854775808", "13835058055282163712", "18446744073709551615", "77", "1099511627776"}[rng.Intn(5)])
					} else if rng.Intn(2) == 0 {
						op = append(op, "i:"+strconv.Itoa(rng.Intn(5)-2))
					} else {
						op = append(op, c07Fbits([]float64{-1.5, 0, 0.5, 1, 2, 1e9}[rng.Intn(6)]))
					}
				case "bool":
					op = append(op, "b:"+btok(rng.Intn(2) == 0))
				default:
					if rng.Intn(6) == 0 {
						op = append(op, "n")
					} else {
						op = append(op, "s:"+hx(texts[rng.Intn(len(texts))]))
					}
				}
			}
		}
		c.Ops = append(c.Ops, op)
	}
	// the DISTINCT step alone (hook VerifApplyDistinct): rows over text / number / bool / NULL / missing cells, with
	// texts that contain the characters a hand-made row key might use as separators; a row is dropped iff it equals an
	// earlier row column by column
	dtexts := []string{"", "a", "b", "a|k1=b", "a|k1=", "b|k2=c", "|", "=", "k1=a", "<nil>", "1", "true", "null", "\"a\"", "a,b", "{}"}
	for b := 0; b < 2; b++ {
		n := 2 + rng.Intn(7)
		nc := 2 + rng.Intn(2)
		op := []string{"distinct", strconv.Itoa(n), strconv.Itoa(nc)}
		for i := 0; i < nc; i++ {
			op = append(op, hx(fmt.Sprintf("k%d", i)))
		}
		var prev []string
		for r := 0; r < n; r++ {
			var cells []string
			if prev != nil && rng.Intn(3) == 0 {
				cells = append([]string(nil), prev...) // a genuine duplicate
			} else {
				for i := 0; i < nc; i++ {
					switch rng.Intn(9) {
					case 0:
						cells = append(cells, "m")
					case 1:
						cells = append(cells, "n")
					case 2:
						cells = append(cells, "i:"+strconv.Itoa(rng.Intn(3)))
					case 3:
						cells = append(cells, "b:"+btok(rng.Intn(2) == 0))
					default:
						cells = append(cells, "s:"+hx(dtexts[rng.Intn(len(dtexts))]))
					}
				}
				if prev != nil && rng.Intn(3) == 0 && nc >= 2 {
					// the neighbour that a `col=value|` key would merge with the previous row: (x|k1=y, z) ~ (x, y|k1=z)
					cells = []string{"s:" + hx("x|k1=y"), "s:" + hx("z")}
					prev2 := []string{"s:" + hx("x"), "s:" + hx("y|k1=z")}
					for i := 2; i < nc; i++ {
						cells = append(cells, "n")
						prev2 = append(prev2, "n")
					}
					op = append(op, prev2...)
					r++
					if r >= n {
						op[1] = strconv.Itoa(n + 1)
					}
				}
			}
			op = append(op, cells...)
			prev = cells
		}
		c.Ops = append(c.Ops, op)
	}
	c.Stat = append(c.Stat, "distinct-step-alone")
	return c
}

func c07ExecDistinct(op []string) [][]string {
	n, _ := strconv.Atoi(op[1])
	nc, _ := strconv.Atoi(op[2])
	cols := make([]string, nc)
	for i := range cols {
		cols[i] = unhx(op[3+i])
	}
	toks := op[3+nc:]
	if len(toks) != n*nc {
		return [][]string{{"bad-op"}}
	}
	rows := make([]map[string]interface{}, n)
	for r := range rows {
		rows[r] = map[string]interface{}{}
		for i, cn := range cols {
			if v, ok := c07ParseVal(toks[r*nc+i]); ok {
				rows[r][cn] = v
			}
		}
	}
	cfg, _, err := rsql.Parse("SELECT d, COUNT(*) AS c FROM stream GROUP BY d, CountingWindow(1)")
	if err != nil {
		return [][]string{{"parse-error"}}
	}
	cfg.Logger = logger.NewDiscardLogger()
	st, err := stream.NewStream(*cfg)
	if err != nil {
		return [][]string{{"newstream-error"}}
	}
	defer st.Stop()
	// identity of a kept row: its position in the input (the step returns the maps it was given)
	pos := map[string]int{}
	for i, r := range rows {
		pos[fmt.Sprintf("%p", r)] = i
	}
	line := []string{"kept"}
	for _, r := range stream.VerifApplyDistinct(st, rows) {
		line = append(line, strconv.Itoa(pos[fmt.Sprintf("%p", r)]))
	}
	return [][]string{line}
}

func c07ExecSorter(c Case) [][][]string {
	var keys []types.OrderByField
	for _, l := range c.Cfg {
		if l[0] == "order" {
			dir := types.SortAsc
			if l[2] == "d" {
				dir = types.SortDesc
			}
			keys = append(keys, types.OrderByField{Expression: unhx(l[1]), Direction: dir})
		}
	}
	var out [][][]string
	for _, op := range c.Ops {
		if op[0] == "distinct" {
			out = append(out, c07ExecDistinct(op))
			continue
		}
		if op[0] != "sort" {
			out = append(out, [][]string{{"bad-op"}})
			continue
		}
		n, _ := strconv.Atoi(op[1])
		nc, _ := strconv.Atoi(op[2])
		cols := make([]string, nc)
		for i := range cols {
			cols[i] = unhx(op[3+i])
		}
		toks := op[3+nc:]
		rows := make([]map[string]interface{}, n)
		for r := range rows {
			rows[r] = map[string]interface{}{"id": r}
			for i, cn := range cols {
				if v, ok := c07ParseVal(toks[r*nc+i]); ok {
					rows[r][cn] = v
				}
			}
		}
		stream.NewSorter(keys).Sort(rows)
		line := []string{"order"}
		for _, r := range rows {
			line = append(line, strconv.Itoa(r["id"].(int)))
		}
		out = append(out, [][]string{line})
	}
	return out
}
