package main

import "math/rand"

// C08 — sliding windows: each slide-aligned interval with exactly its rows.
type c08 struct{}

func init() { registry["C08"] = c08{} }

func (c08) Count(tier string) int {
	if tier == "thorough" {
		return 4000
	}
	return 400
}

func (p c08) Gen(rng *rand.Rand, tier string, idx int) Case {
	return maybeReset(rng, p.gen0(rng, tier, idx))
}

func (c08) gen0(rng *rand.Rand, tier string, idx int) Case {
	var c Case
	if idx%12 == 11 {
		p := [][2]int64{{2, 1}, {3, 2}, {5, 5}, {2, 3}, {4, 1}}[rng.Intn(5)]
		u := []int64{500, 1000}[rng.Intn(2)]
		size, slide := p[0]*u, p[1]*u
		o := []int64{0, slide, size, 2*size + 1}[rng.Intn(4)]
		c.Cfg = [][]string{{"kind", "sqlsliding"}, {"size", itoa(size)}, {"slide", itoa(slide)}, {"ooo", itoa(o)}, {"late", "0"}, {"now", "0"}, {"spell", []string{"ms", "go"}[rng.Intn(2)]}}
		genSQLWindow(rng, &c, slide, o)
		maybeWinAPI(rng, &c)
		return c
	}
	if idx%12 == 10 {
		// IDLETIMEOUT: idle and busy ticker updates between the rows (forced, natural, live timestamps)
		return idleCase(rng, "sliding")
	}
	// (size, slide): slide | size, slide ∤ size, slide = size, slide > size
	pairs := [][2]int64{{2, 1}, {3, 2}, {5, 5}, {2, 3}, {7, 3}, {10, 5}, {4, 1}, {14, 7}, {13, 7}, {11, 11}} // 7, 11: slides that do not divide a day (nor the distance between Go's zero time and the epoch)
	p := pairs[rng.Intn(len(pairs))]
	units := []int64{1, 10, 1000, 60_000_000_000}
	u := units[rng.Intn(len(units))]
	size, slide := p[0]*u, p[1]*u
	oooChoices := []int64{0, slide / 2, slide, size, 2*size + 1}
	ooo := oooChoices[rng.Intn(len(oooChoices))]
	if idx%4 == 1 {
		// ALLOWEDLATENESS > 0: a late row folded into a fired interval still belongs to the pending intervals that cover it
		late := []int64{1, slide, size, 3 * size}[rng.Intn(4)]
		if rng.Intn(4) == 0 {
			// directed: a fired interval takes a late row, later intervals fire (old rows leave the buffer), then the same
			// interval takes a second late row — its re-delivery holds the first delivery's rows and BOTH late rows
			late = 4*size + 4*slide + ooo
			c.Cfg = [][]string{{"kind", "sliding"}, {"mode", "et"}, {"size", itoa(size)}, {"slide", itoa(slide)}, {"ooo", itoa(ooo)}, {"late", itoa(late)}, {"now", "0"}}
			t := tsBase + 7*slide + slide/3
			ops := [][]string{{"add", "1", itoa(t)}, {"add", "2", itoa(t + 1)},
				{"add", "3", itoa(t + size + ooo + 2*slide)}, {"drain"},
				{"add", "4", itoa(t + 2)}, // first late row
				{"add", "5", itoa(t + 2*size + ooo + 4*slide)}, {"drain"},
				{"add", "6", itoa(t + 3)}, // second late row, same intervals
				{"add", "7", itoa(t + 3*size + ooo + 6*slide)}, {"drain"}, {"tick"}, {"drain"}}
			c.Ops = append(c.Ops, ops...)
			c.Stat = append(c.Stat, "lateness>0", "two-late-rows-with-firings-between")
		} else {
			c.Cfg = [][]string{{"kind", "sliding"}, {"mode", "et"}, {"size", itoa(size)}, {"slide", itoa(slide)}, {"ooo", itoa(ooo)}, {"late", itoa(late)}, {"now", "0"}}
			genLateOps(rng, &c, slide, ooo, late)
			c.Stat = append(c.Stat, "lateness>0")
		}
	} else {
		c.Cfg = [][]string{{"kind", "sliding"}, {"mode", "et"}, {"size", itoa(size)}, {"slide", itoa(slide)}, {"ooo", itoa(ooo)}, {"late", "0"}, {"now", "0"}}
		genWindowOps(rng, &c, slide, ooo, false, nil)
	}
	bigEpoch(rng, &c)
	switch {
	case slide == size:
		c.Stat = append(c.Stat, "slide=size")
	case slide > size:
		c.Stat = append(c.Stat, "slide>size")
	case size%slide == 0:
		c.Stat = append(c.Stat, "slide|size")
	default:
		c.Stat = append(c.Stat, "slide∤size")
	}
	return c
}

func (c08) Exec(c Case) [][][]string {
	if isSQLWindowCase(c) {
		return execSQLWindow(c)
	}
	return execWindow(c)
}
