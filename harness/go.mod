module verifharness

go 1.18

require github.com/rulego/streamsql v0.0.0

require github.com/expr-lang/expr v1.17.8 // indirect

replace github.com/rulego/streamsql => /repo
