package main

import (
	"fmt"
	"math"
	"math/big"
	"math/rand"
	"strconv"
	"strings"
	"sync"
	"sync/atomic"
	"unicode/utf8"

	"github.com/rulego/streamsql"
	"github.com/rulego/streamsql/condition"
)

// C12 — predicate fast paths decide exactly as the general evaluator.
//
// ops (see lean/Driver/C12.lean):
//
//	eval  <text> <ast> ; <row>   predicate text + the predicate expr-lang parses it to
//	evalx <text> ; <row>         predicate whose general meaning the model does not know
//	shape <text>                 recogniser only, arbitrary bytes
//	sql   <ast> ; <row>          the predicate in a WHERE clause, through EmitSync
type c12 struct{}

func init() { registry["C12"] = c12{} }

func (c12) Count(tier string) int {
	if tier == "thorough" {
		return 6000
	}
	return 420
}

// ---------------------------------------------------------------- values

const c12P53 = int64(1) << 53

var c12Int64s = []int64{0, 1, -1, 5, -5, 7, 10, 127, -128, 255, 32767, 65535, 1<<31 - 1, -(1 << 31), 1<<32 - 1, 1 << 32,
	c12P53 - 1, c12P53, c12P53 + 1, c12P53 + 2, c12P53 + 3, -c12P53 - 1, -c12P53, -c12P53 + 1, 1 << 62, math.MaxInt64, math.MinInt64, math.MaxInt64 - 1}
var c12Uint64s = []uint64{0, 1, 5, 255, 65535, 1<<32 - 1, 1 << 32, 1<<53 - 1, 1 << 53, 1<<53 + 1, 1<<53 + 3, 1<<63 - 1, 1 << 63, 1<<63 + 1, math.MaxUint64, math.MaxUint64 - 1}
var c12Floats = []float64{0, math.Copysign(0, -1), 0.5, 5, 5.5, -5.5, 0.1, 1e-9, 1e308, 5e-324, math.NaN(), math.Inf(1), math.Inf(-1),
	float64(c12P53), float64(c12P53) + 2, float64(c12P53) - 1, -float64(c12P53), 9.223372036854775808e18, 1.8446744073709551616e19, 16777217, 1, -1, 123456789.125}
var c12Float32s = []float32{0, 0.1, 5, 5.5, 16777216, float32(math.NaN()), float32(math.Inf(1)), -2.5, 3.4e38}
var c12Strs = []string{"", " a", "a ", "a", "abc", "abd", "ab", "5", "b", "B", "é", "a b", "a\nb", "a\\b", "a\\nb", "a\rb", "\xff", "a\xffb", "�", "a�b", "中文", "a && b", "a || b", "("}
var c12IntWidths = []string{"i", "i8", "i16", "i32", "i64", "u", "u8", "u16", "u32", "u64"}

func c12IntTok(w string, v int64, u uint64) string {
	switch w {
	case "i":
		return "i:" + itoa(int64(int(v)))
	case "i8":
		return "i8:" + itoa(int64(int8(v)))
	case "i16":
		return "i16:" + itoa(int64(int16(v)))
	case "i32":
		return "i32:" + itoa(int64(int32(v)))
	case "i64":
		return "i64:" + itoa(v)
	case "u":
		return "u:" + strconv.FormatUint(uint64(uint(u)), 10)
	case "u8":
		return "u8:" + strconv.FormatUint(uint64(uint8(u)), 10)
	case "u16":
		return "u16:" + strconv.FormatUint(uint64(uint16(u)), 10)
	case "u32":
		return "u32:" + strconv.FormatUint(uint64(uint32(u)), 10)
	}
	return "u64:" + strconv.FormatUint(u, 10)
}

func c12Bits(f float64) string {
	if f != f {
		return "7ff8000000000001"
	}
	return fmt.Sprintf("%016x", math.Float64bits(f))
}

func c12StrTok(s string) string {
	if s == "" {
		return "s:"
	}
	return "s:" + hx(s)
}

func c12GenVal(rng *rand.Rand) string {
	switch k := rng.Intn(20); {
	case k < 1:
		return "n"
	case k < 2:
		return []string{"t", "f"}[rng.Intn(2)]
	case k < 3:
		return "o"
	case k < 6:
		return c12StrTok(c12Strs[rng.Intn(len(c12Strs))])
	case k < 13:
		w := c12IntWidths[rng.Intn(len(c12IntWidths))]
		v := c12Int64s[rng.Intn(len(c12Int64s))]
		u := c12Uint64s[rng.Intn(len(c12Uint64s))]
		switch rng.Intn(4) {
		case 0: // around 2^53 / 2^63
			v = c12P53 + int64(rng.Intn(9)) - 4
			if rng.Intn(2) == 0 {
				v = -v
			}
			u = uint64(1)<<63 + uint64(rng.Intn(5)) - 2
		case 1:
			v = int64(rng.Intn(21)) - 10
			u = uint64(rng.Intn(12))
		}
		return c12IntTok(w, v, u)
	case k < 18:
		f := c12Floats[rng.Intn(len(c12Floats))]
		if rng.Intn(4) == 0 {
			f = float64(rng.Intn(41)-20) / 4
		}
		return "f64:" + c12Bits(f)
	default:
		return "f32:" + c12Bits(float64(c12Float32s[rng.Intn(len(c12Float32s))]))
	}
}

func c12DecodeVal(tok string) interface{} {
	switch tok {
	case "n":
		return nil
	case "t":
		return true
	case "f":
		return false
	case "o":
		return []interface{}{1}
	}
	i := strings.IndexByte(tok, ':')
	if i < 0 {
		panic("bad value token " + tok)
	}
	w, d := tok[:i], tok[i+1:]
	switch w {
	case "s":
		if d == "" {
			return ""
		}
		return unhx(d)
	case "f64", "f32":
		b, err := strconv.ParseUint(d, 16, 64)
		if err != nil {
			panic(err)
		}
		f := math.Float64frombits(b)
		if w == "f32" {
			return float32(f)
		}
		return f
	}
	if w[0] == 'u' {
		u, err := strconv.ParseUint(d, 10, 64)
		if err != nil {
			panic(err)
		}
		switch w {
		case "u":
			return uint(u)
		case "u8":
			return uint8(u)
		case "u16":
			return uint16(u)
		case "u32":
			return uint32(u)
		}
		return u
	}
	v, err := strconv.ParseInt(d, 10, 64)
	if err != nil {
		panic(err)
	}
	switch w {
	case "i":
		return int(v)
	case "i8":
		return int8(v)
	case "i16":
		return int16(v)
	case "i32":
		return int32(v)
	}
	return v
}

func c12DecodeRow(toks []string) map[string]interface{} {
	row := map[string]interface{}{}
	for i := 0; i+1 < len(toks); i += 2 {
		row[unhx(toks[i])] = c12DecodeVal(toks[i+1])
	}
	return row
}

// ---------------------------------------------------------------- literals

// c12Lit is one literal: how it is written in the expression, in SQL, and its AST token.
type c12Lit struct{ text, ast string }

var c12IntLits = []string{"0", "1", "5", "-5", "7", "10", "007", "-0", "00", "255", "2147483647", "4294967296",
	"9007199254740991", "9007199254740992", "9007199254740993", "9007199254740994", "-9007199254740991", "-9007199254740992", "-9007199254740993",
	"9223372036854775807", "-9223372036854775807", "9223372036854775806", "4611686018427387904"}
var c12FracLits = []string{"5.0", "5.5", "-5.50", "0.1", "0.5", "0.000", "-0.0", "1.25", "9007199254740992.0", "9007199254740993.0", "9007199254740991.0",
	"-9007199254740993.0", "123456789.125", "18446744073709551615.0", "9223372036854775808.0", "16777217.0", "0.1000000014901161193847656250", "0.000000001", "2.50"}

// expr-lang's view of the bytes between the quotes: CRLF/CR → LF, escapes, invalid UTF-8 → U+FFFD
func c12ExprString(raw string) (string, bool) {
	raw = strings.NewReplacer("\r\n", "\n", "\r", "\n").Replace(raw)
	var sb strings.Builder
	for i := 0; i < len(raw); {
		c := raw[i]
		switch {
		case c == '\\':
			if i+1 >= len(raw) {
				return "", false
			}
			switch raw[i+1] {
			case 'n':
				sb.WriteByte('\n')
			case 't':
				sb.WriteByte('\t')
			case 'r':
				sb.WriteByte('\r')
			case '\\':
				sb.WriteByte('\\')
			case '"':
				sb.WriteByte('"')
			default:
				return "", false
			}
			i += 2
		case c == '\n':
			return "", false
		case c >= utf8.RuneSelf:
			r, sz := utf8.DecodeRuneInString(raw[i:])
			sb.WriteRune(r)
			i += sz
		default:
			sb.WriteByte(c)
			i++
		}
	}
	return sb.String(), true
}

var c12RawStrs = []string{"", " a", "a ", " ", "a", "abc", "abd", "ab", "5", "b", "B", "é", "a b", "a\\nb", "a\\\\b", "a\\tb", "a\rb", "\xff", "a\xffb", "�", "中文",
	"a && b", "a || b", "(", ")", "&&", "a\"b", "\xe4\xb8", "\xed\xa0\x80", "\xf0\x9f\x98\x80", "\xc0\xaf", "a\r\nb"}

// valTok → a literal text equal or adjacent to the value, when one exists
func c12LitNear(rng *rand.Rand, valTok string) (c12Lit, bool) {
	i := strings.IndexByte(valTok, ':')
	if i < 0 {
		return c12Lit{}, false
	}
	w, d := valTok[:i], valTok[i+1:]
	switch w {
	case "s":
		s := ""
		if d != "" {
			s = unhx(d)
		}
		if strings.ContainsAny(s, "'\n") {
			return c12Lit{}, false
		}
		// the raw text that denotes s, when s has no special bytes; else s itself as raw text
		raw := strings.ReplaceAll(s, "\\", "\\\\")
		if rng.Intn(3) == 0 {
			raw = s
		}
		u, ok := c12ExprString(raw)
		if !ok {
			return c12Lit{}, false
		}
		return c12Lit{"'" + raw + "'", c12StrTok(u)}, true
	case "f64", "f32":
		b, _ := strconv.ParseUint(d, 16, 64)
		f := math.Float64frombits(b)
		if f != f || math.IsInf(f, 0) || math.Abs(f) >= 1e21 || (f != 0 && math.Abs(f) < 1e-7) {
			return c12Lit{}, false
		}
		t := strconv.FormatFloat(f, 'f', -1, 64)
		if strings.Contains(t, ".") {
			return c12Lit{t, "d:" + t}, true
		}
		if rng.Intn(2) == 0 {
			return c12Lit{t + ".0", "d:" + t + ".0"}, true
		}
		return c12Lit{t, "i:" + strings.TrimPrefix(t, "+")}, true
	}
	n, ok := new(big.Int).SetString(d, 10)
	if !ok {
		return c12Lit{}, false
	}
	n.Add(n, big.NewInt(int64(rng.Intn(3)-1)))
	if rng.Intn(4) == 0 {
		return c12Lit{n.String() + ".0", "d:" + n.String() + ".0"}, true
	}
	return c12Lit{n.String(), "i:" + n.String()}, true
}

func c12GenLit(rng *rand.Rand, near string) c12Lit {
	if near != "" && rng.Intn(2) == 0 {
		if l, ok := c12LitNear(rng, near); ok {
			return l
		}
	}
	switch k := rng.Intn(10); {
	case k < 4:
		t := c12IntLits[rng.Intn(len(c12IntLits))]
		if rng.Intn(40) == 0 {
			t = "9223372036854775808" // does not compile
		}
		n, _ := new(big.Int).SetString(t, 10)
		return c12Lit{t, "i:" + n.String()}
	case k < 7:
		t := c12FracLits[rng.Intn(len(c12FracLits))]
		return c12Lit{t, "d:" + t}
	default:
		for {
			raw := c12RawStrs[rng.Intn(len(c12RawStrs))]
			if u, ok := c12ExprString(raw); ok {
				return c12Lit{"'" + raw + "'", c12StrTok(u)}
			}
		}
	}
}

// ---------------------------------------------------------------- predicates

var c12Ops = []struct{ tok, text string }{{"ge", ">="}, {"le", "<="}, {"ne", "!="}, {"ltgt", "<>"}, {"eq2", "=="}, {"eq1", "="}, {"gt", ">"}, {"lt", "<"}}
var c12Fields = []string{"x", "y", "z", "_f1", "Abc"}
var c12Ws = []string{"", " ", " ", "  ", "\t", " \t ", "\n", "\f", "\r"}

func c12W(rng *rand.Rand, must bool) string {
	if must || rng.Intn(3) > 0 {
		if rng.Intn(6) == 0 {
			return c12Ws[1+rng.Intn(len(c12Ws)-1)]
		}
		return " "
	}
	return ""
}

type c12Cmp struct {
	field string
	op    int
	lit   c12Lit
}

func (c c12Cmp) text(rng *rand.Rand) string {
	return c.field + c12W(rng, false) + c12Ops[c.op].text + c12W(rng, false) + c.lit.text
}
func (c c12Cmp) ast() []string {
	return []string{"cmp", hx(c.field), c12Ops[c.op].tok, c.lit.ast}
}

func c12GenCmp(rng *rand.Rand, row map[string]string) c12Cmp {
	f := c12Fields[rng.Intn(3)]
	if rng.Intn(8) == 0 {
		f = c12Fields[rng.Intn(len(c12Fields))]
	}
	op := rng.Intn(len(c12Ops))
	if (op == 3 || op == 5) && rng.Intn(4) > 0 { // `=` and `<>` do not compile: keep them rare
		op = []int{0, 1, 2, 4, 6, 7}[rng.Intn(6)]
	}
	return c12Cmp{f, op, c12GenLit(rng, row[f])}
}

// c12GenPred returns the expression text and its AST tokens.
func c12GenPred(rng *rand.Rand, row map[string]string) (string, []string, string) {
	lead, trail := c12W(rng, false), c12W(rng, false)
	switch k := rng.Intn(10); {
	case k < 4:
		c := c12GenCmp(rng, row)
		return lead + c.text(rng) + trail, c.ast(), "single"
	case k < 8: // flat chain, 2–4 terms
		n := 2 + rng.Intn(3)
		and := rng.Intn(2) == 0
		sep, node := "||", "or"
		if and {
			sep, node = "&&", "and"
		}
		var text string
		var ast []string
		for i := 0; i < n; i++ {
			c := c12GenCmp(rng, row)
			if i == 0 {
				text, ast = c.text(rng), c.ast()
			} else {
				text += c12W(rng, false) + sep + c12W(rng, false) + c.text(rng)
				ast = append(append([]string{node}, ast...), c.ast()...)
			}
		}
		return lead + text + trail, ast, "chain-" + node
	case k < 9: // mixed: && binds tighter than ||
		a, b, c := c12GenCmp(rng, row), c12GenCmp(rng, row), c12GenCmp(rng, row)
		if rng.Intn(2) == 0 {
			text := a.text(rng) + " && " + b.text(rng) + " || " + c.text(rng)
			ast := append(append(append([]string{"or", "and"}, a.ast()...), b.ast()...), c.ast()...)
			return lead + text + trail, ast, "mixed"
		}
		text := a.text(rng) + " || " + b.text(rng) + " && " + c.text(rng)
		ast := append(append(append([]string{"or"}, a.ast()...), "and"), append(b.ast(), c.ast()...)...)
		return lead + text + trail, ast, "mixed"
	default: // explicit grouping
		a, b := c12GenCmp(rng, row), c12GenCmp(rng, row)
		node, sep := "and", "&&"
		if rng.Intn(2) == 0 {
			node, sep = "or", "||"
		}
		text := "(" + a.text(rng) + ") " + sep + " " + b.text(rng)
		ast := append(append([]string{node, "par"}, a.ast()...), b.ast()...)
		return lead + text + trail, ast, "grouped"
	}
}

var c12Opaque = []string{
	"x > 20 + 5", "not (x > 5)", "!(x > 5)", "x in [1, 5]", "\"abc\" == y", "y == \"abc\"", "5 < x", "x > 5 and y < 3", "x > 5 or y < 3",
	"x == nil", "x != nil", "x > 1e3", "x > 0x10", "x > 1_000", "(x) > 5", "x > 5 && (y < 3)", "x > .5", "x >= 5 == true", "x > 5 ? true : false",
	"nil == 1", "nil != 1", "nil == 'a'", "nil == 1 && x > 0", "x > 0 || nil != 1", "x > y", "x == 'a' + 'b'", "x matches '^a'", "x contains 'a'",
	"x startsWith 'a'", "like_match(y, 'a%')", "is_null(x)", "x > -\t5", "x > - 5", "x >= +5", "len(y) > 1", "true", "true && x > 1", "x > 1 && true",
	"x==5&&y=='a'||z<1", "x ==5 && y< 'b' && ! (z>1)", "it > 1", "x > 1 && x < 10 && x != 5 && x != 6 && x != 7",
}

func c12GenRow(rng *rand.Rand) (map[string]string, []string) {
	row := map[string]string{}
	var toks []string
	for _, f := range append([]string{"nil", "it"}, c12Fields...) {
		p := 6
		if f == "_f1" || f == "Abc" || f == "it" {
			p = 2
		}
		if rng.Intn(7) < p {
			row[f] = c12GenVal(rng)
		}
	}
	// keys sorted for a canonical op line
	for _, f := range []string{"Abc", "_f1", "it", "nil", "x", "y", "z"} {
		if v, ok := row[f]; ok {
			toks = append(toks, hx(f), v)
		}
	}
	return row, toks
}

var c12Mut = []byte(" \t&|=<>!-.'0159x_()\\\r")

func c12Mutate(rng *rand.Rand, s string) string {
	b := []byte(s)
	for n := 1 + rng.Intn(2); n > 0; n-- {
		switch rng.Intn(3) {
		case 0:
			if len(b) > 0 {
				i := rng.Intn(len(b))
				b = append(b[:i], b[i+1:]...)
			}
		case 1:
			i := rng.Intn(len(b) + 1)
			b = append(b[:i], append([]byte{c12Mut[rng.Intn(len(c12Mut))]}, b[i:]...)...)
		default:
			if len(b) > 0 {
				b[rng.Intn(len(b))] = c12Mut[rng.Intn(len(c12Mut))]
			}
		}
	}
	return string(b)
}

// SQL-friendly predicate: operators the SQL grammar knows, literals without quotes/escapes.
func c12GenSQLPred(rng *rand.Rand, row map[string]string) []string {
	gen := func() []string {
		for {
			c := c12GenCmp(rng, row)
			if c.op == 3 || c.op == 5 {
				continue
			}
			if strings.HasPrefix(c.lit.ast, "s:") {
				raw := strings.Trim(c.lit.text, "'")
				if u, _ := c12ExprString(raw); u != raw || strings.ContainsAny(raw, "\"\\&|()") || !utf8.ValidString(raw) {
					continue
				}
			}
			if strings.HasPrefix(c.lit.text, "-") {
				continue
			}
			if strings.HasPrefix(c.lit.ast, "i:") {
				if _, err := strconv.ParseInt(c.lit.ast[2:], 10, 64); err != nil {
					continue // does not compile
				}
			}
			c.field = c12Fields[rng.Intn(3)]
			return c.ast()
		}
	}
	switch rng.Intn(4) {
	case 0, 1:
		return gen()
	case 2:
		return append(append([]string{"and"}, gen()...), gen()...)
	default:
		return append(append([]string{"or"}, gen()...), gen()...)
	}
}

func (c12) Gen(rng *rand.Rand, tier string, idx int) Case {
	var c Case
	stat := map[string]bool{}
	for i := 0; i < 24; i++ {
		row, rowToks := c12GenRow(rng)
		switch k := rng.Intn(40); {
		case k < 30:
			text, ast, kind := c12GenPred(rng, row)
			stat["pred-"+kind] = true
			op := append([]string{"eval", hx(text)}, ast...)
			c.Ops = append(c.Ops, append(append(op, ";"), rowToks...))
		case k < 33:
			text := c12Opaque[rng.Intn(len(c12Opaque))]
			stat["pred-opaque"] = true
			c.Ops = append(c.Ops, append([]string{"evalx", hx(text), ";"}, rowToks...))
		case k < 38:
			text, _, _ := c12GenPred(rng, row)
			if rng.Intn(5) > 0 {
				text = c12Mutate(rng, text)
			} else if rng.Intn(3) == 0 {
				text = "x > " + strings.Repeat("9", 300+rng.Intn(40)) + []string{"", ".5"}[rng.Intn(2)]
			}
			stat["text-mutated"] = true
			c.Ops = append(c.Ops, []string{"shape", hx(text)})
		default:
			if idx%3 != 0 && tier != "thorough" { // the SQL path builds a stream per op: sampled
				text, ast, _ := c12GenPred(rng, row)
				op := append([]string{"eval", hx(text)}, ast...)
				c.Ops = append(c.Ops, append(append(op, ";"), rowToks...))
				continue
			}
			stat["sql"] = true
			pred := c12GenSQLPred(rng, row)
			op := append([]string{"sql"}, pred...)
			c.Ops = append(c.Ops, append(append(op, ";"), rowToks...))
			if rng.Intn(2) == 0 {
				// the same predicate over lag(col): the analytic value is injected under a placeholder and must be compared as
				// the column itself would be (integers beyond 2^53 exactly)
				stat["sql-over-analytic-value"] = true
				op := append([]string{"sqllag"}, pred...)
				c.Ops = append(c.Ops, append(append(op, ";"), rowToks...))
			}
		}
	}
	if rng.Intn(5) == 0 {
		// sibling predicates: the same shortcut-shaped comparison with literals that differ only in the white space
		// INSIDE the quotes (one blank / two blanks / a tab), each asked about each of the three values
		stat["literal-whitespace-siblings"] = true
		sib := []string{"a b", "a  b", "a\tb"}
		rng.Shuffle(len(sib), func(i, j int) { sib[i], sib[j] = sib[j], sib[i] })
		f := c12Fields[rng.Intn(3)]
		op := []int{4, 2, 0}[rng.Intn(3)]
		for _, raw := range sib {
			for _, val := range []string{"a b", "a  b", "a\tb"} {
				cmp := c12Cmp{f, op, c12Lit{"'" + raw + "'", c12StrTok(raw)}}
				o := append([]string{"eval", hx(cmp.field + " " + c12Ops[op].text + " " + cmp.lit.text)}, cmp.ast()...)
				c.Ops = append(c.Ops, append(o, ";", hx(f), c12StrTok(val)))
			}
		}
	}
	for s := range stat {
		c.Stat = append(c.Stat, s)
	}
	return c
}

// ---------------------------------------------------------------- execution

func c12Split(toks []string) ([]string, []string) {
	for i, t := range toks {
		if t == ";" {
			return toks[:i], toks[i+1:]
		}
	}
	return toks, nil
}

// c12LagWrap: every column of the predicate is written lag(col) (op sqllag)
var c12LagWrap bool

// c12WhereLag: the predicate over lag(col) decides on the row BEFORE the one it is asked about — the first EmitSync
// carries the values, the second (a row with nothing but an id) is the one whose acceptance is observed.
func c12WhereLag(cond string, row map[string]interface{}) string {
	s := streamsql.New(presetOpt(), streamsql.WithDiscardLog())
	defer s.Stop()
	if err := s.Execute("SELECT id FROM stream WHERE " + cond); err != nil {
		return "err"
	}
	cp := map[string]interface{}{"id": 1}
	for k, v := range row {
		cp[k] = v
	}
	if _, err := s.EmitSync(cp); err != nil {
		return "err"
	}
	out, err := s.EmitSync(map[string]interface{}{"id": 2})
	if err != nil {
		return "err"
	}
	return btok(out != nil)
}

// SQL text of an AST (tokens consumed from the front).
func c12SQL(toks []string) (string, []string) {
	if len(toks) == 0 {
		return "", nil
	}
	switch toks[0] {
	case "cmp":
		op := toks[2]
		text := ""
		for _, o := range c12Ops {
			if o.tok == op {
				text = o.text
			}
		}
		if op == "eq2" {
			text = "="
		}
		lit := toks[3]
		switch {
		case strings.HasPrefix(lit, "s:"):
			s := ""
			if lit != "s:" {
				s = unhx(lit[2:])
			}
			lit = "'" + s + "'"
		default:
			lit = lit[2:]
		}
		col := unhx(toks[1])
		if c12LagWrap {
			col = "lag(" + col + ")"
		}
		return col + " " + text + " " + lit, toks[4:]
	case "and", "or":
		a, r := c12SQL(toks[1:])
		b, r2 := c12SQL(r)
		return a + " " + strings.ToUpper(toks[0]) + " " + b, r2
	case "par":
		a, r := c12SQL(toks[1:])
		return "(" + a + ")", r
	}
	return "", nil
}

func c12Where(cond string, row map[string]interface{}) (string, string) {
	s := streamsql.New(presetOpt(), streamsql.WithDiscardLog())
	defer s.Stop()
	if err := s.Execute("SELECT id FROM stream WHERE " + cond); err != nil {
		return "err", "err"
	}
	res := func() string {
		cp := map[string]interface{}{"id": 1}
		for k, v := range row {
			cp[k] = v
		}
		out, err := s.EmitSync(cp)
		if err != nil {
			return "err"
		}
		return btok(out != nil)
	}
	a := res()
	return a, res()
}

// c12Concurrent: the same compiled predicates evaluated by four goroutines at once (the row is only read)
// must decide as the sequential evaluation did.
func c12Concurrent(cond, twin condition.Condition, row map[string]interface{}, ev, tw bool) bool {
	var wg sync.WaitGroup
	var bad int32
	for g := 0; g < 4; g++ {
		wg.Add(1)
		go func() {
			defer wg.Done()
			defer func() {
				if recover() != nil {
					atomic.StoreInt32(&bad, 1)
				}
			}()
			for i := 0; i < 25; i++ {
				if cond.Evaluate(row) != ev || twin.Evaluate(row) != tw {
					atomic.StoreInt32(&bad, 1)
				}
			}
		}()
	}
	wg.Wait()
	return atomic.LoadInt32(&bad) == 0
}

func c12Opt(r, ok bool) string {
	if !ok {
		return "none"
	}
	return btok(r)
}

func (c12) Exec(c Case) [][][]string {
	var out [][][]string
	for _, op := range c.Ops {
		var obs [][]string
		switch op[0] {
		case "eval", "evalx":
			text := unhx(op[1])
			_, rowToks := c12Split(op[2:])
			row := c12DecodeRow(rowToks)
			obs = append(obs, append([]string{"shape"}, strings.Fields(condition.VerifFastShape(text))...))
			cond, err := condition.NewExprCondition(text)
			twin, terr := condition.NewExprCondition("(" + text + ")")
			if op[0] == "eval" {
				obs = append(obs, []string{"cond", map[bool]string{true: "ok", false: "cerr"}[err == nil]},
					[]string{"twincond", map[bool]string{true: "ok", false: "cerr"}[terr == nil]})
			} else {
				obs = append(obs, []string{"cond", map[bool]string{true: "ok", false: "cerr"}[err == nil && terr == nil]})
			}
			if err != nil || terr != nil {
				break
			}
			if len(text)%2 == 0 {
				// the same condition objects have decided other rows before — every column a text, a bool, NULL, absent: a
				// condition keeps nothing from the rows it has seen
				for _, v := range []interface{}{"zz", true, nil, "5", float32(2.5), int8(7)} {
					prev := map[string]interface{}{}
					for _, f := range append([]string{"nil", "it"}, c12Fields...) {
						prev[f] = v
					}
					cond.Evaluate(prev)
					twin.Evaluate(prev)
				}
				cond.Evaluate(map[string]interface{}{})
				twin.Evaluate(map[string]interface{}{})
			}
			fr, fok := condition.VerifFastEval(cond, row)
			ev := cond.Evaluate(row)
			tw := twin.Evaluate(row)
			obs = append(obs, []string{"fast", c12Opt(fr, fok)})
			if op[0] == "eval" {
				gen := "err"
				if g, gerr := condition.VerifGeneralEval(cond, row); gerr == nil {
					gen = btok(g)
				}
				obs = append(obs, []string{"ev", btok(ev)}, []string{"gen", gen}, []string{"twin", btok(tw)})
				obs = append(obs, []string{"conc", btok(c12Concurrent(cond, twin, row, ev, tw))})
			} else {
				obs = append(obs, []string{"agree", btok(ev == tw)}, []string{"fastagree", btok(!fok || fr == tw)})
			}
		case "shape":
			obs = append(obs, append([]string{"shape"}, strings.Fields(condition.VerifFastShape(unhx(op[1])))...))
		case "sql":
			astToks, rowToks := c12Split(op[1:])
			row := c12DecodeRow(rowToks)
			sql, _ := c12SQL(astToks)
			a, again := c12Where(sql, row)
			b, _ := c12Where("("+sql+")", row)
			obs = append(obs, []string{"acc", a}, []string{"acctwin", b}, []string{"again", again})
		case "sqllag":
			astToks, rowToks := c12Split(op[1:])
			row := c12DecodeRow(rowToks)
			c12LagWrap = true
			sql, _ := c12SQL(astToks)
			c12LagWrap = false
			obs = append(obs, []string{"acc", c12WhereLag(sql, row)}, []string{"acctwin", c12WhereLag("("+sql+")", row)})
		default:
			obs = append(obs, []string{"bad-op"})
		}
		out = append(out, obs)
	}
	return out
}
