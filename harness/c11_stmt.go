package main

import (
	"encoding/json"
	"fmt"
	"math/rand"
	"strconv"
	"strings"
	"time"

	"github.com/rulego/streamsql"
	"github.com/rulego/streamsql/rsql"
	"github.com/rulego/streamsql/types"
)

// ---------------------------------------------------------------- reference grammar
//
//	stmt   := SELECT [DISTINCT] items FROM source [WHERE cond] [GROUP BY groupItems] [HAVING cond]
//	          [WITH ( option = 'value' {, option = 'value'} )] [ORDER BY key [ASC|DESC] {, …}] [LIMIT n]
//	items  := * | item {, item}          item := expr [AS alias]
//	groupItems := columns and at most one window, in any order:
//	          TumblingWindow('d') | SlidingWindow('d','d') | CountingWindow(n) | SessionWindow('d')
//	          | GLOBAL WINDOW TRIGGER WHEN cond   (last item)
//
// A statement is a list of source tokens (srcTok, the vocabulary of the proved lexer spec) plus what its
// author expects each clause to be; rendering chooses whitespace and keyword case only.

func kwT(s string) srcTok  { return srcTok{kind: "w", text: s, kw: true} }
func idT(s string) srcTok  { return srcTok{kind: "w", text: s} }
func numT(s string) srcTok { return srcTok{kind: "n", text: s} }
func negT(s string) srcTok { return srcTok{kind: "m", text: s} }
func opT(s string) srcTok  { return srcTok{kind: "o", op: s} }
func strT(q byte, body string) srcTok {
	return srcTok{kind: "s", text: body, q: q}
}
func qidT(body string) srcTok { return srcTok{kind: "q", text: body} }

type refStmt struct {
	toks []srcTok   // the statement
	exp  [][]string // expected clause lines
	tags []string
}

var columns = []string{"a", "b", "temp", "deviceId", "v1", "x_y", "s.a", "limit_x", "orderby", "fromage", "whereabouts", "grp", "t.group", "m.having", "u.with", "v.limit", "w.order", "n.from"}
var aliases = []string{"r", "total", "cnt", "avg_t", "m1", "out_a", "lim", "ord"}
var sources = []string{"s", "stream", "t1", "input_stream", "fromage"}
var trickyBodies = []string{"x", "LIMIT 5", "ORDER BY z", " WHERE ", "FROM t", "GROUP BY a HAVING b", "a AND b", "select", "with (", ")", "a,b", "=", "it is", "100%"}
var scalarFns = []string{"upper", "lower", "abs", "round", "length"}
var aggFns = []string{"SUM", "AVG", "COUNT", "MIN", "MAX"}
// durations as Go spells them: single unit, compound, fractional (the window and WITH parsers hand them to time.ParseDuration)
var durations = []string{"5s", "10s", "1m", "500ms", "2h", "1m30s", "1h30m", "1.5s", "90s", "2h45m30s", "1.5m", "4.5s"}

func pick(rng *rand.Rand, xs []string) string { return xs[rng.Intn(len(xs))] }

// tokJoin: token spellings (canonical case) joined by single spaces, with the substitutions the engine
// documents for predicates (= → ==, AND → &&, OR → ||) when pred is set.
func tokJoin(toks []srcTok, pred bool) string {
	var parts []string
	for _, t := range toks {
		s := t.spelled("-")
		if pred {
			switch {
			case t.kind == "o" && t.op == "eq1":
				s = "=="
			case t.kind == "w" && t.kw && strings.EqualFold(t.text, "AND"):
				s = "&&"
			case t.kind == "w" && t.kw && strings.EqualFold(t.text, "OR"):
				s = "||"
			case t.kind == "w" && t.kw:
				s = strings.ToUpper(t.text) // LIKE IS NULL NOT are re-emitted in upper case
			}
		}
		parts = append(parts, s)
	}
	return strings.Join(parts, " ")
}

func randLiteral(rng *rand.Rand) srcTok {
	switch rng.Intn(6) {
	case 0:
		return numT(pick(rng, []string{"0", "1", "16", "2.5", "100"}))
	case 1:
		return negT(pick(rng, []string{"1", "3.5"}))
	case 2:
		return strT('"', pick(rng, trickyBodies))
	default:
		return strT('\'', pick(rng, trickyBodies))
	}
}

// cond: comparison {AND|OR comparison}; lhs are drawn from `lhs`
func randCond(rng *rand.Rand, lhs [][]srcTok, tags *[]string) []srcTok {
	var out []srcTok
	n := 1 + rng.Intn(3)
	for i := 0; i < n; i++ {
		if i > 0 {
			out = append(out, kwT(pick(rng, []string{"AND", "OR"})))
		}
		l := lhs[rng.Intn(len(lhs))]
		switch k := rng.Intn(10); {
		case k < 6:
			lit := randLiteral(rng)
			if lit.kind == "s" {
				*tags = append(*tags, "cond-string-literal")
			}
			cmp := opT(pick(rng, []string{"eq1", "eq2", "ne", "gt", "lt", "ge", "le"}))
			if rng.Intn(3) == 0 { // literal on the left
				out = append(out, lit, cmp)
				out = append(out, l...)
				*tags = append(*tags, "cond-literal-first")
			} else {
				out = append(out, l...)
				out = append(out, cmp, lit)
			}
		case k < 8:
			out = append(out, l...)
			out = append(out, kwT("LIKE"), strT('\'', pick(rng, []string{"%a%", "LIMIT%", "%ORDER BY%", "_x"})))
			*tags = append(*tags, "cond-like")
		case k < 9:
			out = append(out, l...)
			out = append(out, kwT("IS"))
			if rng.Intn(2) == 0 {
				out = append(out, kwT("NOT"))
			}
			out = append(out, kwT("NULL"))
			*tags = append(*tags, "cond-is-null")
		default:
			out = append(out, opT("lparen"))
			out = append(out, l...)
			out = append(out, opT("gt"), numT("1"), opT("rparen"))
			*tags = append(*tags, "cond-parens")
		}
	}
	return out
}

func colToks(rng *rand.Rand) []srcTok {
	if rng.Intn(8) == 0 {
		return []srcTok{qidT(pick(rng, []string{"from", "order by", "limit", "a b", "where"}))}
	}
	return []srcTok{idT(pick(rng, columns))}
}

func dur(s string) time.Duration {
	d, err := time.ParseDuration(s)
	if err != nil {
		panic(err)
	}
	return d
}

func genStmt(rng *rand.Rand) refStmt {
	var st refStmt
	tag := func(s string) { st.tags = append(st.tags, s) }
	exp := func(l ...string) { st.exp = append(st.exp, l) }
	add := func(t ...srcTok) { st.toks = append(st.toks, t...) }

	aggregate := rng.Intn(2) == 0
	distinct := rng.Intn(5) == 0
	add(kwT("SELECT"))
	if distinct {
		add(kwT("DISTINCT"))
		tag("distinct")
	}
	exp("distinct", btok(distinct))

	var groupCols []string
	var aggAliases []string
	var aggCalls [][]srcTok
	usedAlias := map[string]bool{}
	freshAlias := func() string {
		for {
			a := pick(rng, aliases)
			if rng.Intn(3) == 0 {
				a += strconv.Itoa(rng.Intn(9))
			}
			if !usedAlias[a] {
				usedAlias[a] = true
				return a
			}
		}
	}
	nfield := 0
	// select expressions are pairwise distinct: the engine keys a map (SelectAlias) by expression text, so a
	// repeated expression with two aliases is lossy there whatever the layout (not a layout question)
	usedExpr := map[string]bool{}
	field := func(e []srcTok, alias string) {
		usedExpr[tokJoin(e, false)] = true
		if nfield > 0 {
			add(opT("comma"))
		}
		add(e...)
		if alias != "" {
			add(kwT("AS"), idT(alias))
		}
		exp("field", strconv.Itoa(nfield), hx(tokJoin(e, false)), hx(alias))
		nfield++
	}
	if aggregate {
		tag("aggregate")
		ng := rng.Intn(3)
		seen := map[string]bool{}
		for len(groupCols) < ng {
			c := pick(rng, columns)
			if !seen[c] {
				seen[c] = true
				groupCols = append(groupCols, c)
			}
		}
		for _, g := range groupCols {
			if rng.Intn(4) > 0 {
				field([]srcTok{idT(g)}, "")
			}
		}
		na := 1 + rng.Intn(3)
		for i := 0; i < na; i++ {
			fn := pick(rng, aggFns)
			var call []srcTok
			if fn == "COUNT" && rng.Intn(2) == 0 {
				call = []srcTok{idT(fn), opT("lparen"), opT("asterisk"), opT("rparen")}
			} else {
				call = []srcTok{idT(fn), opT("lparen"), idT(pick(rng, columns)), opT("rparen")}
			}
			if usedExpr[tokJoin(call, false)] {
				continue
			}
			a := freshAlias()
			aggAliases = append(aggAliases, a)
			aggCalls = append(aggCalls, call)
			field(call, a)
		}
	} else if rng.Intn(6) == 0 {
		add(opT("asterisk"))
		exp("field", "0", hx("*"), "-")
		nfield = 1
		tag("select-star")
	} else {
		n := 1 + rng.Intn(4)
		for i := 0; i < n; i++ {
			var e []srcTok
			switch k := rng.Intn(12); {
			case k < 5:
				e = colToks(rng)
				if e[0].kind == "q" {
					tag("backtick-identifier")
				}
			case k < 7:
				e = []srcTok{idT(pick(rng, scalarFns)), opT("lparen"), idT(pick(rng, columns)), opT("rparen")}
				tag("scalar-function")
			case k < 9:
				e = []srcTok{idT(pick(rng, columns)), opT(pick(rng, []string{"plus", "minus", "asterisk", "slash"})), numT(pick(rng, []string{"1", "2.5", "10"}))}
				tag("arithmetic")
			case k < 10:
				e = []srcTok{strT('\'', pick(rng, trickyBodies))}
				tag("select-string-literal")
			default:
				e = []srcTok{kwT("CASE"), kwT("WHEN"), idT(pick(rng, columns)), opT("gt"), numT("1"), kwT("THEN"),
					strT('\'', pick(rng, trickyBodies)), kwT("ELSE"), strT('\'', "n"), kwT("END")}
				tag("case-expression")
				if rng.Intn(2) == 0 {
					// numbers right after THEN / ELSE / WHEN: a keyword, in any spelling, is never glued to the number after it
					e = []srcTok{kwT("CASE"), kwT("WHEN"), idT(pick(rng, columns)), opT("gt"), numT("30"), kwT("THEN"),
						numT(pick(rng, []string{"1", "2.5", "10"})), kwT("ELSE"), numT("0"), kwT("END")}
					tag("case-expression-numbers")
				}
			}
			if usedExpr[tokJoin(e, false)] {
				i--
				continue
			}
			alias := ""
			if rng.Intn(2) == 0 || e[0].kind == "s" || e[0].text == "CASE" || len(e) == 3 {
				alias = freshAlias()
			}
			field(e, alias)
		}
	}

	src := pick(rng, sources)
	add(kwT("FROM"), idT(src))
	exp("source", hx(src))

	// FROM alias and stream-table JOINs (direct statements only)
	salias := ""
	var joinLines [][]string
	if !aggregate && rng.Intn(4) == 0 {
		if rng.Intn(3) > 0 {
			salias = pick(rng, []string{"s0", "st"})
			if rng.Intn(2) == 0 {
				add(kwT("AS"))
			}
			add(idT(salias))
			tag("from-alias")
		}
		nj := 1 + rng.Intn(2)
		for j := 0; j < nj; j++ {
			jt := "INNER"
			switch rng.Intn(4) {
			case 0:
				add(kwT("JOIN"))
			case 1:
				add(kwT("INNER"), kwT("JOIN"))
			case 2:
				add(kwT("LEFT"), kwT("JOIN"))
				jt = "LEFT"
			default:
				add(kwT("LEFT"), kwT("OUTER"), kwT("JOIN"))
				jt = "LEFT"
			}
			table := []string{"devices", "meta"}[j]
			add(idT(table))
			talias := table
			switch rng.Intn(3) {
			case 0:
				talias = []string{"d", "m"}[j]
				add(kwT("AS"), idT(talias))
			case 1:
				talias = []string{"d", "m"}[j]
				add(idT(talias))
			}
			add(kwT("ON"))
			line := []string{"join", strconv.Itoa(j), jt, hx(table), hx(talias)}
			np := 1 + rng.Intn(2)
			for k := 0; k < np; k++ {
				if k > 0 {
					add(kwT("AND"))
				}
				sf := pick(rng, []string{"deviceId", "a", "grp"})
				tf := pick(rng, []string{"id", "k", "profile.id"})
				left := sf
				if salias != "" {
					left = salias + "." + sf
				}
				add(idT(left), opT("eq1"), idT(talias+"."+tf))
				line = append(line, hx(sf)+"="+hx(tf))
			}
			joinLines = append(joinLines, line)
		}
		tag("join")
	}
	exp("salias", hx(salias))
	st.exp = append(st.exp, joinLines...)

	// WHERE
	where := ""
	if rng.Intn(3) > 0 {
		var lhs [][]srcTok
		for i := 0; i < 3; i++ {
			lhs = append(lhs, colToks(rng))
		}
		c := randCond(rng, lhs, &st.tags)
		add(kwT("WHERE"))
		add(c...)
		where = tokJoin(c, true)
		tag("where")
	}
	exp("where", hx(where))

	// GROUP BY + window
	wtype, trigger := "", ""
	var wparams []string // statement level: type:value
	var cparams []string // config level
	ctype := ""
	if aggregate {
		type gitem struct {
			toks []srcTok
		}
		var items []gitem
		for _, g := range groupCols {
			items = append(items, gitem{[]srcTok{idT(g)}})
		}
		global := false
		switch k := rng.Intn(8); {
		case k == 0 && len(groupCols) > 0: // no window: the engine's default window applies
			tag("window-none")
		case k <= 2:
			d := pick(rng, durations)
			if rng.Intn(6) == 0 {
				// a size written as a number is a number of seconds: bare, or quoted and purely numeric
				n := pick(rng, []string{"90", "5", "1"})
				if rng.Intn(2) == 0 {
					items = append(items, gitem{[]srcTok{kwT("TumblingWindow"), opT("lparen"), numT(n), opT("rparen")}})
				} else {
					items = append(items, gitem{[]srcTok{kwT("TumblingWindow"), opT("lparen"), strT('\'', n), opT("rparen")}})
				}
				secs, _ := strconv.Atoi(n)
				wtype, ctype = "TUMBLINGWINDOW", "tumbling"
				wparams = []string{"int:" + n}
				cparams = []string{strconv.FormatInt(int64(secs)*int64(time.Second), 10)}
				tag("window-tumbling")
				tag("window-size-in-seconds")
				break
			}
			items = append(items, gitem{[]srcTok{kwT("TumblingWindow"), opT("lparen"), strT('\'', d), opT("rparen")}})
			wtype, ctype = "TUMBLINGWINDOW", "tumbling"
			wparams = []string{"string:" + d}
			cparams = []string{strconv.FormatInt(int64(dur(d)), 10)}
			tag("window-tumbling")
		case k == 3:
			pr := [][2]string{{"10s", "5s"}, {"10s", "2s"}, {"10s", "500ms"}, {"1m30s", "30s"}, {"4.5s", "1.5s"}, {"1h30m", "1m30s"}, {"2.5m", "50s"}}[rng.Intn(7)]
			d1, d2 := pr[0], pr[1]
			items = append(items, gitem{[]srcTok{kwT("SlidingWindow"), opT("lparen"), strT('\'', d1), opT("comma"), strT('\'', d2), opT("rparen")}})
			wtype, ctype = "SLIDINGWINDOW", "sliding"
			wparams = []string{"string:" + d1, "string:" + d2}
			cparams = []string{strconv.FormatInt(int64(dur(d1)), 10), strconv.FormatInt(int64(dur(d2)), 10)}
			tag("window-sliding")
		case k == 4:
			n := pick(rng, []string{"1", "3", "10"})
			items = append(items, gitem{[]srcTok{kwT("CountingWindow"), opT("lparen"), numT(n), opT("rparen")}})
			wtype, ctype = "COUNTINGWINDOW", "counting"
			wparams = []string{"int:" + n}
			cparams = []string{"int:" + n}
			tag("window-counting")
		case k == 5:
			d := pick(rng, durations)
			items = append(items, gitem{[]srcTok{kwT("SessionWindow"), opT("lparen"), strT('\'', d), opT("rparen")}})
			wtype, ctype = "SESSIONWINDOW", "session"
			wparams = []string{"string:" + d}
			cparams = []string{strconv.FormatInt(int64(dur(d)), 10)}
			tag("window-session")
		default:
			global = true
			wtype, ctype = "GLOBALWINDOW", "global"
			tag("window-global")
		}
		if !global && len(items) > 1 && rng.Intn(3) == 0 { // the window need not come last
			j := rng.Intn(len(items))
			items[j], items[len(items)-1] = items[len(items)-1], items[j]
			tag("window-not-last")
		}
		groupCols = groupCols[:0]
		for _, it := range items {
			if len(it.toks) == 1 {
				groupCols = append(groupCols, it.toks[0].text)
			}
		}
		if len(items) > 0 || global {
			add(kwT("GROUP"), kwT("BY"))
			for i, it := range items {
				if i > 0 {
					add(opT("comma"))
				}
				add(it.toks...)
			}
			if global {
				if len(items) > 0 {
					add(opT("comma"))
				}
				tc := append(append([]srcTok{}, aggCalls[0]...), opT("ge"), numT(pick(rng, []string{"2", "3"})))
				add(kwT("GLOBAL"), kwT("WINDOW"), kwT("TRIGGER"), kwT("WHEN"))
				add(tc...)
				trigger = tokJoin(tc, true)
			}
		}
	}
	gb := []string{"groupby"}
	for _, g := range groupCols {
		gb = append(gb, hx(g))
	}
	exp(gb...)
	exp(append([]string{"window", hx(wtype)}, wparams...)...)
	exp("trigger", hx(trigger))

	// HAVING
	having := ""
	var hvToks []srcTok
	hvAfterWith := false
	if aggregate && rng.Intn(2) == 0 {
		var lhs [][]srcTok
		for _, a := range aggAliases {
			lhs = append(lhs, []srcTok{idT(a)})
		}
		if rng.Intn(2) == 0 {
			lhs = append(lhs, aggCalls[rng.Intn(len(aggCalls))])
			tag("having-aggregate-call")
		}
		var scratch []string
		c := randCond(rng, lhs, &scratch)
		// only comparisons in HAVING (LIKE / IS NULL over aggregates are outside the documented use)
		ok := true
		for _, t := range c {
			if t.kind == "w" && t.kw && (t.text == "LIKE" || t.text == "IS") {
				ok = false
			}
		}
		if !ok {
			c = append(append([]srcTok{}, lhs[0]...), opT("gt"), numT("16"))
		}
		// HAVING is written in front of WITH (...) or behind it (the repository's own e2e tests use both orders)
		hvToks = append([]srcTok{kwT("HAVING")}, c...)
		hvAfterWith = rng.Intn(3) == 0
		if !hvAfterWith {
			add(hvToks...)
		}
		having = tokJoin(c, true)
		tag("having")
	}
	exp("having", hx(having))

	// WITH
	ts, unit, ooo, late, idle := "", int64(0), int64(0), int64(0), int64(0)
	timeWindow := wtype == "TUMBLINGWINDOW" || wtype == "SLIDINGWINDOW" || wtype == "SESSIONWINDOW"
	if timeWindow && rng.Intn(2) == 0 {
		add(kwT("WITH"), opT("lparen"))
		type opt struct {
			name, val string
		}
		ts = pick(rng, []string{"ts", "eventTime", "order_ts"})
		opts := []opt{{"TIMESTAMP", ts}}
		if rng.Intn(2) == 0 {
			u := pick(rng, []string{"ss", "ms"})
			opts = append(opts, opt{"TIMEUNIT", u})
			unit = int64(map[string]time.Duration{"ss": time.Second, "ms": time.Millisecond}[u])
		}
		if rng.Intn(2) == 0 {
			d := pick(rng, []string{"2s", "500ms", "1m30s", "1.5s"})
			opts = append(opts, opt{"MAXOUTOFORDERNESS", d})
			ooo = int64(dur(d))
		}
		if rng.Intn(3) == 0 {
			d := pick(rng, []string{"1s", "3s", "1m30s", "2.5s"})
			opts = append(opts, opt{"ALLOWEDLATENESS", d})
			late = int64(dur(d))
		}
		if rng.Intn(3) == 0 {
			d := pick(rng, []string{"5s", "1m", "1m30s", "1h30m"})
			opts = append(opts, opt{"IDLETIMEOUT", d})
			idle = int64(dur(d))
		}
		rng.Shuffle(len(opts), func(i, j int) { opts[i], opts[j] = opts[j], opts[i] })
		for i, o := range opts {
			if i > 0 {
				add(opT("comma"))
			}
			add(kwT(o.name), opT("eq1"), strT('\'', o.val))
		}
		add(opT("rparen"))
		tag("with-options")
		if hvAfterWith {
			tag("having-after-with")
		}
	}
	if hvAfterWith {
		add(hvToks...)
	}
	// STATETTL of the keyed counting / global windows
	statettl := int64(0)
	if (wtype == "COUNTINGWINDOW" || wtype == "GLOBALWINDOW") && !hvAfterWith && rng.Intn(2) == 0 {
		d := pick(rng, []string{"24h", "90s", "1m2s", "1h30m", "1.5s"})
		add(kwT("WITH"), opT("lparen"), kwT("STATETTL"), opT("eq1"), strT('\'', d), opT("rparen"))
		statettl = int64(dur(d))
		tag("with-statettl")
	}
	exp("with", hx(ts), itoa(unit), itoa(ooo), itoa(late), itoa(idle))

	// ORDER BY
	ob := []string{"orderby"}
	if rng.Intn(3) == 0 {
		add(kwT("ORDER"), kwT("BY"))
		var keys []string
		if aggregate {
			keys = append(append([]string{}, aggAliases...), groupCols...)
		} else {
			keys = columns
		}
		n := 1 + rng.Intn(2)
		for i := 0; i < n && i < len(keys); i++ {
			if i > 0 {
				add(opT("comma"))
			}
			k := keys[(rng.Intn(len(keys))+i)%len(keys)]
			add(idT(k))
			dir := "ASC"
			switch rng.Intn(3) {
			case 0:
				add(kwT("DESC"))
				dir = "DESC"
			case 1:
				add(kwT("ASC"))
			}
			ob = append(ob, hx(k)+":"+dir)
		}
		tag("order-by")
		if having != "" {
			tag("having-then-order-by")
		}
	}
	exp(ob...)

	// LIMIT
	limit := 0
	if rng.Intn(3) == 0 {
		limit = 1 + rng.Intn(20)
		add(kwT("LIMIT"), numT(strconv.Itoa(limit)))
		tag("limit")
	}
	exp("limit", strconv.Itoa(limit))

	exp("mr", "f")

	// configuration level (types.Config as returned by rsql.Parse)
	exp("c-distinct", btok(distinct))
	exp("c-limit", strconv.Itoa(limit))
	exp("c-cond", hx(where))
	cg := []string{"c-groupfields"}
	for _, g := range groupCols {
		cg = append(cg, hx(g))
	}
	exp(cg...)
	exp("c-needwindow", btok(aggregate))
	if aggregate && ctype == "" {
		ctype, cparams = "tumbling", []string{strconv.FormatInt(int64(10*time.Second), 10)} // documented default window
	}
	if !aggregate {
		ctype = "tumbling" // zero value of the configuration for direct queries
	}
	exp(append([]string{"c-window", ctype}, cparams...)...)
	tc := "ProcessingTime"
	if ts != "" {
		tc = "EventTime"
	}
	exp("c-with", hx(ts), itoa(unit), itoa(ooo), itoa(late), itoa(idle), tc)
	exp("c-statettl", itoa(statettl))
	exp(append([]string{"c-orderby"}, ob[1:]...)...)
	exp("c-trigger", hx(trigger))
	if aggregate {
		exp("c-mode", "1")
	} else {
		exp("c-mode", "0")
	}
	return st
}

var predictedKeys = []string{"err", "distinct", "field", "source", "salias", "join", "where", "groupby", "window", "trigger", "having", "with", "orderby", "limit",
	"mr", "mr-partition", "mr-orderby", "mr-measure", "mr-rows", "mr-pattern", "mr-within", "mr-define",
	"c-distinct", "c-limit", "c-cond", "c-groupfields", "c-needwindow", "c-window", "c-with", "c-statettl", "c-orderby", "c-trigger", "c-mode"}

// ---------------------------------------------------------------- layouts

// renderStmt writes the token list in one of the layout styles; only whitespace and the case of
// grammar keywords vary (LexSpec.Sep is respected: whitespace wherever needSep asks for it).
func renderStmt(rng *rand.Rand, toks []srcTok, style int) string {
	var sb strings.Builder
	for i, t := range toks {
		must := i > 0 && needSep(toks[i-1], t)
		ws := ""
		switch style {
		case 0: // canonical: single spaces between all tokens, except none before `,` `)` and after `(`
			if i > 0 {
				ws = " "
				if (t.kind == "o" && (t.op == "comma" || t.op == "rparen" || t.op == "lparen")) || (toks[i-1].kind == "o" && toks[i-1].op == "lparen") {
					ws = ""
				}
				if t.kind == "o" && t.op == "lparen" && toks[i-1].kw && toks[i-1].kind == "w" && strings.EqualFold(toks[i-1].text, "WITH") {
					ws = " "
				}
			}
		case 1: // minimal: whitespace only where the lexer needs it
		case 2: // generous: random whitespace (tabs, newlines, CRLF) between all tokens
			if i > 0 {
				ws = randWs(rng)
			}
		case 3: // one clause per line, single spaces elsewhere
			if i > 0 {
				ws = " "
				if t.kind == "w" && t.kw {
					switch strings.ToUpper(t.text) {
					case "FROM", "WHERE", "GROUP", "HAVING", "ORDER", "LIMIT", "WITH":
						ws = "\n"
					}
				}
			}
		default: // mixed: random choice per gap
			if i > 0 && rng.Intn(2) == 0 {
				ws = randWs(rng)
			}
		}
		if must && ws == "" {
			ws = " "
		}
		mask := "-"
		if t.kind == "w" && t.kw {
			switch style {
			case 0:
			case 1:
				mask = randMask(rng, len(t.text), 2)
			case 2:
				mask = caseTo(t.text, false)
			case 3:
				mask = caseTo(t.text, true)
			default:
				mask = randMask(rng, len(t.text), rng.Intn(4))
			}
		}
		sb.WriteString(ws)
		sb.WriteString(t.spelled(mask))
	}
	if style == 2 || style == 4 {
		sb.WriteString(randWs(rng))
	}
	return sb.String()
}

// caseTo: mask turning the word into all-upper (true) or all-lower (false)
func caseTo(w string, upper bool) string {
	b := make([]byte, len(w))
	for i := range b {
		isUp := 'A' <= w[i] && w[i] <= 'Z'
		isLo := 'a' <= w[i] && w[i] <= 'z'
		b[i] = '0'
		if (upper && isLo) || (!upper && isUp) {
			b[i] = '1'
		}
	}
	return string(b)
}

func genStmtCase(rng *rand.Rand, idx int) Case {
	var c Case
	var st refStmt
	if rng.Intn(8) == 0 {
		st = genMRStmt(rng)
	} else {
		st = genStmt(rng)
	}
	c.Cfg = append(c.Cfg, []string{"kind", "statement"})
	c.Cfg = append(c.Cfg, append([]string{"keys"}, predictedKeys...))
	for _, e := range st.exp {
		c.Cfg = append(c.Cfg, append([]string{"exp"}, e...))
	}
	for style := 0; style < 5; style++ {
		c.Ops = append(c.Ops, []string{"parse", strconv.Itoa(style), hx(renderStmt(rng, st.toks, style))})
	}
	seen := map[string]bool{}
	for _, t := range st.tags {
		if !seen[t] {
			seen[t] = true
			c.Stat = append(c.Stat, "stmt-"+t)
		}
	}
	return c
}

// ---------------------------------------------------------------- execution: what rsql extracted

// canonTokens: the text re-lexed by rsql's lexer, token values joined by single spaces (expression
// texts are compared up to the spacing the parser chooses when it re-joins tokens).
func canonTokens(s string) string {
	l := rsql.NewLexer(s)
	var parts []string
	for i := 0; i <= len(s)+1; i++ {
		t := l.NextToken()
		if t.Type == rsql.TokenEOF {
			break
		}
		if isKeywordTok(t) {
			parts = append(parts, strings.ToUpper(t.Value))
		} else {
			parts = append(parts, t.Value)
		}
	}
	return strings.Join(parts, " ")
}

// isKeywordTok: a word the lexer classified as a keyword (anything word-like that is not an identifier)
func isKeywordTok(t rsql.Token) bool {
	if t.Type == rsql.TokenIdent || t.Value == "" {
		return false
	}
	b := t.Value[0]
	return 'a' <= b && b <= 'z' || 'A' <= b && b <= 'Z' || b == '_'
}

// canonKw: the text with every keyword token upper-cased in place, everything else byte-identical
// ("up to keyword spelling": expression texts kept in the configuration retain the spelling of
// CASE/WHEN/… as written; literals and identifiers are untouched because the lexer sees them as such).
func canonKw(s string) string {
	l := rsql.NewLexer(s)
	b := []byte(s)
	for i := 0; i <= len(s)+1; i++ {
		t := l.NextToken()
		if t.Type == rsql.TokenEOF {
			break
		}
		if isKeywordTok(t) && t.Pos >= 0 && t.Pos+len(t.Value) <= len(b) {
			copy(b[t.Pos:], strings.ToUpper(t.Value))
		}
	}
	return string(b)
}

func canonKwJSON(v interface{}) interface{} {
	switch x := v.(type) {
	case string:
		return canonKw(x)
	case []interface{}:
		for i := range x {
			x[i] = canonKwJSON(x[i])
		}
		return x
	case map[string]interface{}:
		m := make(map[string]interface{}, len(x))
		for k, e := range x {
			if strings.ContainsAny(k, " (") { // expression-valued keys (selectAlias, fieldAlias …), not struct field names
				k = canonKw(k)
			}
			m[k] = canonKwJSON(e)
		}
		return m
	}
	return v
}

func paramStr(p interface{}) string {
	switch v := p.(type) {
	case time.Duration:
		return strconv.FormatInt(int64(v), 10)
	case string:
		return "string:" + v
	case int:
		return "int:" + strconv.Itoa(v)
	default:
		return fmt.Sprintf("%T:%v", p, p)
	}
}

// parseObs: statement-level lines from rsql.NewParser(sql).Parse() (public API), configuration-level
// lines from rsql.Parse(sql). Predicted keys first and in the fixed order of genStmt, then the
// unpredicted ones (complete canonical configuration), which are compared across layouts only.
func parseObs(sql string) (out [][]string) {
	defer func() {
		if r := recover(); r != nil {
			out = [][]string{{"err", hx(fmt.Sprint("panic: ", r))}}
		}
	}()
	stmt, err := rsql.NewParser(sql).Parse()
	if err != nil || stmt == nil {
		return [][]string{{"err", hx(fmt.Sprint("parser: ", err))}}
	}
	cfg, cond, err := rsql.Parse(sql)
	if err != nil || cfg == nil {
		return [][]string{{"err", hx(fmt.Sprint("parse: ", err))}}
	}
	out = append(out, []string{"distinct", btok(stmt.Distinct)})
	for i, f := range stmt.Fields {
		out = append(out, []string{"field", strconv.Itoa(i), hx(canonTokens(f.Expression)), hx(f.Alias)})
	}
	out = append(out, []string{"source", hx(stmt.Source)})
	out = append(out, []string{"salias", hx(stmt.SourceAlias)})
	for j, jc := range stmt.JoinConfigs {
		line := []string{"join", strconv.Itoa(j), jc.JoinType, hx(jc.Table), hx(jc.Alias)}
		for _, pr := range jc.OnPairs {
			line = append(line, hx(pr.StreamField)+"="+hx(pr.TableField))
		}
		out = append(out, line)
	}
	out = append(out, []string{"where", hx(stmt.Condition)})
	gb := []string{"groupby"}
	for _, g := range stmt.GroupBy {
		gb = append(gb, hx(g))
	}
	out = append(out, gb)
	w := []string{"window", hx(strings.ToUpper(stmt.Window.Type))}
	for _, p := range stmt.Window.Params {
		w = append(w, paramStr(p))
	}
	out = append(out, w)
	out = append(out, []string{"trigger", hx(stmt.Window.TriggerCondition)})
	out = append(out, []string{"having", hx(stmt.Having)})
	out = append(out, []string{"with", hx(stmt.Window.TsProp), itoa(int64(stmt.Window.TimeUnit)), itoa(int64(stmt.Window.MaxOutOfOrderness)),
		itoa(int64(stmt.Window.AllowedLateness)), itoa(int64(stmt.Window.IdleTimeout))})
	ob := []string{"orderby"}
	for _, o := range stmt.OrderBy {
		ob = append(ob, hx(o.Expression)+":"+string(o.Direction))
	}
	out = append(out, ob)
	out = append(out, []string{"limit", strconv.Itoa(stmt.Limit)})
	out = append(out, mrObs(stmt.MatchRecognize)...)

	out = append(out, []string{"c-distinct", btok(cfg.Distinct)})
	out = append(out, []string{"c-limit", strconv.Itoa(cfg.Limit)})
	out = append(out, []string{"c-cond", hx(cond)})
	cg := []string{"c-groupfields"}
	for _, g := range cfg.GroupFields {
		cg = append(cg, hx(g))
	}
	out = append(out, cg)
	out = append(out, []string{"c-needwindow", btok(cfg.NeedWindow)})
	cw := []string{"c-window", cfg.WindowConfig.Type}
	for _, p := range cfg.WindowConfig.Params {
		cw = append(cw, paramStr(p))
	}
	out = append(out, cw)
	wc := cfg.WindowConfig
	out = append(out, []string{"c-with", hx(wc.TsProp), itoa(int64(wc.TimeUnit)), itoa(int64(wc.MaxOutOfOrderness)),
		itoa(int64(wc.AllowedLateness)), itoa(int64(wc.IdleTimeout)), string(wc.TimeCharacteristic)})
	out = append(out, []string{"c-statettl", itoa(int64(wc.CountStateTTL))})
	co := []string{"c-orderby"}
	for _, o := range cfg.OrderBy {
		co = append(co, hx(o.Expression)+":"+string(o.Direction))
	}
	out = append(out, co)
	out = append(out, []string{"c-trigger", hx(wc.TriggerCondition)})
	out = append(out, []string{"c-mode", strconv.Itoa(int(cfg.Mode))})

	// unpredicted: the rewritten HAVING text and the complete configuration, canonical JSON (map keys sorted
	// by encoding/json; the performance sub-configurations are constant zero values at this stage)
	out = append(out, []string{"c-having", hx(canonKw(cfg.Having))})
	out = append(out, []string{"c-json", hx(canonJSON(cfg))})
	// direct (non-aggregating) statements are also executed: the rows they produce must not depend on the layout
	if cfg.Mode == types.ExecDirect {
		out = append(out, []string{"x-rows", hx(c11ExecDirect(sql))})
	}
	return out
}

var execCols = []string{"a", "b", "temp", "deviceId", "v1", "x_y", "limit_x", "orderby", "fromage", "whereabouts", "grp", "from", "order by", "limit", "a b", "where"}

// execRows: one mixed row, then rows whose columns all carry one of the literals the generator uses in predicates
var execRows = func() []map[string]interface{} {
	rows := []map[string]interface{}{
		{"a": 2, "b": 2.5, "temp": 20, "deviceId": 3, "v1": 0, "x_y": 16, "s": map[string]interface{}{"a": 5}, "limit_x": 100, "orderby": 1, "fromage": -1,
			"whereabouts": 2, "grp": 7, "from": 1, "order by": 2, "limit": 0, "a b": 16, "where": 3},
		{"a": -1, "b": nil, "deviceId": 1.5, "x_y": "x", "limit_x": 0, "grp": "LIMITED", "limit": 2.5},
	}
	for _, v := range []interface{}{1, 16, 2.5, -3.5, "x", "LIMIT 5", "ORDER BY z", " WHERE ", "a AND b", "_x"} {
		r := map[string]interface{}{"s": map[string]interface{}{"a": v}}
		for _, c := range execCols {
			r[c] = v
		}
		rows = append(rows, r)
	}
	return rows
}()

// c11ExecDirect runs the statement on the fixed rows through EmitSync and returns a canonical text
// (JSON with sorted keys per row; `-` for a filtered row).
func c11ExecDirect(sql string) string {
	s := streamsql.New(presetOpt(), streamsql.WithDiscardLog())
	defer s.Stop()
	if err := s.Execute(sql); err != nil {
		return "execute-error: " + err.Error()
	}
	var parts []string
	for _, r := range execRows {
		row := make(map[string]interface{}, len(r))
		for k, v := range r {
			row[k] = v
		}
		o, err := s.EmitSync(row)
		switch {
		case err != nil:
			parts = append(parts, "error: "+err.Error())
		case o == nil:
			parts = append(parts, "-")
		default:
			b, _ := json.Marshal(o)
			parts = append(parts, string(b))
		}
	}
	return strings.Join(parts, " | ")
}

func canonJSON(v interface{}) string {
	b, err := json.Marshal(v)
	if err != nil {
		return "json-error: " + err.Error()
	}
	var m map[string]interface{}
	if json.Unmarshal(b, &m) != nil {
		return string(b)
	}
	delete(m, "performanceConfig")
	if w, ok := m["windowConfig"].(map[string]interface{}); ok {
		delete(w, "performanceConfig")
	}
	b, _ = json.Marshal(canonKwJSON(m)) // encoding/json sorts map keys
	return string(b)
}
