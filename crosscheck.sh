#!/bin/bash
# crosscheck.sh <seed-name> <prop>…  — apply seeded/<name>/patch.diff to $VERIF_REPO (default /repo, must be clean), run the
# named checks (quick tier), undo, restore evidence. One line per check.
set -u
cd "$(dirname "$0")"
REPO="${VERIF_REPO:-/repo}"
n=$1; shift
mkdir -p .work/cross; cp evidence/*.json .work/cross/ 2>/dev/null
git -C "$REPO" apply "$PWD/seeded/$n/patch.diff" || exit 2
for p in "$@"; do
  out=$(./check $p ${CROSS_ARGS:-} 2>&1); rc=$?
  v=$(echo "$out" | grep '^VIOLATION' | head -1)
  echo "$n $p exit=$rc $v"
done
git -C "$REPO" checkout -- .
cp .work/cross/*.json evidence/ 2>/dev/null
