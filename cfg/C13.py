CFG = dict(
    theorems=["C13.like_loop_eq_spec", "C13.like_loop_eq_spec_bytes", "C13.convertLike_sound",
              "C13.rewritten_eq_loop", "C13.isnull_paths_agree", "C13.facts_wildcards"],
    distinct_by_op=True,
    rule="ops are (text, pattern) pairs over {a,b,.,%,_} (patterns expanded into matching texts and perturbed), "
         "sent to the three Go matchers, to convertLikeToFunction, and through SQL in WHERE / CASE / HAVING position; "
         "IS [NOT] NULL ops over missing/NULL/present cells on four SQL paths; distinct = distinct op line Added late: in the `noise` cases the single-row helper creates its instance with an input schema and first sends a row the schema rejects. Every fifth case runs under WithHighPerformance (`preset high`), for C05/C06/C12/C13/C14/C16/C20 another fifth under WithLowLatency (`preset low`); every seventh case follows a noise prelude (failing statements, malformed rows, panicking sink / function in other instances).",
    assumptions=["expr-lang's ==, startsWith, endsWith, contains on strings are Go string equality / strings.HasPrefix / HasSuffix / Contains (validated only by the SQL-level correspondence)",
                 "LIKE with a NULL/missing text is 'not true' (read off the property's 'true exactly when the whole text of x matches'); generated only inside the combined CASE / HAVING forms (`combo` ops), where both evaluation paths agree on it"],
)
META = dict(
   text="Proof: for every text and pattern over any alphabet the two-pointer matcher model equals the declarative LIKE relation, "
        "and the operator rewriting of convertLikeToFunction decides the same relation; IS [NOT] NULL paths agree (Lean theorems, no bound). "
        "The three Go matchers, the rewriting and the SQL positions WHERE/CASE/HAVING are tied to the model by differential correspondence on generated (text, pattern) pairs.",
   note="Trusted: Lean kernel; hand-written model (tied by correspondence, not verified); expr-lang string operators = Go strings functions; harness/hook code. LIKE over NULL text and patterns containing quotes/backslashes are outside the quantifier.",
)
