CFG = dict(
    theorems=["C07.limit_prefix"],
    rule="one case = one generated SQL query (SELECT list over plain aggregates, agg op literal, agg op agg, parenthesised and nested forms, aggregates over expression arguments; HAVING; ORDER BY; LIMIT; DISTINCT) with three batches; distinct = distinct (cfg, op list)",
    assumptions=[],
)
META = dict(text="", note="")
