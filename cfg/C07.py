CFG = dict(
    theorems=["C07.pipeline_eq_spec", "C07.pipeline_eq_spec_batch", "C07.select_arith_on_aggs", "C07.select_item_value",
              "C07.select_arith_structure", "C07.having_exact_row", "C07.having_exact", "C07.no_hidden_columns",
              "C07.sort_perm", "C07.less_strict_weak", "C07.sort_sorted", "C07.limit_prefix",
              "C07.distinct_first_occurrence", "C07.groupBatch_keys_nodup", "C07.oracle_accepts_every_order", "C07.oracle_accepts_only_legal",
              "C07.intNum_ord", "C07.facts_hidden_names"],
    rule="one case = one generated SQL query (SELECT list mixing plain aggregates, aggregates over expression arguments, "
         "agg op literal with the aggregate leading or trailing, agg op agg, nested and parenthesised forms, division by literal / COUNT(*); "
         "HAVING over aliases, selected calls, unselected aggregates, aggregates over expressions and compounds, literals steered to the data's boundaries; "
         "ORDER BY 0-2 keys ASC/DESC incl. the group column and a non-column; LIMIT 0..groups+1; DISTINCT) sent as SQL text to the real engine and as an AST to the model, "
         "with three batches of 1-6 groups over small value domains (ties). Modes: direct (synchronous feed through the real processWindowBatch), "
         "win (real CountingWindow over all groups, sentinel batch as barrier), e2e (streamsql.Execute, keyed CountingWindow, sentinel). "
         "Deliveries are compared with the model run under the pre-sort order the delivery witnesses, and judged by the relational oracle Spec.valid; distinct = distinct (cfg, op list) Added late: the cap set on the parsed configuration instead of in the statement (`proglimit`); the group column taken from a joined table and spelled m.d in SELECT / GROUP BY / ORDER BY (`join`, win mode); one group of the first batch may lack a column in all its rows (NULL aggregates; queries without HAVING). Every fifth case runs under WithHighPerformance (`preset high`), for C05/C06/C12/C13/C14/C16/C20 another fifth under WithLowLatency (`preset low`); every seventh case follows a noise prelude (failing statements, malformed rows, panicking sink / function in other instances).",
    assumptions=["result rows are compared as delivered: streamsql puts every GROUP BY column into the result row whether selected or not, so rows of one batch always differ in the group column (DISTINCT can never merge two groups' rows; the dedup loop itself is covered by distinct_first_occurrence)",
                 "wf: output column names pairwise different, different from the group column and not starting with __; SELECT items do not reference other output columns",
                 "the SELECT-side placeholder name is the hex-encoded call text (injective; repaired in /repo 2427a79 — it was a 31-polynomial hash, under which SUM(Aa) and SUM(BB) collided); the model identifies a placeholder with its call, and the generator produces same-function aggregates over the columns Aa / BB (equal hashes) to notice a return of the collision",
                 "aggregate definitions (SUM/AVG/MIN/MAX/COUNT over the rows whose argument has a value) are C03's subject and shared between model and spec; generated data has no NULL cells",
                 "expr-lang's behaviour for the generated shapes (float64 arithmetic + - * /, comparisons, short-circuit && ||, evaluation error = predicate false / item NULL) is tabulated in the model and validated by correspondence only",
                 "sort.SliceStable computes the stable sort when less is a strict weak order (homogeneous key columns, no NaN); mixed-kind keys are outside sort_sorted and are not generated (tagged mixed-key-kinds if they occur)",
                 "the theorems hold for every interpretation of the number operations; bit-exact agreement at binary64 is checked by the driver (floats cross the protocol as bit patterns)"],
    unproved=["oracle_accepts_only_legal is stated over arrangements of the candidate rows; that every such arrangement is induced by an order of the groups (rows and groups correspond one-to-one by the group column) is not spelled out as a theorem"],
)
META = dict(
   text="Proof: for every well-formed query and every batch, the code's pipeline on the groups' result rows (aggregator row with placeholder and hidden HAVING columns, templates evaluated, DISTINCT, HAVING, removal of hidden columns, stable sort by Sorter.less, LIMIT) "
        "delivers exactly limit n (sortBy keys (distinct (rows of the groups satisfying HAVING))) with every SELECT item equal to its arithmetic on the group's aggregate values, for every interpretation of the number operations and every pre-sort order of the groups; "
        "no placeholder/hidden column is delivered; Sorter.less is a strict weak order on homogeneous keys and the output is a sorted permutation; LIMIT is a prefix; the delivery oracle accepts every legal outcome and only legal outcomes (Lean theorems, unbounded). "
        "The textual classification of SELECT/HAVING items in rsql and the aggregator wiring are tied to the AST model by differential correspondence: generated SQL is executed on the real engine (three modes) and every delivered batch is compared bit-exactly with the model and judged by the relational oracle.",
   note="Trusted: Lean kernel; hand-written model tied by correspondence; expr-lang semantics for the generated shapes; sort.SliceStable; harness/hook. Mixed-type ORDER BY keys, NULL cells and NaN are outside the proved statements.",
)
