CFG = dict(
    theorems=[],
    rule="one case = one query (pattern tree, DEFINE, SKIP, WITHIN, ONE/ALL ROWS) and one interleaved stream",
    assumptions=[],
)
META = dict(text="wip", note="wip")
