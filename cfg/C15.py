CFG = dict(
    theorems=["C15.nfa_accepts_iff_lang", "C15.compileNode_correct", "C15.pattern_tree_lang", "C15.emitted_match_valid",
              "C15.skip_past_last_row_disjoint", "C15.match_starts_increasing", "C15.match_number_sequential",
              "C15.flush_emits_accepting", "C15.cep_partition_isolation", "C15.valid_match_explored",
              "C15.cep_complete_longest", "C15.reference_matcher_exact", "C15.reference_matcher_sound", "C15.facts_cep"],
    lean_modules=["SsqlVerif.Props.C15", "SsqlVerif.Audit.C15"],
    rule="one case = one query (pattern tree over <= 4 variables from the quantifier's grammar incl. PERMUTE, groups, {n,m}, "
         "reluctant variants and shapes Compile rejects; DEFINE over the current row, PREV and one aggregate, with forced or "
         "overlapping classification; every SKIP mode; WITHIN; ONE/ALL ROWS PER MATCH) and one interleaved stream of <= 12 rows "
         "over 1-3 partitions, run on cep.Engine directly (observables per Process/Flush) or through SQL (Execute/Emit/Stop); "
         "distinct = distinct (cfg, op list) Added late: the partition cap set to exactly the number of partitions of the case (`pcap`). Every fifth case runs under WithHighPerformance (`preset high`), for C05/C06/C12/C13/C14/C16/C20 another fifth under WithLowLatency (`preset low`); every seventh case follows a noise prelude (failing statements, malformed rows, panicking sink / function in other instances).",
    unproved=[
        "C15.reference_pruning_complete : the oracle's reference matcher is run with a pruned state key (variables no DEFINE "
        "condition looks back at are collapsed, to keep the brute force polynomial); that this pruning loses no match length is "
        "stated as a `def … : Prop` and NOT proved. Proved: exactness for the unpruned key (reference_matcher_exact) and soundness "
        "for every key (reference_matcher_sound), so a `valid` verdict is always right; a missed longer/omitted match by the oracle "
        "would need the pruning to be wrong. The oracle is a search; the completeness claim itself is theorem cep_complete_longest.",
        "reluctant mode: only validity, SKIP/MATCH_NUMBER discipline and isolation are proved (they hold for both modes); "
        "shortest-match / completeness is neither claimed by the code nor proved.",
    ],
    assumptions=[
        "guards are not hit: maxRuns / capPending / partition LRU eviction / the wall-clock sweeper are not modelled; generated "
        "cases are kept below 150 live runs per partition (hook VerifMaxRuns); maxRunRows is modelled and exercised",
        "timestamps are small integers (< 1e9, taken as is by normalizeTs) and WITHIN is given in the same unit",
        "DEFINE conditions are conjunctions of comparisons over v, c, constants, PREV(v,n), SUM/COUNT/MIN/MAX (optionally "
        "variable-qualified), X.v and FIRST(v); their evaluation by the expr engine is tied to the driver's evaluator by "
        "correspondence only (the theorems take DEFINE as an arbitrary history-aware predicate)",
        "which of several equally long valid classifications of the same rows is reported is not fixed by the code (map order "
        "of closure()) nor by the property: the model shows its match with the implementation's classification when that one is valid",
        "AFTER MATCH SKIP TO FIRST/LAST <var> resumes at the row AFTER the designated row (the engine's rule; SQL:2016 resumes AT it); "
        "the spec takes the engine's rule; generated only with forced classification",
        "reluctant quantifiers switch the whole engine to emit-first-completion; for them and when a row-limit guard is set only the "
        "validity clauses of the oracle apply (valid match, consecutive rows, SKIP rule, MATCH_NUMBER), not leftmost/longest/complete",
        "the order in which Flush lists partitions (LRU order) is not modelled; flush output is compared per partition",
        "not generated / not modelled: SUBSET, FINAL/RUNNING modifiers, NEXT(), MEASURES other than MATCH_NUMBER, CLASSIFIER, "
        "FIRST/LAST(id), COUNT(*), SUM(id), SUM(v), LAST(p); epoch-sized timestamps (normalizeTs unit guessing); WHERE/JOIN in front of the engine",
    ],
)
META = dict(
    text="Proof (Lean, no bound on pattern size, stream length, partitions): the Thompson automaton accepts exactly the pattern "
         "language; every match the engine model emits over any history is a non-empty run of consecutive rows of its own partition "
         "whose classification is a word of the PATTERN with every DEFINE satisfied against the match so far and within WITHIN; "
         "matches of a partition are reported leftmost-first, never share a row under SKIP PAST LAST ROW, and MATCH_NUMBER counts "
         "1,2,3..; Flush accounts for every accepting unfinished run; other partitions' rows never matter; and (greedy quantifiers, guards "
         "out of play, rows then Stop) every valid match is decided by a reported one: nothing valid is omitted except by the SKIP rule, "
         "starts are leftmost, the reported match is the longest for its start. The engine model is tied to "
         "cep.Engine (direct and through SQL, ONE/ALL ROWS PER MATCH) by differential correspondence on generated (pattern, stream) "
         "pairs, on which a brute-force reference matcher (search) is also evaluated against the implementation's output.",
    note="Trusted: Lean kernel; hand-written model (tied by correspondence, not verified); harness, hook cep/verif_hooks_c15.go, "
         "driver-side DEFINE/MEASURES evaluators. Three defects found by the check and fixed in the repo (per-partition sequence "
         "numbers; accepted-but-extendable run kept as candidate; emitGreedy waits for earlier live starts). Guards (maxRuns, "
         "capPending, LRU, sweeper) outside the model; the oracle's reference matcher is proved exact for the unpruned state key and sound for the pruned one it runs with.",
)
