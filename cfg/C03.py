CFG = dict(
    theorems=[
        "C03.agg_fold_eq_spec_count", "C03.agg_fold_eq_spec_sum", "C03.agg_fold_eq_spec_avg",
        "C03.agg_fold_eq_spec_min", "C03.agg_fold_eq_spec_max", "C03.agg_fold_eq_spec_stddev",
        "C03.agg_fold_eq_spec_stddevs", "C03.agg_fold_eq_spec_var", "C03.agg_fold_eq_spec_vars",
        "C03.agg_fold_eq_spec_median", "C03.agg_fold_eq_spec_percentile", "C03.agg_fold_eq_spec_first_value",
        "C03.agg_fold_eq_spec_last_value", "C03.agg_fold_eq_spec_nth_value", "C03.agg_fold_eq_spec_collect",
        "C03.agg_fold_eq_spec_deduplicate", "C03.agg_fold_eq_spec_merge_agg", "C03.agg_fold_eq_spec",
        "C03.agg_min_is_least", "C03.agg_max_is_greatest",
        "C03.agg_perm_invariant", "C03.agg_perm_invariant_sum", "C03.agg_perm_invariant_avg",
        "C03.agg_perm_invariant_count", "C03.agg_perm_invariant_min", "C03.agg_perm_invariant_max",
        "C03.agg_perm_invariant_stddev", "C03.agg_perm_invariant_var", "C03.agg_perm_invariant_median",
        "C03.agg_perm_invariant_percentile",
        "C03.agg_null_skipped", "C03.agg_no_usable_input", "C03.agg_count_nulls_zero",
        "C03.ga_null_missing_skipped", "C03.ga_count_star",
        "C03.ga_results_eq_spec", "C03.ga_results_eq_spec_anynum", "C03.agg_expr_arg",
        "C03.agg_group_isolation", "C03.agg_reset_is_new", "C03.agg_reset_fresh", "C03.agg_reset_fresh_anynum",
        "C03.facts_constants",
    ],
    rule="a case is (i) one aggregator object of each of the 17 kinds (built-in constructor or parameterised p / n) driven by "
         "new / add ops over ints, floats (dyadic and not, negative, zero, repeated; sometimes ±Inf, NaN, -0), NULL, numeric and "
         "non-numeric strings, bools, with Result() observed after every op; (ii) one GroupAggregator with 0-2 group columns and 1-4 "
         "aggregate fields (bare / nested column, count(*), erroring and NULL-producing expression evaluators) over several batches "
         "(results / reset in varying order, NULL and missing cells); (iii) a SQL query with CountingWindow(N) (optionally GROUP BY g), "
         "bare, nested-path and arithmetic arguments (a*b+1, a*b, a-b, a*2), a sync sink and a sentinel batch as barrier. "
         "distinct = distinct (cfg, op list); floats compared bit-exactly Added late: sql cases over bare columns run half the time through GLOBAL WINDOW TRIGGER WHEN COUNT(*) >= n (`gwin`, numeric / NULL / missing values only) and one in six ungrouped cases registers its sink late on a one-slot result channel (`latesink`). Every fifth case runs under WithHighPerformance (`preset high`), for C05/C06/C12/C13/C14/C16/C20 another fifth under WithLowLatency (`preset low`); every seventh case follows a noise prelude (failing statements, malformed rows, panicking sink / function in other instances).",
    assumptions=["global-window variant of the sql cases (cfg gwin): values restricted to the property's own domain (numbers, whole ones within +-2^53, NULL, missing); the running aggregators hold every number as float64, so a whole number is compared as the float64 of the same value",
                 "nth_value / percentile in a GLOBAL WINDOW query are the recorded finding class global-window-parameterised-aggregate (left out of the result row); cases of that class are generated, compared with the model and excused by class only",
                 
        "permutation invariance (agg_perm_invariant*) is a theorem of exact arithmetic (commutative, associative +, strict total order; Lean core Rat is an instance); "
        "it is false of float64 for adversarial inputs — the property text says 'over float64 arithmetic'; the fold = definition theorems need no law and hold for float64",
        "median / percentile: 'fold = definition' needs a strict total order (no NaN, no mix of -0 and +0); sort.Float64s is modelled by an insertion sort (any correct sort agrees up to ties); "
        "the check canonicalises -0 to +0 in median / percentile results",
        "math.Pow(x, 2) is modelled as x*x (bit-identical outside the subnormal range)",
        "strconv.ParseFloat, fmt %v and strconv.FormatFloat('f') are parameters of the model (Env); the harness computes them with the Go runtime for the values of a case",
        "stddev is the *sample* standard deviation (divisor n-1, 0 for fewer than two values), as the unedited test-suite pins it "
        "(functions_aggregation_test.go:316, test/e2e/function_test.go:490); docs/FUNCTIONS_USAGE_GUIDE.md calls it population stddev",
        "deduplicate identifies values by their Go %v rendering (int 1, float 1.0 and string \"1\" are one value)",
        "SQL tier: rows of a batch are the chunks of N consecutive rows per window key (property C09); arithmetic arguments are generated only in front of numeric aggregates, "
        "with operands that are numbers, NULL or missing; `a+b` with a NULL operand (string concatenation in the expression engine, C06) is not generated; "
        "group keys are non-empty strings without separator bytes (key encoding is C04)",
        "window_start()/window_end() context lookup of GroupAggregator.Add is not modelled (not among the aggregates of C03)",
    ],
    unproved=[],
)
META = dict(
   text="Proof: for each of count, sum, avg, min, max, stddev/stddevs, var/vars, median, percentile, first_value, last_value, nth_value, collect, deduplicate, merge_agg the "
        "model of the Go accumulator (new/add/result) folded over any input list equals the declarative definition (Lean theorems, all lists, no bound; for every number type, "
        "order laws needed only where the definition sorts); order-insensitive aggregates are permutation invariant over exact arithmetic; NULL/missing are skipped, "
        "no usable input gives NULL (count 0); the GroupAggregator model returns, for any batch, one row per group computed from that group's rows only, an expression argument "
        "is evaluated per row, and over any sequence of batches with Reset each batch's results depend on that batch alone. "
        "Tied to the code by differential correspondence at three levels (aggregator objects, GroupAggregator, SQL with CountingWindow), floats bit-exact.",
   note="Trusted: Lean kernel; hand-written model (tied by correspondence, not verified); Go strconv/fmt (passed to the model as tables); harness. "
        "Permutation invariance is an exact-arithmetic theorem (false of float64). stddev = sample standard deviation as pinned by the suite (docs say population).",
)
