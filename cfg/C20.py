CFG = dict(
    theorems=["C20.caller_row_unchanged", "C20.caller_row_unchanged_eq", "C20.in_place_injection_reaches_the_caller",
              "C20.repair_preserves_working_view", "C20.sink_rows_not_altered_later", "C20.sink_rows_not_altered_later_prefix",
              "C20.cache_transparent", "C20.instances_independent", "C20.instances_independent_cold", "C20.facts_groupkey"],
    rule="one case = a query A and a query B drawn from the kinds of the quantifier (projection from the C05 grammar; analytic functions in SELECT "
         "(lag, latest, acc_sum, changed_col, multi-column changed_cols, arithmetic over lag), in WHERE (had_changed, lag), in both; function-expression group keys "
         "upper/lower(k) with CountingWindow(1..3); plain CountingWindow with and without key; stream-table JOIN inner/left, JOIN + analytic, JOIN + window, JOIN + computed key). "
         "Rows carry id/v/k/dev (NULL, missing, float variants), nested maps/lists and sometimes a column named like something the engine injects (p, upper(k), __analytic_0__, c_v, s). "
         "Ops: 2-5 EmitSync calls with a deep re-read of the caller's map; one Emit run of 3-8 rows re-read after quiescence together with the rows the sink received; "
         "one paired run: A and B alone (cold caches) vs fresh A and B interleaved by a random schedule (cold caches), outputs compared. distinct = distinct (cfg, ops) Added late: one case in four creates every instance (also in the child processes) with WithSchema and a default for an absent column. Every fifth case runs under WithHighPerformance (`preset high`), for C05/C06/C12/C13/C14/C16/C20 another fifth under WithLowLatency (`preset low`); every seventh case follows a noise prelude (failing statements, malformed rows, panicking sink / function in other instances).",
    assumptions=["what the analytic engine, expression bridge, table lookup, WHERE and projection compute is abstract in the theorems (C14, C06, C16, C05 cover them); only who-writes-where is modelled",
                 "nested maps/slices are shared by reference between the caller's row, the working copy and SELECT * results; the model has no write through a nested value because the code has none "
                 "(checked by the deep before/after comparison, not proved)",
                 "cache transparency assumes compilation is a function of (expression text, env type): the function registry is not modified while instances run (custom function registration at run time is outside the claim)",
                 "instances touch process-wide state only through the expression bridge caches and the read-only registry (checked by paired runs; other package-level state found by reading: cep baseMapPool (C15), window tsWarnOnce (log only))",
                 "windows are CountingWindow (deterministic); time windows store the same row reference and add no write",
                 "the window keeps a reference to the caller's map until it fires (no copy when the query has no computed key): a caller who mutates the map after Emit changes what the window sees — outside the property"],
    unproved=["absence of writes through nested values and of further shared mutable state in the code rests on the correspondence (deep snapshots, paired runs)"],
)
META = dict(
   text="Proof: with the caller's map and the engine's working map modelled as an alias-or-copy pair, every stage of the direct path (JOIN enrichment, analytic evaluation and injection of results / "
        "fan-out columns / WHERE placeholders, filter, projection) and of the window path (enrichment, filter, injection of computed group keys, Window.Add) leaves the caller's map exactly as it was, "
        "for every query shape, row and behaviour of the abstract evaluators; the copy-before-first-write repair leaves the working view and the analytic results unchanged; delivered result rows are never "
        "written again (append-only heap invariant); cached expression evaluation equals uncached evaluation for consistent caches, hence two instances fed in any interleaving produce exactly their solo outputs "
        "(Lean theorems, unbounded). Tied to the code by deep before/after snapshots of caller maps for every query kind through EmitSync and Emit, re-inspection of sink-received rows, and paired vs solo runs with cold caches.",
   note="Trusted: Lean kernel; hand-written ownership model tied by correspondence; evaluators abstract; Go map/reference semantics; harness + cache-reset hook. "
        "Defect found by this check and fixed: analytic results, WHERE placeholders and computed group keys were written into the caller's map (and could overwrite a caller column of the same name). "
        "Observed, not claimed here: SELECT * on an analytic query still shows the injected placeholder/alias columns in the *result* (C14/C05 territory).",
)
