CFG = dict(
    theorems=["C06.implEval_eq_sqlEval_partial", "C06.implEval_exact", "C06.implEval_condition", "C06.implEval_eq_sqlEval_fails",
              "C06.parser_covers_grammar", "C06.value_modes_agree", "C06.paren_transparent", "C06.null_propagates_arith", "C06.missing_is_null",
              "C06.null_compare_not_true", "C06.case_first_true", "C06.case_else_null", "C06.sql_case_else_null",
              "C06.where_eq_sqlEval_partial", "C06.where_eq_sqlEval_fails", "C06.bridge_sound_nonnull",
              "C06.engine_select_sound", "C06.engine_select_nonnull", "C06.engine_select_handfirst",
              "C06.eval_history_free", "C06.eval_history_free_prefix", "C06.facts_routing"],
    rule="one case = one random typed expression (depth 1-4 over columns a,b,s,t,f,n: arithmetic, comparisons, AND/OR/NOT, searched and simple CASE, "
         "nested CASE, calls, redundant parentheses) printed to SQL, compiled once in SELECT and (conditions) in WHERE position, evaluated on 15 rows "
         "(int/float/text/bool/NULL/missing cells, type-mixed rows, one fully typed row, 4 rows repeated after differently typed rows); every 6th case is "
         "54 direct calls of built-in functions (44 names, in- and out-of-domain arguments, wrong arities, 14 repeated); distinct = distinct (cfg, op list) Added late: `if_null(leaf, leaf)` as an operand (a function with exactly two arguments followed by arithmetic); `+` between two texts. Every fifth case runs under WithHighPerformance (`preset high`), for C05/C06/C12/C13/C14/C16/C20 another fifth under WithLowLatency (`preset low`); every seventh case follows a noise prelude (failing statements, malformed rows, panicking sink / function in other instances).",
    assumptions=["the expr-lang VM is not modelled: `xl` is a table of its behaviour for the operator shapes of the grammar, validated by correspondence only",
                 "the Go parsers (rsql SELECT/WHERE re-assembly, expr/parser.go) are not modelled: precedence and parentheses are checked by evaluating the printed text on the engine against the AST on the model",
                 "`Env.fn` (the built-in functions) is shared by model and reference; 15 functions are transliterated and compared by direct calls, the other 29 of the slice are checked for no-panic and history-independence only",
                 "ill-typed (expression,row) pairs and division by zero are outside the reference semantics (no verdict beyond no-panic and model correspondence)",
                 "zero sign and int-vs-float representation of a result are not observed (results are compared as float64 bit patterns with -0 = +0)",
                 "IS [NOT] NULL and LIKE are C13's"],
    unproved=["xl (table model of expr-lang incl. its constant folding) = behaviour of the expr-lang VM: correspondence only",
              "render e parses back to e in the rsql / expr parsers (parse_render_id): correspondence only (parser_covers_grammar only says every constructor has a production in the model of the parser)",
              "implEval_eq_sqlEval_full is refuted (implEval_eq_sqlEval_fails): a condition used as a comparison operand loses its UNKNOWN — class condition-as-operand (ill-sorted for shapeOK, not generated)",
              "where_eq_sqlEval_full is refuted (where_eq_sqlEval_fails): WHERE and bridge-first SELECT routes on rows where a sub-expression is NULL — class null-operand-exprlang",
              "CASE inside WHERE is refused at Execute — class case-in-where (no theorem: the table model returns an error for CASE)",
              "documented values of the 29 unmodelled built-in functions of the slice (no-panic and history-independence only)"],
)
META = dict(
   text="Proof (partial, stated): for every number type, environment, row (any mix of int/float/text/bool/NULL/missing) and every sort-correct expression (NOT included, evaluated three-valued), the model of the hand-written evaluator "
        "(all three evaluation modes and both CASE loops) yields the SQL three-valued value whenever that value is defined (conditions up to NULL~FALSE); NULL propagates through + - * /, a comparison with NULL is never true, "
        "CASE returns the first true arm / ELSE / NULL; the strict expr-lang table equals SQL on rows where no sub-expression is NULL (WHERE position and bridge); the SELECT router returns the SQL value on every textual route "
        "provided the bridge does; the two process-wide memo tables are transparent for every sequence of evaluations (Lean theorems, unbounded). "
        "Model, router and table are tied to expr/, functions/expr_bridge.go, stream/processor_field.go and rsql.parseWhere by evaluating generated expressions on the real engine in SELECT and WHERE position, on the "
        "hand-written evaluator and on the bridge directly, and the SQL reference semantics is evaluated as an oracle on the engine's results.",
   note="PARTIAL: expr-lang-routed shapes (WHERE, bridge-first SELECT) are tied by correspondence to a behaviour table, not proved; NULL operands on expr-lang routes, CASE inside WHERE and conditions used as comparison operands are recorded finding classes. "
        "Trusted: Lean kernel; hand-written model; harness; Go parsers; built-in function table.",
)
