CFG = dict(
    theorems=["C02.tumbling_no_early_fire", "C02.tumbling_drop_only_if_late", "C02.tumbling_dropped_row_inert",
              "C02.tumbling_late_update_contents", "C02.tumbling_late_update_only_if_allowed", "C02.future_never_moves_watermark",
              "C02.watermark_monotone", "C02.send_retry", "C02.facts_watermark", "C02.sliding_no_early_fire",
              "C02.session_no_early_delivery", "C02.session_drop_only_if_late", "C02.session_late_update", "C02.sliding_late_update_contents", "C02.sliding_every_open_window_redelivered",
              "C02.tumbling_no_early_fire_full", "C02.tumbling_no_early_fire_prefix", "C02.sliding_no_early_fire_full", "C02.session_no_early_delivery_full",
              "C02.session_registered_kept", "C02.session_fired_registered", "C02.session_open_entry_redelivered", "C02.session_late_row_redelivered_run", "C02.sliding_late_row_redelivered_run"],
    unproved=[],
    rule="tumbling (ALLOWEDLATENESS in {0,1,size/2,size,3size,20size}), sliding (lateness in {0,1,slide,3size}) and session (lateness in {0,1,timeout,5timeout,40timeout}; twin and ladder scenarios: several fired sessions of one key open for late rows at once) op sequences with late rows placed around "
         "MAXOUTOFORDERNESS and around window_end+ALLOWEDLATENESS, far-future and timestamp-less rows, lagging trigger (bursts of adds with undelivered watermarks), Adds in the unlock gap; distinct = distinct (cfg, op list) Added late: op `reset` (Window.Reset and reuse). Every fifth case runs under WithHighPerformance (`preset high`), for C05/C06/C12/C13/C14/C16/C20 another fifth under WithLowLatency (`preset low`); every seventh case follows a noise prelude (failing statements, malformed rows, panicking sink / function in other instances).",
    assumptions=["'inside the allowance' is read per window: current watermark < window_end + ALLOWEDLATENESS (the literal 'older than watermark - ALLOWEDLATENESS' contradicts the re-delivery clause for rows early in a long window)",
                 "idle timeout: the model's tick carries the flag 'IDLETIMEOUT configured and elapsed' and the wall-clock reading; *_no_early_fire_full cover such ticks (the result is then backed by that reading minus MAXOUTOFORDERNESS); whether the flag is computed correctly from lastEventTime is tied by correspondence (idle ops of the harness) only",
                 "mutex mutual exclusion; deterministic drive of the real windows without their goroutines"],
)
META = dict(
   text="Proof: on the tumbling, sliding and session models, for all configurations and op sequences: in every history (idle ticks and far-future rows included) no result is delivered unless an ingested event that passed the far-future guard has timestamp >= window_end + MAXOUTOFORDERNESS or a tick at which the idle timeout had elapsed read a wall clock >= window_end + MAXOUTOFORDERNESS; "
        "a row is discarded only if late and a discarded row changes nothing but watermark bookkeeping; a late row inside a triggered window whose allowance has not expired by the current watermark is answered by exactly one re-delivery of the same interval = last delivered contents ++ [row] (tumbling: proved over reachable states incl. the link to the last delivery; session: step-level); "
        "far-future timestamps leave the watermark state untouched; the watermark is monotone and undelivered values are re-offered (Lean theorems). "
        "Tied to the three window implementations by replay of generated op sequences (incl. lagging trigger) and by the declarative oracle with late-update, allowance and must-redeliver clauses.",
   note="Trusted: Lean kernel; models tied by correspondence; Go mutex semantics; harness. sliding and session late updates: contents at step level, must-redeliver for every reachable state (registration invariants Proofs/SlidingLateRun, Proofs/SessionLate).",
)
