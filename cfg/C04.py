CFG = dict(
    theorems=["C04.encBar_injective", "C04.escJoin_injective", "C04.encAgg_injective",
              "C04.encCounting_injective", "C04.encSession_injective", "C04.encGlobal_injective",
              "C04.encAggregator_injective", "C04.enc_respects_eq", "C04.group_partition_of_injective",
              "C04.group_partition_aggregator", "C04.group_partition_window", "C04.facts_encoders"],
    rule="a case is a pool of key tuples (arity 0-3, one scalar type per column: strings over separator-like fragments "
         "'|' '\\\\' 0x1f ',' 0x00 'N' '\\x00NULL' '\\\\N' '' , ints, floats, bools, NULL, missing; shifted siblings (a+sep+b,c)/(a,b+sep+c) and "
         "NULL/''/marker-text siblings) used in one of the modes enc (four encoders through accessors, byte-exact), ses (SessionWindow Add/Trigger + aggregator), agg (GroupAggregator "
         "Add/GetResults with count(*), collect(id)), cnt / glb (SQL with CountingWindow(N) / GLOBAL WINDOW TRIGGER WHEN count(*) >= N, "
         "optional AS aliases); distinct = distinct (cfg, op list) Added late: session keys of struct rows (encoder op `sessionS`, cfg `structrows`). Every fifth case runs under WithHighPerformance (`preset high`), for C05/C06/C12/C13/C14/C16/C20 another fifth under WithLowLatency (`preset low`); every seventh case follows a noise prelude (failing statements, malformed rows, panicking sink / function in other instances).",
    assumptions=["strconv/fmt number formatting is a function of the float64 bits and injective on the generated floats (hypothesis fltOkT of the typed theorems); NaN and -0 are not generated",
                 "one Go type per GROUP BY column (the property's quantifier); int 1 and string \"1\" in one column render alike and are outside it",
                 "tumbling/sliding windows reach the same GroupAggregator and are tied through mode agg; session windows through mode ses (real SessionWindow driven by Add/Trigger without its goroutine) - not through SQL runs (clock-dependent)",
                 "output naming of group columns (alias > stripped name) is tied by correspondence only (SQL modes with AS aliases)"],
    unproved=[],
)
META = dict(
   text="Proof: the repaired key encoders (length prefix in GroupAggregator, separator escaping in the counting/session/global windows) are injective for all "
        "byte strings/NULL tuples of equal arity, typed values of one type per column included, and grouping by an encoder that is injective on a batch's tuples "
        "is exactly the partition of the batch by key tuple (Lean theorems, no bound). The four Go encoders, GroupAggregator and SQL counting/global windows are tied "
        "to the model by differential correspondence on collision-prone key pools.",
   note="Trusted: Lean kernel; hand-written model; Go number formatting (explicit hypothesis); harness/hook code. Mixed Go types in one column, NaN/-0 keys and SQL runs of time windows are outside.",
)
