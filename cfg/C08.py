CFG = dict(
    theorems=["C08.emission_exact", "C08.intervals_strictly_increasing", "C08.evict_safe", "C08.in_every_passed_cover",
              "C08.ontime_cover_from_arrival", "C08.earliest_start_before_advance", "C08.pass_done", "C08.late_extension_coincides",
              "C08.redelivered_row_stays_buffered", "C08.late_row_in_current_slot_stays_buffered"],
    rule="event-time op sequences as in C01 on the slide lattice, for (size,slide) in {(2,1),(3,2),(5,5),(2,3),(7,3),(10,5),(4,1)}·unit "
         "(slide|size, slide∤size, slide=size, slide>size), MAXOUTOFORDERNESS in {0, slide/2, slide, size, 2size+1}; one case in four with ALLOWEDLATENESS in {1, slide, size, 3size} and late rows around the allowance; one in twelve with IDLETIMEOUT (forced, natural, live timestamps); distinct = distinct (cfg, op list) Added late: op `reset`; `winapi` / `reuse` variant of the free-running cases; a directed scenario with two late rows for one fired interval and firings between. Every fifth case runs under WithHighPerformance (`preset high`), for C05/C06/C12/C13/C14/C16/C20 another fifth under WithLowLatency (`preset low`); every seventh case follows a noise prelude (failing statements, malformed rows, panicking sink / function in other instances).",
    assumptions=["C08 history theorems are for ALLOWEDLATENESS = 0 (late updates of sliding windows are C02); the executed model covers lateness > 0 and coincides with the base model at 0 (late_extension_coincides); for lateness > 0 membership of a late row in the pending intervals is proved at step level only (the row stays buffered) and checked on the traces by the oracle clause row-reported-before-missing-from-covering-interval",
                 "pre-1970 timestamps outside the claim (hypothesis OpsOk)",
                 "processing-time sliding windows are not modelled (the property is stated for event time)",
                 "mutex mutual exclusion: every op is one critical section; the harness drives the real window without its goroutines"],
)
META = dict(
   text="Proof: for every size/slide pair, MAXOUTOFORDERNESS and op sequence the sliding model delivers only first firings of slide-aligned intervals [s,s+size), strictly increasing (each once), "
        "each carrying exactly the rows accepted so far whose timestamp is inside; rows at or after the current slot are never evicted (eviction safety for all size/slide relations); "
        "an accepted row is in the result of every covering interval the trigger loop has passed from the slot current at its arrival, and for on-time rows that is every covering interval (Lean theorems, unbounded). "
        "Tied to window/sliding_window.go by replaying generated op sequences on the real SlidingWindow and comparing every emission; declarative per-event oracle on the implementation's emissions.",
   note="Trusted: Lean kernel; hand-written model tied by correspondence; Go mutex semantics; harness. Processing-time mode is not modelled; late updates are covered under C02.",
)
