CFG = dict(
    theorems=["C17.count_trigger_is_counting_window", "C17.global_fires_iff_engine", "C17.global_fires_iff_partial", "C17.engine_eq_sql_of_safe", "C17.global_fires_iff_fails",
              "C17.global_result_exact", "C17.global_restart_state", "C17.global_restart_empty",
              "C17.global_group_isolation_partial", "C17.keysInj_encGlobal", "C17.global_group_isolation", "C17.global_fires_and_result_global",
              "C17.trigger_binding_same_call", "C17.trigger_binding_sound", "C17.global_trace_partial",
              "C17.spec_determines_trace", "C17.running_aggregate_eq", "C17.facts_global_window"],
    unproved=["C17.global_fires_iff_full (false of the code as it is: negation proved as global_fires_iff_fails; class null-aggregate-in-predicate)",
              "the textual half of buildTrigger (aggCallRe, normalizeTriggerPredicate, first-occurrence strings.Replace) and the SQL parser's rendering of TRIGGER WHEN: tied by correspondence only"],
    rule="one case = one query (1-5 SELECT aggregates over count/sum/avg/min/max of v, V, v2, w, *; predicate tree of depth <= 3 with AND/OR over comparisons "
         "(>,>=,<,<=,=,!=) of selected and unselected aggregate calls incl. the same call twice, case-variant and prefix field names; random textual layout) and 6-36 rows over 1-4 groups "
         "(0-2 key columns, NULL/absent key parts), cells numeric (int/int64/float64) / NULL / absent / non-numeric at rates 0-60%; executed on the real GlobalWindow "
         "synchronously (verif hook), through Start/Add with an input-drain barrier, and through SQL (Execute/Emit/sync sink, sentinel row); distinct = distinct (cfg, op list) Added late: GetStats / ResetStats / TriggerWindow in mid-stream (sql mode, `stats`); the STATETTL reaper removing every group in mid-stream (direct mode, op `reset`); an unread output channel of one slot (direct / chan, `outbuf`). Every fifth case runs under WithHighPerformance (`preset high`), for C05/C06/C12/C13/C14/C16/C20 another fifth under WithLowLatency (`preset low`); every seventh case follows a noise prelude (failing statements, malformed rows, panicking sink / function in other instances).",
    assumptions=["mutex mutual exclusion: processRow is one critical section; STATETTL reaping is not part of the model; it is exercised only in scenarios where no group may be reaped (TTL 10 s, a real pause of 2 s, every group refreshed, the reaper run by hook 9 s 'later'), which the TTL-free model must therefore match; Reset is not modelled",
                 "expr-lang evaluates && / || left to right with short-circuit, `nil == x` false, `nil != x` true, ordering comparisons with nil abort (table in Model/Global.lean evalNullCmp/combAnd/combOr; validated by correspondence only, incl. the fast paths of condition.go)",
                 "numbers: theorems hold for every instance of Global.Num (no laws used: Int, Rat, Float); the driver runs at Float and compares results bit for bit; NaN/Inf inputs and |values| > 2^53 are not generated",
                 "group-key parts are strings or NULL, one arity per query (numeric key values and their %v rendering belong to C04); injectivity of the key encoder is C04's theorem GroupKey.encWindow_injective",
                 "SQL level: the sentinel disjunct `COUNT(zsent) >= 1 OR (p)` is engine-equivalent to p on real rows (zsent absent there)"],
)
META = dict(
   text="Proof: for every query (SELECT aggregates + TRIGGER WHEN predicate over count/sum/avg/min/max comparisons with AND/OR), every row sequence with NULL/absent/non-numeric cells and every number type, "
        "the processRow model delivers at a row exactly when the engine's predicate evaluator is true on the aggregates of the rows of that row's group since the group last delivered, "
        "the delivered values are the group columns and the aggregates of exactly those rows, the group then restarts from empty, predicate aggregates bound to SELECT outputs read the value they would compute themselves, "
        "and (for the engine's key encoder, by C04's injectivity theorem) a group's deliveries are those of a run over its own rows alone. SQL three-valued truth of the predicate coincides with the engine's evaluator at every evaluation point where no mentioned aggregate is NULL "
        "(or the predicate is a conjunction without !=); outside, two refutation witnesses are kernel-checked and recorded as findings. "
        "Tied to window/global_window.go by replaying generated (query, rows) pairs on the real GlobalWindow (synchronous hook, Start/Add, SQL) and comparing every delivery bit for bit; a declarative trace oracle runs on the implementation's deliveries.",
   note="Trusted: Lean kernel; hand-written model tied by correspondence; expr-lang nil/short-circuit table; harness and hooks. Finding: null-aggregate-in-predicate (expr-lang nil semantics vs SQL). Textual predicate rewriting is checked by correspondence only.",
)
