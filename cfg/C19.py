CFG = dict(
    race_pass=True,   # the free-running rounds once more in a harness built with -race (a search, never a proof)
    theorems=["C19.run_reaches", "C19.conservation", "C19.conservation_quiescent", "C19.no_duplicate",
              "C19.block_never_drops", "C19.capacity_le_max", "C19.expansion_monotone",
              "C19.single_producer_order", "C19.single_producer_order_unlocked_fails", "C19.spec_holds",
              "C19.facts_ingest"],
    level="proof",
    unproved=["absence of data races / memory safety of the Go runtime and liveness (every Emit eventually returns, the buffer eventually drains): not expressible in the model; "
              "the thorough tier's free-running stress under the conservation oracle is a search, not a proof",
              "the 5 s migration timeout of expandDataChannel (rows lost if a migration stalls for 5 s) is not modelled: assumption"],
    rule="schedule-driven: 1-3 producer goroutines calling Emit, the stream's own consumer goroutine and a Stop caller are parked at the verif yield points "
         "(send.lock/send.send/expand.*/drop.*/block.*/cons.recv/stop.*) and released one at a time by the op list (uniform random interleavings, producer bursts, slow consumer, "
         "directed 'consumer acts during a migration', Stop in 10 % of the cases); strategies drop/block(+timeout)/expand, buffer sizes 1-4, ceilings around the size, growth 1.25-3 and defaults, "
         "increments 0(default 1000)-3, thresholds 0.25-1 and default; every case ends with a quiescing round-robin and GetStats(). distinct = distinct (cfg, op list) Added late: two failing Execute calls before the real one on one case in six (`badfirst`). Every fifth case runs under WithHighPerformance (`preset high`), for C05/C06/C12/C13/C14/C16/C20 another fifth under WithLowLatency (`preset low`); every seventh case follows a noise prelude (failing statements, malformed rows, panicking sink / function in other instances).",
    assumptions=["sync.RWMutex gives mutual exclusion with writer preference; buffered channels are FIFO and a receive hands the head to exactly one receiver (Go runtime semantics)",
                 "each code segment between two yield points touches shared state at one point only (atomic in the model); the yield points were placed accordingly",
                 "DataChannelSize >= 1 (an unbuffered input channel is not modelled); a migration never takes 5 s",
                 "growth factors / thresholds are compared exactly (rationals); the generator's values (dyadic or 0.8/0.9 with capacities <= 20) make the float64 computation of the code exact",
                 "what Go's select leaves open (several ready cases, 100us/100ms timers) is resolved by the implementation's own answer as a witness: trace inclusion, not equality; "
                 "after Stop the consumer's choice between a buffered row and done is random in Go, so traces of cases with Stop differ between runs (both answers are admissible, the verdict is deterministic)"],
)
META = dict(
   text="Proof: the ingest protocol (Emit -> drop/block/expand strategy -> safeSendToDataChan under the read lock -> expandDataChannel with CAS guard, threshold/growth/ceiling arithmetic and migration under the write lock -> consumer loop, plus Stop up to the nil-ing of the buffer) "
        "is a Lean transition system with one step per code segment between synchronisation points. For every configuration, any number of producers and every interleaving (induction over arbitrary schedules): "
        "the emitted rows are at all times exactly the processed + dropped-and-counted + returned-because-stopped + buffered (old and new channel) + in-flight rows (permutation) and input_count = #Emit; at quiescence processed + input_dropped + data_chan_len = input_count; "
        "no row is processed twice; block without timeout never drops; every allocated buffer is within max(MaxBufferSize, initial) and strictly larger than its predecessors; a single producer's rows are processed in emission order (for the repaired consumer; the inversion of the code as found is a kernel-checked witness). "
        "Tied to the code by schedule-driven correspondence: real goroutines parked at verif yield points, released per schedule, blocked states read from the runtime (no timing), every step compared with the model (trace inclusion with select witnesses), and the declarative oracle (once-only, order, counted, accounted, conserved, block-never-drops, capacity) evaluated on the implementation's observables.",
   note="Partial in the sense of DESIGN §4: data races, liveness and the real scheduler are outside the theorems (free-running -race stress is a search). Trusted: Lean kernel; hand-written model tied by correspondence; Go runtime semantics of RWMutex/channels; harness scheduler and yield hooks. Fixed by this check: consumer could process a producer's rows out of order across a buffer expansion.",
)
