CFG = dict(
    theorems=["C19.init_processed"],
    rule="wip",
    assumptions=[],
)
META = dict(text="wip", note="wip")
