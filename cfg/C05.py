CFG = dict(
    theorems=["C05.fieldpath_eq_structural", "C05.bracket_loop_fuel_irrelevant", "C05.direct_eq_spec",
              "C05.execute_accepts_distinct_names", "C05.sync_async_same", "C05.single_producer_order",
              "C05.each_sink_sees_ordered_results", "C05.channel_send_never_reorders", "C05.facts_pipeline"],
    rule="one case = one generated SELECT list (star | nested paths a.b[0]['k'] | back-quoted columns | quoted literals incl. ':' and empty, "
         "with/without alias, occasionally colliding names) + optional WHERE <dotted col> OP <literal>, and a history of 3-10 rows "
         "(nested maps/lists/NULL/missing, mutated from a template so paths hit and miss; the WHERE column typed like the literal, NULL or missing). "
         "Per row: EmitSync on the instance that saw the whole history and on a fresh instance. Then the history through Emit with two synchronous "
         "sinks and a ToChannel reader, and through an unread result channel of capacity 1-3; 4 structured + 2 raw-string calls of "
         "fieldpath.GetNestedField (negative subscripts, unmatched / invalid brackets, the slice-bounds panic). distinct = distinct (cfg, ops) Added late: one WHERE in four goes through an identity function registered at run time, after a throw-away query was compiled and after a statement calling the function was rejected (`wherefn`). Every fifth case runs under WithHighPerformance (`preset high`), for C05/C06/C12/C13/C14/C16/C20 another fifth under WithLowLatency (`preset low`); every seventh case follows a noise prelude (failing statements, malformed rows, panicking sink / function in other instances).",
    assumptions=["WHERE is an abstract predicate in the theorems; the driver instantiates it for `col OP literal` with a column of the literal's type, NULL or missing (never != on NULL): predicate evaluation is C06/C12",
                 "the SQL front end's output for a SELECT list (SimpleFields / FieldExpressions, Spec.toConfig) is tied to rsql by correspondence only (parser faithfulness is C11)",
                 "items of the projection grammar: `*` alone, columns / nested paths with subscripts >= 0, back-quoted columns, quoted literals over [A-Za-z0-9_ :.-]; "
                 "negative subscripts in a SELECT list, numeric literals, expressions and function calls are routed to the expression engine (C06) and are not generated; "
                 "negative subscripts are covered at the fieldpath level",
                 "rows hold JSON-like values (nil, bool, int, float64, string, []any, map[string]any); structs, typed maps/slices and non-ASCII white space inside brackets are outside the model",
                 "Emit with the default drop strategy and a non-full input buffer; input-buffer overflow/expansion is C19; asynchronous (pool) sinks are unordered by contract and not compared",
                 "a quoted literal evaluates to its content through the expression engine (correspondence only)"],
    unproved=["statelessness of the *code* (no hidden cache) rests on the correspondence with histories: the model is stateless by type",
              "goroutine scheduling: the delivery theorem covers every interleaving of producer / consumer / reader steps at the granularity of one Emit, one processItem, one channel receive"],
)
META = dict(
   text="Proof: (1) fieldpath.GetNestedField, modelled at string level (split on dots, bracket loop, Atoi, quote stripping, fallback, panic), equals the structural walk "
        "of the path for every datum and every well-formed path incl. negative subscripts; (2) for every well-formed SELECT list with distinct names, every WHERE predicate and every row, "
        "the modelled compileSimpleFieldInfo + projectDirectRow + processDirectDataSync returns nothing iff WHERE is not true and otherwise exactly one column per item (permutation of the spec's columns, "
        "missing source = NULL), never panics, and Execute accepts the list; (3) the async pipeline sends exactly the one-row batch EmitSync returns; (4) in every reachable state of the "
        "queue/consumer/channel/sink transition system the sinks have seen, in registration order, the ordered image of the consumed rows, and reader+channel contents are a subsequence of it "
        "(drop-on-full never reorders) (Lean theorems, unbounded). Tied to the code by differential runs of generated queries x row histories through EmitSync (with history and alone), "
        "Emit + two sync sinks + ToChannel, an overflowing result channel, and direct GetNestedField calls; the declarative spec is evaluated on the implementation's observables.",
   note="Trusted: Lean kernel; hand-written model tied by correspondence; WHERE evaluation abstract (C06/C12); front-end mapping SQL -> SimpleFields/FieldExpressions by correspondence (C11); "
        "Go channel FIFO / mutex semantics; harness. One defect found and fixed through this check (unaliased string literal leaked extra columns). "
        "Observed, outside the grammar and not claimed: `SELECT *, col` drops col; a back-quoted alias on a literal/expression yields two columns; `FROM stream s` + `s.col` without JOIN reads NULL; "
        "negative subscripts in SELECT return float64 for ints (expression path).",
)
