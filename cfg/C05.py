CFG = dict(
    theorems=[],
    rule="one case = one generated SELECT list (+ optional WHERE col OP literal) and a history of 3-10 nested rows; "
         "per row EmitSync on the instance that saw the history and on a fresh instance; then the history through Emit with two "
         "synchronous sinks and a ToChannel reader, and through a tiny unread result channel; distinct = distinct (cfg, ops)",
    assumptions=[],
)
META = dict(text="(in progress)", note="")
