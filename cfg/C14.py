CFG = dict(
    theorems=["C14.lag_bounded_history_eq_spec", "C14.latest_eq_spec", "C14.changed_col_eq_spec",
              "C14.changed_cols_eq_spec", "C14.had_changed_eq_spec", "C14.acc_eq_spec",
              "C14.partitionKey_injective", "C14.lru_no_evict_of_le_cap", "C14.engine_eq_spec",
              "C14.partition_isolation", "C14.lru_evict_resets", "C14.when_gating", "C14.where_order",
              "C14.field_eq_spec", "C14.query_column_eq_spec", "C14.oracle_cap_flags", "C14.facts_constants"],
    rule="a case = one generated query (1-3 analytic SELECT fields out of lag/latest/had_changed/changed_col/changed_cols/acc_* "
         "with offsets, defaults, ignoreNull, start/reset, wrappers `col - lag(col)` and `acc_max - acc_min`, OVER (PARTITION BY k1[,k2] WHEN g cmp c), "
         "WHERE none / plain / with an analytic call / both; cap 1,2,3 or default) and 6-30 rows of 2-5 partitions interleaved at random "
         "(typed keys incl. separator bytes, values float/int/NULL/missing/string/bool with repeats), each row sent through EmitSync and through Emit + sync sink "
         "(sentinel row ends the wait), plus 2 partition-key encoder ops; distinct = distinct (cfg, op list) Added late: a second analytic conjunct in WHERE with the same call text and another OVER clause. Every fifth case runs under WithHighPerformance (`preset high`), for C05/C06/C12/C13/C14/C16/C20 another fifth under WithLowLatency (`preset low`); every seventh case follows a noise prelude (failing statements, malformed rows, panicking sink / function in other instances).",
    assumptions=["column spellings: partition keys also as nested fields (dev.k1), the first argument of an analytic call also qualified with a stream alias (s.v); a qualified column inside a wrapper expression / WHEN / WHERE is the recorded finding qualified-stream-column-in-expression (only in the corpus witness, class assigned from cfg colstyle qualw)",
                 
        "float64 partition values are identified with their strconv.FormatFloat(x,'g',-1,64) text (NaN and -0 not generated)",
        "Go int widths are not distinguished in the model (harness uses int; typeKey tags int/int64/int32 differently, pinned by facts_constants)",
        "wrapper expressions are arithmetic over numeric/NULL/absent operands: int-int is an int, a float operand makes a float, NULL gives NULL; "
        "coercions of bools/strings inside wrapper arithmetic (expr-lang, custom evaluator) belong to C06 and are not generated",
        "predicates (WHEN, start/reset, WHERE) are `column cmp constant`; a non-numeric operand makes them false (validated by correspondence only)",
        "had_changed(…, *) (named-row variant) and window-query analytic fields are not covered",
        "sync/async equality is checked on the implementation (oracle clause sync-async-differ); both paths share applyWhereAndAnalytic, so the model has one step function for both",
    ],
    unproved=[
        "assembly of the per-field values into the delivered row (projectAnalytic: aliases, omission of NULL changed_col, prefix fan-out of changed_cols) and "
        "Spec.expected = model output as one statement are tied by correspondence only (proved: every column of the query's analytic engine = its field's definition, and which rows reach it)",
    ],
)
META = dict(
    text="Proof: every analytic state machine (lag with history truncated to the offset, latest, had_changed, changed_col(s), acc_sum/count/avg/min/max with start/reset) "
         "equals its definition over the whole list of earlier rows of the partition; the typed length-prefixed partition key is injective for all byte strings and type tags; "
         "while the distinct live keys fit the cap the LRU engine never evicts and every row's value is the definition applied to the earlier rows of its own partition "
         "(isolation under any interleaving), above the cap the evicted partition restarts; WHEN-gated rows repeat the cached value and touch no state; WHERE decides which rows count "
         "(Lean theorems over all histories, no bound, any number type). The Go engine is tied to the model by differential correspondence on generated queries through "
         "EmitSync and Emit+sink, with the spec evaluated as an oracle on the implementation's rows.",
    note="Trusted: Lean kernel; hand-written model tied by correspondence; strconv float formatting; expr-lang comparison/arithmetic on numeric operands; harness and hook code. "
         "Fix commit in the repo: absent columns reach the state machines as NULL (they were the column-name string).",
)
