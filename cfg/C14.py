CFG = dict(
    theorems=["C14.placeholder"],
    rule="TODO",
    assumptions=[],
)
META = dict(text="TODO", note="TODO")
