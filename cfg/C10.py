CFG = dict(
    theorems=["C10.each_once_counting", "C10.session_bounds", "C10.no_early_delivery", "C10.gap_splits", "C10.open_sessions_apart", "C10.joins_exactly_the_touched"],
    unproved=["schedule independence for in-order input as a theorem over pairs of schedules (checked on implementation traces by the reference-sessionization clause of the oracle at flush)"],
    rule="event-time session op sequences over 1-3 keys: dense bursts, gaps timeout-1 / timeout / timeout+1 / 3*timeout+, in-order per case with prob 2/3 else out of order within and beyond the tolerance (incl. events that bridge two open sessions), "
         "far-future and timestamp-less rows, deliveries at arbitrary positions incl. Adds in the unlock gap; SQL-level cases through the public API; distinct = distinct (cfg, op list)",
    assumptions=["one expiry pass delivers its sessions in Go map order: the harness canonicalises each pass (key, start)",
                 "row order inside a merged session (earlier session's rows first, the bridging row last) is compared as coded; the property does not order rows inside a session",
                 "two events exactly the timeout apart: the property allows either; code and model start a new session (ts >= end), which makes the outcome schedule-independent",
                 "pre-1970 timestamps outside the generator; processing-time session windows are not modelled",
                 "mutex mutual exclusion: every op is one critical section; the harness drives the real window without its goroutines"],
)
META = dict(
   text="Proof: for every timeout, tolerance, key set and op sequence of the session model (several open sessions per key, merge on bridge): open+delivered rows = rows accepted on time (each once), every delivered session is non-empty with window_start = earliest row and window_end = latest row + timeout, "
        "it satisfies the gap clause (consecutive timestamps within the timeout, rows further apart with nothing in between never together), it is delivered only at or below the watermark, and open sessions of one key always stay a full timeout apart (Lean theorems, unbounded). "
        "Tied to window/session_window.go by replaying generated op sequences on the real SessionWindow and comparing every delivery; a declarative oracle (gap clause, bounds, maximality, reference sessionization at flush) runs on the implementation's deliveries, also at SQL level.",
   note="Trusted: Lean kernel; hand-written model tied by correspondence; Go mutex semantics; harness. Schedule independence is checked by the oracle on traces (reference sessionization), not proved as a theorem about pairs of schedules.",
)
