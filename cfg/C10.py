CFG = dict(
    theorems=["C10.each_once_counting", "C10.session_bounds", "C10.no_early_delivery", "C10.gap_splits", "C10.open_sessions_apart", "C10.joins_exactly_the_touched",
              "C10.inorder_outcome_is_reference", "C10.reference_ignores_schedule", "C10.schedule_independent", "C10.delivered_is_reference_after_flush", "C10.manual_flush"],
    unproved=[],
    rule="event-time session op sequences over 1-3 keys: dense bursts, gaps timeout-1 / timeout / timeout+1 / 3*timeout+, in-order per case with prob 2/3 else out of order within and beyond the tolerance (incl. events that bridge two open sessions), "
         "far-future and timestamp-less rows, deliveries at arbitrary positions incl. Adds in the unlock gap; SQL-level cases through the public API; distinct = distinct (cfg, op list) Added late: op `reset`; `winapi` / `reuse` variant of the free-running cases (NewSessionWindow, SetCallback, Start, Reset, Start, Add). Every fifth case runs under WithHighPerformance (`preset high`), for C05/C06/C12/C13/C14/C16/C20 another fifth under WithLowLatency (`preset low`); every seventh case follows a noise prelude (failing statements, malformed rows, panicking sink / function in other instances).",
    assumptions=["one expiry pass delivers its sessions in Go map order: the harness canonicalises each pass (key, start)",
                 "row order inside a merged session (earlier session's rows first, the bridging row last) is compared as coded; the property does not order rows inside a session",
                 "two events exactly the timeout apart: the property allows either; code and model start a new session (ts >= end), which makes the outcome schedule-independent",
                 "schedule independence is proved for in-order histories (every Add's timestamp >= every earlier Add's, over all keys) without idle-timeout ticks and MAXOUTOFORDERNESS >= 0, as equality of the sets of sessions (key, start, end, rows); multiplicities are each_once_counting's",
                 "pre-1970 timestamps outside the generator; processing-time session windows are not modelled",
                 "mutex mutual exclusion: every op is one critical section; the harness drives the real window without its goroutines"],
)
META = dict(
   text="Proof: for every timeout, tolerance, key set and op sequence of the session model (several open sessions per key, merge on bridge): open+delivered rows = rows accepted on time (each once), every delivered session is non-empty with window_start = earliest row and window_end = latest row + timeout, "
        "it satisfies the gap clause (consecutive timestamps within the timeout, rows further apart with nothing in between never together), it is delivered only at or below the watermark, open sessions of one key always stay a full timeout apart, and for in-order input the delivered plus the open sessions are exactly the sessions of a reference sessionization that looks at the Adds only, so two schedules of the same Adds produce the same sessions (Lean theorems, unbounded). "
        "Tied to window/session_window.go by replaying generated op sequences on the real SessionWindow and comparing every delivery; a declarative oracle (gap clause, bounds, maximality, reference sessionization at flush, and for in-order histories membership in the theorem's `reference`) runs on the implementation's deliveries, also at SQL level.",
   note="Trusted: Lean kernel; hand-written model tied by correspondence; Go mutex semantics; harness.",
)
