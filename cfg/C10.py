CFG = dict(
    theorems=["C10.each_once_counting", "C10.session_bounds", "C10.no_early_delivery", "C10.gap_splits_partial", "C10.gap_splits_fails"],
    unproved=["C10.gap_splits_full (false of the code as it is: negation proved as gap_splits_fails; recorded finding class out-of-order-across-gap)",
              "schedule independence for in-order input as a theorem over pairs of schedules (checked on implementation traces by the reference-sessionization clause of the oracle at flush)"],
    rule="event-time session op sequences over 1-3 keys: dense bursts, gaps timeout-1 / timeout / timeout+1 / 3*timeout+, in-order per case with prob 2/3 else out of order within and beyond the tolerance, "
         "far-future and timestamp-less rows, deliveries at arbitrary positions incl. Adds in the unlock gap; distinct = distinct (cfg, op list)",
    assumptions=["one expiry pass delivers its sessions in Go map order: the harness canonicalises each pass (key, start)",
                 "pre-1970 timestamps outside the generator",
                 "processing-time session windows are not modelled (the property is stated for event time)",
                 "mutex mutual exclusion: every op is one critical section; the harness drives the real window without its goroutines"],
)
META = dict(
   text="Proof: for every timeout, tolerance, key set and op sequence of the session model: open+delivered rows = rows accepted on time (each once), every delivered session is non-empty with window_start = earliest row and window_end = latest row + timeout, "
        "and it is delivered only at or below the watermark; the gap clause (consecutive timestamps within the timeout, rows further apart never together) holds under the decidable hypothesis H 'no on-time row arrives out of order across a gap of its key'; "
        "the full statement is refuted by a kernel-checked witness and recorded as a known finding (class out-of-order-across-gap). "
        "Tied to window/session_window.go by replaying generated op sequences on the real SessionWindow and comparing every delivery; a declarative oracle (gap clause, bounds, maximality, reference sessionization at flush) runs on the implementation's deliveries.",
   note="Trusted: Lean kernel; hand-written model tied by correspondence; Go mutex semantics; harness. Known finding: out-of-order-across-gap (known-findings.txt). Schedule independence is checked by the oracle on traces, not proved.",
)
