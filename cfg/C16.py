CFG = dict(
    theorems=["C16.encodeKey_respects_keyEq", "C16.encodeKey_reflects_keyEq", "C16.numeric_normalisation",
              "C16.composite_all_components", "C16.table_refines_map", "C16.earlier_rows_unaffected",
              "C16.read_your_writes_upsert", "C16.read_your_writes_delete", "C16.inner_left_semantics",
              "C16.facts_join_key"],
    rule="a case is a pool of key tuples (arity 1-3; strings over 0x1f, 's:', 'n:', '<nil>', backslash, '|' fragments with shifted siblings "
         "(a+0x1f+'s:'+b, c)/(a, b+0x1f+'s:'+c) and escape-byte siblings; the same number as int/int64/uint/float32/float64, its text as a string, "
         "-0, 2^53 and 2^53+1, fractions; bools; NULL; missing fields) used in mode enc (encodeKey through its accessor, tuple and single key), "
         "tbl (MemoryTableSource constructor/Upsert/Delete/Lookup sequences), sql (EmitSync interleaved with UpsertTable/Delete; INNER/LEFT, with and "
         "without stream/table alias, reversed ON sides, WHERE on a joined column) or sqlagg (GROUP BY a joined column with CountingWindow(N)); "
         "distinct = distinct (cfg, op list) Added late: every ON equality has its own orientation (bit mask `swap`); rows sent before the table is registered (`early`); a rejected table write (`badups`); a stream column only the rows with an odd id carry (`note`). Every fifth case runs under WithHighPerformance (`preset high`), for C05/C06/C12/C13/C14/C16/C20 another fifth under WithLowLatency (`preset low`); every seventh case follows a noise prelude (failing statements, malformed rows, panicking sink / function in other instances).",
    assumptions=["strconv.FormatFloat(f,'f',-1,64) is injective on float64 values (hypothesis hinj of the reflecting theorems; its outputs cross the protocol in cfg fmt lines); NaN keys are not generated",
                 "each table op and each row's lookup is one critical section of MemoryTableSource's RWMutex (trusted Go mutex): a history is a list of such sections; "
                 "truly concurrent updates are covered by the theorems' quantification over all histories, not exercised by the quick tier",
                 "NULL key components match NULL (as coded: '<nil>'); SQL three-valued logic would not match - recorded, outside the property's 'equal'",
                 "component types other than int/int64/int32/uint*/float32/float64/string/bool/nil ('%T:%v' branch of encodeOne) are outside the model",
                 "projection of joined columns, WHERE on joined columns and GROUP BY on joined columns are tied by correspondence only",
                 "GROUP BY <joined column>, CountingWindow(N): the window counts N rows across all groups (C09 finding class qualified-group-column, pinned by test/e2e/join_aggregation_test.go); "
                 "mode sqlagg models that as coded and its oracle claims only what C16 states: every result aggregates exactly rows with the reported joined value, no row twice"],
    unproved=[],
)
META = dict(
   text="Proof: the type-tagged, escaped join key decides key equality (numbers by value after float64 conversion, strings/bools exactly, every component of a composite key), "
        "the table index refines the partial map 'key up to equality -> row' for every history of upserts, deletes and processed rows, histories are sequentially consistent "
        "(read-your-writes, earlier rows unaffected), INNER drops and LEFT keeps unmatched rows (Lean theorems, no bound). encodeKey, MemoryTableSource and SQL JOIN through EmitSync "
        "interleaved with UpsertTable/Delete are tied to the model by differential correspondence.",
   note="Trusted: Lean kernel; hand-written model; float formatting injective (explicit hypothesis); RWMutex atomicity; harness/hook code. Free-running concurrent updaters are not part of the quick tier.",
)
