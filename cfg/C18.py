CFG = dict(theorems=["C18.init_log"], rule="wip", assumptions=[])
META = dict(text="wip", note="wip")
