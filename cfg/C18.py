CFG = dict(
    race_pass=True,   # the free-running rounds once more in a harness built with -race (a search, never a proof)
    theorems=["C18.run_reaches", "C18.stop_idempotent", "C18.emit_after_stop_noop", "C18.stop_barrier",
              "C18.stop_barrier_unguarded_fails", "C18.sink_panic_contained",
              "C18.no_self_deadlock_on_reentrant_sink", "C18.no_self_deadlock_holding_fails",
              "C18.self_wait_is_stuck", "C18.facts_lifecycle"],
    level="proof",
    unproved=["absence of data races on memory (needs the Go memory model; not expressible in the protocol model): searched only — every run repeats the free-running rounds (15 query kinds incl. event time with ALLOWEDLATENESS, wrapped analytic calls; Emit ‖ EmitSync ‖ AddSink ‖ GetStats ‖ TriggerWindow ‖ two Stops) in a harness built with -race; a report is a definite race, silence proves nothing (coverage.race_detector)",
              "no goroutine leak after Stop / Stop returns within its grace period as wall-clock time: the model proves that Stop passes waitLifecycle only with the counter at zero and that every tracked thread exits once done is closed and it is scheduled; real-time bounds and leaks are outside every theorem",
              "the eight query kinds: the protocol model is query-independent (one result-producing engine thread); window / CEP specific goroutines (window trigger loops, CEP sweeper, the inline CEP flush of Stop) are not modelled",
              "start_stop_serialised (Start racing Stop: lifecycle.Add never races Wait — the startMu argument) and cep_flush_before_return of DESIGN §5 are not modelled: Start happens before any schedule begins, MATCH_RECOGNIZE's inline flush is exercised only by the free-running search",
              "per-row recover of processItem: modelled and covered by sink_panic_contained, but no input of the public API makes row evaluation panic (expr-lang converts function panics into errors), so this branch is tied to the code by reading only"],
    rule="schedule-driven: the data processor, the sink worker, one EmitSync caller, one AddSink caller, one Emit caller and two Stop callers of a direct query are parked at the verif yield points "
         "(cons.recv, sinks.call, sinks.submit, stop.flag/done/nil/wait/joined, harness points emit.call/sync.call/add.call/stop.call and sink.enter inside every registered sink) and released one at a time; "
         "0-2 async and 0-2 sync sinks of kind plain / panics / adds (re-entrant AddSink), sink pool size 1-2, strategies drop/block/expand; random interleavings, Stop against a worker that holds a task, calls after Stop returned, concurrent dispatch with AddSink; "
         "every case ends with a quiescing round-robin and a final status line per thread (a call that can no longer proceed = deadlock). distinct = distinct (cfg, op list)",
    assumptions=["sync.RWMutex / WaitGroup / channel semantics of the Go runtime (writer preference, close(done) wakes every select)",
                 "the barrier is claimed for the Stop call that performs the teardown and under the hypothesis that it did not run into its grace period (counter at zero); a concurrent second Stop call returns at once, by design",
                 "blocked states of goroutines are read from runtime.Stack, not inferred from timing; after Stop closes done the runtime's choice between a ready row and done is random: both are admissible (witness), the verdict is deterministic",
                 "sinks of the harness are finite (they return); a sink that blocks forever is the grace-period case, outside the theorems"],
)
META = dict(
   text="Proof (partial, see note): the lifecycle protocol (Stop: flag under startMu, close(done), nil the data channel, waitLifecycle, return; data processor loop with recover; callSinksAsync/submitSinkTask; sink worker pool; AddSink; Emit; EmitSync) is a Lean transition system with one step per code segment between synchronisation points. "
        "For any number of workers, callers and Stop calls, any registered sinks (plain, panicking, re-entrant) and every interleaving: at most one Stop call performs the teardown and a Stop on a stopped stream is a no-op; Emit after Stop returned changes nothing but the counter; once Stop is past waitLifecycle with the counter at zero the data processor and all workers have exited, no EmitSync call is inside, and no sink invocation ever happens after that Stop returned; "
        "a panicking sink is a plain sink for the protocol and a panicking row leaves the processor in its loop; with the repaired dispatch sinksMux is never held across a sink call, so a sink calling AddSink is never blocked by its own caller (the deadlock and the late EmitSync sink call of the code as found are kernel-checked witnesses). "
        "Tied to the code by schedule-driven correspondence (real goroutines parked at verif yield points, blocked states read from the runtime, every step compared with the model) and a declarative oracle (stop-barrier, deadlock, emit-after-stop, all-delivered) on the implementation's events.",
   note="PARTIAL: data races, goroutine leaks, wall-clock grace period and the window/CEP goroutines of the other query kinds are outside the model; they are reported only as search results (race detector over the same schedules). Fixed by this check: sync sink calling AddSink deadlocked (callSinksAsync held sinksMux.RLock); EmitSync ran queries and sinks after Stop had returned.",
)
