CFG = dict(
    theorems=["C12.fast_agrees", "C12.fast_declines_iff", "C12.fast_compound_agrees", "C12.evaluate_eq_general", "C12.eval_total_bool",
              "C12.paren_equiv", "C12.spec_holds", "C12.shape_cmp_iff", "C12.shape_compare_sound",
              "C12.shape_compound_sound", "C12.newCond_evaluate", "C12.round53_exact", "C12.exact_vs_rounded_literal",
              "C12.guard_needed", "C12.facts_regexes", "C12.facts_guards"],
    distinct_by_op=True,
    rule="ops are (predicate text, row) pairs: single comparisons, flat 2-4 term &&/|| chains, mixed and grouped forms over all 8 operator "
         "spellings, integer / fractional / quoted literals (drawn next to the row's values half of the time), random white space; rows give each "
         "column a value from a lattice (missing, nil, bool, string, 10 integer widths around 0, 2^31, 2^53, 2^63, 2^64, float32/float64 incl. NaN, "
         "+-Inf, -0, 2^53+2) — executed through NewExprCondition.Evaluate, its parenthesised twin, the shortcut and the compiled program alone; "
         "opaque predicates (arithmetic, not, in, word operators, nil column ...); mutated texts for the recogniser; a sample through SQL WHERE with "
         "EmitSync; distinct = distinct op line Added late: sibling literals differing in inner white space only; the condition objects of every second eval op have decided other rows (text, bool, NULL, absent, float32, int8) before the observed one. Every fifth case runs under WithHighPerformance (`preset high`), for C05/C06/C12/C13/C14/C16/C20 another fifth under WithLowLatency (`preset low`); every seventh case follows a noise prelude (failing statements, malformed rows, panicking sink / function in other instances).",
    assumptions=[
        "expr-lang v1.17.8 behaves as the table Model/CondGeneral.lean for `column OP literal` and &&/|| over them (int/int exact via int(x), any float => float64, "
        "string/string, every other pair: ==/!= false/true, ordering => error; left-to-right short circuit) — validated only by correspondence (parenthesised twin and compiled program on generated rows)",
        "expr-lang parses a text recognised by the shape regexes (with the repaired refusals: nil/true/false column, string literal with backslash, CR or invalid UTF-8) "
        "as the comparison(s) the regex extracted (hypothesis CondM.Sound of evaluate_eq_general; checked per generated case by the driver: obs line parse-table-assumption-broken)",
        "strconv.ParseFloat is correctly rounded (the shortcut's numLit for an integer literal is round53 of it; for a fractional literal both paths call the same ParseFloat)",
        "rows are map[string]interface{}; column values are nil, bool, string, Go integers, float32/float64 or values no comparison applies to (slices, maps); int/uint are 64-bit",
        "predicates containing `=` or `<>` are rejected by expr.Compile (NewExprCondition returns the error): no condition exists, nothing is evaluated",
    ],
    trusted_extra=["third-party expr-lang VM: not modelled beyond the behaviour table (DESIGN §4)"],
)
META = dict(
   text="Proof: whenever the compiled shortcut for `column OP literal` (or a flat &&/|| chain of such) answers, the general evaluator (expr-lang behaviour table) "
        "answers the same and does not fail — for every column value (missing, NULL, bool, string, all ten integer widths over their full range, float32/float64 with NaN/+-Inf), "
        "every operator and every literal, with float64(int) modelled exactly as round-to-nearest-even at 53 bits; hence Evaluate = decision of the general evaluator, "
        "an evaluation error rejecting the row (Lean theorems, no bound). Shape recognisers, shortcut, Evaluate and the expr-lang table are tied to the Go code by differential "
        "correspondence (text, parenthesised twin, shortcut accessor, compiled program) and a sample through SQL WHERE.",
   note="Trusted: Lean kernel; hand-written model and expr-lang behaviour table (validated by correspondence only); that a text matching the shape regexes parses in expr-lang "
        "to the extracted comparison (checked per generated case); harness/hook code. Predicate texts outside the generated families and row values of other Go types are outside the quantifier.",
)
