CFG = dict(
    theorems=["C01.exactly_once_counting", "C01.emission_shape", "C01.intervals_strictly_increasing",
              "C01.row_in_one_interval", "C01.ontime_accepted", "C01.buffered_not_passed",
              "C01.accepted_and_passed_is_emitted", "C01.processing_time_exactly_once", "C01.facts_watermark",
              "C01.exactly_once_counting_any_lateness", "C01.purge_keeps_pending_rows"],
    rule="event-time op sequences (add / deliver with adds in the unlock gap / drain / ticker) on the lattice k*size+{0,1,size-1}+jitter, "
         "out-of-orderness around MAXOUTOFORDERNESS, far-future and timestamp-less rows, bursts of 150 adds (watermark channel full); "
         "processing-time cases driven through Trigger(); distinct = distinct (cfg, op list) Added late: op `reset` (Window.Reset and reuse of the same object; the model restarts from init); free-running SQL-level cases also through the window package API (`winapi`; `reuse` = Start, Reset, Start). Every fifth case runs under WithHighPerformance (`preset high`), for C05/C06/C12/C13/C14/C16/C20 another fifth under WithLowLatency (`preset low`); every seventh case follows a noise prelude (failing statements, malformed rows, panicking sink / function in other instances).",
    assumptions=["pre-1970 timestamps are outside the claim (Go's alignment truncates toward zero): hypothesis OpsOk",
                 "shape / ordering / completeness theorems are for ALLOWEDLATENESS = 0 (late updates are C02); conservation (exactly_once_counting_any_lateness) and the harmlessness of the purge hold for every ALLOWEDLATENESS",
                 "aggregate values of an emitted batch are C03/C04 (same code for every window kind)",
                 "mutex mutual exclusion: every op is one critical section of tw.mu / wm.mu; the harness drives the real window without its goroutines",
                 "processing time: the theorem assumes the clock hypothesis PtAllOk (ticks never early, now non-decreasing)"],
)
META = dict(
   text="Proof: for every size, MAXOUTOFORDERNESS and every op sequence (all arrival orders and all interleavings of Add, ticker, watermark pop and single trigger-loop iterations) "
        "the tumbling model emits only non-empty first firings of size-aligned intervals containing exactly rows of that interval, in strictly increasing order (no interval twice), "
        "no row in two intervals, buffered+emitted = accepted (counting identity), on-time rows are accepted, and every accepted row whose interval the last completed watermark pass has passed was emitted (Lean theorems, unbounded). "
        "The model is tied to window/tumbling_window.go + watermark.go by replaying generated op sequences on the real TumblingWindow (deterministic drive incl. Add in the unlock gap) and comparing every emission; "
        "a declarative per-event oracle (Spec/Window.lean) is evaluated on the implementation's emissions.",
   note="Trusted: Lean kernel; hand-written model tied by correspondence; Go mutex semantics; harness. Pre-1970 timestamps and aggregate values (C03/C04) are outside this check. SQL-level end-to-end path (stream → aggregator → sink) is exercised by C03/C04 harnesses, not here.",
)
