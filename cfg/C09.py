CFG = dict(
    theorems=["C09.counting_eq_chunks", "C09.counting_interleaving_irrelevant", "C09.counting_lt_N_silent",
              "C09.counting_batches_have_N", "C09.counting_no_row_twice", "C09.counting_eq_chunks_tuple",
              "C09.windowKey_determines_group_partial", "C09.windowKey_determines_group_fails", "C09.facts_counting"],
    rule="a case is a stream over 1-5 key tuples (C04's collision-prone pool, arity 0-3) with N in {1,2,3,7}; per key q*N+r rows "
         "(r = 0 in a third of the draws), fully interleaved / blocks / perturbed blocks; mode win drives the real CountingWindow with its "
         "goroutine (Add, OutputChan, exact quiescence barrier buffered+emitted = sent; flush and STATETTL reap ops in between), mode sql "
         "runs SELECT ..., count(*), collect(id), first_value(id), last_value(id) ... GROUP BY ..., CountingWindow(N) with sentinel rows as barrier; "
         "distinct = distinct (cfg, op list) Added late: management ops `stats` (GetStats + ResetStats) and `trig` (Trigger / TriggerWindow) between the rows. Every fifth case runs under WithHighPerformance (`preset high`), for C05/C06/C12/C13/C14/C16/C20 another fifth under WithLowLatency (`preset low`); every seventh case follows a noise prelude (failing statements, malformed rows, panicking sink / function in other instances).",
    assumptions=["the window's single goroutine is the only consumer of the FIFO triggerChan, so its critical sections run in arrival order (trusted Go channel semantics); the op list is that order",
                 "no key state is reaped by STATETTL (hypothesis noReap of the theorems; reap ops are generated and compared with the model but excluded from the oracle)",
                 "the output channel (default 1000 batches) never overflows: the drop-oldest overflow strategy of sendResult is outside the model",
                 "tuple-level statement relies on C04's injectivity of the repaired getKey (one scalar type per column)",
                 "every GROUP BY column is a top-level field of the row (hypothesis H of windowKey_determines_group_partial); dotted paths (joined column m.col, nested o.col) are the "
                 "recorded finding class qualified-group-column: not generated, witness corpus/C09/known-qualified-group-column.ops.pending (rename to .ops once the known: line is recorded)"],
    unproved=["C09.windowKey_determines_group_full (false on the code as it is: C09.windowKey_determines_group_fails)"],
)
META = dict(
   text="Proof: for every N >= 1, every interleaving of keys and every stream length, the model of the counting window's per-row critical section "
        "delivers for each key exactly the consecutive full chunks of N of that key's rows in arrival order (no row twice, fewer than N trailing rows silent, "
        "other keys without influence), also at the level of typed key tuples via the injective key encoder (Lean theorems, no bound). "
        "The real CountingWindow (with its goroutine) and the SQL path are tied to the model by differential correspondence.",
   note="Trusted: Lean kernel; hand-written model; FIFO channel semantics; harness/hook code. STATETTL reaping and output-channel overflow are outside the theorems.",
)
