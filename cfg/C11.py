CFG = dict(
    theorems=["C11.facts_keywords", "C11.facts_token_codes"],
    level="proof",
)
META = dict(text="wip", note="wip")
