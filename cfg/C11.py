CFG = dict(
    theorems=["C11.lex_progress", "C11.lex_terminates", "C11.lex_total", "C11.lex_token_is_slice", "C11.lex_layout_insensitive",
              "C11.lex_layout_pair", "C11.lex_keyword_case_insensitive", "C11.lex_literal_opaque",
              "C11.lex_backtick_opaque", "C11.facts_keywords", "C11.facts_typos", "C11.facts_token_codes"],
    level="proof",
    distinct_by_op=True,
    rule="four case kinds per seed: (lexer) ops `lex` = byte strings (any byte incl. NUL / SQL punctuation soup / keyword+typo soup / digits-dots-minus) "
         "and `lexr` = lists of source tokens (keywords, typos, identifiers with dots, numbers incl. malformed, negative numbers, strings of either quote "
         "with keyword bodies, backtick identifiers, all 21 operators) rendered with random whitespace and case masks, one required separator dropped on purpose in ~10% — "
         "rsql.NewLexer token stream (type, value, position, line, column, recorded lexical errors, readPreviousIdentifier after each token) vs the Lean lexer model, byte-exact, plus the oracles "
         "LexSpec.isTokenization and LexSpec.expected; (statement) one statement of the reference grammar (harness/c11_stmt.go: select items with aliases, "
         "FROM [alias], stream-table JOINs, MATCH_RECOGNIZE (PARTITION BY / ORDER BY / MEASURES / ROWS PER MATCH / PATTERN with quantifiers and alternation / WITHIN / DEFINE), WHERE, GROUP BY + five window kinds, HAVING, WITH options, ORDER BY, LIMIT, DISTINCT; literals containing LIMIT/ORDER BY/WHERE/FROM/quotes; "
         "backtick identifiers) rendered in 5 layouts / keyword spellings, each parsed by rsql.NewParser(..).Parse() and rsql.Parse: clause lines vs the "
         "generator's expectation and complete canonical types.Config across layouts (oracle ParserTV.check); direct statements are also executed "
         "(EmitSync on fixed rows) per layout; (totality) rsql.Parse under recover + per-call timeout on byte soup, token soup, mutated valid statements, "
         "stress inputs. distinct = distinct op line Added late: CASE items with numbers right after THEN / ELSE. Every fifth case runs under WithHighPerformance (`preset high`), for C05/C06/C12/C13/C14/C16/C20 another fifth under WithLowLatency (`preset low`); every seventh case follows a noise prelude (failing statements, malformed rows, panicking sink / function in other instances).",
    unproved=[
        "parser totality: rsql.Parse terminates without panic for every input string — NOT proved; searched per run (op `total`: byte soup, token soup, "
        "mutated statements, inputs beyond the parser's iteration bounds, under recover with a 10 s per-call timeout)",
        "parser faithfulness: for every statement of the documented grammar the configuration reflects exactly the written clauses — NOT proved; "
        "checked per generated statement against the reference grammar's expectation (translation-validation style, no model of parser.go / ast.go)",
        "parser layout-insensitivity beyond the token stream: proved only up to the lexer (equal token streams); that rsql's parser is a function of the "
        "token stream is false in general (parseLimit, parseOrderBy, parseWith and an error path read the raw input) and is checked per generated statement "
        "across 5 layouts, not proved",
        "not in the reference grammar (covered only by the totality search): analytic functions with OVER, SUBSET / AFTER MATCH SKIP / PERMUTE in MATCH_RECOGNIZE, array indexing, nested function calls in select items",
    ],
    assumptions=[
        "SEARCH, not proof: parser totality (op `total`) explores a finite sample of inputs per run; a pass means no panic/hang was found",
        "the results a query produces depend on the SQL text only through (types.Config, condition) returned by rsql.Parse; equality of the complete "
        "canonical configuration across layouts therefore stands for equality of results (additionally, direct queries are executed per layout on fixed rows)",
        "configuration texts are compared up to keyword spelling: keyword tokens inside expression texts kept by the parser (CASE/WHEN/…) are upper-cased "
        "before comparison; literals and identifiers are compared byte-exactly",
        "select-item expression texts are compared up to the spacing the parser chooses when re-joining tokens (both sides re-lexed, values joined by one space)",
        "lexer model bytes are Nat; the driver feeds values < 256; Line/Column of recorded errors are not compared (their type and Position are; tokens: Pos, Line, Column are)",
    ],
)
META = dict(
    category="proof",
    text="Partial. Proof for the lexer layer only: rsql/lexer.go is modelled completely in Lean (bytes in, (type, value) tokens + recorded lexical errors out) and "
         "it is proved, for all inputs without bound, that lexing terminates and is total (every NextToken consumes >= 1 byte or returns EOF; every byte string "
         "yields finitely many tokens then one EOF), that any whitespace layout satisfying an explicit separation predicate and any letter-case variation yields "
         "exactly the written source tokens (so two layouts/spellings of a statement give the same token stream up to keyword spelling), and that quote-free "
         "text between quotes / backticks is one opaque token whatever keywords it contains. The model is tied to rsql.NewLexer by byte-exact differential "
         "correspondence on random byte strings and rendered token lists, and to the keyword table / token constants by regenerated facts. "
         "The parser proper (parser.go, ast.go) is NOT modelled: faithfulness to the written clauses and layout-insensitivity of the resulting configuration are "
         "checked translation-validation style on generated statements of a reference grammar in 5 layouts; parser totality is a search (fuzz + mutation under recover/timeout).",
    note="Claimed partial. Trusted: Lean kernel; hand-written lexer model (tied by correspondence, not verified); the Go reference grammar and canonicalisation in "
         "harness/c11_stmt.go; harness/driver/runner. Not proved: anything about parser.go/ast.go (only sampled); OVER clauses and some MATCH_RECOGNIZE sub-clauses are outside the reference grammar. "
         "Found by the check and fixed in the repo: HAVING text swallowed a following ORDER BY clause (parseHaving); ORDER BY inside MATCH_RECOGNIZE(...) was taken for the statement ORDER BY (parseOrderBy); "
         "rsql.Parse panicked on nested aggregate calls at the end of HAVING (extractHavingAggregates).",
)
