"""Per-property configuration of ./check (which Lean modules carry the theorems, what is trusted)."""

TRUSTED_BASE = [
    "Lean 4.33.0 kernel (thorough tier: re-checked by leanchecker); axioms per theorem listed under coverage.theorems (only propext / Classical.choice / Quot.sound accepted; no native_decide, no bv_decide, no own axioms, no sorry)",
    "hand-written Lean model of the anchored Go code, tied to /repo's working tree by the differential correspondence check (Go harness built -tags verif vs. compiled Lean driver ssqldrv on the same op lines) — modelled, not verified",
    "Go harness, verif-tagged accessor hooks, line protocol, diff and this runner",
    "Go runtime semantics (mutex mutual exclusion, FIFO channels, strconv/fmt formatting)",
]

def P(n, extra_mods=(), **kw):
    d = dict(lean_modules=[f"SsqlVerif.Props.{n}", f"SsqlVerif.Audit.{n}"] + list(extra_mods),
             audit_files=[f"SsqlVerif/Audit/{n}.lean"])
    d.update(kw)
    return d

PROPS = {
    "C13": P("C13",
        theorems=["C13.like_loop_eq_spec", "C13.like_loop_eq_spec_bytes", "C13.convertLike_sound",
                  "C13.rewritten_eq_loop", "C13.isnull_paths_agree"],
        distinct_by_op=True,
        rule="ops are (text, pattern) pairs over {a,b,.,%,_} (patterns expanded into matching texts and perturbed), "
             "sent to the three Go matchers, to convertLikeToFunction, and through SQL in WHERE / CASE / HAVING position; "
             "IS [NOT] NULL ops over missing/NULL/present cells on four SQL paths; distinct = distinct op line",
        assumptions=["expr-lang's ==, startsWith, endsWith, contains on strings are Go string equality / strings.HasPrefix / HasSuffix / Contains (validated only by the SQL-level correspondence)",
                     "LIKE with a NULL/missing text is outside the property's quantifier and not generated"]),
}
