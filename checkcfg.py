"""Per-property configuration of ./check: one file cfg/Cxx.py per claimed property (CFG, META dicts)."""
import os, glob, importlib.util

TRUSTED_BASE = [
    "Lean 4.33.0 kernel (thorough tier: re-checked by leanchecker); axioms per theorem listed under coverage.theorems (only propext / Classical.choice / Quot.sound accepted; no native_decide, no bv_decide, no own axioms, no sorry)",
    "hand-written Lean model of the anchored Go code, tied to /repo's working tree by the differential correspondence check (Go harness built -tags verif vs. compiled Lean driver ssqldrv on the same op lines) and by regenerated constants (Generated/Facts.lean) — modelled, not verified",
    "Go harness, verif-tagged accessor hooks, factsgen, line protocol, diff and this runner",
    "Go runtime semantics (mutex mutual exclusion, FIFO channels, strconv/fmt formatting)",
]

PROPS, META = {}, {}
_here = os.path.dirname(os.path.abspath(__file__))
for _f in sorted(glob.glob(os.path.join(_here, "cfg", "C*.py"))):
    _n = os.path.basename(_f)[:-3]
    _spec = importlib.util.spec_from_file_location("cfg_" + _n, _f)
    _m = importlib.util.module_from_spec(_spec)
    _spec.loader.exec_module(_m)
    _d = dict(lean_modules=[f"SsqlVerif.Props.{_n}", f"SsqlVerif.Audit.{_n}"], audit_files=[f"SsqlVerif/Audit/{_n}.lean"])
    _d.update(_m.CFG)
    PROPS[_n] = _d
    META[_n] = _m.META
