#!/bin/bash
# seedsweep.sh [seed-name…]   — the regression matrix of the seeded changes: applies each seeded/<name>/patch.diff to the
# repository ($VERIF_REPO, default /repo; must be clean), runs the check of the seed's property (and of the properties listed
# in seeded/<name>/also.txt), undoes the patch, and prints one line per (seed, check). Evidence files are put back afterwards.
# Use it from a `vp run --with-repo` snapshot (VERIF_REPO=$VP_RUN_REPO) to leave /repo alone.
set -u
cd "$(dirname "$0")"
REPO="${VERIF_REPO:-/repo}"
names=("$@")
[ ${#names[@]} -eq 0 ] && names=($(ls seeded))
mkdir -p .work/sweep; cp evidence/*.json .work/sweep/ 2>/dev/null
for n in "${names[@]}"; do
  d=seeded/$n; [ -f "$d/patch.diff" ] || continue
  prop=$(python3 -c "import json,sys; print(json.load(open('$d/meta.json'))['property'])" 2>/dev/null || echo "${n%%-*}")
  props="$prop $(cat $d/also.txt 2>/dev/null)"
  if ! git -C "$REPO" apply --check "$PWD/$d/patch.diff" 2>/dev/null; then echo "$n - patch-does-not-apply-to-this-tree"; continue; fi
  git -C "$REPO" apply "$PWD/$d/patch.diff"
  for p in $props; do
    out=$(./check $p 2>&1); rc=$?
    v=$(echo "$out" | grep '^VIOLATION' | head -1 | sed 's/replay=[^ ]*//')
    echo "$n $p exit=$rc $v"
  done
  git -C "$REPO" checkout -- .
done
cp .work/sweep/*.json evidence/ 2>/dev/null
