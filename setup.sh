#!/bin/sh
# MANIFEST.setup_cmd — build the framework offline from files on disk.
set -e
cd "$(dirname "$0")"
export GOFLAGS=-mod=mod GOPROXY=off GOSUMDB=off GOTOOLCHAIN=local CGO_ENABLED=0
mkdir -p .build .work evidence replays
(cd lean && lake build SsqlVerif ssqldrv)
cp /repo/go.sum harness/go.sum
(cd harness && go build -tags verif -o ../.build/verifharness .)
if [ -d harness/factsgen ]; then (cd harness/factsgen && go build -o ../../.build/factsgen .); fi
echo setup ok
