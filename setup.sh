#!/bin/sh
# MANIFEST.setup_cmd — build the framework offline from files on disk.
set -e
cd "$(dirname "$0")"
export GOFLAGS=-mod=mod GOPROXY=off GOSUMDB=off GOTOOLCHAIN=local CGO_ENABLED=0
mkdir -p .build .work evidence replays lean/SsqlVerif/Generated
(cd harness/factsgen && go build -o ../../.build/factsgen .)
.build/factsgen /repo facts.d > lean/SsqlVerif/Generated/Facts.lean.new
mv lean/SsqlVerif/Generated/Facts.lean.new lean/SsqlVerif/Generated/Facts.lean
./check --gen-registry
(cd lean && lake build SsqlVerif ssqldrv)
cp /repo/go.sum harness/go.sum
(cd harness && go build -tags verif -o ../.build/verifharness .)
echo setup ok
