#!/bin/bash
# seedtest.sh <out-dir-from-breaker> <seed-name> <property> [pkg-for-demo]
# Confirms a seeded change in a scratch worktree (demo fails with it, passes without, touched packages' tests pass),
# then runs ./check <property> against /repo with the change applied, and stores everything under /verif/seeded/<seed-name>/.
set -u
src="$1"; name="$2"; prop="$3"; pkg="${4:-./test/e2e/}"
export GOFLAGS=-mod=mod GOPROXY=off GOSUMDB=off GOTOOLCHAIN=local
wt=/tmp/sv/$name
rm -rf "$wt"; git -C /repo worktree prune; git -C /repo worktree add -q --detach "$wt" HEAD || exit 1
dst=/verif/seeded/$name; mkdir -p "$dst"
cp "$src"/patch.diff "$dst"/patch.diff
for f in "$src"/*_test.go "$src"/*.go "$src"/notes.md; do [ -f "$f" ] && cp "$f" "$dst"/; done
demo=$(ls "$src"/*_test.go 2>/dev/null | head -1)
if [ "$pkg" = auto ] && [ -n "$demo" ]; then
  pn=$(grep -m1 '^package ' "$demo" | awk '{print $2}' | sed 's/_test$//')
  case "$pn" in
    streamsql) pkg=./ ;;
    e2e) pkg=./test/e2e/ ;;
    zzdemo*) pkg=./$pn/ ;;
    *) pkg=./$(cd /repo && grep -rl --include='*.go' "^package $pn\$" . | grep -v _test.go | head -1 | xargs dirname | sed 's|^\./||')/ ;;
  esac
fi
res_with=NA; res_without=NA; tests=NA
if [ -n "$demo" ]; then
  mkdir -p "$wt/$pkg"; cp "$demo" "$wt/$pkg/"
  tname="($(grep -o 'func Test[A-Za-z0-9_]*' "$demo" | sed 's/func //' | paste -sd'|'))"
  (cd "$wt" && go test -vet=off -count=1 -run "^$tname\$" "$pkg" >/tmp/sv/$name.without.log 2>&1); res_without=$?
  (cd "$wt" && git apply "$dst/patch.diff") || { echo "patch does not apply"; exit 1; }
  (cd "$wt" && go build ./... ) || { echo "does not build"; exit 1; }
  (cd "$wt" && go test -vet=off -count=1 -run "^$tname\$" "$pkg" >/tmp/sv/$name.with.log 2>&1); res_with=$?
  rm -f "$wt/$pkg/$(basename "$demo")"
  pk=$(cd "$wt" && git diff --name-only | xargs -n1 dirname | sort -u | sed 's|^|./|' | tr '\n' ' ')
  (cd "$wt" && go test -vet=off -count=1 $pk >/tmp/sv/$name.tests.log 2>&1); tests=$?
fi
git -C /repo worktree remove --force "$wt"
# run the check against /repo with the change applied
cp /verif/evidence/$prop.json /tmp/sv/$name.evidence.bak 2>/dev/null
git -C /repo apply "$dst/patch.diff" || { echo "patch does not apply to /repo"; exit 1; }
(cd /verif && ./check "$prop" > /tmp/sv/$name.check.log 2>&1); chk=$?
git -C /repo checkout -- . 
# the evidence file must describe the unchanged tree: put the previous one back
[ -f /tmp/sv/$name.evidence.bak ] && cp /tmp/sv/$name.evidence.bak /verif/evidence/$prop.json
viol=$(grep -c '^VIOLATION' /tmp/sv/$name.check.log)
rep=$(grep '^VIOLATION' /tmp/sv/$name.check.log | head -1)
[ -n "$rep" ] && cp "$(echo "$rep" | sed 's/.*replay=\([^ ]*\).*/\1/')" "$dst/replay.txt" 2>/dev/null
cat > "$dst/meta.json" <<J
{"property": "$prop", "seed": "$name", "demo_exit_without_change": $res_without, "demo_exit_with_change": $res_with,
 "touched_package_tests_exit_with_change": $tests, "check_exit_with_change": $chk, "check_violation_lines": $viol,
 "check_first_violation": "$(echo "$rep" | sed 's/"/\\"/g')",
 "ran": "scratch worktree of /repo HEAD: demo test without/with the change, go build ./..., go test of touched packages; then git -C /repo apply, ./check $prop, git -C /repo checkout -- ."}
J
echo "$name: demo without=$res_without with=$res_with tests=$tests check_exit=$chk :: $rep"
