#!/usr/bin/env python3
"""Regenerates MANIFEST.json from checkcfg.py + manifest_meta.py (keeps it valid at all times)."""
import json, subprocess
from checkcfg import PROPS, META
from manifest_meta import NOT_APPLICABLE, HOOK_COMMITS, NOTES

checks = []
for pid in sorted(PROPS):
    m = META[pid]
    checks.append({
        "property_id": pid,
        "quick_cmd": f"./check {pid} --tier quick",
        "thorough_cmd": f"./check {pid} --tier thorough",
        "evidence_file": f"/verif/evidence/{pid}.json",
        "replay_cmd_template": f"./check {pid} --replay {{path}}",
        "engine": "lean4-model+correspondence",
        "level_claimed": {"category": m.get("category", "proof"), "text": m["text"], "design_ref": m.get("design_ref", "DESIGN.md §5 " + pid)},
        "level_note": m["note"],
        "technique": m.get("technique", "Lean 4 theorems over a hand-written model + differential correspondence (Go harness vs Lean driver) + spec oracle on implementation traces"),
    })
man = {
    "version": 1,
    "setup_cmd": "./setup.sh",
    "hooks": {
        "guard": "verif",
        "enable": "go build -tags verif (harness module replaces github.com/rulego/streamsql => /repo)",
        "baseline_off_cmd": "cd /repo && GOFLAGS=-mod=mod GOPROXY=off GOSUMDB=off GOTOOLCHAIN=local go test -mod=mod -vet=off -count=1 -timeout 25m ./...",
        "source_commits": HOOK_COMMITS,
        "add_only": True,
    },
    "engines": [{
        "name": "lean4-model+correspondence", "path": "/verif/lean + /verif/harness + /verif/check",
        "serves_properties": sorted(PROPS),
        "kind_free_text": "Lean 4 library SsqlVerif (Model/Spec/Proofs/Props/Audit), compiled driver ssqldrv, Go harness built -tags verif against /repo, Python runner",
    }],
    "checks": checks,
    "notes": NOTES,
    "not_applicable": [{"property_id": p, "reason": r} for p, r in sorted(NOT_APPLICABLE.items()) if p not in PROPS],
}
json.dump(man, open("MANIFEST.json", "w"), indent=1)
print("MANIFEST.json:", len(checks), "checks,", len(man["not_applicable"]), "not_applicable")
