-- This module serves as the root of the `Ssqlverif` library.
-- Import modules here that should be built as part of the library.
import Ssqlverif.Basic
