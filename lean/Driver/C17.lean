import Driver.Proto
import SsqlVerif.Model.Global
import SsqlVerif.Spec.Global
set_option autoImplicit false
open Proto

/-!
Driver for C17 (global window TRIGGER WHEN).  IO glue of the correspondence check, not part of
any theorem.  One case = one query (cfg lines) + one row per op; the model (`Global.step` with the
code's encoder `encGlobal`, numbers at `Float`) prints what it delivers per row; the oracle
`Global.Spec.checkFrom` judges the *implementation's* obs lines.
-/
namespace DrvC17
open Global

abbrev Q := Query Str Str Float
abbrev R := Row (List KeyPart) Str Float
abbrev Res := Result (List KeyPart) Float

/-! ### tokens -/

def hexDigitVal (c : Char) : Option Nat := hexVal c

def parseHexNat (s : List Char) : Option Nat :=
  s.foldl (fun acc c => match acc, hexVal c with
    | some a, some d => some (a * 16 + d)
    | _, _ => none) (some 0)

def floatTok (x : Float) : String :=
  if x.isNaN then "f:nan" else
  let b := x.toBits.toNat
  let rec digs (n : Nat) (k : Nat) (acc : List Char) : List Char :=
    match k with
    | 0 => acc
    | k + 1 => digs (n / 16) k (hexDigit (n % 16) :: acc)
  "f:" ++ String.ofList (digs b 16 [])

def parseFloatTok (s : String) : Option Float :=
  match s.toList with
  | 'f' :: ':' :: rest =>
    if rest = "nan".toList then some (0.0 / 0.0) else
    if rest.length = 16 then (parseHexNat rest).map fun n => Float.ofBits n.toUInt64 else none
  | 'i' :: ':' :: rest => (String.ofList rest).toInt?.map Float.ofInt
  | _ => none

def parseFn : String → Option AggFn
  | "count" => some .count | "sum" => some .sum | "avg" => some .avg
  | "min" => some .min | "max" => some .max | _ => none

def parseCmp : String → Option Cmp
  | "gt" => some .gt | "ge" => some .ge | "lt" => some .lt
  | "le" => some .le | "eq" => some .eq | "ne" => some .ne | _ => none

def parseField (s : String) : Option (Option Str) :=
  if s = "*" then some none else (unhex s).map some

/-- prefix notation: `and P P` | `or P P` | `cmp fn field op lit` -/
partial def parsePred : List String → Option (Pred Str Float × List String)
  | "and" :: rest => do
    let (l, r1) ← parsePred rest
    let (r, r2) ← parsePred r1
    some (.and l r, r2)
  | "or" :: rest => do
    let (l, r1) ← parsePred rest
    let (r, r2) ← parsePred r1
    some (.or l r, r2)
  | "cmp" :: fn :: fld :: op :: lit :: rest => do
    let fn ← parseFn fn
    let fld ← parseField fld
    let op ← parseCmp op
    let lit ← parseFloatTok lit
    some (.cmp ⟨fn, fld⟩ op lit, rest)
  | _ => none

def parseKeyCell (s : String) : Option KeyPart :=
  match s.toList with
  | ['m'] => some none
  | ['n'] => some none
  | 's' :: ':' :: rest => (unhex (String.ofList rest)).map some
  | _ => none

def parseCell (s : String) : Option (Cell Float) :=
  match s.toList with
  | ['m'] => some .missing
  | ['n'] => some .null
  | 'j' :: ':' :: _ => some .junk
  | _ => (parseFloatTok s).map .num

def parseCells : List String → Option (List (Str × Cell Float))
  | [] => some []
  | [_] => none
  | f :: c :: rest => do
    let f ← unhex f
    let c ← parseCell c
    let more ← parseCells rest
    some ((f, c) :: more)

structure Cfg where
  mode : String := "direct"
  nkeys : Nat := 0
  outs : List (Str × AggCall Str) := []
  pred : Option (Pred Str Float) := none
  bad : Bool := false

def parseCfg (lines : List (List String)) : Cfg := Id.run do
  let mut c : Cfg := {}
  for l in lines do
    match l with
    | ["mode", m] => c := { c with mode := m }
    | "keys" :: ks => c := { c with nkeys := ks.length }
    | ["out", a, fn, fld] =>
      match unhex a, parseFn fn, parseField fld with
      | some a, some fn, some fld => c := { c with outs := c.outs ++ [(a, ⟨fn, fld⟩)] }
      | _, _, _ => c := { c with bad := true }
    | "pred" :: toks =>
      match parsePred toks with
      | some (p, []) => c := { c with pred := some p }
      | _ => c := { c with bad := true }
    | _ => pure ()
  return c

def parseRow (nkeys : Nat) : List String → Option R
  | "row" :: ts :: rest => do
    let ts ← ts.toInt?
    if rest.length < nkeys then none else
    let ks ← (rest.take nkeys).mapM parseKeyCell
    let cells ← parseCells (rest.drop nkeys)
    some { key := ks, ts := ts, cells := cells }
  | _ => none

/-! ### observables -/

def keyCellTok : KeyPart → String
  | none => "n"
  | some s => "s:" ++ hex s

def valTok : Option Float → String
  | none => "n"
  | some x => floatTok x

def renderFire (bounds : Bool) (r : Res) : List String :=
  ["fire", "k"] ++ r.key.map keyCellTok ++ ["o"] ++ r.vals.map valTok ++
    ["w"] ++ (if bounds then [toString r.wstart, toString r.wend] else ["x", "x"])

def parseVal (s : String) : Option (Option Float) :=
  if s = "n" then some none else (parseFloatTok s).map some

/-- `fire k <keycells> o <vals> w <ws> <we>` -/
def parseFire (toks : List String) : Option Res :=
  match toks with
  | "fire" :: "k" :: rest =>
    let ks := rest.takeWhile (· ≠ "o")
    let rest := (rest.dropWhile (· ≠ "o")).drop 1
    let vs := rest.takeWhile (· ≠ "w")
    let ws := (rest.dropWhile (· ≠ "w")).drop 1
    match ks.mapM parseKeyCell, vs.mapM parseVal, ws with
    | some ks, some vs, [a, b] =>
      some { key := ks, vals := vs, wstart := (a.toInt?).getD 0, wend := (b.toInt?).getD 0 }
    | _, _, _ => none
  | _ => none

/-- the implementation's obs lines of one op → what it delivered (`none` = unparsable) -/
def implOut (obs : List (List String)) : Option (Option Res) :=
  match obs with
  | [] => some none
  | [l] => (parseFire l).map some
  | _ => none

def bitsEq (a b : Float) : Bool := (a.isNaN && b.isNaN) || a.toBits == b.toBits

def verdictName : Spec.Verdict → String
  | .ok => "ok"
  | .firedNotTrue => "fired-but-predicate-not-true"
  | .trueNotFired => "predicate-true-but-not-fired"
  | .wrongGroupColumns => "wrong-group-columns"
  | .wrongAggregates => "result-not-aggregates-of-segment"
  | .wrongBounds => "wrong-window-bounds"

/-! ### classes of recorded findings (negations of the `_partial` hypotheses) -/

/-- two distinct key tuples with one encoding: impossible for `encGlobal` at one arity (C04); kept as a
sanity tag that must never appear -/
def collides (rows : List R) : Bool :=
  let keys := (rows.map (·.key)).eraseDups
  keys.any fun a => keys.any fun b => a ≠ b && encGlobal a = encGlobal b

/-- segments along an observed trace: for each row, its segment -/
def segsAlong : List (R × Bool) → List R → List (Option Res) → List (List R)
  | hist, r :: rows, o :: outs =>
    (Spec.openSeg r.key hist ++ [r]) :: segsAlong ((r, o.isSome) :: hist) rows outs
  | _, _, _ => []

def addTag (tags : List String) (t : String) : List String := if tags.contains t then tags else tags ++ [t]

/-- mode `quotes`: `LAST_VALUE(tag) OP <literal>` in four spellings (single quotes, double quotes, parenthesised, with a
second conjunct) over one row whose tag is a string: each spelling fires iff the comparison of the two texts says so -/
def runQuotes (c : Case) : CaseOut :=
  let exp := c.ops.map fun (op, _) => match op with
    | ["q", lit, o, v] =>
      let eq := ("s:" ++ lit) == v
      let b := if o == "ne" then !eq else eq
      [("fires" :: List.replicate 4 (boolTok b))]
    | _ => [["bad-op"]]
  let ok := (c.ops.zip exp).all fun ((_, io), e) => io == e
  { obs := exp, spec := if ok then "ok" else "fail:quoted-literal-spellings-of-one-predicate-fire-differently", tags := ["mode-quotes"] }

def runSegment (c : Case) : CaseOut := Id.run do
  if c.cfg.any (fun l => l == ["mode", "quotes"]) then return runQuotes c
  let cfg := parseCfg c.cfg
  let bad : CaseOut := { obs := c.ops.map fun _ => [["bad-case"]], spec := "fail:bad-case" }
  if cfg.bad then return bad
  let some pred := cfg.pred | return bad
  let q : Q := { outputs := cfg.outs, pred := pred }
  let bounds := cfg.mode == "direct"
  -- `nap` / `reap` (STATETTL scenario): wall-clock ops after which no group may have been reaped — no-ops of the model
  let isRowOp (op : List String) : Bool := !(op == ["nap"] || op == ["reap"])
  let allOps := c.ops
  let c : Case := { c with ops := allOps.filter fun (op, _) => isRowOp op }
  let some rows := c.ops.mapM (fun (op, _) => parseRow cfg.nkeys op) | return bad
  -- model
  let outs := Global.run encGlobal q rows
  let obs := outs.map fun o => match o with
    | none => []
    | some r => [renderFire bounds r]
  -- oracle on the implementation's observables
  let implOuts := c.ops.map fun (_, o) => implOut o
  let mut spec := "ok"
  let mut failIdx : Option Nat := none
  if implOuts.any Option.isNone then
    spec := "fail:unparsable-observation"
  else
    let io := implOuts.map fun o => o.getD none
    match Spec.checkFrom bitsEq bounds q 0 [] rows io with
    | none => pure ()
    | some (i, v) =>
      spec := s!"fail:{verdictName v} row={i}"
      failIdx := some i
  -- classes
  let segsM := segsAlong [] rows outs
  let unsafeM := segsM.any fun seg => !Spec.pointSafe pred seg
  let coll := collides rows
  let mut cls := "none"
  match failIdx with
  | some i =>
    let io := implOuts.map fun o => o.getD none
    let segsI := segsAlong [] rows io
    let seg := segsI.getD i []
    if !coll && !Spec.pointSafe pred seg then cls := "null-aggregate-in-predicate"
  | none =>
    if unsafeM then cls := "null-aggregate-in-predicate"
  -- the runner diffs model and implementation only for cases whose oracle verdict is ok; a failure
  -- inside a recorded class must still be the failure the model predicts, otherwise it is a new one
  if failIdx.isSome && obs != c.ops.map (·.2) then
    cls := "none"
    spec := spec ++ " model-deliveries-differ"
  -- distribution
  let mut tags : List String := ["mode-" ++ cfg.mode]
  if outs.any Option.isSome then tags := addTag tags "fired" else tags := addTag tags "never-fired"
  if (outs.filter Option.isSome).length ≥ 2 then tags := addTag tags "fired-twice+"
  if (rows.map (·.key)).eraseDups.length ≥ 2 then tags := addTag tags "multi-group"
  if (trigSpecs q).any (·.2.isSome) then tags := addTag tags "leaf-bound-to-output"
  if (trigSpecs q).any (·.2.isNone) then tags := addTag tags "leaf-trigger-only"
  if pred.leaves.length ≠ pred.leaves.eraseDups.length then tags := addTag tags "same-aggregate-twice"
  if segsM.any (fun seg => !Spec.allNonNull pred seg) then tags := addTag tags "null-aggregate-at-evaluation"
  if unsafeM then tags := addTag tags "unsafe-point"
  if segsM.any (fun seg => decide (evalDirect pred (fun cl => Spec.aggOf cl seg) = .err)) then tags := addTag tags "evaluation-aborted"
  if segsM.any (fun seg => decide (evalDirect pred (fun cl => Spec.aggOf cl seg) = .ok true) != Spec.predTrue pred seg) then
    tags := addTag tags "engine-differs-from-sql"
  if coll then tags := addTag tags "key-collision"
  if (rows.map (·.key)).any (fun k => k.any fun p => match p with
      | some t => t.contains '|' || t.contains '\\' || t.isEmpty
      | none => false) then tags := addTag tags "separator-or-empty-key-part"
  if (segsM.zip outs).any (fun (seg, o) => o.isSome && seg.length ≥ 2) then tags := addTag tags "fired-on-multi-row-segment"
  -- put the empty observations of the wall-clock ops back in place
  let rec weave (ops : List (List String × List (List String))) (o : List (List (List String))) : List (List (List String)) :=
    match ops, o with
    | [], _ => []
    | (op, _) :: rest, o =>
      if isRowOp op then (match o with | x :: xs => x :: weave rest xs | [] => [] :: weave rest [])
      else [] :: weave rest o
  if allOps.length != c.ops.length then tags := addTag tags "statettl-reaper-scenario"
  return { obs := weave allOps obs, spec := spec, cls := cls, tags := tags }

/-- op `reset`: the STATETTL reaper has removed every group (all idle beyond the TTL); the rows that follow start from
the empty state, i.e. they are a case of their own for the model and the oracle -/
def run (c : Case) : CaseOut := Proto.withResets runSegment c

end DrvC17
