import Driver.Proto
import SsqlVerif.Model.Tumbling
import SsqlVerif.Spec.Window
set_option autoImplicit false
open Proto

/-! Shared driver for the event-time window properties (C01, C02, C08): replays the op lines
on the tumbling model and evaluates `WinSpec.holds` on the implementation's observables. -/
namespace DrvWin

def cfgInt (c : Case) (k : String) (d : Int) : Int :=
  match c.cfg.find? (fun l => l.head? == some k) with
  | some [_, v] => (parseInt v).getD d
  | _ => d

def cfgStr (c : Case) (k : String) (d : String) : String :=
  match c.cfg.find? (fun l => l.head? == some k) with
  | some [_, v] => v
  | _ => d

def emLine (e : Tumbling.Emission) : List String :=
  (if e.kind == .late then "lemit" else "emit") :: toString e.start :: toString e.stop :: e.rows.map (fun r => toString r.id)

structure Gap where
  k : Nat
  id : Nat
  ts : Option Int

def parseGap (g : String) : Option Gap :=
  match g.splitOn ":" with
  | k :: id :: ts :: _ => do
    let k ← parseNat k; let id ← parseNat id
    some { k := k, id := id, ts := if ts == "none" then none else parseInt ts }
  | _ => none

def addRow (s : Tumbling.TW) (id : Nat) (ts : Option Int) (now : Int) : Tumbling.TW × List Tumbling.Emission :=
  match ts with
  | none => (s, [])
  | some t => Tumbling.stepAdd s { id := id, ts := t } now

/-- run the trigger loop for the already popped watermark; gap adds fire after the k-th emission -/
partial def triggerLoop (s : Tumbling.TW) (gaps : List Gap) (now : Int) (k : Nat) (acc : List Tumbling.Emission) :
    Tumbling.TW × List Tumbling.Emission × Nat :=
  if s.trigW.isNone then (s, acc, k) else
  let (s1, es) := Tumbling.stepIter s
  match es with
  | [] => triggerLoop s1 gaps now k acc
  | e :: _ =>
    -- emission number k: then the adds scheduled for its unlock gap (each may emit late updates)
    let (s2, acc2, k2) := (gaps.filter (·.k == k)).foldl (fun (st : Tumbling.TW × List Tumbling.Emission × Nat) g =>
        let (s', es') := addRow st.1 g.id g.ts now
        (s', st.2.1 ++ es', st.2.2 + es'.length)) (s1, acc ++ [e], k + 1)
    triggerLoop s2 gaps now k2 acc2

def deliver (s : Tumbling.TW) (gaps : List Gap) (now : Int) : Option (Tumbling.TW × List Tumbling.Emission) :=
  if s.wm.chan.isEmpty then none else
  let s1 := Tumbling.stepPop s
  let (s2, es, _) := triggerLoop s1 gaps now 0 []
  some (s2, es)

partial def drain (s : Tumbling.TW) (now : Int) (acc : List Tumbling.Emission) : Tumbling.TW × List Tumbling.Emission :=
  match deliver s [] now with
  | none => (s, acc)
  | some (s', es) => drain s' now (acc ++ es)

/-- the implementation's obs lines of one op → spec events (arrivals of gap adds interleaved) -/
def evsOfObs (obs : List (List String)) (gaps : List Gap) : List WinSpec.Ev := Id.run do
  let mut out : List WinSpec.Ev := []
  let mut k := 0
  for l in obs do
    match l with
    | kind :: a :: b :: ids =>
      if kind == "emit" || kind == "lemit" then
        match parseInt a, parseInt b with
        | some a, some b =>
          out := out ++ [WinSpec.Ev.emit (kind == "lemit") a b (ids.filterMap parseNat)]
          for g in gaps do
            if g.k == k then out := out ++ [WinSpec.Ev.arr g.id g.ts]
          k := k + 1
        | _, _ => pure ()
    | _ => pure ()
  return out

def run (c : Case) : CaseOut := Id.run do
  let size := cfgInt c "size" 1000
  let ooo := cfgInt c "ooo" 0
  let late := cfgInt c "late" 0
  let now := cfgInt c "now" 0
  let mode := cfgStr c "mode" "et"
  let mut s : Tumbling.TW := { size := size, lateness := late, wm := { maxOOO := ooo } }
  let mut obs : List (List (List String)) := []
  let mut evs : List WinSpec.Ev := []
  let mut tags : List String := []
  let mut flushed := false
  let tag (ts : List String) (t : String) : List String := if ts.contains t then ts else t :: ts
  for (op, implObs) in c.ops do
    match op with
    | "add" :: id :: ts :: _ =>
      let id := (parseNat id).getD 0
      let ts := if ts == "none" then none else parseInt ts
      if mode == "pt" then
        match ts with
        | some t => s := Tumbling.ptAdd s { id := id, ts := t }
        | none => pure ()
        obs := obs ++ [[]]
        evs := evs ++ [WinSpec.Ev.arr id ts]
      else
        match ts with
        | some t =>
          let r : Tumbling.Row := { id := id, ts := t }
          match Tumbling.fate s r now with
          | .keep => tags := tag tags (if Tumbling.lateNow s r now then "late-kept-in-current" else
                      (if (match s.cur with | some c => decide (t < c) | none => false) then "ontime-before-current-slot" else "ontime"))
          | .lateUpdate _ => tags := tag tags "late-update"
          | .drop => tags := tag tags "late-drop"
          if Wm.tooFar s.wm t now then tags := tag tags "far-future-guard"
          if s.wm.chan.length ≥ s.wm.cap then tags := tag tags "watermark-channel-full"
        | none => tags := tag tags "no-timestamp"
        let (s', es) := addRow s id ts now
        s := s'
        obs := obs ++ [es.map emLine]
        evs := evs ++ [WinSpec.Ev.arr id ts] ++ evsOfObs implObs []
      flushed := false
    | "deliver" :: gs =>
      let gaps := gs.filterMap parseGap
      match deliver s gaps now with
      | none => obs := obs ++ [[["idle"]]]
      | some (s', es) =>
        s := s'
        obs := obs ++ [es.map emLine]
        if es.isEmpty then tags := tag tags "deliver-nothing-fires" else tags := tag tags "deliver-fires"
      evs := evs ++ evsOfObs implObs gaps
      -- gap adds whose emission index never occurred were not executed
    | ["drain"] =>
      let (s', es) := drain s now []
      s := s'
      obs := obs ++ [es.map emLine]
      evs := evs ++ evsOfObs implObs []
      flushed := true
    | ["tick"] =>
      s := { s with wm := Wm.tick s.wm false now }
      obs := obs ++ [[]]
    | ["pttick"] =>
      let (s', es) := Tumbling.ptTick s
      s := s'
      obs := obs ++ [es.map emLine]
      evs := evs ++ evsOfObs implObs []
    | _ => obs := obs ++ [[["bad-op"]]]
  let scfg : WinSpec.Cfg := { size := size, slide := size, ooo := ooo, lateness := late, now := now }
  let spec := if mode == "pt" then "ok" else
    match WinSpec.holds scfg evs flushed with
    | none => "ok"
    | some e => "fail:" ++ e
  return { obs := obs, spec := spec, tags := tags }

end DrvWin
