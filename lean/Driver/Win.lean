import Driver.Proto
import SsqlVerif.Model.Tumbling
import SsqlVerif.Model.Sliding
import SsqlVerif.Model.SlidingLate
import SsqlVerif.Spec.Window
set_option autoImplicit false
open Proto

/-! Shared driver for the event-time window properties (C01, C02, C08): replays the op lines
on a window model and evaluates `WinSpec.holds` on the implementation's observables. -/
namespace DrvWin
open Tumbling (Emission Row)

def cfgInt (c : Case) (k : String) (d : Int) : Int :=
  match c.cfg.find? (fun l => l.head? == some k) with
  | some [_, v] => (parseInt v).getD d
  | _ => d

def cfgStr (c : Case) (k : String) (d : String) : String :=
  match c.cfg.find? (fun l => l.head? == some k) with
  | some [_, v] => v
  | _ => d

/-- timestamp token → usable timestamp (window/factory.go extractTimestamp): plain digits int64,
`f…` float64, `s…` decimal string, `t…` time.Time; `none` (absent), `nil`, `garbage` (non-numeric
string) are unplaceable; without a declared TIMEUNIT (`unit = 0`) only time.Time values are usable -/
def tsOfTok (unit : Int) (tok : String) (shift : Int := 0) : Option Int :=
  (if tok == "none" || tok == "nil" || tok == "garbage" then none
  else if tok.startsWith "t" then parseInt (tok.drop 1).toString
  else if unit == 0 then none
  -- `h…` / `q…`: a float64 with fractional part .5 / .75 — the integer part counts (truncation)
  else if tok.startsWith "f" || tok.startsWith "s" || tok.startsWith "h" || tok.startsWith "q" then parseInt (tok.drop 1).toString
  else parseInt tok).map (fun v => (v + shift) * (if unit > 1 then unit else 1))

def emLine (e : Emission) : List String :=
  (if e.kind == .late then "lemit" else "emit") :: toString e.start :: toString e.stop :: e.rows.map (fun r => toString r.id)

/-- the executable interface of a window model -/
structure Machine (σ : Type) where
  add : σ → Row → Int → Option Int → σ × List Emission   -- last argument: observed late-update target (witness of a Go map-order choice)
  pop : σ → σ
  iter : σ → σ × List Emission
  tick : σ → Int → σ
  tickIdle : σ → Int → σ
  busy : σ → Bool
  chanEmpty : σ → Bool
  tagAdd : σ → Row → Int → List String
  ptAdd : σ → Row → σ
  ptTick : σ → σ × List Emission

structure Gap where
  k : Nat
  id : Nat
  ts : Option Int
  rel : Option Int := none   -- `@off`: the timestamp is (start of the window being delivered) + off

def parseGap (unit : Int) (g : String) (shift : Int := 0) : Option Gap :=
  match g.splitOn ":" with
  | k :: id :: ts :: _ => do
    let k ← parseNat k; let id ← parseNat id
    if ts.startsWith "@" then
      (if unit == 0 then some { k := k, id := id, ts := none }
       else (parseInt (ts.drop 1).toString).map fun off => { k := k, id := id, ts := none, rel := some off })
    else some { k := k, id := id, ts := tsOfTok unit ts shift }
  | _ => none

def Gap.tsAt (g : Gap) (start : Int) : Option Int :=
  match g.rel with
  | some off => some (start + off)
  | none => g.ts

variable {σ : Type}

def addRow (m : Machine σ) (s : σ) (id : Nat) (ts : Option Int) (now : Int) (hint : Option Int := none) : σ × List Emission :=
  match ts with
  | none => (s, [])
  | some t => m.add s { id := id, ts := t } now hint

/-- starts of the late re-deliveries the implementation produced during one op, in order -/
def lemitStarts (obs : List (List String)) : List Int :=
  obs.filterMap fun l => match l with
    | "lemit" :: a :: _ => parseInt a
    | _ => none

/-- run the trigger loop for the already popped watermark; gap adds fire after the k-th emission;
`hints` = observed late-update targets of this op, consumed one per late update -/
partial def triggerLoop [Inhabited σ] (m : Machine σ) (s : σ) (gaps : List Gap) (now : Int) (k : Nat) (acc : List Emission)
    (hints : List Int) : σ × List Emission × Nat :=
  if !m.busy s then (s, acc, k) else
  let (s1, es) := m.iter s
  match es with
  | [] => triggerLoop m s1 gaps now k acc hints
  | e :: _ =>
    let (s2, acc2, hints2) := (gaps.filter (·.k == k)).foldl (fun (st : σ × List Emission × List Int) g =>
        let (s', es') := addRow m st.1 g.id (g.tsAt e.start) now st.2.2.head?
        (s', st.2.1 ++ es', if es'.isEmpty then st.2.2 else st.2.2.drop 1)) (s1, acc ++ [e], hints)
    triggerLoop m s2 gaps now (k + 1) acc2 hints2

def deliver [Inhabited σ] (m : Machine σ) (s : σ) (gaps : List Gap) (now : Int) (hints : List Int := []) : Option (σ × List Emission) :=
  if m.chanEmpty s then none else
  let s1 := m.pop s
  let (s2, es, _) := triggerLoop m s1 gaps now 0 [] hints
  some (s2, es)

partial def drain [Inhabited σ] (m : Machine σ) (s : σ) (now : Int) (acc : List Emission) : σ × List Emission :=
  match deliver m s [] now with
  | none => (s, acc)
  | some (s', es) => drain m s' now (acc ++ es)

/-- the implementation's obs lines of one op → spec events (arrivals of gap adds interleaved) -/
def evsOfObs (obs : List (List String)) (gaps : List Gap) : List WinSpec.Ev := Id.run do
  let mut out : List WinSpec.Ev := []
  let mut k := 0
  for l in obs do
    match l with
    | kind :: a :: b :: ids =>
      if kind == "emit" || kind == "lemit" then
        match parseInt a, parseInt b with
        | some a, some b =>
          out := out ++ [WinSpec.Ev.emit (kind == "lemit") a b (ids.filterMap parseNat)]
          for g in gaps do
            if g.k == k then out := out ++ [WinSpec.Ev.arr g.id (g.tsAt a)]
          k := k + 1
        | _, _ => pure ()
    | _ => pure ()
  return out

def runWith [Inhabited σ] (m : Machine σ) (s0 : σ) (scfg : WinSpec.Cfg) (c : Case) : CaseOut := Id.run do
  let now := scfg.now
  let mode := cfgStr c "mode" "et"
  let mut s := s0
  let mut obs : List (List (List String)) := []
  let mut evs : List WinSpec.Ev := []
  let mut tags : List String := []
  let mut flushed := false
  let mut ptTicks : Nat := 0
  let mut idleTicked := false
  let mut idleTicks : Nat := 0
  for (op, implObs) in c.ops do
    match op with
    | "add" :: id :: ts :: _ =>
      let id := (parseNat id).getD 0
      let ts := tsOfTok (cfgInt c "tsunit" 1) ts (cfgInt c "tsadd" 0)
      if mode == "pt" then
        match ts with
        | some t => s := m.ptAdd s { id := id, ts := t }
        | none => pure ()
        obs := obs ++ [[]]
        evs := evs ++ [WinSpec.Ev.arr id ts]
      else
        match ts with
        | some t => for t' in m.tagAdd s { id := id, ts := t } now do
                      unless tags.contains t' do tags := t' :: tags
        | none => unless tags.contains "no-timestamp" do tags := "no-timestamp" :: tags
        let (s', es) := addRow m s id ts now (lemitStarts implObs).head?
        s := s'
        obs := obs ++ [es.map emLine]
        evs := evs ++ [WinSpec.Ev.arr id ts] ++ evsOfObs implObs []
      flushed := false
    | "deliver" :: gs =>
      let gaps := gs.filterMap (fun g => parseGap (cfgInt c "tsunit" 1) g (cfgInt c "tsadd" 0))
      match deliver m s gaps now (lemitStarts implObs) with
      | none => obs := obs ++ [[["idle"]]]
      | some (s', es) =>
        s := s'
        obs := obs ++ [es.map emLine]
        let t' := if es.isEmpty then "deliver-nothing-fires" else "deliver-fires"
        unless tags.contains t' do tags := t' :: tags
      evs := evs ++ evsOfObs implObs gaps
    | ["drain"] =>
      let (s', es) := drain m s now []
      s := s'
      obs := obs ++ [es.map emLine]
      evs := evs ++ evsOfObs implObs []
      flushed := true
    | ["tick"] =>
      -- the wall clock strictly increases from one idle tick to the next (each sends a new value)
      -- `idle 1`: IDLETIMEOUT of 1 ns, every tick is idle; `idle > 1`: ticks are placed explicitly (`itick` idle, `tick` busy)
      s := if cfgInt c "idle" 0 == 1 then m.tickIdle s (now + Int.ofNat idleTicks) else m.tick s now
      if cfgInt c "idle" 0 == 1 then
        evs := evs ++ [WinSpec.Ev.idle (now + Int.ofNat idleTicks)]
        idleTicked := true
        idleTicks := idleTicks + 1
      obs := obs ++ [[]]
    | ["sleep"] => obs := obs ++ [[]]
    | ["ntick"] =>
      -- natural ticker update: the harness measured whether IDLETIMEOUT had elapsed since the last Add (`i` / `b`);
      -- `ai` / `ab`: the measurement straddled the threshold and the implementation's own decision is followed
      let flag := match implObs with | ["tickflag", f] :: _ => f | _ => "b"
      if flag == "i" || flag == "ai" then
        s := m.tickIdle s (now + Int.ofNat idleTicks)
        evs := evs ++ [WinSpec.Ev.idle (now + Int.ofNat idleTicks)]
        idleTicked := true
        idleTicks := idleTicks + 1
      else
        s := m.tick s now
      obs := obs ++ [[["tickflag", flag]]]
    | ["itick"] =>
      s := m.tickIdle s (now + Int.ofNat idleTicks)
      evs := evs ++ [WinSpec.Ev.idle (now + Int.ofNat idleTicks)]
      idleTicked := true
      idleTicks := idleTicks + 1
      obs := obs ++ [[]]
    | "pttick" :: gs =>
      let gaps := gs.filterMap (fun g => parseGap 1 g (cfgInt c "tsadd" 0))
      let (s', es) := m.ptTick s
      s := s'
      -- Adds issued during the hand-off of the fired window (inside the callback)
      if !es.isEmpty then
        for g in gaps do
          if g.k == 0 then
            match g.ts with
            | some t => s := m.ptAdd s { id := g.id, ts := t }
            | none => pure ()
      obs := obs ++ [es.map emLine]
      evs := evs ++ evsOfObs implObs gaps
      ptTicks := ptTicks + 1
    | _ => obs := obs ++ [[["bad-op"]]]
  let spec := if mode == "pt" then
      (match WinSpec.holdsPT scfg evs ptTicks with | none => "ok" | some e => "fail:" ++ e)
    else
    -- an idle-timeout tick raises the oracle's watermark to (wall clock − tolerance) as well (`Ev.idle`)
    match WinSpec.holds scfg evs flushed with
    | none => "ok"
    | some e => "fail:" ++ e
  return { obs := obs, spec := spec, tags := if idleTicked then "idle-tick-advances-watermark" :: tags else tags }

instance : Inhabited Tumbling.TW := ⟨Tumbling.init 1 0 0⟩
instance : Inhabited SlidingLate.SWL := ⟨SlidingLate.init 1 1 0 0⟩

def tumblingMachine : Machine Tumbling.TW where
  add := fun s r now _ => Tumbling.stepAdd s r now
  pop := Tumbling.stepPop
  iter := Tumbling.stepIter
  tick := fun s now => { s with wm := Wm.tick s.wm false now }
  tickIdle := fun s now => { s with wm := Wm.tick s.wm true now }
  busy := fun s => s.trigW.isSome
  chanEmpty := fun s => s.wm.chan.isEmpty
  ptAdd := Tumbling.ptAdd
  ptTick := Tumbling.ptTick
  tagAdd := fun s r now =>
    (match Tumbling.fate s r now with
     | .keep => if Tumbling.lateNow s r now then "late-kept-in-current" else
                  (if (match s.cur with | some c => decide (r.ts < c) | none => false) then "ontime-before-current-slot" else "ontime")
     | .lateUpdate _ => "late-update"
     | .drop => "late-drop") ::
    ((if Wm.tooFar s.wm r.ts now then ["far-future-guard"] else []) ++
     (if s.wm.chan.length ≥ s.wm.cap then ["watermark-channel-full"] else []))

def slidingMachine : Machine SlidingLate.SWL where
  add := fun s r now h => SlidingLate.stepAdd s r now h
  pop := SlidingLate.stepPop
  iter := SlidingLate.stepIter
  tick := fun s now => SlidingLate.tick s false now
  tickIdle := fun s now => SlidingLate.tick s true now
  busy := fun s => s.base.trigW.isSome
  chanEmpty := fun s => s.base.wm.chan.isEmpty
  ptAdd := fun s _ => s
  ptTick := fun s => (s, [])
  tagAdd := fun s r now =>
    (if !(SlidingLate.lateTargets s r now).isEmpty then
       (if (SlidingLate.lateTargets s r now).length > 1 then "late-update-several-windows"
        else (if Sliding.kept s.base r now then "late-update-and-kept-in-current" else "late-update"))
     else if Sliding.kept s.base r now then
       (if Sliding.lateNow s.base r now then "late-kept-in-current" else
         (if (match s.base.cur with | some c => decide (r.ts < c) | none => false) then
            (if s.base.advanced then "ontime-in-gap-before-current-slot" else "ontime-before-current-slot") else "ontime"))
     else "late-drop") ::
    ((if Wm.tooFar s.base.wm r.ts now then ["far-future-guard"] else []) ++
     (if s.base.wm.chan.length ≥ s.base.wm.cap then ["watermark-channel-full"] else []))

/-- SQL-level stage: no model trace (the free-running schedule decides which late rows survive);
the declarative oracle is evaluated on the delivered result rows, plus the aggregate columns:
count(*) = number of collected ids, sum(id) = their sum, window_id = "<start>_<end>". -/
def runSql (c : Case) : CaseOut := Id.run do
  let ms : Int := 1000000
  let size := cfgInt c "size" 1000 * ms
  let slide := (if cfgStr c "kind" "" == "sqlsliding" then cfgInt c "slide" 500 else cfgInt c "size" 1000) * ms
  let ooo := cfgInt c "ooo" 0 * ms
  let mut keys : List String := []
  let mut evs : List WinSpec.Ev := []
  let mut emits : List WinSpec.Ev := []
  let mut bad : Option String := none
  let mut delivered : List (Nat × Int × Int × List Nat) := []
  let mut deliveredIv : List (Int × Int × String) := []   -- (start, stop, batch) of every result line so far
  let late := cfgInt c "late" 0
  let mut batchNew : List (String × Bool) := []   -- per delivered batch: does it bring anything new (a first delivery, a new row, a new group)?
  let grpOf (ks : List String) (k : String) : Nat := (ks.idxOf k)
  for (op, implObs) in c.ops do
    match op with
    | ["row", id, ts, k] =>
      unless keys.contains k do keys := keys ++ [k]
      let t := if ts == "none" then none else (parseInt ts).map (· * ms)
      evs := evs ++ [WinSpec.Ev.arr ((parseNat id).getD 0) t (grpOf keys k)]
    | ["flush"] =>
      for l in implObs do
        match l with
        | "res" :: ws :: we :: k :: cnt :: sum :: wid :: ids =>
          let idl := ids.filterMap parseNat
          unless keys.contains k do keys := keys ++ [k]
          if (parseNat cnt).getD 0 != idl.length && bad.isNone then bad := some "count-differs-from-rows-of-the-window"
          if (parseNat sum).getD 0 != idl.foldl (· + ·) 0 && bad.isNone then bad := some "sum-differs-from-rows-of-the-window"
          if wid != "t" && bad.isNone then bad := some "window_id-not-start_end"
          let a := (parseInt ws).getD 0
          let b := (parseInt we).getD 0
          let g := grpOf keys k
          let batch := (ids.find? (·.startsWith "b")).getD "b?"
          -- a result for an interval already delivered for this group is a re-delivery (ALLOWEDLATENESS > 0):
          -- same bounds (hence same window_id), previous rows first, then further rows of the group in the interval
          let seenBefore := deliveredIv
          deliveredIv := deliveredIv ++ [(a, b, batch)]
          match delivered.find? (fun d => d.1 == g && d.2.1 == a && d.2.2.1 == b) with
          | some d =>
            let prev := d.2.2.2
            if late ≤ 0 && bad.isNone then bad := some "interval-delivered-twice-without-allowance"
            if idl.take prev.length != prev && bad.isNone then bad := some "re-delivery-does-not-start-with-previous-rows"
            let extra := idl.drop prev.length
            let okExtra := extra.all fun i => evs.any fun e => match e with
              | .arr i' (some t) g' => i' == i && g' == g && decide (a ≤ t) && decide (t < b)
              | _ => false
            if (!okExtra || idl.eraseDups.length != idl.length) && bad.isNone then bad := some "re-delivery-row-not-of-this-group-and-interval"
            batchNew := batchNew ++ [(batch, !extra.isEmpty)]
            delivered := delivered.map (fun x => if x.1 == g && x.2.1 == a && x.2.2.1 == b then (g, a, b, idl) else x)
          | none =>
            if late > 0 && seenBefore.any (fun d => d.1 == a && d.2.1 == b && d.2.2 != batch) then
              -- the interval was delivered before, for other groups only: a late update that
              -- brings this group its first result there; every row must be a row of the group in the interval
              let okRows := idl.all fun i => evs.any fun e => match e with
                | .arr i' (some t) g' => i' == i && g' == g && decide (a ≤ t) && decide (t < b)
                | _ => false
              if (!okRows || idl.eraseDups.length != idl.length) && bad.isNone then bad := some "re-delivery-row-not-of-this-group-and-interval"
              batchNew := batchNew ++ [(batch, true)]
              delivered := delivered ++ [(g, a, b, idl)]
            else
              batchNew := batchNew ++ [(batch, true)]
              delivered := delivered ++ [(g, a, b, idl)]
              emits := emits ++ [WinSpec.Ev.emit false a b idl g]
        | ["sentinel-lost"] => if bad.isNone then bad := some "sentinel-window-never-delivered"
        | _ => if bad.isNone then bad := some "unreadable-result-line"
    | _ => pure ()
  -- a re-delivered batch (all groups of the window) exists because of a late row: some group must show it
  if bad.isNone then
    let batches := (batchNew.map Prod.fst).eraseDups
    if batches.any (fun b => !(batchNew.any fun x => x.1 == b && x.2)) then bad := some "re-delivery-without-the-late-row"
  let scfg : WinSpec.Cfg := { size := size, slide := slide, ooo := ooo, lateness := 0, now := 1700000000000000000 }
  let spec := match bad with
    | some b => "fail:" ++ b
    | none => match WinSpec.holds scfg (evs ++ emits) true with
      | none => "ok"
      | some e => "fail:" ++ e
  return { obs := c.ops.map (fun p => p.2), spec := spec, tags := ["sql-level-oracle-only"] }

def run (c : Case) : CaseOut :=
  if (cfgStr c "kind" "").startsWith "sql" then runSql c else
  Proto.withResets (fun c =>
  let size := cfgInt c "size" 1000
  let ooo := cfgInt c "ooo" 0
  let late := cfgInt c "late" 0
  let now := cfgInt c "now" 0
  match cfgStr c "kind" "tumbling" with
  | "sliding" =>
    let slide := cfgInt c "slide" 500
    runWith slidingMachine (SlidingLate.init size slide ooo late)
      { size := size, slide := slide, ooo := ooo, lateness := late, now := now } c
  | _ =>
    runWith tumblingMachine (Tumbling.init size ooo late)
      { size := size, slide := size, ooo := ooo, lateness := late, now := now } c) c

end DrvWin
