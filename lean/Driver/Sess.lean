import Driver.Proto
import SsqlVerif.Model.Session
import SsqlVerif.Spec.Session
import SsqlVerif.Spec.SessionRef
set_option autoImplicit false
open Proto

/-! Driver for the session-window properties (C10, C02 on sessions). -/
namespace DrvSess
open Session

def cfgInt (c : Case) (k : String) (d : Int) : Int :=
  match c.cfg.find? (fun l => l.head? == some k) with
  | some [_, v] => (parseInt v).getD d
  | _ => d

def cfgStr (c : Case) (k : String) (d : String) : String :=
  match c.cfg.find? (fun l => l.head? == some k) with
  | some [_, v] => v
  | _ => d

def emLine (e : Emission) : List String :=
  (if e.late then "lemit" else "emit") :: hex e.key :: toString e.start :: toString e.stop :: e.rows.map (fun r => toString r.id)

structure Gap where
  k : Nat
  id : Nat
  ts : Option Int
  key : Key

def parseGap (g : String) : Option Gap :=
  match g.splitOn ":" with
  | k :: id :: ts :: rest => do
    let k ← parseNat k; let id ← parseNat id
    let key := match rest with | kh :: _ => (unhex kh).getD [] | [] => []
    some { k := k, id := id, ts := if ts == "none" then none else parseInt ts, key := key }
  | _ => none

def addRow (w : SWin) (k : Key) (id : Nat) (ts : Option Int) (now : Int) : SWin × List Emission :=
  match ts with
  | none => (w, [])
  | some t => stepAdd w k { id := id, ts := t } now

/-- pop one watermark value and run the expiry pass. Deliveries happen outside the lock after the
whole pass; an Add scheduled for the gap after the k-th delivery runs iff there are more than k
deliveries (its effect does not depend on which). Canonical output: first firings (sorted by the
model), then the late updates caused by the gap Adds, ordered by k. -/
def deliver (w : SWin) (gaps : List Gap) (now : Int) : Option (SWin × List Emission) :=
  match Wm.pop w.wm with
  | none => none
  | some (x, wm') =>
    let (w1, es) := stepExpire { w with wm := wm' } x
    let n := es.length
    let ordered := (List.range n).flatMap (fun k => gaps.filter (·.k == k))
    -- late updates emitted by gap adds count as deliveries too (nested callbacks are not re-entered)
    let (w2, lates) := ordered.foldl (fun (st : SWin × List Emission) g =>
        let (w', es') := addRow st.1 g.key g.id g.ts now
        (w', st.2 ++ es')) (w1, [])
    some (w2, es ++ lates)

partial def drain (w : SWin) (now : Int) (acc : List Emission) : SWin × List Emission :=
  match deliver w [] now with
  | none => (w, acc)
  | some (w', es) => drain w' now (acc ++ es)

def evsOfObs (obs : List (List String)) (gaps : List Gap) : List SessSpec.Ev := Id.run do
  let mut firsts : List SessSpec.Ev := []
  let mut lates : List SessSpec.Ev := []
  for l in obs do
    match l with
    | kind :: kh :: a :: b :: ids =>
      match unhex kh, parseInt a, parseInt b with
      | some key, some a, some b =>
        if kind == "emit" then firsts := firsts ++ [SessSpec.Ev.emit false key a b (ids.filterMap parseNat)]
        else if kind == "lemit" then lates := lates ++ [SessSpec.Ev.emit true key a b (ids.filterMap parseNat)]
      | _, _, _ => pure ()
    | _ => pure ()
  let n := firsts.length
  let arrs := (List.range n).flatMap (fun k => (gaps.filter (·.k == k)).map (fun g => SessSpec.Ev.arr g.key g.id g.ts))
  return firsts ++ arrs ++ lates

/-- in-order histories (no idle ticks): every session the implementation delivered must be one of the
reference sessionization's — the function `Session.reference` of theorem `C10.inorder_outcome_is_reference` -/
def refClause (timeout : Int) (mops : List Session.Op) (evs : List SessSpec.Ev) : Option String :=
  if inOrderB (-1000000000000000000000000000000) mops then
    let ref := (reference timeout mops).map fun x => (x.key, x.start, x.stop, x.rows.map (·.id))
    let firsts := evs.filterMap fun e => match e with
      | .emit false k a b ids => some (k, a, b, ids)
      | _ => none
    match firsts.find? (fun f => !ref.contains f) with
    | some _ => some "in-order-session-differs-from-reference"
    | none => none
  else none

/-- SQL-level stage for session windows (in-order input): oracle only, plus the aggregate columns. -/
def runSql (c : Case) : CaseOut := Id.run do
  let ms : Int := 1000000
  let timeout := cfgInt c "timeout" 1000 * ms
  let mut evs : List SessSpec.Ev := []
  let mut emits : List SessSpec.Ev := []
  let mut bad : Option String := none
  let mut mops : List Session.Op := []
  let lateCfg := cfgInt c "late" 0
  let mut delivered : List (Key × Int × Int × List Nat) := []
  let mut mustShow : List Nat := []      -- late rows sent after their session had reached the sink, well inside the allowance
  for (op, implObs) in c.ops do
    match op with
    | [kind, id, ts, k] =>
      if kind == "row" || kind == "late" then
        let t := if ts == "none" then none else (parseInt ts).map (· * ms)
        evs := evs ++ [SessSpec.Ev.arr ((unhex k).getD []) ((parseNat id).getD 0) t]
        mops := mops ++ [match t with
          | some t => Session.Op.add ((unhex k).getD []) { id := (parseNat id).getD 0, ts := t } 0
          | none => Session.Op.addNoTs]
        if kind == "late" then mustShow := mustShow ++ [(parseNat id).getD 0]
    | ["flush"] =>
      for l in implObs do
        match l with
        | "res" :: ws :: we :: k :: cnt :: sum :: wid :: ids =>
          let idl := ids.filterMap parseNat
          if (parseNat cnt).getD 0 != idl.length && bad.isNone then bad := some "count-differs-from-rows-of-the-session"
          if (parseNat sum).getD 0 != idl.foldl (· + ·) 0 && bad.isNone then bad := some "sum-differs-from-rows-of-the-session"
          if wid != "t" && bad.isNone then bad := some "window_id-not-start_end"
          let key := (unhex k).getD []
          let a := (parseInt ws).getD 0
          let b := (parseInt we).getD 0
          match delivered.find? (fun d => d.1 == key && d.2.1 == a && d.2.2.1 == b) with
          | some d =>
            -- a session delivered before: a late update (ALLOWEDLATENESS > 0) = previous rows, then the late row(s)
            let prev := d.2.2.2
            let extra := idl.drop prev.length
            if lateCfg ≤ 0 && bad.isNone then bad := some "session-delivered-twice-without-allowance"
            if idl.take prev.length != prev && bad.isNone then bad := some "re-delivery-does-not-start-with-previous-rows"
            if extra.isEmpty && bad.isNone then bad := some "re-delivery-without-the-late-row"
            let okExtra := extra.all fun i => evs.any fun e => match e with
              | .arr k' i' (some t) => i' == i && k' == key && decide (a ≤ t) && decide (t < b)
              | _ => false
            if (!okExtra || idl.eraseDups.length != idl.length) && bad.isNone then bad := some "re-delivery-row-not-of-this-session"
            delivered := delivered.map (fun x => if x.1 == key && x.2.1 == a && x.2.2.1 == b then (key, a, b, idl) else x)
          | none =>
            delivered := delivered ++ [(key, a, b, idl)]
            emits := emits ++ [SessSpec.Ev.emit false key a b idl]
        | ["sentinel-lost"] => if bad.isNone then bad := some "sentinel-session-never-delivered"
        | ["await-timeout"] => if bad.isNone then bad := some "awaited-session-never-delivered"
        | _ => if bad.isNone then bad := some "unreadable-result-line"
    | _ => pure ()
  if bad.isNone then
    match mustShow.find? (fun i => !(delivered.any fun d => d.2.2.2.contains i)) with
    | some _ => bad := some "late-row-inside-allowance-not-redelivered"
    | none => pure ()
  let scfg : SessSpec.Cfg := { timeout := timeout, ooo := 0, lateness := 0, now := 1700000000000000000 }
  let spec := match bad with
    | some b => "fail:" ++ b
    | none => match SessSpec.holds scfg (evs ++ emits) true with
      | none => (match refClause timeout mops emits with | none => "ok" | some e => "fail:" ++ e)
      | some e => "fail:" ++ e
  return { obs := c.ops.map (fun p => p.2), spec := spec, tags := ["sql-level-oracle-only"] }

def runSegment (c : Case) : CaseOut := Id.run do
  let timeout := cfgInt c "timeout" 1000
  let ooo := cfgInt c "ooo" 0
  let late := cfgInt c "late" 0
  let now := cfgInt c "now" 0
  let mut w := init timeout ooo late
  let mut obs : List (List (List String)) := []
  let mut evs : List SessSpec.Ev := []
  let mut tags : List String := []
  let mut flushed := false
  let mut cls := "none"
  let mut mops : List Session.Op := []
  let mut idleTicks : Nat := 0
  let tsadd := cfgInt c "tsadd" 0
  for (op, implObs) in c.ops do
    match op with
    | "add" :: id :: ts :: rest =>
      let id := (parseNat id).getD 0
      let ts := if ts == "none" then none else (parseInt ts).map (· + tsadd)
      let key := match rest with | kh :: _ => (unhex kh).getD [] | [] => []
      match ts with
      | some t =>
        let wm' := Wm.updateEventTime w.wm t now
        let tg := if Wm.isLate wm' t then (if (findTrig w key t wm'.cur).isSome && late > 0 then "late-absorbed" else "late-drop")
                  else match touched w key { id := id, ts := t } with
                    | [] => (if w.sessions.any (fun s => s.key == key) then "new-session-beside-open-ones" else "new-session")
                    | [h] => (if t < h.start then "extends-session-backwards" else "extends-session")
                    | _ => "bridges-and-merges-sessions"
        unless tags.contains tg do tags := tg :: tags
      | none => unless tags.contains "no-timestamp" do tags := "no-timestamp" :: tags
      let (w', es) := addRow w key id ts now
      w := w'
      obs := obs ++ [es.map emLine]
      evs := evs ++ [SessSpec.Ev.arr key id ts] ++ evsOfObs implObs []
      mops := mops ++ [match ts with | some t => Session.Op.add key { id := id, ts := t } now | none => Session.Op.addNoTs]
      flushed := false
    | "deliver" :: gs =>
      let gaps := gs.filterMap parseGap
      match deliver w gaps now with
      | none => obs := obs ++ [[["idle"]]]
      | some (w', es) =>
        -- the Adds of the unlock gap that really ran, in the order they ran (after the expiry pass)
        let n := (match Wm.pop w.wm with | some (x, wm') => (stepExpire { w with wm := wm' } x).2.length | none => 0)
        let ran := (List.range n).flatMap (fun k => gaps.filter (·.k == k))
        mops := mops ++ ran.map (fun g => match g.ts with | some t => Session.Op.add g.key { id := g.id, ts := t } now | none => Session.Op.addNoTs)
        w := w'
        obs := obs ++ [es.map emLine]
      evs := evs ++ evsOfObs implObs gaps
    | ["drain"] =>
      let (w', es) := drain w now []
      w := w'
      obs := obs ++ [es.map emLine]
      evs := evs ++ evsOfObs implObs []
      flushed := true
    | ["tick"] =>
      w := { w with wm := Wm.tick w.wm false now }
      obs := obs ++ [[]]
    | ["sleep"] => obs := obs ++ [[]]
    | ["itick"] =>
      -- a ticker update that finds the source idle (hook): the wall clock strictly increases from one idle tick to the next
      w := { w with wm := Wm.tick w.wm true (now + Int.ofNat idleTicks) }
      evs := evs ++ [SessSpec.Ev.idle (now + Int.ofNat idleTicks)]
      mops := mops ++ [Session.Op.tick true (now + Int.ofNat idleTicks)]
      idleTicks := idleTicks + 1
      unless tags.contains "idle-tick-advances-watermark" do tags := "idle-tick-advances-watermark" :: tags
      obs := obs ++ [[]]
    | ["ntick"] =>
      -- natural ticker update: the harness measured whether IDLETIMEOUT had elapsed since the last Add (see Driver/Win.lean)
      let flag := match implObs with | ["tickflag", f] :: _ => f | _ => "b"
      if flag == "i" || flag == "ai" then
        w := { w with wm := Wm.tick w.wm true (now + Int.ofNat idleTicks) }
        evs := evs ++ [SessSpec.Ev.idle (now + Int.ofNat idleTicks)]
        mops := mops ++ [Session.Op.tick true (now + Int.ofNat idleTicks)]
        idleTicks := idleTicks + 1
        unless tags.contains "idle-tick-advances-watermark" do tags := "idle-tick-advances-watermark" :: tags
      else
        w := { w with wm := Wm.tick w.wm false now }
      obs := obs ++ [[["tickflag", flag]]]
    | ["trigger"] =>
      -- manual flush: every open session as it stands; the oracle waives the watermark clause for these deliveries
      let (w', es) := flushAll w
      w := w'
      obs := obs ++ [es.map emLine]
      evs := evs ++ (evsOfObs implObs []).map (fun e => match e with
        | .emit false k a b ids => SessSpec.Ev.forced k a b ids
        | e => e)
      mops := mops ++ [Session.Op.tick true 0]   -- not an in-order history in the sense of the reference clause
      unless tags.contains "manual-trigger" do tags := "manual-trigger" :: tags
    | _ => obs := obs ++ [[["bad-op"]]]
  let scfg : SessSpec.Cfg := { timeout := timeout, ooo := ooo, lateness := late, now := now }
  let spec := match SessSpec.holds scfg evs flushed with
    | none => (if ooo ≥ 0 then (match refClause timeout mops evs with | none => "ok" | some e => "fail:" ++ e) else "ok")
    | some e => "fail:" ++ e
  if inOrderB (-1000000000000000000000000000000) mops && ooo ≥ 0 then tags := "in-order-history-vs-reference" :: tags
  return { obs := obs, spec := spec, tags := tags, cls := cls }

def run (c : Case) : CaseOut := Proto.withResets runSegment c

end DrvSess
