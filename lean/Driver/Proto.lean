/-
Line protocol shared by every per-property driver (DESIGN.md Appendix A).
Core Lean only.  Nothing in here is part of a theorem: it is IO glue of the
correspondence check (trusted base: "line protocol and diff").
-/
set_option autoImplicit false

namespace Proto

abbrev Str := List Char

/-- split a list of characters on single spaces, dropping empty tokens -/
def splitWs : List Char → List (List Char)
  | cs =>
    let rec go : List Char → List Char → List (List Char) → List (List Char)
      | [], cur, acc => (if cur.isEmpty then acc else cur.reverse :: acc).reverse
      | c :: rest, cur, acc =>
        if c = ' ' || c = '\n' || c = '\r' || c = '\t' then
          go rest [] (if cur.isEmpty then acc else cur.reverse :: acc)
        else go rest (c :: cur) acc
    go cs [] []

def tokens (line : String) : List String := (splitWs line.toList).map String.ofList

def hexVal (c : Char) : Option Nat :=
  if '0' ≤ c ∧ c ≤ '9' then some (c.toNat - '0'.toNat)
  else if 'a' ≤ c ∧ c ≤ 'f' then some (c.toNat - 'a'.toNat + 10)
  else none

/-- hex string → bytes as `Char`s with code < 256; `-` is the empty string -/
def unhexList : List Char → Option Str
  | [] => some []
  | [_] => none
  | a :: b :: rest =>
    match hexVal a, hexVal b, unhexList rest with
    | some x, some y, some r => some (Char.ofNat (x * 16 + y) :: r)
    | _, _, _ => none

def unhex (s : String) : Option Str :=
  if s = "-" then some [] else unhexList s.toList

def hexDigit (n : Nat) : Char :=
  if n < 10 then Char.ofNat ('0'.toNat + n) else Char.ofNat ('a'.toNat + n - 10)

def hex (s : Str) : String :=
  if s.isEmpty then "-" else
  String.ofList (s.flatMap fun c => [hexDigit (c.toNat / 16 % 16), hexDigit (c.toNat % 16)])

def parseInt (s : String) : Option Int := s.toInt?
def parseNat (s : String) : Option Nat := s.toNat?

def boolTok (b : Bool) : String := if b then "t" else "f"

/-- one parsed case of a trace -/
structure Case where
  prop : String
  seed : String
  idx  : String
  cfg  : List (List String)          -- each `cfg` line's tokens (without the keyword)
  ops  : List (List String × List (List String))  -- op tokens, with the harness's obs lines that followed it
  deriving Inhabited

/-- result of running the model on one case -/
structure CaseOut where
  obs   : List (List (List String))   -- per op: the model's obs lines
  spec  : String := "ok"              -- "ok" or "fail:<clause>"  (Spec evaluated on the harness's obs)
  cls   : String := "none"            -- known-finding class of the input
  tags  : List String := []           -- model branches taken (input distribution)

/-- ops split at the `reset` ops -/
def splitAtReset : List (List String × List (List String)) → List (List (List String × List (List String)))
  | [] => [[]]
  | op :: rest =>
    match splitAtReset rest with
    | [] => [[op]]
    | seg :: segs => if op.1 == ["reset"] then [] :: seg :: segs else (op :: seg) :: segs

/-- `reset` (Window.Reset): the window is as new afterwards.  Each stretch between resets is a case of its own for the
model and for the oracle; the observables are concatenated (the reset op itself has none). -/
def withResets (run : Case → CaseOut) (c : Case) : CaseOut :=
  if !(c.ops.any fun op => op.1 == ["reset"]) then run c else
  let outs := (splitAtReset c.ops).map fun seg => run { c with ops := seg }
  let obs := match outs with
    | [] => []
    | o :: os => o.obs ++ os.flatMap fun o' => [] :: o'.obs
  let spec := ((outs.map (·.spec)).find? (· != "ok")).getD "ok"
  let cls := ((outs.map (·.cls)).find? (· != "none")).getD "none"
  { obs := obs, spec := spec, cls := cls, tags := ("window-reset" :: outs.flatMap (·.tags)).eraseDups }

def renderCase (c : Case) (o : CaseOut) : List String :=
  let hdr := s!"case {c.prop} {c.seed} {c.idx}"
  let body := (c.ops.zip o.obs).flatMap fun ((op, _), obs) =>
    (" ".intercalate ("op" :: op)) :: obs.map (fun l => " ".intercalate ("obs" :: l))
  -- if the model produced fewer/more op blocks than the case has, show that too
  let extra := if o.obs.length = c.ops.length then [] else [s!"obs-count-mismatch {o.obs.length} {c.ops.length}"]
  [hdr] ++ body ++ extra ++
    (o.tags.map fun t => s!"tag {t}") ++ [s!"spec {o.spec}", s!"class {o.cls}", "end"]

end Proto
