import Driver.Proto
import Driver.KeysCommon
import SsqlVerif.Model.Join
import SsqlVerif.Model.Counting
import SsqlVerif.Spec.Join
import SsqlVerif.Spec.Counting
set_option autoImplicit false
open Proto GroupKey Join

/-
Driver of C16.  cfg: mode enc|tbl|sql|sqlagg, keys <arity>, jt inner|left, where 0|1, n <N>,
`fmt <bits> <hex>` (Go's FormatFloat for every float64 value occurring — trusted runtime).
Float64 values are bit patterns (`F := Nat`), -0 normalised to 0.
-/
namespace DrvC16
open DrvKeys

def negZeroBits : Nat := 0x8000000000000000

def normBits (b : Nat) : Nat := if b == negZeroBits then 0 else b

def ofIntBits (i : Int) : Nat := normBits (Float.ofInt i).toBits.toNat

def parseComp (tok : String) : Option (KVal Nat) :=
  match tok.splitOn ":" with
  | ["n"] => some .null
  | ["m"] => some .null          -- a missing field reads as nil (`row[f]`)
  | ["z"] => some (.flt 0)
  | ["i", d] => d.toInt?.map .int
  | ["j", d] => d.toInt?.map .int
  | ["u", d] => d.toInt?.map .int
  | ["f", d] => d.toInt?.map .int  -- float32 of a small integer
  | ["s", h] => (unhex h).map .str
  | ["b", "t"] => some (.bool true)
  | ["b", "f"] => some (.bool false)
  | ["x", b, _, _] => b.toNat?.map fun b => .flt (normBits b)
  | _ => none

def parseKey (toks : List String) : Option (List (KVal Nat)) := toks.mapM parseComp

def fmtTable (c : Case) : List (Nat × List Char) :=
  c.cfg.filterMap fun l => match l with
    | ["fmt", b, h] => match b.toNat?, unhex h with
      | some b, some s => some (b, s)
      | _, _ => none
    | _ => none

def mkNf (c : Case) : NumFmt Nat :=
  let tbl := fmtTable c
  ⟨ofIntBits, fun b => match tbl.find? (fun e => e.1 == b) with
    | some e => e.2
    | none => "?".toList ++ (toString b).toList⟩

abbrev Tbl := Index (List Char) Int

def pidStr : Option Int → String
  | some p => toString p
  | none => "n"

/-- WHERE m.grp = 1 on the enriched row: grp = pid % 2, NULL without match -/
def passesWhere (wh : Bool) (o : Enriched Int) : Bool :=
  !wh || match o with
    | .kept (some pid) => pid % 2 == 1
    | _ => false

def outLine (id : String) (wh : Bool) (o : Enriched Int) : List String :=
  match o with
  | .dropped => ["drop"]
  | .kept r => if passesWhere wh o then ["out", id, pidStr r] else ["drop"]

def grpOf (o : Enriched Int) : Option (List Val) :=
  match o with
  | .dropped => none
  | .kept (some pid) => some [.int (pid % 2)]
  | .kept none => some [.null]

/-- model of `… GROUP BY m.grp, CountingWindow(N)` as the code is: `m.grp` is a qualified column, the
counting window finds no top-level entry of that name and keys every row with the NULL part (one shared
count buffer, see C09 `windowKey_determines_group_fails`); every batch of N rows then goes through the
aggregator, which resolves the path and groups by the joined value -/
def aggLines (n : Nat) (rows : List (List Val × Int)) : List (List String) :=
  let ems := Counting.run n [] (rows.map fun r => Counting.Op.row (encCounting [Val.null]) r)
  sortLines ((ems.flatMap fun e => aggResults e.2).map resultLine)

/-- the C16 claim on grouped results ("GROUP BY may reference joined columns"): every result row
aggregates only rows whose joined group value is the reported one, no row twice, count = members -/
def aggSpec (rows : List (List Val × Int)) (res : List (List Val × Nat × List Int)) : String :=
  let nrows := normRows rows
  let ids := res.flatMap fun r => r.2.2
  if !(ids.eraseDups.length == ids.length) then "fail:row-in-two-results"
  else if !(res.all fun r => r.2.1 == r.2.2.length && !r.2.2.isEmpty) then "fail:count-differs-from-members"
  else if !(res.all fun r => r.2.2.all fun i => nrows.any fun x => x.2 == i && x.1 == r.1) then
    "fail:row-grouped-under-a-foreign-joined-value"
  else "ok"

def run (c : Case) : CaseOut := Id.run do
  let mode := cfgGet c "mode" "enc"
  let jt : JoinType := if cfgGet c "jt" "inner" == "left" then .left else .inner
  let wh := cfgGet c "where" "0" == "1"
  let n := (cfgGet c "n" "1").toNat?.getD 1
  let nf := mkNf c
  let mut obs : List (List (List String)) := []
  let mut spec := "ok"
  let mut tags : List String := [s!"mode-{mode}"]
  let mut tbl : Tbl := []
  let mut amap : JoinSpec.AMap (List (KVal Nat)) Int := JoinSpec.empty
  let mut encs : List (List (KVal Nat) × List String) := []
  let mut upserts : List (Int × List (KVal Nat)) := []
  let mut aggRowsM : List (List Val × Int) := []
  let mut aggRowsS : List (List Val × Int) := []
  let tag := fun (t : String) (ts : List String) => if ts.contains t then ts else t :: ts
  for (op, implObs) in c.ops do
    match op with
    | "enc" :: vs | "enc1" :: vs =>
      match parseKey vs with
      | none => obs := obs ++ [[["bad-op"]]]
      | some k =>
        obs := obs ++ [[["k", hex (encodeKey nf k)]]]
        encs := encs ++ [(k, implObs.headD [])]
    | "init" :: pid :: vs | "ups" :: pid :: vs =>
      match parseKey vs, pid.toInt? with
      | some k, some p =>
        if (JoinSpec.step (JoinSpec.keyEq nf) amap (.emit k) k).isSome then tags := tag "upsert-replaces" tags
        upserts := (p, k) :: upserts
        tbl := upsert tbl (encodeKey nf k) p
        amap := JoinSpec.step (JoinSpec.keyEq nf) amap (.upsert k p)
        obs := obs ++ [[]]
      | _, _ => obs := obs ++ [[["bad-op"]]]
    | "badups" :: _ => obs := obs ++ [[["rejected"]]]   -- a write to a table that is not registered: an error, no effect
    | "del" :: vs | "del1" :: vs =>
      match parseKey vs with
      | some k =>
        if (amap k).isSome then tags := tag "delete-hits" tags
        tbl := erase tbl (encodeKey nf k)
        amap := JoinSpec.step (JoinSpec.keyEq nf) amap (.delete k)
        obs := obs ++ [[]]
      | none => obs := obs ++ [[["bad-op"]]]
    | "get" :: vs | "get1" :: vs =>
      match parseKey vs with
      | some k =>
        let line := fun (r : Option Int) => match r with | some p => ["hit", toString p] | none => ["miss"]
        obs := obs ++ [[line (lookup tbl (encodeKey nf k))]]
        tags := tag (if (amap k).isSome then "lookup-hit" else "lookup-miss") tags
        if (amap k).any fun p => upserts.any fun u => u.1 == p && u.2 != k then tags := tag "hit-across-numeric-types" tags
        if implObs != [line (amap k)] && spec == "ok" then spec := "fail:lookup-differs-from-map-by-key-equality"
      | none => obs := obs ++ [[["bad-op"]]]
    | "emit" :: id :: vs =>
      match parseKey vs, id.toInt? with
      | some k, some i =>
        let m := enrich jt (lookup tbl (encodeKey nf k))
        let s := JoinSpec.expected jt (amap k)
        tags := tag (match s with | .dropped => "inner-drop" | .kept none => "left-null" | .kept (some _) => "match") tags
        if (amap k).any fun p => upserts.any fun u => u.1 == p && u.2 != k then tags := tag "hit-across-numeric-types" tags
        if mode == "sqlagg" then
          obs := obs ++ [[]]
          match grpOf m with
          | some g => aggRowsM := aggRowsM ++ [(g, i)]
          | none => pure ()
          match grpOf s with
          | some g => aggRowsS := aggRowsS ++ [(g, i)]
          | none => pure ()
        else
          obs := obs ++ [[outLine id wh m]]
          if implObs != [outLine id wh s] && spec == "ok" then
            spec := "fail:row-not-enriched-from-the-table-state-at-processing-time"
      | _, _ => obs := obs ++ [[["bad-op"]]]
    | ["conc", k] =>
      -- free-running search: reads concurrent with upserts 1…k of one key are monotone, the read after the
      -- updater returned sees k (sequential consistency of the op list, whatever the interleaving)
      let want := [["mono", "t"], ["final", k]]
      obs := obs ++ [want]
      if implObs != want && spec == "ok" then spec := "fail:concurrent-reads-not-monotone-or-final-write-unseen"
    | ["flush"] =>
      obs := obs ++ [aggLines n aggRowsM]
      match implObs.mapM parseResult with
      | none => if spec == "ok" then spec := "fail:unreadable-result"
      | some ires =>
        let v := aggSpec aggRowsS ires
        if v != "ok" && spec == "ok" then spec := v
    | _ => obs := obs ++ [[["bad-op"]]]
  -- encoder oracle on the implementation's keys
  for (k, o) in encs do
    for (k', o') in encs do
      if k.length == k'.length then
        let same := JoinSpec.keyEq nf k k'
        if same && o != o' && spec == "ok" then spec := "fail:equal-keys-encoded-differently"
        if !same && o == o' && spec == "ok" then spec := "fail:distinct-keys-share-an-encoding"
        if same && k != k' then tags := tag "numeric-normalisation-pair" tags
  if jt == .left && mode != "enc" && mode != "tbl" then tags := tag "left-join" tags
  if wh then tags := tag "where-on-joined-column" tags
  return { obs := obs, spec := spec, tags := tags }

end DrvC16
