import Driver.Proto
import SsqlVerif.Model.Expr
import SsqlVerif.Model.ExprFn
import SsqlVerif.Model.ExprShape
import SsqlVerif.Spec.Expr
set_option autoImplicit false
open Proto

/-
C06 driver.  One case = one expression (cfg `expr` = prefix encoding of the AST, `text` = the SQL text
the harness printed, `etext` = the expression text the engine compiled, `where` = the lowered WHERE
text) and a list of ops:
  row <a> <b> <s> <t> <f> <n>     cells: m missing | n NULL | i:<int> | f:<bits> | s:<hex> | b:t | b:f
      obs  h <cell|e>   hand-written evaluator called directly
           x <cell|e>   bridge called directly
           r <cell>     engine, SELECT position          w <t|f|rej|->   engine, WHERE position
  fn <name> <cell>*               obs  v <cell> | err | panic <hex>
The model prints its own h/x/r/w; where it has no prediction it echoes the implementation's line and
tags the case (`echo-*`), so those lines are covered by the oracle only.
-/
namespace DrvC06
open Ex

instance floatOps : NumOps Float where
  add := (· + ·)
  sub := (· - ·)
  mul := (· * ·)
  div := (· / ·)
  ofNat := Float.ofNat
  isZero := fun x => x == 0.0
  isNaN := Float.isNaN
  eq := fun a b => a == b
  lt := fun a b => a < b
  le := fun a b => a ≤ b

/-! ### transport -/

def hexDigits (n : Nat) : Nat → List Char → List Char
  | 0, acc => acc
  | k+1, acc => hexDigits (n / 16) k (hexDigit (n % 16) :: acc)

def bitsHex (x : Float) : String :=
  if x.isNaN then "7ff8000000000001" else
  let x := if x == 0.0 then 0.0 else x
  String.ofList (hexDigits x.toBits.toNat 16 [])

def parseHexNat (s : List Char) : Option Nat :=
  s.foldl (fun acc c => match acc, hexVal c with
    | some a, some d => some (a * 16 + d)
    | _, _ => none) (some 0)

/-- a cell of a row; `none` = missing column -/
def parseCell (tok : String) : Option (Option (Value Float)) :=
  if tok = "m" then some none
  else if tok = "n" then some (some .null)
  else if tok = "b:t" then some (some (.bool true))
  else if tok = "b:f" then some (some (.bool false))
  else
    let cs := tok.toList
    match cs with
    | 'i' :: ':' :: rest => (String.ofList rest).toInt?.map fun i => some (.num (Float.ofInt i))
    | 'f' :: ':' :: rest => (parseHexNat rest).map fun n => some (.num (Float.ofBits n.toUInt64))
    | 's' :: ':' :: rest => (unhex (String.ofList rest)).map fun s => some (.str s)
    | _ => none

def cellOf : Value Float → String
  | .null => "n"
  | .num x => "f:" ++ bitsHex x
  | .str s => "s:" ++ hex s
  | .bool b => if b then "b:t" else "b:f"

/-! ### the environment at `Float` -/

def isDigitC (c : Char) : Bool := '0' ≤ c && c ≤ '9'

/-- decimal subset of `strconv.ParseFloat`: `[+-]digits[.digits]` (what the generator's strings can be) -/
def parseNumF (s : List Char) : Option Float :=
  let (neg, body) := match s with
    | '-' :: r => (true, r)
    | '+' :: r => (false, r)
    | r => (false, r)
  let ip := body.takeWhile isDigitC
  let rest := body.dropWhile isDigitC
  let (fp, ok) := match rest with
    | [] => (([] : List Char), true)
    | '.' :: r => (r, r.all isDigitC)
    | _ => ([], false)
  if !ok || (ip.isEmpty && fp.isEmpty) then none
  else
    let m := (ip ++ fp).foldl (fun a c => a * 10 + (c.toNat - '0'.toNat)) 0
    let v := Float.ofScientific m true fp.length
    some (if neg then -v else v)

def parseBoolF (s : List Char) : Option Bool :=
  let t := String.ofList s
  if ["1", "t", "T", "TRUE", "true", "True"].contains t then some true
  else if ["0", "f", "F", "FALSE", "false", "False"].contains t then some false
  else none

/-- `strconv.FormatFloat(x,'f',-1,64)` / `Itoa` for integers and quarters (what the generator produces) -/
def fmtNumF (x : Float) : List Char :=
  let neg := x < 0.0
  let a := x.abs
  let ip := a.floor
  let fr := ((a - ip) * 100.0).round.toUInt64.toNat
  let body := natStr ip.toUInt64.toNat ++
    (if fr = 0 then [] else if fr % 10 = 0 then '.' :: natStr (fr / 10) else '.' :: (if fr < 10 then '0' :: natStr fr else natStr fr))
  if neg then '-' :: body else body

def envF : Env Float :=
  { parseNum := parseNumF, parseBool := parseBoolF, fmtNum := fmtNumF,
    fn := builtin parseNumF fmtNumF }

/-! ### AST decoding (prefix tokens) -/

def aopOf : String → Option AOp
  | "add" => some .add | "sub" => some .sub | "mul" => some .mul | "div" => some .div | _ => none

def copOf : String → Option COp
  | "eq" => some .eq | "ne" => some .ne | "lt" => some .lt | "le" => some .le | "gt" => some .gt | "ge" => some .ge
  | _ => none

def parseExpr : Nat → List String → Option (Expr × List String)
  | 0, _ => none
  | fuel+1, toks =>
    match toks with
    | "L" :: w :: q :: rest => do
      let w ← w.toNat?; let q ← q.toNat?
      some (.lit ⟨w, q⟩, rest)
    | "S" :: s :: rest => do let s ← unhex s; some (.str s, rest)
    | "C" :: c :: rest => do let c ← unhex c; some (.col c, rest)
    | "P" :: rest => do let (e, r) ← parseExpr fuel rest; some (.paren e, r)
    | "N" :: rest => do let (e, r) ← parseExpr fuel rest; some (.neg e, r)
    | "A" :: op :: rest => do
      let op ← aopOf op
      let (l, r1) ← parseExpr fuel rest; let (r, r2) ← parseExpr fuel r1
      some (.arith op l r, r2)
    | "M" :: op :: rest => do
      let op ← copOf op
      let (l, r1) ← parseExpr fuel rest; let (r, r2) ← parseExpr fuel r1
      some (.cmp op l r, r2)
    | "AND" :: rest => do
      let (l, r1) ← parseExpr fuel rest; let (r, r2) ← parseExpr fuel r1
      some (.and l r, r2)
    | "OR" :: rest => do
      let (l, r1) ← parseExpr fuel rest; let (r, r2) ← parseExpr fuel r1
      some (.or l r, r2)
    | "NOT" :: rest => do let (e, r) ← parseExpr fuel rest; some (.not e, r)
    | "CS" :: rest => do let (ch, r) ← parseExpr fuel rest; some (.caseS ch, r)
    | "CV" :: rest => do
      let (sc, r1) ← parseExpr fuel rest; let (ch, r2) ← parseExpr fuel r1
      some (.caseV sc ch, r2)
    | "W" :: rest => do
      let (c, r1) ← parseExpr fuel rest; let (r, r2) ← parseExpr fuel r1; let (k, r3) ← parseExpr fuel r2
      some (.whenL c r k, r3)
    | "E" :: rest => do let (e, r) ← parseExpr fuel rest; some (.elseL e, r)
    | "X" :: rest => some (.endL, rest)
    | "F1" :: f :: rest => do
      let f ← unhex f; let (a, r1) ← parseExpr fuel rest
      some (.call1 f a, r1)
    | "F2" :: f :: rest => do
      let f ← unhex f; let (a, r1) ← parseExpr fuel rest; let (b, r2) ← parseExpr fuel r1
      some (.call2 f a b, r2)
    | "F3" :: f :: rest => do
      let f ← unhex f; let (a, r1) ← parseExpr fuel rest; let (b, r2) ← parseExpr fuel r1
      let (c, r3) ← parseExpr fuel r2
      some (.call3 f a b c, r3)
    | _ => none

def colNames : List (List Char) := [['a'], ['b'], ['s'], ['t'], ['f'], ['n']]

def mkRow (cells : List (Option (Value Float))) : Row Float :=
  (colNames.zip cells).filterMap fun (k, c) => c.map fun v => (k, v)

/-! ### one row -/

def resCell : Res Float → String
  | .err => "e"
  | .val v n => if n then "n" else cellOf v

/-- an implementation line `k <cell|e>` read back as the router's input -/
def implOpt (lines : List (List String)) (k : String) : Option (Option (Value Float)) :=
  match lines.find? (fun l => l.head? = some k) with
  | some [_, "e"] => some none
  | some [_, c] => (parseCell c).map fun v => some (v.getD .null)
  | _ => none

def implLine (lines : List (List String)) (k : String) : List String :=
  (lines.find? (fun l => l.head? = some k)).getD [k, "?"]

structure RowOut where
  obs : List (List String)
  fails : List (String × String)     -- (clause, explaining class or "none")
  tags : List String

def routeTag : Option TextFlags → String
  | none => "route-none"
  | some fl =>
    match routeOf fl with
    | .bridgeThenHand => "route-bridge-then-hand"
    | .handOnly => "route-hand-only"
    | .handThenBridge => "route-hand-then-bridge"

/-- `Ex.sameObs` on transported cells: equal, or both not-true (NULL / FALSE) -/
def sameCell (a b : String) : Bool := a == b || ((a == "n" || a == "b:f") && (b == "n" || b == "b:f"))

def kwName (c : Ex.Str) : Ex.Str :=
  if c == ['a'] then "order_id".toList else if c == ['b'] then "is_b".toList else if c == ['s'] then "origin".toList
  else if c == ['t'] then "island".toList else if c == ['f'] then "is_ok".toList else if c == ['n'] then "notes".toList else c

/-- known-finding class `fixed-arity-call-missing-column`: the SELECT item is a call of a function with exactly two
arguments whose argument is a column the row does not carry; the engine hands the function the TEXT of the column's name
(`if_null(a, 5)` on `{}` is `"a"`).  The names such a call would leak, in both spellings of the harness. -/
def leakedNames (row : Row Float) : Expr → List String
  | .paren e => leakedNames row e
  | .call2 f a b =>
    if f == "if_null".toList || f == "null_if".toList then
      ([a, b].filterMap fun x => match x with
        | .col c => if (lookup c row).isNone then some c else none
        | _ => none).flatMap fun c => ["s:" ++ hex c, "s:" ++ hex (kwName c)]
    else []
  | _ => []

def stepRow (e : Expr) (flags : Option TextFlags) (isBool : Bool) (cells : List (Option (Value Float)))
    (impl : List (List String)) : RowOut :=
  let row := mkRow cells
  let sv := sqlValue envF row e
  let parses := handParses e
  let nonnull := allNonNull envF row e
  -- h
  let hM := handEval envF row e
  let hLine := if parses then ["h", resCell hM] else implLine impl "h"
  let hOpt : Option (Value Float) := if parses then resOpt hM else (implOpt impl "h").getD none
  -- x
  let xM := xl envF row true e
  let svOk := match sv with | .ok _ => true | .bad _ => false
  let xModelled := svOk && xM.isSome
  let xLine := if xModelled then ["x", cellOf (xM.getD .null)] else implLine impl "x"
  let xOpt : Option (Value Float) := if xModelled then xM else (implOpt impl "x").getD none
  -- k: sibling expressions a + b, a - b, a * b, b - a through the same caches
  let sibs : List Expr := [.arith .add (.col ['a']) (.col ['b']), .arith .sub (.col ['a']) (.col ['b']),
    .arith .mul (.col ['a']) (.col ['b']), .arith .sub (.col ['b']) (.col ['a'])]
  let kImpl := (implLine impl "k").drop 1
  let numeric : Option (Value Float) → Bool := fun o => match o with | some (.num _) => true | _ => false
  let bothNum := numeric (lookup ['a'] row) && numeric (lookup ['b'] row)
  let kLine := "k" :: (sibs.zip (kImpl ++ List.replicate 4 "?")).map fun (se, tok) =>
    if bothNum then (match xl envF row true se with | some v => cellOf v | none => tok) else tok
  let kFail : List (String × String) :=
    if bothNum && (sibs.zip kImpl).any (fun (se, tok) =>
        match sqlValue envF row se with | .ok v => !(sameCell (cellOf v) tok) | .bad _ => false)
    then [("sibling-value", "none")] else []
  -- r
  let rLine := match flags with
    | some fl => if parses then ["r", cellOf (engineSelect (routeOf fl) hOpt xOpt)] else implLine impl "r"
    | none => implLine impl "r"
  -- w
  let wLine := if !isBool then ["w", "-"]
    else if !noCase e then ["w", "rej"]
    else ["w", boolTok (whereEval envF row e)]
  -- oracle on the implementation's lines
  let rImpl := implLine impl "r"
  let wImpl := implLine impl "w"
  let bridgeFirst := match flags with | some fl => routeOf fl == .bridgeThenHand | none => false
  let rFail : List (String × String) := match sv, rImpl with
    | .ok v, [_, c] =>
      -- `sameObs` on canonical cells (zero sign and NaN payload are not observed)
      -- a deviation is explained by a recorded class only if the model reproduces it
      if sameCell (cellOf v) c then [] else
        [("select-value", if (leakedNames row e).contains c then "fixed-arity-call-missing-column"
          else if !parses then "not-operator"
          else if !shapeOK e .e && rLine == rImpl then "condition-as-operand"
          else if bridgeFirst && !nonnull && rLine == rImpl then "null-operand-exprlang" else "none")]
    | .ok _, _ => [("select-value", "none")]
    | .bad _, _ => []
  let wFail : List (String × String) := if !isBool then [] else
    match sqlKeeps envF row e, wImpl with
    | some b, [_, c] => if c = boolTok b then [] else
        [("where-keeps", if !noCase e then "case-in-where"
          else if !nonnull && wLine == wImpl then "null-operand-exprlang" else "none")]
    | _, _ => []
  let tags :=
    [if svOk then (if nonnull then "row-nonnull" else "row-null-touched") else "row-outside-fragment"] ++
    (if parses then [] else ["echo-not-operator"]) ++
    (if xModelled then ["x-table"] else ["x-echo"]) ++
    [routeTag flags]
  { obs := [hLine, xLine, kLine, rLine, wLine], fails := rFail ++ wFail ++ kFail, tags := tags }

/-! ### a direct function call -/

def stepFn (f : String) (args : List String) (impl : List (List String)) : RowOut :=
  let fname := f.toList
  let cells := args.map parseCell
  -- numbers the driver's `fmtNumF` renders like Go: finite multiples of 1/4 below 1e15
  let nice : Value Float → Bool := fun v => match v with
    | .num x => x.isFinite && x.abs < 1.0e15 && (x * 4.0).floor == x * 4.0
    | .str s => s.all fun c => c.toNat < 128      -- `upperC`/`lowerC` are ASCII
    | _ => true
  let okArgs := cells.all fun c => match c with | some (some v) => nice v | _ => false
  let vals : List (Value Float) := cells.filterMap fun c => match c with | some (some v) => some v | _ => none
  let panicked := impl.any fun l => l.head? = some "panic"
  let line :=
    if okArgs && modelled fname then
      match builtin parseNumF fmtNumF fname vals with
      | some v => [["v", cellOf v]]
      | none => [["err"]]
    else impl
  { obs := line,
    fails := (if panicked then [("fn-panic", "none")] else []) ++
      -- for the transliterated functions the table is the documented value
      (if okArgs && modelled fname && line != impl then [("fn-value", "none")] else []),
    tags := [if okArgs && modelled fname then "fn-table" else "fn-echo"] }

def cfgOf (c : Case) (k : String) : Option (List String) :=
  (c.cfg.find? fun l => l.head? = some k).map List.tail

/-- the harness's long spellings of the six columns -/
def renameCols : Expr → Expr
  | .lit l => .lit l
  | .str s => .str s
  | .col c => .col (kwName c)
  | .paren e => .paren (renameCols e)
  | .neg e => .neg (renameCols e)
  | .arith op l r => .arith op (renameCols l) (renameCols r)
  | .cmp op l r => .cmp op (renameCols l) (renameCols r)
  | .and l r => .and (renameCols l) (renameCols r)
  | .or l r => .or (renameCols l) (renameCols r)
  | .not e => .not (renameCols e)
  | .caseS ch => .caseS (renameCols ch)
  | .caseV sc ch => .caseV (renameCols sc) (renameCols ch)
  | .whenL c r rest => .whenL (renameCols c) (renameCols r) (renameCols rest)
  | .elseL e => .elseL (renameCols e)
  | .endL => .endL
  | .call1 f a => .call1 f (renameCols a)
  | .call2 f a b => .call2 f (renameCols a) (renameCols b)
  | .call3 f a b c => .call3 f (renameCols a) (renameCols b) (renameCols c)

def run (c : Case) : CaseOut := Id.run do
  let eOpt := (cfgOf c "expr").bind fun toks => (parseExpr 4000 toks).map (·.1)
  let text := ((cfgOf c "text").bind fun l => l.head?.bind unhex).getD []
  let isBool := (cfgOf c "bool") == some ["t"]
  -- the expression text the engine compiled is an observable of the `compile` op
  let etext : Option (List Char) := (c.ops.find? fun p => p.1 == ["compile"]).bind fun p =>
    (p.2.find? fun l => l.head? = some "etext").bind fun l =>
      match l with
      | [_, t] => if t = "none" then none else unhex t
      | _ => none
  let mut obs : List (List (List String)) := []
  let mut fails : List (String × String) := []
  let mut tags : List String := []
  let mut seen : List (List String × List (List String)) := []
  -- cfg `names kw`: the harness spells the columns a b s t f n as order_id is_b origin island is_ok notes, in the SQL text
  -- and in the rows (identifiers that begin like the word operators OR / IS / NOT); the model keeps the short names
  let kw := cfgOf c "names" == some ["kw"]
  let renderOk := match eOpt with
    | some e => (cfgOf c "text").isNone || render (if kw then renameCols e else e) == text
    | none => true
  if !renderOk then fails := fails ++ [("render-differs", "none")]
  for (op, impl) in c.ops do
    -- history-independence: the same op inside one case must have the same observables
    match seen.find? (fun p => p.1 == op) with
    | some (_, prev) => if prev != impl then fails := fails ++ [("history-dependent", "none")]
    | none => seen := (op, impl) :: seen
    match op, eOpt with
    | ["compile"], some e =>
      let wl := if !isBool then "-" else if noCase e then "ok" else "rej"
      obs := obs ++ [[implLine impl "etext", implLine impl "sel", ["where", wl]]]
      if isBool && !noCase e && implLine impl "where" == ["where", "rej"] then
        fails := fails ++ [("where-rejected-at-compile", "case-in-where")]
      if isBool && noCase e && implLine impl "where" != ["where", "ok"] then
        fails := fails ++ [("where-rejected-at-compile", "none")]
      if implLine impl "sel" != ["sel", "t"] then
        fails := fails ++ [("select-rejected-at-compile", "none")]
    | "row" :: cellToks, some e =>
      match cellToks.mapM parseCell with
      | some cells =>
        let o := stepRow e (etext.map textFlags) isBool cells impl
        obs := obs ++ [o.obs]
        fails := fails ++ o.fails
        for t in o.tags do unless tags.contains t do tags := t :: tags
      | none => obs := obs ++ [[["bad-cell"]]]
    | "fn" :: f :: args, _ =>
      let o := stepFn f args impl
      obs := obs ++ [o.obs]
      fails := fails ++ o.fails
      for t in o.tags do unless tags.contains t do tags := t :: tags
    | _, _ => obs := obs ++ [[["bad-op"]]]
  match eOpt with
  | some e =>
    tags := (if shapeOK e .e then "shape-ok" else "shape-ill-sorted") :: tags
    tags := (if handParses e then "hand-parses" else "has-not") :: tags
    tags := (if noCase e then "no-case" else "has-case") :: tags
  | none => pure ()
  -- verdict: an unexplained failure first; otherwise the first explained one with its class
  let unexplained := fails.find? fun f => f.2 == "none"
  let (spec, cls) := match unexplained, fails.head? with
    | some f, _ => ("fail:" ++ f.1, "none")
    | none, some f => ("fail:" ++ f.1, f.2)
    | none, none => ("ok", "none")
  return { obs := obs, spec := spec, cls := cls, tags := tags }

end DrvC06
