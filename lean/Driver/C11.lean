import Driver.Proto
import SsqlVerif.Model.Lexer
import SsqlVerif.Spec.Lexer
import SsqlVerif.Spec.ParserTV
set_option autoImplicit false
open Proto

/-!
C11 driver.
* `lex <input>` / `lexr <input> <trail> (<src> <pre> <mask>)*` — the lexer model (`Lexer.nextToken`,
  iterated; cross-checked against `Lexer.lexAll`) prints one `t <type> <value> <pos>` line per token
  and one `e <errtype> <pos>` line per recorded lexical error; the oracle on the implementation's lines
  is `LexSpec.isTokenization` and, for `lexr`, `LexSpec.expected` (layout insensitivity).
* `parse <layout> <sql>` — no model of the parser exists: the expected clause lines come from the
  reference grammar (`cfg exp …`), the unpredicted lines are echoed; the oracle is `ParserTV.check`.
* `total <input>` — parser totality search: the only acceptable observation is `done`.
-/
namespace DrvC11
open Lexer LexSpec

def toBytes (s : Str) : List Byte := s.map Char.toNat
def ofBytes (b : List Byte) : Str := b.map Char.ofNat
def hexB (b : List Byte) : String := hex (ofBytes b)

/-- `t <type> <value> <pos> <line> <column> <readPreviousIdentifier() after the token>` -/
def tokLine (input : List Byte) (t : Token) (pos : Nat) : List String :=
  ["t", toString t.kind.code, hexB t.val, toString pos, toString (lineAt input pos), toString (colAt input pos),
   hexB (prevIdent input (pos + t.val.length))]
def errLine (e : LexErr × Nat) : List String := ["e", toString e.1.code, toString e.2]

/-- the `NextToken` loop with absolute positions (IO glue: fuel = input length + 1 is never exhausted,
see `C11.lex_progress`; exhaustion would print `fuel-exhausted`) -/
def lexLines (input : List Byte) : Nat → List Byte → Nat → List (List String)
  | 0, _, _ => [["fuel-exhausted"]]
  | fuel + 1, s, pos =>
    let r := nextToken s
    let errs := (nextErrs s pos).map errLine
    let line := tokLine input r.1 (pos + tokenStart s)
    if r.1.kind = .eof then errs ++ [line]
    else errs ++ line :: lexLines input fuel (s.drop r.2) (pos + r.2)

/-- the tokens of the same loop, to cross-check the printed lines against `Lexer.lexAll` (the function the theorems are about) -/
def loopToks : Nat → List Byte → List Token
  | 0, _ => []
  | fuel + 1, s =>
    let r := nextToken s
    if r.1.kind = .eof then [eofTok] else r.1 :: loopToks fuel (s.drop r.2)

def kindTag : Kind → String
  | .eof => "eof" | .ident => "ident" | .number => "number" | .string => "string" | .qident => "qident"
  | .kw _ => "keyword" | .minus => "minus" | .eq => "eq" | .ne => "ne" | .dot => "dot"
  | _ => "punct"

/-- tokens (with positions) read back from obs lines `t <code> <hex> <pos>`; `none` = malformed -/
def readToks (codeKind : Int → Option Kind) : List (List String) → Option (List (Token × Nat))
  | [] => some []
  | ("t" :: c :: v :: p :: _) :: rest => do
    let c ← parseInt c; let k ← codeKind c; let v ← unhex v; let p ← parseNat p
    let r ← readToks codeKind rest
    some ((⟨k, toBytes v⟩, p) :: r)
  | ("e" :: _) :: rest => readToks codeKind rest
  | _ => none

def codeKind (c : Int) : Option Kind := allKinds.find? (fun k => k.code == c)

def opOfName : String → Option Op
  | "comma" => some .comma | "lparen" => some .lparen | "rparen" => some .rparen
  | "lbracket" => some .lbracket | "rbracket" => some .rbracket | "dot" => some .dot
  | "question" => some .question | "pipe" => some .pipe | "lbrace" => some .lbrace | "rbrace" => some .rbrace
  | "plus" => some .plus | "minus" => some .minus | "asterisk" => some .asterisk | "slash" => some .slash
  | "eq1" => some .eq1 | "eq2" => some .eq2 | "ne" => some .ne | "gt" => some .gt | "lt" => some .lt
  | "ge" => some .ge | "le" => some .le
  | _ => none

def parseSrc (s : String) : Option Src :=
  match s.splitOn ":" with
  | ["w", h] => (unhex h).map fun b => .word (toBytes b)
  | ["n", h] => (unhex h).map fun b => .num false (toBytes b)
  | ["m", h] => (unhex h).map fun b => .num true (toBytes b)
  | ["s", q, h] => do let q ← parseNat q; let b ← unhex h; some (.str q (toBytes b))
  | ["q", h] => (unhex h).map fun b => .qid (toBytes b)
  | ["o", n] => (opOfName n).map .op
  | _ => none

def parseMask (s : String) : List Bool := if s = "-" then [] else s.toList.map (· == '1')

def parsePlaced : List String → Option (List Placed)
  | [] => some []
  | s :: pre :: m :: rest => do
    let src ← parseSrc s; let pre ← unhex pre; let r ← parsePlaced rest
    some (⟨src, toBytes pre, parseMask m⟩ :: r)
  | _ => none

structure OpOut where
  obs  : List (List String)
  fail : Option String := none
  tags : List String := []

def lexOp (input : List Byte) (implObs : List (List String)) (want : Option (List Token)) (extraTags : List String) : OpOut :=
  let lines := lexLines input (input.length + 1) input 0
  let consistent := loopToks (input.length + 1) input == lexAll input &&
    (lines.filter (·.head? == some "t")).length == (lexAll input).length
  let tags := ((lexAll input).map (fun t => "tok-" ++ kindTag t.kind)).eraseDups ++
    (if lines.any (·.head? == some "e") then ["lex-error-recorded"] else []) ++
    (if junkLen input > 0 then ["leading-junk"] else []) ++
    (if input.contains 0 then ["nul-byte"] else []) ++ extraTags
  let fail :=
    match readToks codeKind implObs with
    | none => some "malformed-token-lines"
    | some toks =>
      if !isTokenization input toks 0 then some "not-a-tokenization-of-the-input"
      else match want with
        | some w => if toks.map (·.1) != w then some "tokens-differ-from-source-tokens" else none
        | none => none
  { obs := if consistent then lines else lines ++ [["model-inconsistent-with-lexAll"]], fail := fail, tags := tags }

def expLines (cfg : List (List String)) : List (List String) :=
  cfg.filterMap fun l => match l with | "exp" :: rest => some rest | _ => none

def predKeys (cfg : List (List String)) : List String :=
  (cfg.filterMap fun l => match l with | "keys" :: rest => some rest | _ => none).flatten

def stepOp (c : Case) (op : List String) (implObs : List (List String)) : OpOut :=
  match op with
  | ["lex", h] =>
    match unhex h with
    | some s => lexOp (toBytes s) implObs none ["random-bytes"]
    | none => { obs := [["bad-op"]] }
  | "lexr" :: h :: trail :: placed =>
    match unhex h, unhex trail, parsePlaced placed with
    | some s, some tr, some ps =>
      let input := toBytes s
      if render ps (toBytes tr) != input then { obs := [["bad-op-render-differs"]] }
      else if AllValid ps && LayoutOk ps (toBytes tr) && Sep ps then
        lexOp input implObs (some (expected ps))
          (["rendered-separated"] ++ (if ps.any (fun p => p.pre == []) then ["tokens-touching"] else []) ++
           (if ps.any (fun p => p.mask.any id) then ["case-varied"] else []))
      else lexOp input implObs none ["rendered-glued"]
    | _, _, _ => { obs := [["bad-op"]] }
  | ["parse", _layout, _sql] =>
    let keys := predKeys c.cfg
    { obs := expLines c.cfg ++ implObs.filter (fun l => !(keys.contains (l.headD ""))), tags := ["parse"] }
  | ["total", _] =>
    { obs := [["done"]], fail := if implObs == [["done"]] then none else some "parser-did-not-return", tags := ["total"] }
  | _ => { obs := [["bad-op"]] }

def run (c : Case) : CaseOut := Id.run do
  let mut obs : List (List (List String)) := []
  let mut spec := "ok"
  let mut tags : List String := []
  for (op, implObs) in c.ops do
    let r := stepOp c op implObs
    obs := obs ++ [r.obs]
    for t in r.tags do
      unless tags.contains t do tags := t :: tags
    match r.fail with
    | some f => if spec == "ok" then spec := "fail:" ++ f
    | none => pure ()
  -- parser layer: all layouts of the statement against the reference grammar and against each other
  let layouts := c.ops.filterMap fun (op, o) => if op.head? == some "parse" then some o else none
  if !layouts.isEmpty && spec == "ok" then
    match ParserTV.check (expLines c.cfg) (predKeys c.cfg) layouts with
    | some f => spec := "fail:" ++ f
    | none => pure ()
  return { obs := obs, spec := spec, tags := tags }

end DrvC11
