import Driver.Win
import Driver.Sess
namespace DrvC02
def run (c : Proto.Case) : Proto.CaseOut :=
  let kind := DrvWin.cfgStr c "kind" "tumbling"
  if kind == "sqlsession" then DrvSess.runSql c
  else if kind == "session" then DrvSess.run c else DrvWin.run c
end DrvC02
