import Driver.Win
import Driver.Sess
namespace DrvC02
def run (c : Proto.Case) : Proto.CaseOut :=
  if DrvWin.cfgStr c "kind" "tumbling" == "session" then DrvSess.run c else DrvWin.run c
end DrvC02
