import Driver.Proto
import SsqlVerif.Model.Analytic
import SsqlVerif.Model.AnalyticQuery
import SsqlVerif.Spec.Analytic
import SsqlVerif.Spec.AnalyticQuery
set_option autoImplicit false
open Proto

/-!
Driver of C14 (IO glue, not part of any theorem).  A case is one query (`cfg` lines) and a
list of `row` ops; the model (`Analytic.Query.step`, instantiated at `Float`) predicts the row
delivered on the synchronous and on the asynchronous path; the oracle (`Analytic.Spec.expected`)
computes from the input history alone what the definition of each function demands and is
compared with the implementation's obs lines.
-/
namespace DrvC14
open Analytic

instance : NumOps Float where
  zero := 0.0
  add := (· + ·)
  sub := (· - ·)
  div := (· / ·)
  lt := fun a b => decide (a < b)
  beq := fun a b => a == b
  ofInt := Float.ofInt

/-! ### tokens -/

def hexNat (s : List Char) : Option Nat :=
  s.foldl (fun acc c => match acc, hexVal c with
    | some n, some d => some (n * 16 + d)
    | _, _ => none) (some 0)

def floatOfTok (s : String) : Option Float :=
  if s.startsWith "f:" then (hexNat (s.toList.drop 2)).map (fun n => Float.ofBits (UInt64.ofNat n)) else none

def hex16 (n : Nat) : String :=
  String.ofList ((List.range 16).reverse.map (fun i => hexDigit (n / 16 ^ i % 16)))

def floatTok (x : Float) : String := if x.isNaN then "f:nan" else "f:" ++ hex16 x.toBits.toNat

def valOfTok (s : String) : Option (Cell Float) :=
  if s = "m" then some .missing
  else if s = "n" then some (.present .null)
  else if s = "t" then some (.present (.bool true))
  else if s = "f" then some (.present (.bool false))
  else if s.startsWith "i:" then (String.ofList (s.toList.drop 2)).toInt?.map (fun i => .present (.int i))
  else if s.startsWith "f:" then (floatOfTok s).map (fun x => .present (.num x))
  else if s.startsWith "s:" then (unhex (String.ofList (s.toList.drop 2))).map (fun b => .present (.str b))
  -- a list / a nested map: an opaque non-numeric value, equal to another one iff deeply equal (same payload); carried as a
  -- string no real string can be (leading U+0001)
  else if s.startsWith "L:" then (unhex (String.ofList (s.toList.drop 2))).map (fun b => .present (.str ([Char.ofNat 1, 'L'] ++ b)))
  else if s.startsWith "P:" then (unhex (String.ofList (s.toList.drop 2))).map (fun b => .present (.str ([Char.ofNat 1, 'P'] ++ b)))
  else none

def keyOfTok (s : String) : Option KVal :=
  if s = "m" then some .null
  else if s = "n" then some .null
  else if s = "t" then some (.bool true)
  else if s = "f" then some (.bool false)
  else if s.startsWith "i:" then (String.ofList (s.toList.drop 2)).toInt?.map .int
  else if s.startsWith "g:" then (unhex (String.ofList (s.toList.drop 2))).map .flt
  else if s.startsWith "s:" then (unhex (String.ofList (s.toList.drop 2))).map .str
  else none

def valTok : Val Float → String
  | .null => "n"
  | .int i => s!"i:{i}"
  | .num x => floatTok x
  | .str s => match s with
    | c :: 'L' :: rest => if c == Char.ofNat 1 then "L:" ++ hex rest else "s:" ++ hex s
    | c :: 'P' :: rest => if c == Char.ofNat 1 then "P:" ++ hex rest else "s:" ++ hex s
    | _ => "s:" ++ hex s
  | .bool b => boolTok b

def splitOn (c : Char) (s : String) : List String := (s.splitOn (String.singleton c))

def natList (s : String) : Option (List Nat) :=
  if s = "-" then some [] else (splitOn ',' s).mapM (·.toNat?)

def cmpOfTok : String → Option Cmp
  | "gt" => some .gt
  | "lt" => some .lt
  | _ => none

/-- `<col>:<gt|lt>:f:<bits>` -/
def predOfTok (s : String) : Option (Option (Pred Float)) :=
  if s = "-" then some none else
  match splitOn ':' s with
  | [c, op, "f", bits] => do
    let c ← c.toNat?; let op ← cmpOfTok op; let x ← floatOfTok ("f:" ++ bits)
    some (some { col := c, cmp := op, c := x })
  | _ => none

def argSrcOfTok (s : String) : Option (Option (ArgSrc Float)) :=
  if s = "-" then some none
  else if s.startsWith "col:" then (String.ofList (s.toList.drop 4)).toNat?.map (fun c => some (.col c))
  else if s.startsWith "const:" then
    match valOfTok (String.ofList (s.toList.drop 6)) with
    | some (.present v) => some (some (.const v))
    | _ => none
  else none

def optBool : String → Option (Option Bool)
  | "-" => some none
  | "t" => some (some true)
  | "f" => some (some false)
  | _ => none

def kindOfTok : String → Option AccKind
  | "sum" => some .sum | "count" => some .count | "avg" => some .avg
  | "min" => some .min | "max" => some .max | _ => none

/-- parse `n` calls from a token list -/
def parseCalls : Nat → List String → Option (List (Call Float))
  | 0, [] => some []
  | 0, _ => none
  | n + 1, "lag" :: col :: off :: d :: ign :: rest => do
    let col ← col.toNat?
    let off ← (if off = "-" then some none else off.toInt?.map some)
    let d ← argSrcOfTok d; let ign ← optBool ign
    let more ← parseCalls n rest
    some (.lag col off d ign :: more)
  | n + 1, "latest" :: col :: d :: rest => do
    let col ← col.toNat?; let d ← argSrcOfTok d
    let more ← parseCalls n rest
    some (.latest col d :: more)
  | n + 1, "hadchanged" :: ign :: cols :: rest => do
    let ign ← optBool ign; let cols ← natList cols
    let more ← parseCalls n rest
    some (.hadChanged (ign.getD false) cols :: more)
  | n + 1, "changedcol" :: ign :: col :: rest => do
    let ign ← optBool ign; let col ← col.toNat?
    let more ← parseCalls n rest
    some (.changedCol (ign.getD false) col :: more)
  | n + 1, "changedcols" :: ign :: cols :: rest => do
    let ign ← optBool ign; let cols ← natList cols
    let more ← parseCalls n rest
    some (.changedCols (ign.getD false) cols :: more)
  | n + 1, "acc" :: kind :: col :: st :: rs :: rest => do
    let kind ← kindOfTok kind; let col ← col.toNat?
    let st ← predOfTok st; let rs ← predOfTok rs
    let more ← parseCalls n rest
    some (.acc kind col st rs :: more)
  | _, _ => none

def wrapOfTok (s : String) : Option Wrap :=
  if s = "none" then some .none
  else if s = "selfdiff" then some .selfDiff
  else if s.startsWith "colminus:" then (String.ofList (s.toList.drop 9)).toNat?.map .colMinus
  else none

/-- `<wrap> <part|-> <when|-> <ncalls> <call…>` -/
def parseField : List String → Option (Field Float)
  | w :: part :: whn :: n :: rest => do
    let w ← wrapOfTok w
    let part ← (if part = "-" then some none else (natList part).map some)
    let whn ← predOfTok whn
    let n ← n.toNat?
    let calls ← parseCalls n rest
    some { calls := calls, wrap := w, part := part, when := whn }
  | _ => none

def parseAnaCmp (s : String) : Option (Option (Cmp × Float)) :=
  if s = "bool" then some none else
  match splitOn ':' s with
  | [op, "f", bits] => do
    let op ← cmpOfTok op; let x ← floatOfTok ("f:" ++ bits)
    some (some (op, x))
  | _ => none

structure Parsed where
  q : Query Float
  ok : Bool

def parseQuery (cfg : List (List String)) : Option (Query Float) := do
  let mut cap : Int := 0
  let mut fields : List (Field Float) := []
  let mut plain : Option (Pred Float) := none
  let mut anaCmp : Option (Option (Cmp × Float)) := none
  let mut wfield : Option (Field Float) := none
  let mut extra : List (Field Float × Option (Cmp × Float)) := []
  for l in cfg do
    match l with
    | ["cap", n] => cap ← n.toInt?
    | "field" :: rest => let f ← parseField rest; fields := fields ++ [f]
    | ["where", p, a] =>
      plain ← predOfTok p
      if a ≠ "-" then anaCmp := some (← parseAnaCmp a)
    | "wfield" :: rest => wfield := some (← parseField rest)
    | "wfield2" :: a :: rest => extra := extra ++ [(← parseField rest, ← parseAnaCmp a)]
    | _ => pure ()
  let ana ← (match anaCmp, wfield with
    | some c, some f => some [(f, c)]
    | none, none => some []
    | _, _ => none)
  some { cap := cap, fields := fields, wher := { plain := plain, ana := ana ++ extra } }

def parseRow : List String → Option (String × Row Float)
  | ["row", id, k1, k2, v, u, g] => do
    let k1 ← keyOfTok k1; let k2 ← keyOfTok k2
    let v ← valOfTok v; let u ← valOfTok u; let g ← valOfTok g
    some (id, { keys := [k1, k2], cells := [v, u, g] })
  | _ => none

/-! ### rendering -/

def colName : Nat → String
  | 0 => "v" | 1 => "u" | 2 => "g" | n => s!"col{n}"

def callCols : Call Float → List Nat
  | .changedCols _ cols => cols
  | _ => []

def entryName (q : Query Float) (i : Nat) (j : Option Nat) : String :=
  match j with
  | none => s!"r{i}"
  | some j =>
    match q.fields[i]? with
    | some f => s!"c{i}_" ++ colName (((f.calls.head?.map callCols).getD []).getD j 99)
    | none => s!"c{i}_?"

def insertSorted (x : String × String) : List (String × String) → List (String × String)
  | [] => [x]
  | y :: ys => if x.1 < y.1 then x :: y :: ys else y :: insertSorted x ys

def renderOut (q : Query Float) (o : Option (List (Option (COut Float)))) : List String :=
  match o with
  | none => ["x"]
  | some vals =>
    let entries := projectAll 0 q.fields (vals.take q.fields.length)
    let named := entries.map (fun e => (entryName q e.1 e.2.1, valTok e.2.2))
    "row" :: (named.foldr insertSorted []).map (fun p => p.1 ++ "=" ++ p.2)

/-! ### one case -/

def hasMissing (r : Row Float) : Bool := r.cells.any (fun c => match c with | .missing => true | _ => false)

def run (c : Case) : CaseOut := Id.run do
  match parseQuery c.cfg with
  | none => return { obs := c.ops.map fun _ => [["bad-cfg"]], spec := "fail:bad-cfg" }
  | some q =>
    let mut st := q.machine.init
    let mut obs : List (List (List String)) := []
    let mut rows : List (Row Float) := []
    let mut rowOps : List (List (List String)) := []   -- impl obs of the row ops, in order
    let mut tags : List String := []
    let mut spec := "ok"
    for (op, implObs) in c.ops do
      match op with
      | "row" :: _ =>
        match parseRow op with
        | none => obs := obs ++ [[["bad-op"]]]
        | some (_, r) =>
          let (st', o) := q.step st r
          st := st'
          let line := renderOut q o
          obs := obs ++ [[("sync" :: line), ("async" :: line)]]
          rows := rows ++ [r]
          rowOps := rowOps ++ [implObs]
          if hasMissing r && !tags.contains "missing-cell" then tags := "missing-cell" :: tags
          if o.isNone && !tags.contains "filtered-row" then tags := "filtered-row" :: tags
      | ["pkey", k1, k2, part] =>
        match keyOfTok k1, keyOfTok k2, natList part with
        | some a, some b, some cs =>
          obs := obs ++ [[["key", hex (partitionKey (cs.map (fun i => [a, b].getD i .null)))]]]
          unless tags.contains "pkey" do tags := "pkey" :: tags
        | _, _, _ => obs := obs ++ [[["bad-op"]]]
      | _ => obs := obs ++ [[["bad-op"]]]
    -- oracle: the definition, evaluated on the input history, against the implementation's rows
    let exp := Spec.expected q rows
    let mut unconstrained := 0
    for (e, implObs) in exp.zip rowOps do
      match e with
      | none => unconstrained := unconstrained + 1
      | some o =>
        let want := renderOut q o
        if spec == "ok" then
          if implObs.length != 2 then spec := "fail:missing-observation"
          else if implObs.head? != some ("sync" :: want) then spec := "fail:sync-row-differs-from-definition"
          else if implObs.getLast? != some ("async" :: want) then spec := "fail:async-row-differs-from-definition"
    -- both paths must agree even where the definition does not constrain the value
    for implObs in rowOps do
      if spec == "ok" then
        match implObs with
        | [a, b] => if a.drop 1 != b.drop 1 then spec := "fail:sync-async-differ"
        | _ => spec := "fail:missing-observation"
    if unconstrained > 0 then tags := "beyond-cap" :: tags
    if q.wher.ana.length > 1 then tags := "where-two-analytic-calls" :: tags
    if q.uses then tags := "where-analytic" :: tags
    else if q.wher.plain.isSome then tags := "where-plain" :: tags
    else tags := "where-none" :: tags
    for f in q.allFields do
      if f.when.isSome && !tags.contains "when" then tags := "when" :: tags
      if f.part.isSome && !tags.contains "partitioned" then tags := "partitioned" :: tags
      if f.wrap != .none && !tags.contains "wrapper" then tags := "wrapper" :: tags
    -- cfg `colstyle qualw`: the stream has an alias and wrapper / WHEN columns are written `s.col`: the engine reads such a
    -- column inside an expression as a nested path and gets NULL (recorded finding; the model has no aliases)
    let qualw := c.cfg.any fun l => l == ["colstyle", "qualw"]
    return { obs := obs, spec := spec, tags := (if qualw then "colstyle-qualw" :: tags else tags),
             cls := if qualw then "qualified-stream-column-in-expression" else "none" }

end DrvC14
