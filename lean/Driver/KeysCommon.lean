import Driver.Proto
import SsqlVerif.Model.GroupKey
import SsqlVerif.Model.GroupPartition
set_option autoImplicit false
open Proto GroupKey

/-
Helpers shared by the drivers of C04, C09 and C16 (key value tokens, result lines).
Value tokens: n (NULL) m (missing) s:<hex> i:<dec> b:t|f x:<bits>:<hex 'f' rendering>:<hex %v rendering>.
IO glue of the correspondence check, not part of any theorem.
-/
namespace DrvKeys

def parseVal (tok : String) : Option Val :=
  match tok.splitOn ":" with
  | ["n"] => some .null
  | ["m"] => some .missing
  | ["s", h] => (unhex h).map .str
  | ["i", d] => d.toInt?.map .int
  | ["b", "t"] => some (.bool true)
  | ["b", "f"] => some (.bool false)
  | ["x", b, rf, rg] => do
    let b ← b.toNat?; let rf ← unhex rf; let rg ← unhex rg
    some (.flt b rf rg)
  | _ => none

def valTok : Val → String
  | .null => "n"
  | .missing => "m"
  | .str s => "s:" ++ hex s
  | .int i => "i:" ++ toString i
  | .bool b => "b:" ++ boolTok b
  | .flt b rf rg => s!"x:{b}:{hex rf}:{hex rg}"

def parseVals (toks : List String) : Option (List Val) := toks.mapM parseVal

def cfgGet (c : Case) (k : String) (dflt : String) : String :=
  match c.cfg.find? (fun l => l.head? == some k) with
  | some (_ :: v :: _) => v
  | _ => dflt

def sortLines (ls : List (List String)) : List (List String) :=
  (ls.toArray.qsort (fun a b => " ".intercalate a < " ".intercalate b)).toList

abbrev Row := List Val × Int

def resultLine (g : List Val × List Int) : List String :=
  ["g"] ++ g.1.map valTok ++ ["c", toString g.2.length, "ids"] ++ g.2.map toString

/-- parse an implementation result line back: `g v… c <count> ids <id…>` -/
def parseResult (l : List String) : Option (List Val × Nat × List Int) :=
  match l with
  | "g" :: rest =>
    let vs := rest.takeWhile (· != "c")
    match rest.dropWhile (· != "c") with
    | "c" :: cnt :: "ids" :: ids => do
      let vs ← parseVals vs
      let cnt ← cnt.toNat?
      let ids ← ids.mapM String.toInt?
      some (vs, cnt, ids)
    | _ => none
  | _ => none

def normRows (rows : List Row) : List Row := rows.map fun r => (normTuple r.1, r.2)

/-- model of the aggregator on one batch -/
def aggResults (rows : List Row) : List (List Val × List Int) :=
  GroupPart.results encAggregator (normRows rows)

end DrvKeys
