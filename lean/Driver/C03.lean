import Driver.Proto
import SsqlVerif.Model.Agg
import SsqlVerif.Model.GroupAgg
import SsqlVerif.Spec.Agg
set_option autoImplicit false
open Proto

/-!
Driver for C03 (aggregate functions).  The model definitions are instantiated at `Float`
(binary64, the operations Go performs, in the same order); floats cross as their bit patterns.

Three kinds of cases (cfg `mode`):
* `direct` : one aggregator object — ops `new`, `add <val>`, `perm rev|rot k`; obs `r <result>` after each op;
* `ga`     : one `GroupAggregator` — ops `row <k v …>`, `results`, `reset`;
* `sql`    : a query with `CountingWindow(N)` — ops `row <k v …>`, final `flush`
             (obs: the result rows of every batch, in arrival order).
Go runtime functions that are parameters of the model (`Env`) come as tables in `cfg pf` / `cfg fv`
lines, computed by the harness with strconv/fmt (trusted base), never by the code under test.
-/

namespace DrvC03
open Agg GroupAgg

/-- sort.Float64s order: `<`, NaN before everything -/
def goLess (a b : Float) : Bool := a < b || (a.isNaN && !b.isNaN)

instance : NumOps Float where
  add := (· + ·)
  sub := (· - ·)
  mul := (· * ·)
  div := (· / ·)
  ofNat := Float.ofNat
  ofInt := Float.ofInt
  lt a b := a < b
  sortLt := goLess
  sqrt := Float.sqrt
  floorNat x := x.floor.toUInt64.toNat

/-! ### tokens -/

def hexNat (s : List Char) : Option Nat :=
  s.foldl (fun acc c => match acc, hexVal c with
    | some a, some v => some (a * 16 + v)
    | _, _ => none) (some 0)

def bitsHex (b : UInt64) : String :=
  String.ofList ((List.range 16).map fun i => hexDigit ((b.toNat >>> (4 * (15 - i))) % 16))

def floatTok (x : Float) : String := if x.isNaN then "f:nan" else "f:" ++ bitsHex x.toBits

def parseFloatTok (s : String) : Option Float :=
  if s = "f:nan" then some (0.0 / 0.0)
  else match s.toList with
    | 'f' :: ':' :: rest => (hexNat rest).map fun n => Float.ofBits (UInt64.ofNat n)
    | _ => none

def parseVal (t : String) : Option (Val Float) :=
  match t.toList with
  | ['n'] => some .null
  | ['t'] => some (.bool true)
  | ['f'] => some (.bool false)
  | 'i' :: ':' :: rest => (String.ofList rest).toInt?.map .int
  | 'f' :: ':' :: _ => (parseFloatTok t).map .flt
  | 's' :: ':' :: rest => (unhex (String.ofList rest)).map .str
  | _ => none

def valTok : Val Float → String
  | .null => "n"
  | .int i => "i:" ++ toString i
  | .flt x => floatTok x
  | .str s => "s:" ++ hex s
  | .bool b => boolTok b

def resToks : Res Float → List String
  | .one v => [valTok v]
  | .many l => ["["] ++ l.map valTok ++ ["]"]

/-- `sort.Float64s` leaves the order of -0 / +0 open: median / percentile results are compared
with -0 canonicalised to +0 (both sides) -/
def canonZero (k : Kind) : Res Float → Res Float
  | .one (.flt x) => if (k = .median || k = .percentile) && x == 0.0 then .one (.flt 0.0) else .one (.flt x)
  | r => r

def kindOf : String → Option Kind
  | "count" => some .count | "sum" => some .sum | "avg" => some .avg | "min" => some .min
  | "max" => some .max | "stddev" => some .stddev | "stddevs" => some .stddevs | "var" => some .var
  | "vars" => some .vars | "median" => some .median | "percentile" => some .percentile
  | "first_value" => some .firstValue | "last_value" => some .lastValue | "nth_value" => some .nthValue
  | "collect" => some .collect | "deduplicate" => some .dedup | "merge_agg" => some .mergeAgg
  | _ => none

/-! ### Env from the cfg tables -/

structure Tables where
  pf : List (Agg.Str × Option Float) := []          -- string ↦ ParseFloat result
  fv : List (UInt64 × Agg.Str × Agg.Str) := []          -- float bits ↦ (%v rendering, 'f' rendering)

def Tables.env (t : Tables) : Env Float where
  parseFloat s := match t.pf.find? (fun p => p.1 == s) with
    | some (_, r) => r
    | none => none
  fmtV x := match t.fv.find? (fun p => p.1 == x.toBits) with
    | some (_, v, _) => v
    | none => "?fmtV".toList
  fmtF x := match t.fv.find? (fun p => p.1 == x.toBits) with
    | some (_, _, f) => f
    | none => "?fmtF".toList

def readTables (cfg : List (List String)) : Tables :=
  cfg.foldl (fun t l => match l with
    | ["pf", s, r] => match unhex s with
      | some s' => { t with pf := t.pf ++ [(s', if r = "e" then none else parseFloatTok r)] }
      | none => t
    | ["fv", b, v, f] => match hexNat b.toList, unhex v, unhex f with
      | some n, some v', some f' => { t with fv := t.fv ++ [(UInt64.ofNat n, v', f')] }
      | _, _, _ => t
    | _ => t) ({ pf := [], fv := [] } : Tables)

def cfgVal (cfg : List (List String)) (key : String) : Option (List String) :=
  (cfg.find? fun l => l.head? = some key).map (·.drop 1)

/-! ### rows and fields -/

def parseRow : List String → Option (Row Float)
  | [] => some []
  | [_] => none
  | k :: v :: rest => do
    let k' ← unhex k
    let v' ← parseVal v
    let r ← parseRow rest
    some ((k', v') :: r)

/-- a numeric operand of an arithmetic expression: Go int / int64, or float64 -/
inductive Num where
  | i (v : Int)
  | f (x : Float)

def numOf (c : Option (Val Float)) : Option Num :=
  match c with
  | some (.int i) => some (.i i)
  | some (.flt x) => some (.f x)
  | _ => none

def Num.toF : Num → Float
  | .i v => Float.ofInt v
  | .f x => x

/-- the expression engine (expr-lang) computes int∘int in integers and everything else in float64 -/
def arith (fi : Int → Int → Int) (ff : Float → Float → Float) : Num → Num → Num
  | .i a, .i b => .i (fi a b)
  | a, b => .f (ff a.toF b.toF)

def Num.val : Num → Val Float
  | .i v => .int v
  | .f x => .flt x

/-- harness / SQL expression shapes.  `mul1`: `a*b+1`, `mul`: `a*b`, `sub`: `a-b`, `dbl`: `a*2`
(error when an operand is missing, NULL or not a number; int∘int stays an int).
Harness closures of the `ga` mode (always float64): `mul1`, `nilmul`: `a*b`, NULL when an operand
is missing or NULL; `pick`: the value of `a`, NULL when `b` is missing or NULL, error when `a` is
missing.  `path`: a nested path evaluated by the expression engine (missing ⇒ NULL). -/
def evalShape (sqlMode : Bool) (shape : String) (a b : Agg.Str) : Eval Float := fun row =>
  let fin (n : Num) : Val Float := if sqlMode then n.val else .flt n.toF
  match shape with
  | "mul1" => match numOf (lookup a row), numOf (lookup b row) with
    | some x, some y =>
      if sqlMode then some (fin (arith (· + ·) (· + ·) (arith (· * ·) (· * ·) x y) (.i 1)))
      else some (.flt (x.toF * y.toF + 1.0))
    | _, _ => none
  | "mul" => match numOf (lookup a row), numOf (lookup b row) with
    | some x, some y => some (fin (arith (· * ·) (· * ·) x y))
    | _, _ => none
  | "sub" => match numOf (lookup a row), numOf (lookup b row) with
    | some x, some y => some (fin (arith (· - ·) (· - ·) x y))
    | _, _ => none
  | "dbl" => match numOf (lookup a row) with
    | some x => some (fin (arith (· * ·) (· * ·) x (.i 2)))
    | none => none
  -- a decimal literal or a nested path in the argument text: the NULL-aware engine computes it, in float64; a missing or
  -- NULL operand gives NULL
  | "half" => match lookup a row with
    | none => some .null
    | some .null => some .null
    | ca => match numOf ca with
      | some x => some (.flt (x.toF * 0.5))
      | none => none
  | "sesq" => match lookup a row with
    | none => some .null
    | some .null => some .null
    | ca => match numOf ca with
      | some x => some (.flt (x.toF * 1.5))
      | none => none
  | "pdbl" => match lookup a row with
    | none => some .null
    | some .null => some .null
    | ca => match numOf ca with
      | some x => some (.flt (x.toF * 2.0))
      | none => none
  | "nilmul" => match lookup a row, lookup b row with
    | none, _ => some .null
    | _, none => some .null
    | some .null, _ => some .null
    | _, some .null => some .null
    | ca, cb => match numOf ca, numOf cb with
      | some x, some y => some (.flt (x.toF * y.toF))
      | _, _ => none
  | "pick" => match lookup a row, lookup b row with
    | none, _ => none
    | some _, none => some .null
    | some _, some .null => some .null
    | some v, some _ => some v
  | "path" => match lookup a row with
    | none => some .null
    | some v => some v
  | _ => none

/-- `field <alias> <kind> <p|-> <nth> <input…>` -/
def parseField (sqlMode : Bool) : List String → Option (Field Float)
  | alias :: kind :: p :: nth :: input => do
    let alias' ← unhex alias
    let k ← kindOf kind
    let p' := if p = "-" then 0.0 else (parseFloatTok p).getD 0.0
    let n ← nth.toNat?
    let inp ← match input with
      | ["star"] => some Input.star
      | ["col", c] => (unhex c).map Input.col
      | [shape, a, b] => match unhex a, unhex b with
        | some a', some b' => some (Input.expr (evalShape sqlMode shape a' b'))
        | _, _ => none
      | _ => none
    some { alias := alias', kind := k, prm := ⟨p', n⟩, input := inp }
  | _ => none

def fieldsOf (cfg : List (List String)) : List (Field Float) :=
  let sqlMode := (cfgVal cfg "mode").bind (·.head?) == some "sql"
  cfg.filterMap fun l => match l with
    | "field" :: rest => parseField sqlMode rest
    | _ => none

def groupCols (cfg : List (List String)) : List Agg.Str :=
  ((cfgVal cfg "groupby").getD []).filterMap unhex

/-- group key: the tokens of the group columns (missing and NULL are the NULL group) -/
def keyTokens (cols : List Agg.Str) (row : Row Float) : List String :=
  cols.map fun c => match lookup c row with
    | none => "n"
    | some v => valTok v

def mkCfg (cfg : List (List String)) : Cfg Float (List String) :=
  let e := (readTables cfg).env
  { env := e, fields := fieldsOf cfg, keyOf := keyTokens (groupCols cfg) }

def renderGroup (fields : List (Field Float)) (g : List String × List (Agg.Str × Res Float)) : List String :=
  let kinds := fields.map (·.kind)
  let cells := (g.2.zip kinds).map fun ((_, r), k) => resToks (canonZero k r)
  ["g"] ++ g.1 ++ ["|"] ++ (cells.intersperse [";"]).flatten

def sortLines (ls : List (List String)) : List (List String) :=
  ls.mergeSort fun a b => decide (" ".intercalate a ≤ " ".intercalate b)

def renderResults (fields : List (Field Float)) (rs : List (List String × List (Agg.Str × Res Float))) :
    List (List String) :=
  sortLines (rs.map (renderGroup fields))

/-! ### direct mode -/

structure DirectOut where
  obs : List (List (List String)) := []
  spec : String := "ok"
  tags : List String := []

def addTag (tags : List String) (t : String) : List String := if tags.contains t then tags else t :: tags

def inputTag (e : Env Float) (k : Kind) (v : Val Float) : String :=
  match v with
  | .null => "in-null"
  | .str _ => if isNumeric k then (if (toFloat e v).isSome then "in-numeric-string" else "in-nonnumeric-string") else "in-string"
  | .bool _ => "in-bool"
  | .int _ => "in-int"
  | .flt x => if x.isNaN then "in-nan" else if x == 0.0 then "in-zero" else if x < 0.0 then "in-negative-float" else "in-float"

/-- all usable inputs are integers of small magnitude: every partial sum is exact in float64 -/
def exactInts (e : Env Float) (l : List (Val Float)) : Bool :=
  l.all fun v => match v with
    | .int i => i.natAbs < 1048576
    | .bool _ => true
    | .null => true
    | .str _ => (toFloat e v).isNone
    | .flt _ => false

/-- aggregates whose float64 result is a function of exact sums / order statistics only -/
def permInvariantExact : Kind → Bool
  | .count | .sum | .avg | .min | .max | .median | .percentile => true
  | _ => false

def runDirect (c : Case) : CaseOut := Id.run do
  let e := (readTables c.cfg).env
  let some k := ((cfgVal c.cfg "kind").bind (·.head?)).bind kindOf
    | return { obs := c.ops.map fun _ => [["bad-kind"]], spec := "fail:bad-kind" }
  let p := (((cfgVal c.cfg "p").bind (·.head?)).bind parseFloatTok).getD 0.0
  let n := (((cfgVal c.cfg "nth").bind (·.head?)).bind (·.toNat?)).getD 1
  let prm : Param Float := ⟨p, n⟩
  let mut st : St Float := St.new k
  let mut inputs : List (Val Float) := []
  let mut obs : List (List (List String)) := []
  let mut spec := "ok"
  let mut tags : List String := ["direct-" ++ ((cfgVal c.cfg "kind").bind (·.head?)).getD "?"]
  for (op, implObs) in c.ops do
    let ok ← match op with
      | ["new"] => do
        st := St.new k; inputs := []; tags := addTag tags "new-from-used-instance"; pure true
      | ["perm", how, kk] => do
        -- a fresh instance fed with the same values in another order
        let before := canonZero k (st.result e prm)
        let permuted := if how = "rev" then inputs.reverse else inputs.rotateLeft (kk.toNat?.getD 0 % (max inputs.length 1))
        inputs := permuted
        st := permuted.foldl (St.add e) (St.new k)
        tags := addTag tags "permuted"
        -- where every partial sum is exact (small ints only) float64 addition is associative, so the
        -- order-insensitive aggregates must not move (permutation invariance, observed on the code)
        if exactInts e permuted && permInvariantExact k then
          tags := addTag tags "perm-invariance-checked-exact"
          if implObs != ["r" :: resToks before] && spec == "ok" then
            spec := "fail:" ++ ((cfgVal c.cfg "kind").bind (·.head?)).getD "?" ++ "-not-permutation-invariant"
        pure true
      | ["add", v] => match parseVal v with
        | some v' => do
          st := st.add e v'; inputs := inputs ++ [v']; tags := addTag tags (inputTag e k v'); pure true
        | none => pure false
      | _ => pure false
    if !ok then
      obs := obs ++ [[["bad-op"]]]
    else
      let m := "r" :: resToks (canonZero k (st.result e prm))
      obs := obs ++ [[m]]
      let want := "r" :: resToks (canonZero k (AggSpec.value e prm k inputs))
      if implObs != [want] && spec == "ok" then
        spec := "fail:" ++ ((cfgVal c.cfg "kind").bind (·.head?)).getD "?" ++ "-differs-from-definition"
      if inputs.length % 2 == 0 && !inputs.isEmpty then tags := addTag tags "even-count" else tags := addTag tags "odd-or-empty-count"
  return { obs := obs, spec := spec, tags := tags }

/-! ### ga mode -/

def rowTags (cfg : Cfg Float (List String)) (row : Row Float) (tags : List String) : List String :=
  cfg.fields.foldl (fun tags f =>
    let t := match f.input with
      | .star => "arg-star"
      | .col name => match lookup name row with
        | none => "col-missing"
        | some .null => if allowsNull f.kind then "col-null-kept" else "col-null-skipped"
        | some v => if f.kind != .count && isNumeric f.kind && (toFloat cfg.env v).isNone then "col-nonnumeric-skipped" else "col-value"
      | .expr ev => match ev row with
        | none => "expr-error-skipped"
        | some .null => if allowsNull f.kind then "expr-null-kept" else "expr-null-skipped"
        | some _ => "expr-value"
    addTag tags t) tags

def runGA (c : Case) : CaseOut := Id.run do
  let cfg := mkCfg c.cfg
  let mut g : State Float (List String) := []
  let mut rows : List (Row Float) := []      -- rows since the last reset (for the oracle)
  let mut obs : List (List (List String)) := []
  let mut spec := "ok"
  let mut tags : List String := ["ga"]
  let mut nres := 0
  for (op, implObs) in c.ops do
    match op with
    | "row" :: rest => match parseRow rest with
      | some row =>
        g := GroupAgg.add cfg g row; rows := rows ++ [row]; tags := rowTags cfg row tags
        obs := obs ++ [[]]
        if implObs != [] && spec == "ok" then spec := "fail:add-returned-error"
      | none => obs := obs ++ [[["bad-row"]]]
    | ["results"] =>
      obs := obs ++ [renderResults cfg.fields (getResults cfg g)]
      let want := renderResults cfg.fields (AggSpec.batchResults cfg rows)
      if implObs != want && spec == "ok" then spec := "fail:group-results-differ-from-definition"
      nres := nres + 1
      if want.length > 1 then tags := addTag tags "several-groups"
      if want.isEmpty then tags := addTag tags "results-of-empty-table"
    | ["reset"] =>
      g := reset g; rows := []; obs := obs ++ [[]]
      tags := addTag tags "reset"
    | _ => obs := obs ++ [[["bad-op"]]]
  if nres > 1 then tags := addTag tags "several-batches"
  return { obs := obs, spec := spec, tags := tags }

/-! ### sql mode -/

def sentCol : Agg.Str := "zsent".toList
def sentKey : Agg.Str := "~end".toList

/-- counting window (`window/counting_window.go`): per window key, every N-th row completes a batch -/
def feedWindow (n : Nat) (keyOf : Row Float → List String) (bufs : List (List String × List (Row Float)))
    (row : Row Float) : List (List String × List (Row Float)) × Option (List (Row Float)) :=
  let k := keyOf row
  let cur := match bufs.find? (fun p => p.1 == k) with
    | some (_, b) => b ++ [row]
    | none => [row]
  let rest := bufs.filter (fun p => p.1 != k)
  if cur.length ≥ n then (rest ++ [(k, [])], some cur) else (rest ++ [(k, cur)], none)

def runSQL (c : Case) : CaseOut := Id.run do
  let cfg := mkCfg c.cfg
  let n := (((cfgVal c.cfg "n").bind (·.head?)).bind (·.toNat?)).getD 1
  let gcols := groupCols c.cfg
  let userRows0 := c.ops.filterMap fun (op, _) => match op with
    | "row" :: rest => parseRow rest
    | _ => none
  -- cfg `latesink k`: the first k windows fire before any sink exists; the observable batches are those of the later rows
  let lateK := (((cfgVal c.cfg "latesink").bind (·.head?)).bind (·.toNat?)).getD 0
  let userRows := userRows0.drop (lateK * n)
  -- the harness's flush: pad an ungrouped stream to a multiple of N, then N sentinel rows
  let having : Option Agg.Str := ((cfgVal c.cfg "having").bind (·.head?)).bind unhex
  let hcell : Row Float := if having.isSome then [("h".toList, .int 1)] else []
  let sentRow : Row Float := match gcols with
    | [] => [(sentCol, .int 1)] ++ hcell
    | gc :: _ => [(gc, .str sentKey), (sentCol, .int 1)] ++ hcell
  -- HAVING <alias> > 0 on the group's results; a batch none of whose groups passes is not delivered at all
  let passes (g : List String × List (Agg.Str × Res Float)) : Bool :=
    match having with
    | none => true
    | some a => match g.2.find? (fun p => p.1 == a) with
      | some (_, .one (.int i)) => decide (0 < i)
      | some (_, .one (.flt x)) => x > 0
      | _ => false
  let pad := if gcols.isEmpty then (n - userRows.length % n) % n else 0
  let all := userRows ++ List.replicate (pad + n) sentRow
  -- model of the pipeline: window chunks, then Add* / GetResults / Reset on ONE aggregator instance
  let mut bufs : List (List String × List (Row Float)) := []
  let mut g : State Float (List String) := []
  let mut batchesModel : List (List (List String)) := []
  let mut batchesSpec : List (List (List String)) := []
  for row in all do
    let (bufs', fired) := feedWindow n cfg.keyOf bufs row
    bufs := bufs'
    match fired with
    | none => pure ()
    | some batch =>
      let (res, g') := processBatch cfg g batch
      g := g'
      let resM := res.filter passes
      let resS := (AggSpec.batchResults cfg batch).filter passes
      unless resM.isEmpty do batchesModel := batchesModel ++ [renderResults cfg.fields resM]
      unless resS.isEmpty do batchesSpec := batchesSpec ++ [renderResults cfg.fields resS]
  -- the last batch is the all-sentinel one: not an observable
  let number (bs : List (List (List String))) : List (List String) :=
    ((bs.dropLast).zipIdx).flatMap fun (lines, i) => lines.map fun l => ["b", toString i] ++ l
  -- cfg `gwin 1`: the batches come from the global window's running aggregators, which take every number as a float64
  -- (window/global_window.go toAggregateValue): a whole number is reported as the float64 of the same value
  let gwin := ((cfgVal c.cfg "gwin").bind (·.head?)) == some "1"
  let asFloat (t : String) : String :=
    if gwin && t.startsWith "i:" then
      match (String.ofList (t.toList.drop 2)).toInt? with
      | some i => floatTok (Float.ofInt i)
      | none => t
    else t
  let modelLines := (number batchesModel).map fun l => l.map asFloat
  let specLines := (number batchesSpec).map fun l => l.map asFloat
  let mut obs : List (List (List String)) := []
  let mut spec := "ok"
  let mut tags : List String := ["sql"]
  for (op, implObs) in c.ops do
    match op with
    | "row" :: rest => match parseRow rest with
      | some row => obs := obs ++ [[]]; tags := rowTags cfg row tags
      | none => obs := obs ++ [[["bad-row"]]]
    | ["flush"] =>
      obs := obs ++ [modelLines]
      if implObs != specLines && spec == "ok" then spec := "fail:batch-results-differ-from-definition"
    | _ => obs := obs ++ [[["bad-op"]]]
  if batchesModel.length > 2 then tags := addTag tags "several-batches"
  if !gcols.isEmpty then tags := addTag tags "grouped"
  if gwin then tags := addTag tags "global-window"
  if lateK > 0 then tags := addTag tags "late-sink"
  -- known-finding classifier: a global window builds its output aggregators with CreateBuiltinAggregator, which knows no
  -- parameterised aggregate — nth_value(x, k) and percentile(x, p) are silently left out of the result row
  let param := cfg.fields.any fun f => f.kind == .nthValue || f.kind == .percentile
  let cls := if gwin && param then "global-window-parameterised-aggregate" else "none"
  return { obs := obs, spec := spec, tags := tags, cls := cls }

def run (c : Case) : CaseOut :=
  match (cfgVal c.cfg "mode").bind (·.head?) with
  | some "direct" => runDirect c
  | some "ga" => runGA c
  | some "sql" => runSQL c
  | _ => { obs := c.ops.map fun _ => [["bad-mode"]], spec := "fail:bad-mode" }

end DrvC03
