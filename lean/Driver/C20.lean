import Driver.PipeCodec
import SsqlVerif.Model.CallerRow
import SsqlVerif.Spec.CallerRow
set_option autoImplicit false
open Proto

/-
C20 driver.  cfg: `sql <hex>`, `q <kind> <join> <window> <nAnalytic> (<alias> <multi>)* <nPlaceholders> <nGroup> <group>*`,
`sql2`, `q2` likewise.  ops: emitsync <row> | emitall <L rows> | paired <L rows> <L rows> <bits>.
The model threads the caller's row through the stages that may write (repaired code: copy before the first
injected write) with dummy evaluators — the after-image does not depend on what they compute.
-/
namespace DrvC20
open Pipe Caller DrvPipe

structure Q where
  kind : String
  window : Bool
  cfg : QCfg

def placeholder (i : Nat) : Pipe.Str := ("__analytic_" ++ toString i ++ "__").toList

partial def parseAnalytic : Nat → List String → List (Pipe.Str × Bool) → Option (List (Pipe.Str × Bool) × List String)
  | 0, rest, acc => some (acc.reverse, rest)
  | k + 1, a :: m :: rest, acc => (unhex a).bind fun s => parseAnalytic k rest ((s, m == "t") :: acc)
  | _, _, _ => none

def parseQ : List String → Option Q
  | kind :: join :: win :: na :: rest =>
    match na.toNat? with
    | none => none
    | some n =>
      match parseAnalytic n rest [] with
      | some (an, np :: ng :: gs) =>
        match np.toNat?, ng.toNat? with
        | some p, some _ =>
          some { kind := kind, window := win == "t",
                 cfg := { hasJoin := join == "t", analytic := an,
                          wherePlaceholders := (List.range p).map placeholder,
                          groupFields := gs.filterMap unhex } }
        | _, _ => none
      | _ => none
  | _ => none

/-- dummy evaluators: every analytic alias / placeholder gets a value, every group key evaluates, WHERE passes,
JOIN matches — the choice that makes every possible write happen -/
def envOf (q : Q) : QEnv :=
  { joinRow := fun r => some [(['s'], .map r), (['m'], .map [])]
    analyticEval := fun _ => (q.cfg.analytic.map fun a => (a.1, Value.null)) ++ (q.cfg.wherePlaceholders.map fun p => (p, Value.bool true))
    fanOut := fun _ => [(['c', '_', 'v'], .null)]
    whereP := fun _ => true
    groupKeyEval := fun _ _ => some .null
    project := fun r _ => some r }

def afterOf (q : Q) (row : Row) : Row :=
  if q.window then (windowStep q.cfg (envOf q) row).1 else (directStep q.cfg (envOf q) row).1

/-- would the code without the copy have written into this row? (tag only) -/
def inPlaceWrites (q : Q) (row : Row) : Bool :=
  let w0 : Work := { caller := row, own := none }
  if q.cfg.hasJoin then false
  else if q.window then renderRow (injectGroupKeysInPlace q.cfg (envOf q) w0).caller != renderRow row
  else renderRow (evalAnalyticInPlace q.cfg (envOf q) w0).1.caller != renderRow row

partial def splitRows (toks : List String) : Option (List Row × List String) :=
  match parseValue toks with
  | some (.list xs, rest) =>
    let rows := xs.filterMap fun v => match v with | .map kvs => some kvs | _ => none
    if rows.length == xs.length then some (rows, rest) else none
  | _ => none

def run (c : Case) : CaseOut := Id.run do
  let q? := (c.cfg.filterMap fun l => match l with | "q" :: rest => parseQ rest | _ => none).head?
  match q? with
  | none => return { obs := c.ops.map fun _ => [["bad-cfg"]], spec := "fail:bad-cfg" }
  | some q =>
  let mut obs : List (List (List String)) := []
  let mut spec := "ok"
  let mut tags : List String := ["kind-" ++ q.kind]
  let addTag (tags : List String) (t : String) : List String := if tags.contains t then tags else t :: tags
  for (op, implObs) in c.ops do
    if spec == "ok" && implObs.any (fun l => l == ["not-quiescent"]) then spec := "fail:engine-not-quiescent"
    match op with
    | "emitsync" :: toks =>
      match parseRow toks with
      | none => obs := obs ++ [[["bad-row"]]]
      | some row =>
        obs := obs ++ [[("after" :: renderRow (afterOf q row))]]
        if inPlaceWrites q row then tags := addTag tags "copy-before-write-needed"
        if spec == "ok" && implObs != [("after" :: renderRow row)] then spec := "fail:caller-row-modified-by-EmitSync"
    | "emitall" :: toks =>
      match splitRows toks with
      | some (rows, []) =>
        obs := obs ++ [[("after" :: renderValue (.list (rows.map fun r => .map (afterOf q r)))), ["sinkrows", "t"]]]
        if rows.any (inPlaceWrites q) then tags := addTag tags "copy-before-write-needed"
        tags := addTag tags (if q.window then "emit-window-path" else "emit-direct-path")
        if spec == "ok" then
          if implObs.filter (fun l => l.head? == some "after") != [("after" :: renderValue (.list (rows.map Value.map)))] then
            spec := "fail:caller-row-modified-by-Emit"
          else if !implObs.contains ["sinkrows", "t"] then spec := "fail:sink-row-altered-after-delivery"
      | _ => obs := obs ++ [[["bad-rows"]]]
    | "paired" :: _ =>
      obs := obs ++ [[["pairedA", "t"], ["pairedB", "t"]]]
      tags := addTag tags "paired"
      if spec == "ok" && !(implObs.contains ["pairedA", "t"] && implObs.contains ["pairedB", "t"]) then
        spec := "fail:instance-output-depends-on-the-other-instance"
    | _ => obs := obs ++ [[["bad-op"]]]
  return { obs := obs, spec := spec, tags := tags }

end DrvC20
