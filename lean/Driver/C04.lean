import Driver.Proto
import Driver.KeysCommon
import SsqlVerif.Model.GroupKey
import SsqlVerif.Model.GroupPartition
import SsqlVerif.Model.Counting
import SsqlVerif.Spec.GroupBy
import SsqlVerif.Spec.Counting
set_option autoImplicit false
open Proto GroupKey

/-
Driver of C04.  Case modes (cfg `mode`):
  enc : ops `enc <agg|counting|session|global> v…`      obs `k <hex key>`
  agg : ops `row <id> v…`, then `results`                 obs `g v… c <count> ids <id…>` (sorted lines)
  cnt / glb : the same through SQL with CountingWindow(N) / GLOBAL WINDOW TRIGGER WHEN count(*) >= N
Value tokens: n (NULL) m (missing) s:<hex> i:<dec> b:t|f x:<bits>:<hex 'f' rendering>:<hex %v rendering>.
-/
namespace DrvC04
open DrvKeys

def encOf (which : String) (t : List Val) : List Char :=
  match which with
  | "agg" => encAggregator t
  | "counting" => encCounting t
  | "session" => encSession t
  | "sessionS" => encSession t     -- the same tuple handed over as a Go struct with string fields
  | _ => encGlobal t

/-- the encoders of the unrepaired tree, only used to tag cases that sit on an old collision -/
def joinWith (sep : List Char) : List (List Char) → List Char
  | [] => []
  | [x] => x
  | x :: xs => x ++ sep ++ joinWith sep xs

def oldBar (t : List Val) : List Char :=
  joinWith ['|'] (t.map fun v => (renderCast v).getD [])

def oldAgg (t : List Val) : List Char :=
  t.flatMap fun v => (match renderV v with | none => aggNull | some s => s) ++ aggSep

/-- model of SQL + CountingWindow(N): window batches per encoded key, each batch through the aggregator -/
def cntResults (n : Nat) (rows : List Row) : List (List Val × List Int) :=
  let ems := Counting.run n [] (rows.map fun r => Counting.Op.row (encCounting r.1) r)
  ems.flatMap fun e => aggResults e.2

/-- model of a session window that never expires + `Trigger()`: one batch per encoded session key,
each batch through the aggregator -/
def sesResults (rows : List Row) : List (List Val × List Int) :=
  let sessions := GroupPart.groups encSession (rows.map fun r => (r.1, r))
  sessions.flatMap fun e => aggResults e.2.2

/-- model of GLOBAL WINDOW TRIGGER WHEN count(*) >= N: running state per encoded key, purged on fire;
the reported key values are those of the row that fired -/
def glbResults (n : Nat) (rows : List Row) : List (List Val × List Int) :=
  let ems := Counting.run n [] (rows.map fun r => Counting.Op.row (encGlobal r.1) r)
  ems.map fun e => (normTuple ((e.2.getLast?.map Prod.fst).getD []), e.2.map Prod.snd)

/-- C04 on SQL results of per-key windows: no row in two results, every member has the reported
tuple, each result aggregates exactly N rows, and per tuple the results are its full chunks -/
def windowSpec (n : Nat) (rows : List Row) (res : List (List Val × Nat × List Int)) : String :=
  let nrows := normRows rows
  let allIds := res.flatMap fun r => r.2.2
  if !(allIds.eraseDups.length == allIds.length) then "fail:row-in-two-results"
  else if !(res.all fun r => r.2.2.all fun i => nrows.any fun x => x.2 == i && x.1 == r.1) then "fail:row-in-foreign-group"
  else if !(res.all fun r => r.2.1 == n && r.2.2.length == n) then "fail:batch-not-N-rows-of-one-tuple"
  else
    let tuples := (nrows.map Prod.fst).eraseDups
    let ok := tuples.all fun t =>
      let want := CountingSpec.fullChunks n (CountingSpec.rowsOf nrows t)
      let got := (res.filter fun r => r.1 == t).map fun r => r.2.2
      (sortLines (want.map fun c => c.map toString)) == (sortLines (got.map fun c => c.map toString))
    if ok then "ok" else "fail:tuple-results-differ-from-chunks"

/-- consecutive chunks of `n` rows (the last one may be shorter: the harness flushes it with sentinel rows) -/
def chunksFuel {α : Type} (n : Nat) : Nat → List α → List (List α)
  | 0, _ => []
  | f + 1, l => if l.isEmpty then [] else l.take n :: chunksFuel n f (l.drop n)

def chunksOf {α : Type} (n : Nat) (l : List α) : List (List α) :=
  if n == 0 then [l] else chunksFuel n l.length l

/-- model of SQL + CountingWindow(N) with dotted GROUP BY columns: a bare dotted column gives the window no key part (NULL;
existing tests pin that, C09's recorded finding), a function key keeps its value; batches per masked key, each through the
aggregator.  The harness ends with N sentinel rows: they complete the last batch only when they share its window key, i.e.
when no key is a function key. -/
def dcntBatches (n : Nat) (fns : List String) (rows : List Row) : List (List Row) :=
  let mask (t : List Val) : List Val := (t.zip fns).map fun p => if p.2 == "-" then Val.null else p.1
  let ops := rows.map fun r => Counting.Op.row (encCounting (mask r.1)) r
  let sent : List (Counting.Op (List Char) Row) :=
    if fns.all (· == "-") then (List.range n).map fun (i : Nat) => Counting.Op.row (encCounting (fns.map fun _ => Val.null)) (([] : List Val), -(Int.ofNat i + 1))
    else []
  let ems := Counting.run n [] (ops ++ sent)
  (ems.map fun e => e.2.filter (fun r => decide (0 ≤ r.2))).filter (fun b => !b.isEmpty)

def dcntLines (n : Nat) (fns : List String) (rows : List Row) : List (List String) :=
  (dcntBatches n fns rows).flatMap fun ch => ["b"] :: sortLines ((aggResults ch).map resultLine)

/-- split the implementation's lines at the `b` markers -/
def splitBatches (ls : List (List String)) : List (List (List String)) :=
  ls.foldl (fun acc l => if l == ["b"] then acc ++ [[]] else
    match acc.reverse with
    | [] => [[l]]
    | last :: rest => rest.reverse ++ [last ++ [l]]) []

/-- C04 on batches whose composition is not the property's business: inside every batch the result rows are the partition
of the batch's rows by tuple; no row is reported twice or lost -/
def dottedSpec (rows : List Row) (ls : List (List String)) : String :=
  match (splitBatches ls).mapM (fun b => b.mapM parseResult) with
  | none => "fail:unreadable-result"
  | some batches =>
    let nrows := normRows rows
    let allIds := batches.flatMap fun b => b.flatMap fun r => r.2.2
    if !(batches.all fun b => b.all fun r => r.2.1 == r.2.2.length) then "fail:count-differs-from-members"
    else if !(allIds.eraseDups.length == allIds.length) then "fail:row-in-two-results"
    else if !(batches.all fun b =>
        let ids := b.flatMap fun r => r.2.2
        GroupBy.partitionHolds (nrows.filter fun x => ids.contains x.2) (b.map fun r => (r.1, r.2.2))) then "fail:not-the-partition-by-tuple"
    else "ok"

def run (c : Case) : CaseOut := Id.run do
  let mode := cfgGet c "mode" "enc"
  let n := (cfgGet c "n" "1").toNat?.getD 1
  let mut obs : List (List (List String)) := []
  let mut spec := "ok"
  let mut tags : List String := []
  let mut rows : List Row := []
  let mut encs : List (String × List Val × List String) := []   -- which, tuple, impl key obs
  for (op, implObs) in c.ops do
    match op with
    | "enc" :: which :: vs =>
      match parseVals vs with
      | none => obs := obs ++ [[["bad-op"]]]
      | some t =>
        obs := obs ++ [[["k", hex (encOf which t)]]]
        encs := encs ++ [(which, t, implObs.headD [])]
    | "row" :: id :: vs =>
      match parseVals vs, id.toInt? with
      | some t, some i => rows := rows ++ [(t, i)]; obs := obs ++ [[]]
      | _, _ => obs := obs ++ [[["bad-op"]]]
    | ["results"] =>
      if mode == "dcnt" then
        obs := obs ++ [dcntLines n ((c.cfg.find? fun l => l.head? == some "fns").map (·.drop 1) |>.getD []) rows]
        let v := dottedSpec rows implObs
        if v != "ok" then spec := v
        continue
      let res := match mode with
        | "agg" => aggResults rows
        | "ses" => sesResults rows
        | "cnt" => cntResults n rows
        | "fcnt" => if cfgGet c "win" "cnt" == "glb" then glbResults n rows else cntResults n rows   -- the row ops carry the tuple of function values
        | _ => glbResults n rows
      obs := obs ++ [sortLines (res.map resultLine)]
      -- the oracle: the property evaluated on the implementation's result rows
      match implObs.mapM parseResult with
      | none => spec := "fail:unreadable-result"
      | some ires =>
        if mode == "agg" || mode == "ses" then
          if !(ires.all fun r => r.2.1 == r.2.2.length) then spec := "fail:count-differs-from-members"
          else if !(GroupBy.partitionHolds (normRows rows) (ires.map fun r => (r.1, r.2.2))) then
            spec := "fail:not-the-partition-by-tuple"
        else
          let v := windowSpec n rows ires
          if v != "ok" then spec := v
    | _ => obs := obs ++ [[["bad-op"]]]
  -- encoder oracle: on the implementation's keys, equal key ↔ equal tuple (same encoder, same arity)
  for (w, t, k) in encs do
    for (w', t', k') in encs do
      if w == w' && t.length == t'.length then
        let same := normTuple t == normTuple t'
        if same && k != k' && spec == "ok" then spec := "fail:equal-tuples-split-" ++ w
        if !same && k == k' && spec == "ok" then spec := "fail:distinct-tuples-merged-" ++ w
  -- input distribution
  let tuples := (encs.map fun e => e.2.1) ++ rows.map Prod.fst
  let ntuples := (tuples.map normTuple).eraseDups
  let pairs := ntuples.flatMap fun a => ntuples.filterMap fun b => if a != b && a.length == b.length then some (a, b) else none
  if pairs.any fun p => oldBar p.1 == oldBar p.2 then tags := "old-bar-collision" :: tags
  if pairs.any fun p => oldAgg p.1 == oldAgg p.2 then tags := "old-agg-collision" :: tags
  if tuples.any fun t => t.any fun v => v == .null || v == .missing then tags := "has-null" :: tags
  if tuples.any fun t => t.any fun v => v == .str [] then tags := "has-empty-string" :: tags
  if tuples.any fun t => t.isEmpty then tags := "arity-0" :: tags
  tags := ("mode-" ++ mode) :: tags
  return { obs := obs, spec := spec, tags := tags }

end DrvC04
