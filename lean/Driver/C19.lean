import Driver.Proto
import SsqlVerif.Model.Ingest
import SsqlVerif.Spec.Ingest
set_option autoImplicit false
open Proto

/-!
Driver of C19: replays a schedule (`step <thread>`, `tick`, `run <thread> <point> <max>`, `q`,
`stats`) on `Model/Ingest` and prints, per op, where every thread that moved is parked now, the
rows handed to query processing and the counters — the same lines the harness scheduler prints
for the real goroutines.  What Go leaves open inside one step (`select` with several ready
cases) is resolved with the implementation's own answer as a witness: the op is evaluated under
a few witness preference orders and the first whose lines equal the implementation's is taken
(trace inclusion); the default order is "ready data, then done, then timers".
Threads released into a lock that is not available stay *pending* and continue by themselves
when the model enables them (readers wait behind a waiting writer, as `sync.RWMutex` does).
IO glue of the correspondence check; nothing here is part of a theorem.
-/
namespace DrvC19
open Ingest

structure D where
  c     : Cfg
  s     : State
  nprod : Nat
  rows  : Nat
  pend  : List Tid := []
  rr    : Nat := 0
  stopUsed : Bool := false

/-- accumulated effects of one op -/
structure Acc where
  d       : D
  touched : List Tid := []
  newPend : List Tid := []
  lines   : List (List String) := []

def cfgTok (c : Case) (k : String) : List String :=
  match c.cfg.find? (fun l => l.head? == some k) with
  | some (_ :: v) => v
  | _ => []

def cfgNat (c : Case) (k : String) (d : Nat) : Nat :=
  match cfgTok c k with
  | v :: _ => (parseNat v).getD d
  | _ => d

def cfgNat2 (c : Case) (k : String) (d : Nat × Nat) : Nat × Nat :=
  match cfgTok c k with
  | a :: b :: _ => ((parseNat a).getD d.1, (parseNat b).getD d.2)
  | _ => d

def parseStrat : List String → Strat
  | "block" :: _ => .block
  | "expand" :: _ => .expand
  | _ => .drop

def mkCfg (c : Case) : Cfg :=
  { strat := parseStrat (cfgTok c "strat"), cap0 := cfgNat c "cap" 1, maxCap := cfgNat c "max" 0,
    growNum := (cfgNat2 c "grow" (0, 1)).1, growDen := (cfgNat2 c "grow" (0, 1)).2,
    minInc := cfgNat c "mininc" 0, thrNum := (cfgNat2 c "thr" (0, 1)).1, thrDen := (cfgNat2 c "thr" (0, 1)).2,
    timeout := cfgTok c "timeout" == ["t"], consLock := cfgTok c "conslock" != ["f"] }

def tidName : Tid → String
  | .prod i => s!"p{i}"
  | .cons => "cons"
  | .stop => "stop"

def parseTid (s : String) : Option Tid :=
  if s == "cons" then some .cons
  else if s == "stop" then some .stop
  else match s.toList with
    | 'p' :: r => (parseNat (String.ofList r)).map Tid.prod
    | _ => none

def pcPoint : PC → String
  | .idle => "emit.call"
  | .sendLock _ => "send.lock"
  | .sendSend _ => "send.send"
  | .expEnter => "expand.enter"
  | .expRead => "expand.read"
  | .expWLock _ => "expand.wlock"
  | .expMig => "expand.mig"
  | .expDone => "expand.done"
  | .expRetry _ => "expand.retry"
  | .dropGet => "drop.get"
  | .dropRetry _ _ => "drop.retry"
  | .blockGet => "block.get"
  | .blockSend _ => "block.send"

def prodOf (d : D) (i : Nat) : Option Prod := d.s.prods[i]?

def finished (d : D) : Tid → Bool
  | .prod i => match prodOf d i with
    | some p => p.pc == .idle && decide (d.rows ≤ p.next)
    | none => true
  | .cons => d.s.cons == .cExit
  | .stop => d.s.stopPc == .sWait || d.s.stopPc == .sRet

def pointOf (d : D) : Tid → String
  | .prod i => match prodOf d i with
    | some p => if p.pc == .idle && decide (d.rows ≤ p.next) then "fin" else pcPoint p.pc
    | none => "none"
  | .cons => match d.s.cons with
    | .cRead => "cons.read"
    | .cHold _ => "cons.recv"
    | .cExit => "fin"
  | .stop => match d.s.stopPc with
    | .sIdle => "stop.call"
    | .sFlag => "stop.flag"
    | .sDone => "stop.done"
    | .sNil => "stop.nil"
    | .sWait => "stop.wait"
    | .sRet => "fin"

/-- the thread's next step starts with `RLock` -/
def acquiresRead (d : D) : Tid → Bool
  | .prod i => match prodOf d i with
    | some p => match p.pc with
      | .sendLock _ => true
      | .expRead => true
      | .dropGet => true
      | .blockGet => true
      | _ => false
    | none => false
  | .cons => d.s.cons == .cRead
  | .stop => false

/-- the thread's next step starts with `Lock` -/
def wantsWrite (d : D) : Tid → Bool
  | .prod i => match prodOf d i with
    | some p => match p.pc with
      | .expWLock _ => true
      | _ => false
    | none => false
  | .cons => false
  | .stop => d.s.stopPc == .sDone

def writerPending (d : D) : Bool := d.pend.any (wantsWrite d)

/-- model step + `sync.RWMutex`'s writer preference -/
def enabled (d : D) (t : Tid) (w : Wit) : Option State :=
  if acquiresRead d t && writerPending d then none else step d.c d.s t w

def firstEnabled (d : D) (t : Tid) (pref : List Wit) : Option State :=
  pref.findSome? (fun w => enabled d t w)

def heldEmpty (d : D) : Bool :=
  match d.s.cons with
  | .cHold h => match d.s.chans[h]? with
    | some ch => ch.buf.isEmpty
    | none => true
  | _ => false

/-- the harness never lets the two writers (expander, Stop) contend for the lock -/
def contention (d : D) : Tid → Bool
  | .stop => d.s.stopPc == .sDone &&
      (d.s.prods.any (fun p => match p.pc with
        | .expWLock _ => true
        | .expMig => true
        | _ => false))
  | .prod i => wantsWrite d (.prod i) && d.pend.contains .stop
  | .cons => false

def release (pref : List Wit) (a : Acc) (t : Tid) : Acc :=
  match firstEnabled a.d t pref with
  | some s' => { a with d := { a.d with s := s' }, touched := a.touched ++ [t] }
  | none => { a with d := { a.d with pend := a.d.pend ++ [t] }, newPend := a.newPend ++ [t] }

/-- threads that continue by themselves: the consumer between processing a row and reading the
pointer again, and pending threads whose lock became available (in the order they blocked) -/
def autoLoop (pref : List Wit) : Nat → Acc → Acc
  | 0, a => a
  | fuel + 1, a =>
    if a.d.s.cons == .cRead && !a.d.pend.contains .cons then autoLoop pref fuel (release pref a .cons)
    else match a.d.pend.find? (fun t => (firstEnabled a.d t pref).isSome) with
      | some t => autoLoop pref fuel (release pref { a with d := { a.d with pend := a.d.pend.erase t } } t)
      | none => a

def threadOrder (d : D) : List Tid := (List.range d.nprod).map Tid.prod ++ [.cons, .stop]

def rowLine (tag : String) (r : Row) : List String := [tag, toString r.prod, toString r.seq]

/-- lines of one internal step: calls/returns of Emit, processed rows, where threads are now -/
def stepLines (before : D) (a : Acc) : List (List String) :=
  let d := a.d
  let calls := (List.range d.nprod).filterMap fun i =>
    match prodOf before i, prodOf d i with
    | some p, some q => if p.next < q.next then some (rowLine "emit" ⟨i, p.next⟩) else none
    | _, _ => none
  let procs := (d.s.processed.drop before.s.processed.length).map (rowLine "proc")
  let rets := (List.range d.nprod).filterMap fun i =>
    match prodOf before i, prodOf d i with
    | some p, some q =>
      if q.cur.isNone && (p.cur.isSome || p.next < q.next) then some (rowLine "ret" ⟨i, q.next - 1⟩) else none
    | _, _ => none
  let ths := (threadOrder d).filterMap fun t =>
    if d.pend.contains t && a.newPend.contains t then some ["th", tidName t, "blocked"]
    else if a.touched.contains t && !d.pend.contains t then some ["th", tidName t, pointOf d t]
    else none
  calls ++ procs ++ rets ++ ths

def heldLen (d : D) : String :=
  match d.s.cons with
  | .cHold h => match d.s.chans[h]? with
    | some ch => toString ch.buf.length
    | none => "-"
  | _ => "-"

def stLine (d : D) : List String :=
  ["st", toString d.s.input, toString d.s.dropped.length, toString (curLen d.s), toString (curCap d.s), heldLen d]

def prefs : List (List Wit) :=
  [[.send, .recv, .done, .timer, .tick],
   [.done, .send, .recv, .timer, .tick],
   [.timer, .tick, .send, .recv, .done],
   [.send, .recv, .timer, .tick, .done],
   [.done, .timer, .tick, .send, .recv]]

def defaultPref : List Wit := [.send, .recv, .done, .timer, .tick]

def isPrefixOf (a b : List (List String)) : Bool := a == b.take a.length

/-- one scheduler step of thread `t` under one witness preference -/
def doStepP (pref : List Wit) (d : D) (t : Tid) (tick : Bool) : D × List (List String) :=
  if finished d t || d.pend.contains t || contention d t then (d, [["th", tidName t, "skip"], stLine d])
  else if t == .cons && !tick && heldEmpty d then (d, [["th", "cons", "skip-empty"], stLine d])
  else
    let a := autoLoop pref 64 (release pref { d := d } t)
    (a.d, stepLines d a ++ [stLine a.d])

/-- one scheduler step (the harness's `doStep`): the witness preference is the first one whose
lines are what the implementation printed next; `rest` = the implementation's remaining lines -/
def doStep (d : D) (t : Tid) (tick : Bool) (rest : List (List String)) : D × List (List String) :=
  match prefs.findSome? (fun pref => let r := doStepP pref d t tick; if isPrefixOf r.2 rest then some r else none) with
  | some r => r
  | none => doStepP defaultPref d t tick

def steppable (d : D) (t : Tid) : Bool :=
  !(finished d t) && !d.pend.contains t && !contention d t && !(t == .cons && heldEmpty d)

def runLoop (t : Tid) (point : String) : Nat → D → List (List String) → List (List String) → D × List (List String)
  | 0, d, acc, _ => (d, acc)
  | n + 1, d, acc, rest =>
    if pointOf d t == point || !steppable d t then (d, acc)
    else
      let (d', ls) := doStep d t false rest
      runLoop t point n d' (acc ++ ls) (rest.drop ls.length)

def qOrder (d : D) : List Tid := (List.range d.nprod).map Tid.prod ++ [.cons]

/-- one step of the quiescing policy: round-robin over producers and consumer -/
def doQ (d : D) (rest : List (List String)) : D × List (List String) :=
  let order := qOrder d
  let n := order.length
  let pick := (List.range n).findSome? fun k =>
    let idx := (d.rr + k) % n
    match order[idx]? with
    | some t => if steppable d t then some (idx, t) else none
    | none => none
  match pick with
  | some (idx, t) =>
    let (d', ls) := doStep d t false rest
    ({ d' with rr := idx + 1 }, ls)
  | none =>
    if !(finished d .cons) && !d.pend.contains .cons && heldEmpty d && decide (0 < curLen d.s) then
      doStep d .cons true rest
    else (d, [["idle"]])

/-- `q n`: up to `n` steps of the policy, stopping at the first idle round -/
def qLoop : Nat → D → List (List String) → List (List String) → D × List (List String)
  | 0, d, acc, _ => (d, acc)
  | n + 1, d, acc, rest =>
    let (d', ls) := doQ d rest
    if ls == [["idle"]] then (d', acc ++ ls) else qLoop n d' (acc ++ ls) (rest.drop ls.length)

def statsSafe (d : D) : Bool := !(wHeld d.s) && !(writerPending d)

def allRet (d : D) : Bool := allIdle d.s

/-- one op; `impl` = the lines the implementation printed for it -/
def doOpW (d : D) (op : List String) (impl : List (List String)) : D × List (List String) :=
  match op with
  | ["step", t] =>
    match parseTid t with
    | some t =>
      let (d', ls) := doStep d t false impl
      ({ d' with stopUsed := d'.stopUsed || t == .stop }, ls)
    | none => (d, [["bad-op"]])
  | ["tick"] =>
    doStep d .cons true impl
  | ["run", t, point, mx] =>
    match parseTid t, parseNat mx with
    | some t, some mx =>
      runLoop t point mx d [] impl
    | _, _ => (d, [["bad-op"]])
  | ["q", n] =>
    qLoop ((parseNat n).getD 0) d [] impl
  | ["free", _, _] => (d, impl)   -- free-running stress: nothing to predict, only the oracle applies
  | ["stats"] =>
    if statsSafe d then
      (d, [["stats", toString d.s.input, toString d.s.dropped.length, toString (curLen d.s), toString (curCap d.s),
            boolTok (allRet d)]])
    else (d, [["stats", "unsafe"]])
  | _ => (d, [["bad-op"]])

def initD (c : Case) : D :=
  let cfg := mkCfg c
  let n := cfgNat c "nprod" 1
  let d : D := { c := cfg, s := init cfg n, nprod := n, rows := cfgNat c "rows" 1 }
  -- the consumer goroutine runs to its first `cons.recv`
  (autoLoop defaultPref 8 { d := d }).d

/-! ### the oracle: `IngestSpec` on the implementation's lines -/

structure Look where
  calls : List IngestSpec.Row := []
  rets  : List IngestSpec.Row := []
  procs : List IngestSpec.Row := []
  stopped : Bool := false
  lastSeq : List (Nat × Nat) := []      -- per producer: sequence number of its last processed row
  lastCap : Option Nat := none
  verdict : String := "ok"

def kfgOf (c : Cfg) : IngestSpec.Kfg :=
  { block := c.strat == .block, timeout := c.timeout, cap0 := c.cap0, maxCap := c.maxCap }

def rowOf (p k : String) : Option IngestSpec.Row := do
  let p ← parseNat p; let k ← parseNat k
  some (p, k)

def firstFail (k : IngestSpec.Kfg) (o : IngestSpec.Obs) : Option String :=
  ((IngestSpec.clauses k o).find? (fun x => !x.2)).map (·.1)

def lookLine (k : IngestSpec.Kfg) (lk : Look) (l : List String) : Look :=
  match l with
  | ["emit", p, q] => match rowOf p q with
    | some r => { lk with calls := lk.calls ++ [r] }
    | none => lk
  | ["ret", p, q] => match rowOf p q with
    | some r => { lk with rets := lk.rets ++ [r] }
    | none => lk
  | ["proc", p, q] => match rowOf p q with
    | some r =>
      -- order is checked as soon as a row is processed (incrementally; the full clauses run at `stats`)
      let prev := (lk.lastSeq.find? (fun x => x.1 == r.1)).map (·.2)
      let bad := match prev with
        | some k => decide (r.2 ≤ k)
        | none => false
      let lk := { lk with procs := lk.procs ++ [r], lastSeq := (r.1, r.2) :: lk.lastSeq.filter (fun x => x.1 != r.1) }
      if lk.verdict != "ok" then lk
      else if bad then { lk with verdict := "fail:order" }
      else if !lk.calls.contains r then { lk with verdict := "fail:once-only" }
      else lk
    | none => lk
  | ["th", "stop", pt] => if pt == "skip" then lk else { lk with stopped := true }
  | ["stats", i, dr, ln, cp, _] =>
    match parseNat i, parseNat dr, parseNat ln, parseNat cp with
    | some i, some dr, some ln, some cp =>
      let o : IngestSpec.Obs := { calls := lk.calls, rets := lk.rets, procs := lk.procs, input := i,
                                  dropped := dr, len := ln, cap := cp, stopped := lk.stopped }
      let v := if lk.verdict != "ok" then lk.verdict
        else match firstFail k o with
          | some cl => "fail:" ++ cl
          | none =>
            match lk.lastCap with
            | some c0 => if !lk.stopped && decide (cp < c0) then "fail:capacity-shrank" else "ok"
            | none => "ok"
      { lk with verdict := v, lastCap := some cp }
    | _, _, _, _ => lk
  | _ => lk

def run (c : Case) : CaseOut := Id.run do
  -- option plumbing: a strategy name outside {drop, block, expand} is refused at Execute
  if c.cfg.any (fun l => l.head? == some "badstrat") then
    let refused := c.ops.all fun (_, o) => o == [["refused"]]
    return { obs := c.ops.map fun _ => [["refused"]], spec := if refused then "ok" else "fail:unknown-strategy-name-accepted",
             tags := ["strategy-name-not-canonical"] }
  let mut d := initD c
  let k := kfgOf d.c
  let mut obs : List (List (List String)) := []
  let mut lk : Look := {}
  let mut tags : List String := []
  for (op, implObs) in c.ops do
    let (d', ls) := doOpW d op implObs
    d := d'
    obs := obs ++ [ls]
    for l in implObs do
      lk := lookLine k lk l
    for l in ls do
      let tag := match l with
        | ["th", _, pt] => some pt
        | ["stats", _, _, _, _, q] => some ("stats-quiescent-" ++ q)
        | ["anomaly-unreproduced", w] => some ("free-anomaly-unreproduced-" ++ w)
        | _ => none
      match tag with
      | some t => unless tags.contains t do tags := t :: tags
      | none => pure ()
  if d.s.dropped.length > 0 then tags := "dropped" :: tags
  if d.s.chans.length > 1 then tags := "expanded" :: tags
  if d.s.chans.length > 2 then tags := "expanded-twice" :: tags
  -- the harness compares the overflow options in effect with the configured ones before the schedule starts
  let specV := if (c.ops.flatMap (·.2)).any (fun l => l == ["cfg-not-in-effect"]) then "fail:configured-overflow-option-not-in-effect(block-without-timeout)" else lk.verdict
  return { obs := obs, spec := specV, tags := tags }

end DrvC19
