import Driver.Proto
import SsqlVerif.Model.Cep
import SsqlVerif.Spec.Cep
set_option autoImplicit false
open Proto

/-
Driver for C15 (MATCH_RECOGNIZE).  IO glue of the correspondence check: parses the case,
runs `Cep.step` on the ops, renders the emitted matches through the MEASURES the harness asks
for, and evaluates `Cep.Spec.holds` on the implementation's obs lines.

cfg lines:  mode direct|sql · rows one|all · skip past|next|first <sym|->|last <sym|->
            within <n> · maxrows <n> · cls t|f · pat <prefix tokens> · def <sym> <atoms…>
ops:        new · row <part-hex> <id> <ts> <c> <v> · flush
obs:        ok|err (new) · m <part> <mn> <fid> <lid> <n> <idsum> <sv> <cls|->   (ONE ROW PER MATCH)
            r <part> <mn> <id> <cls|-> <running n> <running idsum>                (ALL ROWS PER MATCH)
-/
namespace DrvC15
open Cep

structure Row where
  id : Nat
  part : String
  ts : Int
  c : Int
  v : Int
  w : Option Int := some 1     -- `none`: the column holds a string, every comparison with it raises an evaluation error
  deriving Repr, Inhabited

/-! ### pattern tokens (prefix form of `types.PatternNode`) -/

partial def parsePat : List String → Option (PNode × List String)
  | "L" :: a :: rest => a.toNat?.map fun n => (.lit n, rest)
  | "X" :: rest => some (.exclusion, rest)
  | "R" :: mn :: mx :: g :: rest => do
    let mn ← mn.toInt?; let mx ← mx.toInt?
    let (c, rest) ← parsePat rest
    some (.rep c mn mx (g == "g"), rest)
  | k :: n :: rest =>
    if k == "S" || k == "A" || k == "G" || k == "P" then do
      let n ← n.toNat?
      let mut cs : List PNode := []
      let mut r := rest
      for _ in [0:n] do
        let (c, r') ← parsePat r
        cs := cs ++ [c]
        r := r'
      let node := if k == "S" then PNode.seq cs else if k == "A" then .alt cs else if k == "G" then .group cs else .permute cs
      some (node, r)
    else none
  | _ => none

/-! ### DEFINE conditions: conjunctions of comparisons over a few terms (evaluated by the Go
side through `expr`; NULL operand ⇒ the comparison is not true) -/

inductive Term where
  | v | c | w | k (n : Int)
  | prev (n : Nat)                 -- PREV(v, n)
  | sum (a : Option Sym)           -- SUM(v) / SUM(X.v)
  | cnt (a : Option Sym)           -- COUNT(*) / COUNT(X.*)
  | symField (a : Sym)             -- X.v
  | mx (a : Option Sym)            -- MAX(v) / MAX(X.v)
  | mn (a : Option Sym)
  | first                          -- FIRST(v)
  deriving Repr

/-- the variables whose classification (of earlier rows or of the candidate) the term looks at -/
def termSyms : Term → List Sym
  | .sum (some a) | .cnt (some a) | .symField a | .mx (some a) | .mn (some a) => [a]
  | _ => []

structure Atom where
  op : String
  l : Term
  r : Term
  deriving Repr

def dropStr (s : String) (n : Nat) : String := String.ofList (s.toList.drop n)

def parseSymOpt (s : String) : Option (Option Sym) :=
  if s == "" then some none else s.toNat?.map some

def parseTerm (s : String) : Option Term :=
  if s == "v" then some .v
  else if s == "c" then some .c
  else if s == "w" then some .w
  else if s == "first" then some .first
  else if s.startsWith "k" then (dropStr s 1).toInt?.map .k
  else if s.startsWith "pv" then (dropStr s 2).toNat?.map .prev
  else if s.startsWith "sum" then (parseSymOpt (dropStr s 3)).map .sum
  else if s.startsWith "cnt" then (parseSymOpt (dropStr s 3)).map .cnt
  else if s.startsWith "max" then (parseSymOpt (dropStr s 3)).map .mx
  else if s.startsWith "min" then (parseSymOpt (dropStr s 3)).map .mn
  else if s.startsWith "sf" then (dropStr s 2).toNat?.map .symField
  else none

def parseAtoms : List String → Option (List Atom)
  | [] => some []
  | op :: l :: r :: rest => do
    let l ← parseTerm l; let r ← parseTerm r
    let more ← parseAtoms rest
    some ({ op := op, l := l, r := r } :: more)
  | _ => none

def labelOK (a : Option Sym) (l : Sym) : Bool := match a with | none => true | some x => x == l

/-- rows the aggregates range over in DEFINE: history plus the candidate with its tentative label -/
def scope (hist : List (Row × Sym)) (cand : Row) (lbl : Sym) : List (Row × Sym) := hist ++ [(cand, lbl)]

def evalTerm (hist : List (Row × Sym)) (cand : Row) (lbl : Sym) : Term → Option Int
  | .v => some cand.v
  | .c => some cand.c
  | .w => cand.w
  | .k n => some n
  | .prev n => if n == 0 || hist.length < n then none else (hist[hist.length - n]?).map (·.1.v)
  | .sum a => some (((scope hist cand lbl).filter (fun x => labelOK a x.2)).foldl (fun s x => s + x.1.v) 0)
  | .cnt a => some (((scope hist cand lbl).filter (fun x => labelOK a x.2)).length)
  | .symField a => (((scope hist cand lbl).filter (fun x => x.2 == a)).getLast?).map (·.1.v)
  | .mx a => match ((scope hist cand lbl).filter (fun x => labelOK a x.2)).map (·.1.v) with
    | [] => none
    | x :: xs => some (xs.foldl max x)
  | .mn a => match ((scope hist cand lbl).filter (fun x => labelOK a x.2)).map (·.1.v) with
    | [] => none
    | x :: xs => some (xs.foldl min x)
  | .first => ((scope hist cand lbl).head?).map (·.1.v)

def evalAtom (hist : List (Row × Sym)) (cand : Row) (lbl : Sym) (a : Atom) : Bool :=
  match evalTerm hist cand lbl a.l, evalTerm hist cand lbl a.r with
  | some x, some y =>
    if a.op == "eq" then x == y else if a.op == "ne" then x != y
    else if a.op == "gt" then decide (x > y) else if a.op == "ge" then decide (x ≥ y)
    else if a.op == "lt" then decide (x < y) else if a.op == "le" then decide (x ≤ y) else false
  | _, _ => false

def defineOf (defs : List (Sym × List Atom)) (a : Sym) (hist : List (Row × Sym)) (cand : Row) : Bool :=
  match defs.find? (fun d => d.1 == a) with
  | none => true
  | some d => d.2.all (evalAtom hist cand a)

/-! ### case configuration -/

structure Conf where
  sql : Bool := false
  allRows : Bool := false
  skip : Skip := .pastLast
  within : Int := 0
  maxRows : Option Nat := none
  showCls : Bool := false
  pat : Option PNode := none
  defs : List (Sym × List Atom) := []
  bad : Bool := false

def parseSkip : List String → Option Skip
  | ["past"] => some .pastLast
  | ["next"] => some .nextRow
  | ["first", s] => if s == "-" then some (.toFirst none) else s.toNat?.map fun n => .toFirst (some n)
  | ["last", s] => if s == "-" then some (.toLast none) else s.toNat?.map fun n => .toLast (some n)
  | _ => none

def parseConf (lines : List (List String)) : Conf := Id.run do
  let mut c : Conf := {}
  for l in lines do
    match l with
    | ["mode", m] => c := { c with sql := m == "sql" }
    | ["rows", m] => c := { c with allRows := m == "all" }
    | "skip" :: rest => match parseSkip rest with
      | some s => c := { c with skip := s }
      | none => c := { c with bad := true }
    | ["within", n] => match n.toInt? with
      | some n => c := { c with within := n }
      | none => c := { c with bad := true }
    | ["maxrows", n] => match n.toNat? with
      | some n => c := { c with maxRows := some n }
      | none => c := { c with bad := true }
    | ["cls", b] => c := { c with showCls := b == "t" }
    | "pat" :: toks => match parsePat toks with
      | some (p, []) => c := { c with pat := some p }
      | _ => c := { c with bad := true }
    | "def" :: s :: toks => match s.toNat?, parseAtoms toks with
      | some s, some atoms => c := { c with defs := c.defs ++ [(s, atoms)] }
      | _, _ => c := { c with bad := true }
    | _ => pure ()
  return c

def modelCfg (cf : Conf) (n : NFA) (lazy : Bool) : Cfg Row :=
  { tbl := n.tbl, start := n.start, lazy := lazy, skip := cf.skip, within := effWithin cf.within,
    maxRunRows := cf.maxRows.getD defaultMaxRunRows, define := defineOf cf.defs, ts := fun r => r.ts }

def specQuery (cf : Conf) (p : Pat) (lazy : Bool) : Spec.Query Row :=
  { pat := p, skip := cf.skip, within := effWithin cf.within, define := defineOf cf.defs,
    ts := fun r => r.ts,
    -- a configured row limit is a guard: with the guard in play only validity is required
    greedy := !lazy && cf.maxRows.isNone,
    keySyms := some (cf.defs.flatMap fun d => d.2.flatMap fun a => termSyms a.l ++ termSyms a.r) }

/-! ### MEASURES projection of a match (what the harness's MEASURES clause asks for) -/

def hexStr (s : String) : String := hex s.toList

def clsTok (cf : Conf) (a : Sym) : String := if cf.showCls then toString a else "-"

def renderMatch (cf : Conf) (key : String) (m : Match Row) : List (List String) :=
  let rows := m.rows
  if cf.allRows then
    (List.range rows.length).map fun i =>
      let pre := rows.take (i + 1)
      let x := rows.getD i (default, 0)
      -- PREV(id) / NEXT(id) in MEASURES are positioned on the row being projected, inside the match (NULL beyond its ends)
      let prevId := if i == 0 then "n" else (match rows[i - 1]? with | some y => toString y.1.id | none => "n")
      let nextId := match rows[i + 1]? with | some y => toString y.1.id | none => "n"
      ["r", hexStr key, toString m.matchNo, toString x.1.id, clsTok cf x.2, toString (i + 1),
       toString (pre.foldl (fun s y => s + y.1.id) 0), prevId, nextId]
  else
    match rows.head?, rows.getLast? with
    | some f, some l =>
      [["m", hexStr key, toString m.matchNo, toString f.1.id, toString l.1.id, toString rows.length,
        toString (rows.foldl (fun s y => s + y.1.id) 0), toString (rows.foldl (fun s y => s + y.1.v) 0),
        clsTok cf l.2]]
    | _, _ => []

/-! ### classification witness

Which of several valid classifications of the same rows is reported is not fixed by the code
(`closure` returns its state set in map order) nor by the property.  Where the implementation
reports a classification of exactly the model's rows and that classification is valid, the
model's match is shown with it (refinement with a witness); otherwise with the model's own. -/

/-- DEFINE with the additional demand that position `n` is classified `a` -/
def defineAt (define : Sym → List (Row × Sym) → Row → Bool) (n : Nat) (a : Sym) (s : Sym) (h : List (Row × Sym)) (r : Row) : Bool :=
  (h.length != n || s == a) && define s h r

def validLastLabel (q : Spec.Query Row) (rows : List Row) (a : Sym) : Bool :=
  ((Spec.walk q.keySyms (defineAt q.define (rows.length - 1) a) q.pat ([], rows)).map (·.1)).any fun m =>
    m.length == rows.length && Spec.withinOK q.ts q.within (m.map (·.1))

def adoptLabels (cf : Conf) (q : Spec.Query Row) (impl : List (List String)) (key : String) (m : Match Row) : Match Row :=
  let k := hexStr key
  let rows := m.rows.map (·.1)
  if cf.allRows then
    let ls := impl.filter fun l => l.head? == some "r" && l.getD 1 "" == k && l.getD 2 "" == toString m.matchNo
    let ids := ls.map fun l => (l.getD 3 "").toNat?.getD 0
    let lbls := ls.filterMap fun l => (l.getD 4 "").toNat?
    if ids == rows.map (·.id) && lbls.length == rows.length && Spec.validLabels q rows lbls then
      { m with rows := rows.zip lbls }
    else m
  else
    match impl.find? (fun l => l.head? == some "m" && l.getD 1 "" == k && l.getD 2 "" == toString m.matchNo) with
    | some l =>
      match (l.getD 8 "").toNat?, (l.getD 6 "").toNat? with
      | some a, some idsum =>
        if idsum == rows.foldl (fun s r => s + r.id) 0 && validLastLabel q rows a then
          { m with rows := (m.rows.take (m.rows.length - 1)) ++ (m.rows.drop (m.rows.length - 1)).map fun x => (x.1, a) }
        else m
      | _, _ => m
    | none => m

/-- stable sort of rendered lines by the partition token (index 1) -/
def insertByKey (l : List String) : List (List String) → List (List String)
  | [] => [l]
  | x :: xs => if decide (x.getD 1 "" ≤ l.getD 1 "") then x :: insertByKey l xs else l :: x :: xs

def sortByKey (ls : List (List String)) : List (List String) := ls.foldl (fun acc l => insertByKey l acc) []

/-! ### reading the implementation's obs lines back into `Spec.Obs` -/

/-- ids are distinct powers of two in arrival order, so a sum of ids is a set of rows -/
partial def bitsOf (n : Nat) (b : Nat := 1) : List Nat :=
  if n == 0 then [] else if n % 2 == 1 then b :: bitsOf (n / 2) (b * 2) else bitsOf (n / 2) (b * 2)

def clsOf (s : String) : Option Sym := s.toNat?

structure RawMatch where
  key : String
  mn : Nat
  ids : List Nat
  labels : Option (List Sym)
  ok : Bool            -- the measures are consistent with the row set
  deriving Repr

/-- ONE ROW PER MATCH line → raw match -/
def rawOfM (rowsByKey : String → List Row) (l : List String) : Option RawMatch :=
  match l with
  | ["m", key, mn, fid, lid, n, idsum, sv, _cls] => do
    let mn ← mn.toNat?; let fid ← fid.toNat?; let lid ← lid.toNat?; let n ← n.toNat?
    let idsum ← idsum.toNat?; let sv ← sv.toInt?
    let ids := bitsOf idsum
    let rows := (rowsByKey key).filter fun r => ids.contains r.id
    let ok := ids.length == n && ids.head? == some fid && ids.getLast? == some lid &&
      rows.length == n && rows.foldl (fun s r => s + r.v) 0 == sv
    some { key := key, mn := mn, ids := ids, labels := none, ok := ok }
  | _ => none

/-- group ALL ROWS PER MATCH lines (consecutive lines of one (partition, match number)) -/
def groupR (ls : List (List String)) : List RawMatch := Id.run do
  let mut out : List RawMatch := []
  let mut cur : Option RawMatch := none
  let mut runSum : Nat := 0
  let mut lastNid : String := "n"
  for l in ls do
    match l with
    | ["r", key, mn, id, cls, n, idsum, pid, nid] =>
      let mn := mn.toNat?.getD 0
      let id := id.toNat?.getD 0
      let n := n.toNat?.getD 0
      let idsum := idsum.toNat?.getD 0
      let startNew := match cur with
        | none => true
        | some c => !(c.key == key && c.mn == mn) || n == 1
      if startNew then
        match cur with
        | some old => out := out ++ [{ old with ok := old.ok && lastNid == "n" }]   -- NEXT of a match's last row is NULL
        | none => pure ()
        cur := some { key := key, mn := mn, ids := [], labels := some [], ok := true }
        runSum := 0
      runSum := runSum + id
      match cur with
      | some c =>
        let lbl := match c.labels, clsOf cls with
          | some ls, some a => some (ls ++ [a])
          | _, _ => none
        -- PREV(id) is the id of the row before this one inside the match (NULL on its first row); the NEXT(id) of the row
        -- before names this row
        let prevOk := match c.ids.getLast? with
          | none => pid == "n"
          | some q => pid == toString q && lastNid == toString id
        cur := some { c with ids := c.ids ++ [id], labels := lbl,
                             ok := c.ok && n == c.ids.length + 1 && idsum == runSum && prevOk }
      | none => pure ()
      lastNid := nid
    | _ => pure ()
  match cur with
  | some c => out := out ++ [{ c with ok := c.ok && lastNid == "n" }]
  | none => pure ()
  return out

def indexOfId (rows : List Row) (id : Nat) : Option Nat :=
  (List.range rows.length).find? fun i => (rows[i]?).map (·.id) == some id

/-- raw match → `Spec.Obs` (or the reason it is not a run of consecutive rows of its partition) -/
def obsOf (rows : List Row) (m : RawMatch) : Except String Spec.Obs :=
  if !m.ok then .error "fail:measures-not-evaluated-on-the-match"
  else match m.ids.head? with
    | none => .error "fail:empty-match"
    | some f => match indexOfId rows f with
      | none => .error "fail:not-rows-of-the-partition"
      | some st =>
        if ((rows.drop st).take m.ids.length).map (·.id) == m.ids then
          .ok { matchNo := m.mn, start := st, len := m.ids.length, labels := m.labels }
        else .error "fail:not-consecutive-rows-of-one-partition"

/-! ### the case -/

def parseRow : List String → Option Row
  | "row" :: part :: id :: ts :: c :: v :: rest => do
    let p ← unhex part
    let id ← id.toNat?; let ts ← ts.toInt?; let c ← c.toInt?; let v ← v.toInt?
    let w : Option Int := match rest with
      | "x" :: _ => none
      | t :: _ => t.toInt?
      | [] => some 1
    some { id := id, part := String.ofList p, ts := ts, c := c, v := v, w := w }
  | _ => none

def distinctKeys (rows : List Row) : List String :=
  rows.foldl (fun acc r => if acc.contains r.part then acc else acc ++ [r.part]) []

def run (c : Case) : CaseOut := Id.run do
  let cf := parseConf c.cfg
  let some pn := cf.pat | return { obs := c.ops.map fun _ => [["bad-cfg"]], spec := "fail:bad-cfg" }
  if cf.bad then return { obs := c.ops.map fun _ => [["bad-cfg"]], spec := "fail:bad-cfg" }
  let lazy := hasReluctant pn
  match lower pn with
  | .error _ =>
    -- `NewEngine` fails; nothing else can happen
    let obs := c.ops.map fun (op, _) => if op == ["new"] then [["err"]] else if op == ["nap"] then [] else [["no-engine"]]
    let implOk := c.ops.all fun (op, o) => op != ["new"] || o == [["err"]]
    return { obs := obs, spec := if implOk then "ok" else "fail:invalid-pattern-accepted", tags := ["compile-error"] }
  | .ok pat =>
    let nfa := compile pat
    let mc := modelCfg cf nfa lazy
    let q := specQuery cf pat lazy
    let mut eng : Engine String Row := {}
    let mut obs : List (List (List String)) := []
    let mut held : List (List String) := []       -- sql mode: everything is shown at `flush`
    let mut allRows : List Row := []
    let mut created := false
    let mut tags : List String := [if lazy then "reluctant" else "greedy",
      (match cf.skip with | .pastLast => "skip-past-last" | .nextRow => "skip-next-row" | .toFirst _ => "skip-to-first" | .toLast _ => "skip-to-last"),
      if cf.allRows then "all-rows" else "one-row", if cf.sql then "sql" else "direct"]
    let tag := fun (ts : List String) (t : String) => if ts.contains t then ts else ts ++ [t]
    -- sql mode: every delivery is shown at the final `flush` op
    let sqlImpl := c.ops.flatMap fun (_, o) => o
    for (op, implObs) in c.ops do
      match op with
      | ["new"] =>
        obs := obs ++ [[["ok"]]]
        created := true
        eng := {}
      | "row" :: _ =>
        if !created then obs := obs ++ [[["no-engine"]]] else
        match parseRow op with
        | none => obs := obs ++ [[["bad-op"]]]
        | some r =>
          allRows := allRows ++ [r]
          let before := getPart eng r.part
          let (e', out) := step mc eng (.row r.part r)
          eng := e'
          let after := getPart eng r.part
          if !out.isEmpty then tags := tag tags "emit-at-row"
          if out.length > 1 then tags := tag tags "several-matches-in-one-step"
          if !after.pending.isEmpty then tags := tag tags "pending-held"
          if after.pending.any (fun p => blocked (after.runs.filter (fun x => x.startSeq != p.startSeq)) p.startSeq) then
            tags := tag tags "pending-held-behind-earlier-start"
          if before.runs.any (fun x => !live mc r.ts x) then tags := tag tags "run-dropped-within-or-length"
          if after.runs.length ≥ 4 then tags := tag tags "runs>=4"
          let lines := out.flatMap fun (k, m) => renderMatch cf k (adoptLabels cf q (if cf.sql then sqlImpl else implObs) k m)
          if cf.sql then
            held := held ++ lines
            obs := obs ++ [[]]
          else obs := obs ++ [lines]
      | ["nap"] => obs := obs ++ [[]]   -- wall-clock time passes: nothing happens (timestamps are small numbers, not epochs)
      | ["flush"] =>
        if !created then obs := obs ++ [[["no-engine"]]] else
        let (e', out) := step mc eng (Op.flush : Op String Row)
        eng := e'
        if !out.isEmpty then tags := tag tags "emit-at-flush"
        let lines := out.flatMap fun (k, m) => renderMatch cf k (adoptLabels cf q implObs k m)
        if cf.sql then
          obs := obs ++ [sortByKey (held ++ lines)]
          held := []
        else obs := obs ++ [sortByKey lines]
      | _ => obs := obs ++ [[["bad-op"]]]
    if (distinctKeys allRows).length > 1 then tags := tag tags "several-partitions"
    -- oracle on the implementation's obs lines
    let implLines := c.ops.flatMap fun (_, o) => o
    let rowsByKey := fun (k : String) => allRows.filter fun r => hexStr r.part == k
    let flushed := (c.ops.getLast?).map (·.1) == some ["flush"]
    let mut spec := "ok"
    if c.ops.any (fun (op, o) => op == ["new"] && o != [["ok"]]) then spec := "fail:valid-pattern-rejected"
    if implLines.any (fun l => l.head? == some "panic" || l.head? == some "err") then spec := "fail:implementation-error"
    let raws : List RawMatch :=
      if cf.allRows then groupR (implLines.filter fun l => l.head? == some "r")
      else (implLines.filter fun l => l.head? == some "m").filterMap (rawOfM rowsByKey)
    for k in (distinctKeys allRows).map hexStr do
      if spec == "ok" then
        let rows := rowsByKey k
        let mut os : List Spec.Obs := []
        for m in raws.filter (fun m => m.key == k) do
          match obsOf rows m with
          | .ok o => os := os ++ [o]
          | .error e => if spec == "ok" then spec := e
        if spec == "ok" then
          let v := Spec.holds q rows flushed os
          if v != "ok" then spec := v
    -- matches reported for a partition that never received a row
    if spec == "ok" && raws.any (fun m => !((distinctKeys allRows).map hexStr).contains m.key) then
      spec := "fail:match-for-unknown-partition"
    return { obs := obs, spec := spec, tags := tags }

end DrvC15
