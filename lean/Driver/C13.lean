import Driver.Proto
import SsqlVerif.Model.Like
import SsqlVerif.Model.IsNull
import SsqlVerif.Spec.Like
set_option autoImplicit false
open Proto

namespace DrvC13

def renderRewritten (field : Str) : Like.Rewritten Char → Str
  | .eq s => field ++ " == '".toList ++ s ++ "'".toList
  | .startsWith s => field ++ " startsWith '".toList ++ s ++ "'".toList
  | .endsWith s => field ++ " endsWith '".toList ++ s ++ "'".toList
  | .contains s => field ++ " contains '".toList ++ s ++ "'".toList
  | .always => "true".toList
  | .likeMatch p => "like_match(".toList ++ field ++ ", '".toList ++ p ++ "')".toList

def cellOf : String → Option IsNull.Cell
  | "m" => some .missing | "n" => some .null | "p" => some .present | _ => none

/-- model answer and spec answer for one op; `none` = bad op -/
def stepOp (op : List String) : Option (List (List String) × Option (List String) × String) :=
  match op with
  | ["like", _which, t, p] => do
    let t ← unhex t; let p ← unhex p
    let m := Like.likeImpl '%' '_' t p
    let s := Like.likeSpec '%' '_' p t
    some ([["r", boolTok m]], some ["r", boolTok s], if p.contains '%' && t.contains '%' then "text-has-pct" else "plain")
  | ["conv", p] => do
    let p ← unhex p
    let r := Like.convertLike '%' '_' p
    let tag := match r with
      | .eq _ => "rw-eq" | .startsWith _ => "rw-prefix" | .endsWith _ => "rw-suffix"
      | .contains _ => "rw-contains" | .always => "rw-true" | .likeMatch _ => "rw-like_match"
    some ([["rw", hex (renderRewritten ['x'] r)]], none, tag)
  | ["sql", _pos, t, p] => do
    let t ← unhex t; let p ← unhex p
    -- SQL text goes through the bridge rewriting or one of the loops, depending on position
    let m := Like.evalRewritten '%' '_' t (Like.convertLike '%' '_' p)
    let s := Like.likeSpec '%' '_' p t
    some ([["r", boolTok m]], some ["r", boolTok s], "sql")
  | ["combo", pos, t, p, xc, yc] => do
    -- LIKE next to IS [NOT] NULL: `CASE WHEN x LIKE p THEN 'L' WHEN y IS NULL THEN 'N' ELSE 'E' END`,
    -- `HAVING x LIKE p AND ly IS NOT NULL`; a NULL / missing x makes LIKE not true
    let t ← unhex t; let p ← unhex p
    let x ← cellOf xc; let y ← cellOf yc
    let likeM := x == .present && Like.evalRewritten '%' '_' t (Like.convertLike '%' '_' p)
    let likeS := x == .present && Like.likeSpec '%' '_' p t
    let res (l : Bool) : String :=
      if pos == "casecombo" then (if l then "L" else if IsNull.isNullSpec y then "N" else "E")
      else boolTok (l && !IsNull.isNullSpec y)
    some ([["r", res likeM]], some ["r", res likeS], "combo-" ++ pos)
  | ["isnull", path, cell, neg] => do
    let c ← cellOf cell
    let n := neg == "not"
    let m := match path, n with
      | "rewritten", false => IsNull.rewrittenIsNull c
      | "rewritten", true => IsNull.rewrittenIsNotNull c
      | "fn", false => IsNull.fnIsNull c
      | "fn", true => IsNull.fnIsNotNull c
      | _, false => IsNull.handIsNull c
      | _, true => IsNull.handIsNotNull c
    let s := if n then !IsNull.isNullSpec c else IsNull.isNullSpec c
    some ([["r", boolTok m]], some ["r", boolTok s], "isnull-" ++ cell)
  | ["isnullf", _path, fn, xc, yc, neg] => do
    -- IS [NOT] NULL over a function call: coalesce(x, y) is NULL iff neither is present; null_if(x, 'v') is NULL iff x is
    -- NULL, missing or 'v' (cell p); q = 'w'
    let xPresent := xc == "p" || xc == "q"
    let y ← cellOf yc
    let isNull := if fn == "coalesce" then (!xPresent && IsNull.isNullSpec y) else (xc != "q")
    let s := if neg == "not" then !isNull else isNull
    some ([["r", boolTok s]], some ["r", boolTok s], "isnull-function-operand")
  | _ => none

def run (c : Case) : CaseOut := Id.run do
  let mut obs : List (List (List String)) := []
  let mut spec := "ok"
  let mut tags : List String := []
  for (op, implObs) in c.ops do
    match stepOp op with
    | none => obs := obs ++ [[["bad-op"]]]
    | some (m, s, tag) =>
      obs := obs ++ [m]
      unless tags.contains tag do tags := tag :: tags
      match s with
      | some want => if implObs != [want] && spec == "ok" then spec := "fail:" ++ (op.headD "?") ++ "-differs-from-definition"
      | none => pure ()
  return { obs := obs, spec := spec, tags := tags }

end DrvC13
