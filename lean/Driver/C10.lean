import Driver.Sess
namespace DrvC10
def run (c : Proto.Case) : Proto.CaseOut := DrvSess.run c
end DrvC10
