import Driver.Sess
namespace DrvC10
def run (c : Proto.Case) : Proto.CaseOut :=
  if (DrvSess.cfgStr c "kind" "").startsWith "sql" then DrvSess.runSql c else DrvSess.run c
end DrvC10
