import Driver.Proto
import SsqlVerif.Model.Lifecycle
import SsqlVerif.Spec.Lifecycle
set_option autoImplicit false
open Proto

/-!
Driver of C18: replays a schedule (`emit`, `step <thread>`, `q <n>`, `final`) on
`Model/Lifecycle` and prints, per scheduler step, the sink invocations, refused EmitSync calls,
where every thread that moved is parked now (`th <thread> <point>` / `blocked` / `fin`) and a
state line — the lines the harness scheduler prints for the real goroutines (see `Driver/C19`
for the conventions: pending threads, witnesses for what `select` leaves open).
Threads: `eng` (data processor), `w0` (sink worker), `c0` (EmitSync caller), `a0` (AddSink
caller), `s0`, `s1` (Stop callers).  IO glue; nothing here is part of a theorem.
-/
namespace DrvC18
open Lifecycle

inductive Th where
  | eng | w0 | c0 | a0 | e0 | s0 | s1
  deriving DecidableEq, Repr

structure D where
  c     : Cfg
  s     : State
  calls : Nat            -- EmitSync calls c0 will make
  adds  : Nat            -- AddSink calls a0 will make
  emits : Nat := 0       -- Emit calls e0 will make
  cDone : Nat := 0
  aDone : Nat := 0
  eDone : Nat := 0
  eRes  : Option Nat := none   -- id taken by an Emit call that is blocked inside
  pend  : List Th := []
  w0Seen : Bool := false
  rr    : Nat := 0

structure Acc where
  d       : D
  touched : List Th := []
  newPend : List Th := []

def cfgTok (c : Case) (k : String) : List String :=
  match c.cfg.find? (fun l => l.head? == some k) with
  | some (_ :: v) => v
  | _ => []

def cfgNat (c : Case) (k : String) (d : Nat) : Nat :=
  match cfgTok c k with
  | v :: _ => (parseNat v).getD d
  | _ => d

def parseKind : String → Kind
  | "panics" => .panics
  | "adds" => .adds
  | _ => .plain

def thName : Th → String
  | .eng => "eng" | .w0 => "w0" | .c0 => "c0" | .a0 => "a0" | .e0 => "e0" | .s0 => "s0" | .s1 => "s1"

def parseTh : String → Option Th
  | "eng" => some .eng | "w0" => some .w0 | "c0" => some .c0 | "a0" => some .a0 | "e0" => some .e0
  | "s0" => some .s0 | "s1" => some .s1 | _ => none

def allTh : List Th := [.eng, .w0, .c0, .a0, .e0, .s0, .s1]

def actPoint : Act → String
  | .idle => "idle"
  | .call _ => "sinks.call"
  | .submit _ _ _ _ => "sinks.submit"
  | .body _ _ _ _ _ => "sink.enter"
  | .wantW _ _ _ _ => "add.lock"

def stopPc (d : D) (k : Nat) : SPC := (d.s.stops[k]?).getD .sNoop

def spcPoint : SPC → String
  | .sIdle => "stop.call" | .sFlag => "stop.flag" | .sDone => "stop.done" | .sNil => "stop.nil"
  | .sWait => "stop.wait" | .sJoined => "stop.joined" | .sRet => "fin" | .sNoop => "fin"

def worker0 (d : D) : Thread := (d.s.workers[0]?).getD { act := .idle, alive := false, joined := false }
def caller0 (d : D) : Thread := (d.s.callers[0]?).getD { act := .idle, alive := false, joined := false }

def pointOf (d : D) : Th → String
  | .eng => if !d.s.eng.alive then "fin" else if d.s.eng.act == .idle then "cons.recv" else actPoint d.s.eng.act
  | .w0 => if !(worker0 d).alive then "fin" else actPoint (worker0 d).act
  | .c0 => if (caller0 d).act == .idle then (if decide (d.calls ≤ d.cDone) then "fin" else "sync.call") else actPoint (caller0 d).act
  | .a0 => if decide (d.adds ≤ d.aDone) then "fin" else "add.call"
  | .e0 => if decide (d.emits ≤ d.eDone) then "fin" else "emit.call"
  | .s0 => spcPoint (stopPc d 0)
  | .s1 => spcPoint (stopPc d 1)

def finished (d : D) (t : Th) : Bool := pointOf d t == "fin"

/-- the next step of the thread starts with `sinksMux.RLock` -/
def acquiresRead (d : D) : Th → Bool
  | .eng => match d.s.eng.act with
    | .call _ => true
    | _ => false
  | .c0 => match (caller0 d).act with
    | .call _ => true
    | _ => false
  | _ => false

def actOf (d : D) : Th → Act
  | .eng => d.s.eng.act
  | .w0 => (worker0 d).act
  | .c0 => (caller0 d).act
  | _ => .idle

/-- the thread waits for `sinksMux.Lock` -/
def wantsWrite (d : D) (t : Th) : Bool :=
  (t == .a0 && d.pend.contains .a0) || (match actOf d t with
    | .wantW _ _ _ _ => true
    | _ => false)

def writerPending (d : D) : Bool := d.pend.any (wantsWrite d)

/-- model step of a named thread (with the driver's call counters) -/
def stepTh (d : D) (t : Th) (w : Wit) : Option D :=
  match t with
  | .eng => (step d.c d.s .eng w).map fun s' => { d with s := s' }
  | .w0 => (step d.c d.s (.worker 0) w).map fun s' =>
      { d with s := s', w0Seen := d.w0Seen || ((s'.workers[0]?).map (·.act != .idle)).getD false }
  | .c0 =>
    let starting := (caller0 d).act == .idle
    (step d.c d.s (.caller 0) w).map fun s' => { d with s := s', cDone := if starting then d.cDone + 1 else d.cDone }
  | .a0 => (step d.c d.s .addSink w).map fun s' => { d with s := s', aDone := d.aDone + 1 }
  | .e0 =>
    -- `safeGetDataChan` (drop strategy; block/expand return on the stopped flag before any lock) waits
    -- behind a Stop call that waits for the data channel write lock
    if d.c.dropStrat && d.pend.any (fun t => (t == .s0 && stopPc d 0 == .sDone) || (t == .s1 && stopPc d 1 == .sDone)) then none
    else match d.eRes with
      | none => (step d.c d.s (.emit false) w).map fun s' => { d with s := s', eDone := d.eDone + 1 }
      | some id =>
        -- the call took its row id when it started
        (step d.c { d.s with nextId := id } (.emit false) w).map fun s' =>
          { d with s := { s' with nextId := d.s.nextId }, eDone := d.eDone + 1, eRes := none }
  | .s0 => (step d.c d.s (.stop 0) w).map fun s' => { d with s := s' }
  | .s1 => (step d.c d.s (.stop 1) w).map fun s' => { d with s := s' }

def enabled (d : D) (t : Th) (w : Wit) : Option D :=
  if acquiresRead d t && writerPending d then none else stepTh d t w

def firstEnabled (d : D) (t : Th) (pref : List Wit) : Option D := pref.findSome? (fun w => enabled d t w)

def release (pref : List Wit) (a : Acc) (t : Th) : Acc :=
  match firstEnabled a.d t pref with
  | some d' => { a with d := d', touched := a.touched ++ [t] }
  | none =>
    let d1 := if t == .e0 && a.d.eRes.isNone then
        { a.d with eRes := some a.d.s.nextId, s := { a.d.s with nextId := a.d.s.nextId + 2 } } else a.d
    { a with d := { d1 with pend := d1.pend ++ [t] }, newPend := a.newPend ++ [t] }

/-- a thread inside an `adds` sink goes on into `AddSink` by itself -/
def transient (d : D) (t : Th) : Bool :=
  !d.pend.contains t && (match actOf d t with
    | .wantW _ _ _ _ => true
    | _ => false)

/-- the idle worker sits in `select { task | done }`: it acts as soon as one is ready -/
def workerWakes (d : D) : Bool :=
  (worker0 d).alive && (worker0 d).act == .idle && (!d.s.queue.isEmpty || d.s.done)

def autoLoop (pref : List Wit) : Nat → Acc → Acc
  | 0, a => a
  | fuel + 1, a =>
    match [Th.eng, .w0, .c0].find? (transient a.d) with
    | some t => autoLoop pref fuel (release pref a t)
    | none =>
      if workerWakes a.d then autoLoop pref fuel (release pref a .w0)
      else match a.d.pend.find? (fun t => (firstEnabled a.d t pref).isSome) with
        | some t => autoLoop pref fuel (release pref { a with d := { a.d with pend := a.d.pend.erase t } } t)
        | none => a

def stLine (d : D) : List String :=
  ["st", boolTok d.s.stopped, toString (if d.s.chanNil then 0 else d.s.buf.length), toString d.s.queue.length,
   toString d.s.asyncSinks.length, toString d.s.syncSinks.length]

def stepLines (before : D) (a : Acc) : List (List String) :=
  let d := a.d
  let sinks := (d.s.log.drop before.s.log.length).map fun (e : Inv) => ["sink", toString e.batch]
  let syncs := (if before.cDone < d.cDone then [["sync", toString before.s.nextId]] else []) ++
    (if before.eDone < d.eDone then [["emit", toString (before.eRes.getD before.s.nextId)]] else [])
  let refs := (d.s.refused.drop before.s.refused.length).map fun r => ["refused", toString r]
  let ths := allTh.filterMap fun t =>
    if t == .w0 && !d.w0Seen then none
    else if d.pend.contains t && a.newPend.contains t then some ["th", thName t, "blocked"]
    else if a.touched.contains t && !d.pend.contains t then some ["th", thName t, pointOf d t]
    else none
  syncs ++ sinks ++ refs ++ ths ++ [stLine d]

def engEmpty (d : D) : Bool := d.s.eng.alive && d.s.eng.act == .idle && d.s.buf.isEmpty && !d.s.done

def prefs : List (List Wit) := [[.data, .done, .tick], [.done, .data, .tick], [.tick, .data, .done]]
def defaultPref : List Wit := [.data, .done, .tick]

def isPrefixOf (a b : List (List String)) : Bool := a == b.take a.length

def doStepP (pref : List Wit) (d : D) (t : Th) : D × List (List String) :=
  if finished d t || d.pend.contains t || (t == .w0 && (worker0 d).act == .idle) then (d, [["th", thName t, "skip"], stLine d])
  else if t == .eng && engEmpty d then (d, [["th", "eng", "skip-empty"], stLine d])
  else
    let a := autoLoop pref 64 (release pref { d := d } t)
    (a.d, stepLines d a)

def doStep (d : D) (t : Th) (rest : List (List String)) : D × List (List String) :=
  match prefs.findSome? (fun pref => let r := doStepP pref d t; if isPrefixOf r.2 rest then some r else none) with
  | some r => r
  | none => doStepP defaultPref d t

def steppable (d : D) (t : Th) : Bool :=
  !(finished d t) && !d.pend.contains t && !(t == .w0 && (worker0 d).act == .idle) && !(t == .eng && engEmpty d)

def doQ (d : D) (rest : List (List String)) : D × List (List String) :=
  let n := allTh.length
  let pick := (List.range n).findSome? fun k =>
    let idx := (d.rr + k) % n
    match allTh[idx]? with
    | some t =>
      -- the quiescing policy finishes what was started; it does not start a Stop call
      if steppable d t && !((t == .s0 || t == .s1) && pointOf d t == "stop.call") then some (idx, t) else none
    | none => none
  match pick with
  | some (idx, t) =>
    let (d', ls) := doStep d t rest
    ({ d' with rr := idx + 1 }, ls)
  | none => (d, [["idle"]])

def qLoop : Nat → D → List (List String) → List (List String) → D × List (List String)
  | 0, d, acc, _ => (d, acc)
  | n + 1, d, acc, rest =>
    let (d', ls) := doQ d rest
    if ls == [["idle"]] then (d', acc ++ ls) else qLoop n d' (acc ++ ls) (rest.drop ls.length)

def finalLines (d : D) : List (List String) :=
  allTh.filterMap fun t =>
    if t == .w0 && !d.w0Seen then none
    else some ["final", thName t, if d.pend.contains t then "blocked" else pointOf d t]

def doOpW (d : D) (op : List String) (impl : List (List String)) : D × List (List String) :=
  match op with
  | ["emit"] => doStep d .e0 impl
  | ["step", t] =>
    match parseTh t with
    | some t => doStep d t impl
    | none => (d, [["bad-op"]])
  | ["q", n] => qLoop ((parseNat n).getD 0) d [] impl
  | ["final"] => (d, finalLines d)
  | ["free", _, _] => (d, impl)   -- free-running stress: nothing to predict, only the oracle applies
  | _ => (d, [["bad-op"]])

def initD (c : Case) : D :=
  let cfg : Cfg := { copySinks := cfgTok c "copysinks" != ["f"], syncGuard := cfgTok c "syncguard" != ["f"],
                     qcap := cfgNat c "qcap" 1, dropStrat := cfgTok c "strat" != ["block"] && cfgTok c "strat" != ["expand"] }
  let asyncs := (cfgTok c "async").map parseKind
  let syncs := (cfgTok c "sync").map parseKind
  { c := cfg, s := init cfg 1 1 2 asyncs syncs, calls := cfgNat c "calls" 0, adds := cfgNat c "adds" 0,
    emits := (c.ops.filter (fun o => o.1 == ["emit"])).length }

/-! ### the oracle: `LifecycleSpec` on the implementation's lines -/

def evOf (l : List String) : List LifecycleSpec.Ev :=
  match l with
  | ["emit", id] => match parseNat id with
    | some id => [.emit id]
    | none => []
  | ["sync", id] => match parseNat id with
    | some id => [.sync id]
    | none => []
  | ["refused", id] => match parseNat id with
    | some id => [.refused id]
    | none => []
  | ["sink", id] => match parseNat id with
    | some id => [.sink id]
    | none => []
  | ["final", t, "blocked"] => [.stuck t]
  | ["panicked", t] => [.panicked t]
  | _ => []

def run (c : Case) : CaseOut := Id.run do
  -- `failexec`: Execute fails after the stream was built; Stop must tear down what Execute started
  if c.ops.map (·.1) == [["failexec"]] then
    let io := c.ops.flatMap (·.2)
    let leak := io.any fun l => l.head? == some "goroutines-left"
    let retry := c.cfg.any fun l => l == ["retry", "1"]
    return { obs := [[["execute", "error"]] ++ (if retry then [["retry", "ok"]] else [])],
             tags := ["execute-fails-after-build"] ++ (if retry then ["execute-retried-after-failure"] else []),
             spec := if leak then "fail:engine-goroutine-still-running-after-stop(execute-failed)" else "ok" }
  -- `exotic`: ordinary rows, rows whose values have unusual Go types, ordinary rows again, then Stop: the engine keeps
  -- working (later rows reach the sink, a table write returns), no call panics, Stop returns and leaves nothing running
  if (c.ops.map (·.1)).all (fun o => o.head? == some "exotic") && !c.ops.isEmpty then
    let io := c.ops.flatMap (·.2)
    let has (k : String) := io.any fun l => l.head? == some k
    let v := if has "panicked" then "fail:a-call-panicked(exotic-row-values)"
      else if has "table-write-blocked" then "fail:deadlock(table-write-never-returns-after-exotic-row)"
      else if has "later-rows-lost" then "fail:rows-after-an-exotic-row-not-processed"
      else if has "stuck" then "fail:deadlock(stop-never-returned)"
      else if has "goroutines-left" then "fail:engine-goroutine-still-running-after-stop"
      else "ok"
    return { obs := c.ops.map (·.2), tags := ["exotic-row-values"] ++ (c.ops.filterMap fun o => (o.1.getD 1 "?") |> fun k => some ("exotic-" ++ k)), spec := v }
  let mut d := initD c
  let hasSinks := !(d.s.asyncSinks.isEmpty && d.s.syncSinks.isEmpty)
  let mut obs : List (List (List String)) := []
  let mut evs : List LifecycleSpec.Ev := []
  let mut tags : List String := []
  let mut tearing : List String := []
  for (op, implObs) in c.ops do
    let (d', ls) := doOpW d op implObs
    d := d'
    obs := obs ++ [ls]
    for l in implObs do
      evs := evs ++ evOf l
      -- the barrier is claimed for the Stop call that performs the teardown (it passed `stop.flag`);
      -- a concurrent second call returns at once
      match l with
      | ["th", t, "stop.flag"] => tearing := t :: tearing
      | ["th", t, "fin"] => if tearing.contains t then evs := evs ++ [.stopReturned] else pure ()
      | _ => pure ()
    for l in ls do
      match l with
      | ["th", _, pt] => unless tags.contains pt do tags := pt :: tags
      | ["refused", _] => unless tags.contains "refused" do tags := "refused" :: tags
      | ["anomaly-unreproduced", w] => tags := ("free-anomaly-unreproduced-" ++ w) :: tags
      | ["goroutines-left", _] => unless tags.contains "goroutines-left" do tags := "goroutines-left" :: tags
      | _ => pure ()
  -- Stop calls started = stop threads that moved at all
  let started := (c.ops.flatMap (·.2)).filter fun l => match l with
    | ["th", t, pt] => (t == "s0" || t == "s1") && pt != "skip" && pt != "blocked"
    | _ => false
  let s0started := started.any (fun l => l.getD 1 "" == "s0")
  let s1started := started.any (fun l => l.getD 1 "" == "s1")
  -- place `stopCalled` before everything: the clause only counts them
  let evs' := (if s0started || s1started then [LifecycleSpec.Ev.stopCalled] else []) ++ evs
  -- "every row reaches the sinks" is only asked of runs that ended quiescent
  let finals := (c.ops.flatMap (·.2)).filter fun l => l.head? == some "final"
  let quiesced := !finals.isEmpty && finals.all fun l =>
    match l with
    | [_, _, st] => st == "fin" || st == "idle" || st == "cons.recv"
    | _ => false
  let verdict := match (LifecycleSpec.clauses (hasSinks && quiesced) evs').find? (fun x => !x.2) with
    | some cl => "fail:" ++ cl.1
    | none =>
      -- free-running rounds: two seconds after both Stop calls returned the process must be back at the number of
      -- goroutines it had before the instance was created (reproduced three times by the harness)
      if (c.ops.flatMap (·.2)).any (fun l => l.head? == some "stuck") then "fail:deadlock(caller-never-released-after-stop)"
      else if (c.ops.flatMap (·.2)).any (fun l => l.head? == some "goroutines-left") then "fail:engine-goroutine-still-running-after-stop"
      else "ok"
  if d.s.rowPanics.length > 0 then tags := "row-panic" :: tags
  return { obs := obs, spec := verdict, tags := tags }

end DrvC18
