import Driver.Proto
import SsqlVerif.Model.CondShape
import SsqlVerif.Spec.Cond
set_option autoImplicit false
open Proto

/-
Driver for C12 (IO glue, not part of any theorem).

ops
  eval <text> <ast> ; <row>     predicate text with the predicate expr-lang is expected to parse it to
  evalx <text> ; <row>          predicate text whose general meaning the model does not know
  shape <text>                  recogniser only (any bytes)
  sql <ast> ; <row>             the predicate rendered as SQL in a WHERE clause, through EmitSync
ast   cmp <field> <optok> <lit> | and A B | or A B | par A
lit   i:<decimal> | d:<sign digits.digits> | s:<hex>
row   (<key> <val>)*  with  val = n | t | f | s:<hex> | <width>:<decimal> | f64:<bits> | f32:<bits> | o
-/
namespace DrvC12
open Cond

def dropS (s : String) (n : Nat) : String := String.ofList (s.toList.drop n)

def hexOrEmpty (s : List Char) : String := if s.isEmpty then "" else hex s

def unhexOrEmpty (s : String) : Option (List Char) := if s = "" then some [] else unhex s

/-! float64 bit patterns ↔ exact values -/

def f64OfBits (b : Nat) : F64 :=
  let sign := b / 2 ^ 63 % 2
  let e := b / 2 ^ 52 % 2048
  let m := b % 2 ^ 52
  if e = 2047 then (if m = 0 then (if sign = 1 then .ninf else .pinf) else .nan)
  else
    let mag : Nat := if e = 0 then m else (2 ^ 52 + m) * 2 ^ (e - 1)
    .fin (if sign = 1 then -(mag : Int) else (mag : Int))

def bitsOfF64 : F64 → Nat
  | .nan => 0x7ff8000000000001
  | .pinf => 0x7ff0000000000000
  | .ninf => 0xfff0000000000000
  | .fin k =>
    let mag := k.natAbs
    let s : Nat := if k < 0 then 2 ^ 63 else 0
    if mag < 2 ^ 52 then s + mag
    else
      let l := mag.log2
      s + (l - 52 + 1) * 2 ^ 52 + (mag / 2 ^ (l - 52) - 2 ^ 52)

def hex16 (n : Nat) : String :=
  String.ofList ((List.range 16).reverse.map fun i => hexDigit (n / 16 ^ i % 16))

def parseHexNat (s : String) : Option Nat :=
  s.toList.foldl (fun acc c => match acc, hexVal c with
    | some a, some d => some (a * 16 + d) | _, _ => none) (some 0)

/-! parsing the op line -/

def optokOf : String → Option OpTok
  | "ge" => some .ge | "le" => some .le | "ne" => some .ne | "ltgt" => some .ltgt
  | "eq2" => some .eq2 | "eq1" => some .eq1 | "gt" => some .gt | "lt" => some .lt | _ => none

def goOp : OpTok → String
  | .ge => ">=" | .le => "<=" | .ne => "!=" | .ltgt => "<>" | .eq2 => "==" | .eq1 => "=" | .gt => ">" | .lt => "<"

def sqlOp : OpTok → String
  | .eq2 => "=" | t => goOp t

/-- AST literal; `none` in the second component = expr-lang cannot compile the literal -/
def litOf (s : String) : Option (Lit × Bool) :=
  if s.startsWith "i:" then
    (dropS s 2).toInt?.map fun n =>
      (Lit.int n, decide (n.natAbs ≤ 9223372036854775807))
  else if s.startsWith "d:" then
    match matchLit (dropS s 2).toList with
    | some (.num neg ip (some fp)) => (parseDec neg ip fp).map fun x => (Lit.flt x, true)
    | _ => none
  else if s.startsWith "s:" then
    (unhexOrEmpty (dropS s 2)).map fun b => (Lit.str b, true)
  else none

/-- parsed AST with "every operator and literal compiles" -/
partial def astOf : List String → Option (Pred × Bool × List String)
  | "cmp" :: f :: o :: l :: rest => do
    let f ← unhex f; let o ← optokOf o; let (l, okl) ← litOf l
    some (.cmp { field := f, op := o.toOp, lit := l }, o.compiles && okl, rest)
  | "and" :: rest => do
    let (a, oa, r1) ← astOf rest; let (b, ob, r2) ← astOf r1
    some (.and a b, oa && ob, r2)
  | "or" :: rest => do
    let (a, oa, r1) ← astOf rest; let (b, ob, r2) ← astOf r1
    some (.or a b, oa && ob, r2)
  | "par" :: rest => do
    let (a, oa, r1) ← astOf rest
    some (.paren a, oa, r1)
  | _ => none

def valOf (s : String) : Option Val :=
  if s = "n" then some .null
  else if s = "t" then some (.bool true)
  else if s = "f" then some (.bool false)
  else if s = "o" then some .other
  else if s.startsWith "s:" then (unhexOrEmpty (dropS s 2)).map .str
  else if s.startsWith "f64:" then (parseHexNat (dropS s 4)).map fun b => .flt false (f64OfBits b)
  else if s.startsWith "f32:" then (parseHexNat (dropS s 4)).map fun b => .flt true (f64OfBits b)
  else match s.splitOn ":" with
    | [w, d] =>
      match d.toInt? with
      | none => none
      | some n =>
        match w with
        | "i" => some (.int (.i (Int64.ofInt n))) | "i8" => some (.int (.i8 (Int8.ofInt n)))
        | "i16" => some (.int (.i16 (Int16.ofInt n))) | "i32" => some (.int (.i32 (Int32.ofInt n)))
        | "i64" => some (.int (.i64 (Int64.ofInt n)))
        | "u" => some (.int (.u (UInt64.ofNat n.toNat))) | "u8" => some (.int (.u8 (UInt8.ofNat n.toNat)))
        | "u16" => some (.int (.u16 (UInt16.ofNat n.toNat))) | "u32" => some (.int (.u32 (UInt32.ofNat n.toNat)))
        | "u64" => some (.int (.u64 (UInt64.ofNat n.toNat)))
        | _ => none
    | _ => none

def rowOf : List String → Option Row
  | [] => some []
  | k :: v :: rest => do
    let k ← unhex k; let v ← valOf v; let r ← rowOf rest
    some ((k, v) :: r)
  | _ => none

/-! rendering -/

def shapeLit : RawLit → String
  | .str raw => "s:" ++ hexOrEmpty raw
  | l => match l.denote with
    | .int n => "f:" ++ hex16 (bitsOfF64 (F64.ofInt n))
    | .flt x => "f:" ++ hex16 (bitsOfF64 x)
    | .str raw => "s:" ++ hexOrEmpty raw

def shapeCmp (r : RawCmp) : List String := [hex r.field, goOp r.op, shapeLit r.lit]

def shapeLine (t : List Char) : List String :=
  match tryFastCompound t with
  | some (isAnd, cs) => ["shape", if isAnd then "and" else "or", toString cs.length] ++ cs.flatMap shapeCmp
  | none =>
    match tryFastCompare t with
    | some r => ["shape", "cmp"] ++ shapeCmp r
    | none => ["shape", "none"]

def shapeTag (t : List Char) : String :=
  match tryFastCompound t with
  | some (true, _) => "shape-and" | some (false, _) => "shape-or"
  | none => if (tryFastCompare t).isSome then "shape-cmp" else "shape-none"

def optTok : Option Bool → String
  | none => "none" | some b => boolTok b

def resTok : Res → String
  | .ok b => boolTok b | .err => "err"

/-- why the shortcut declined, for the input distribution -/
def declineTag (c : CondM) : String :=
  match c.compound, c.fast with
  | none, none => "fast-none:no-shortcut"
  | _, _ => "fast-none:declined"

def valTag : Option Val → String
  | none => "v-missing" | some .null => "v-nil" | some (.bool _) => "v-bool" | some (.str _) => "v-str"
  | some (.flt true _) => "v-f32"
  | some (.flt false .nan) => "v-nan" | some (.flt false .pinf) => "v-inf" | some (.flt false .ninf) => "v-inf"
  | some (.flt false _) => "v-f64"
  | some .other => "v-other"
  | some (.int x) => if exactInt x.val then "v-int-exact" else if x.val = x.asGoInt then "v-int-beyond-2^53" else "v-uint-wraps"

def litTag : Lit → String
  | .int n => if exactInt n then "l-int-exact" else "l-int-beyond-2^53"
  | .flt _ => "l-frac" | .str _ => "l-str"

partial def predTags (row : Row) : Pred → List String
  | .cmp c => [valTag (row.get c.field), litTag c.lit]
  | .and a b => "p-and" :: (predTags row a ++ predTags row b)
  | .or a b => "p-or" :: (predTags row a ++ predTags row b)
  | .paren a => "p-paren" :: predTags row a

def splitSemi (ts : List String) : List String × List String :=
  (ts.takeWhile (· != ";"), (ts.dropWhile (· != ";")).drop 1)

structure Step where
  obs : List (List String)
  verdict : String := "ok"
  tags : List String := []

def obsTok (implObs : List (List String)) (k : String) : Option String :=
  match implObs.find? (fun l => l.head? == some k) with
  | some (_ :: v :: _) => some v
  | _ => none

def boolOfTok : String → Option Bool
  | "t" => some true | "f" => some false | _ => none

/-- the Spec on the implementation's own observations -/
def oracle (implObs : List (List String)) : String :=
  match obsTok implObs "cond" with
  | some "cerr" => if obsTok implObs "twincond" == some "cerr" then "ok" else "fail:compile-status-differs"
  | _ =>
    match (obsTok implObs "ev").bind boolOfTok, (obsTok implObs "twin").bind boolOfTok, obsTok implObs "fast" with
    | some ev, some twin, some f =>
      if obsTok implObs "conc" == some "f" then "fail:concurrent-evaluations-of-one-predicate-decide-differently" else
      SpecC12.verdict { ev := ev, twin := twin, fast := boolOfTok f, failed := obsTok implObs "gen" == some "err" }
    | _, _, _ => "fail:observation-missing"

def stepOp (op : List String) (implObs : List (List String)) : Option Step :=
  match op with
  | "eval" :: t :: rest => do
    let t ← unhex t
    let (astToks, rowToks) := splitSemi rest
    let (p, compiles, extra) ← astOf astToks
    if !extra.isEmpty then none
    let row ← rowOf rowToks
    let sh := shapeLine t
    let tags := shapeTag t :: predTags row p
    if !compiles then
      some { obs := [sh, ["cond", "cerr"], ["twincond", "cerr"]], verdict := oracle implObs, tags := "compile-error" :: tags }
    else
      let c ← newCond t (some p)
      let fast := c.fastPath row
      let agree := Cond.parseAgrees t p
      let o := [sh, ["cond", "ok"], ["twincond", "ok"], ["fast", optTok fast], ["ev", boolTok (c.evaluate row)],
                ["gen", resTok (generalEval p row)], ["twin", boolTok (SpecC12.generalDecision (.paren p) row)],
                ["conc", "t"]]   -- a compiled predicate is immutable: concurrent evaluations decide as the sequential one
      let o := if agree then o else o ++ [["parse-table-assumption-broken"]]
      let ftag := match fast with
        | some _ => "fast-answers" | none => declineTag c
      let gtag := match generalEval p row with
        | .err => "general-error" | .ok true => "general-true" | .ok false => "general-false"
      some { obs := o, verdict := oracle implObs, tags := ftag :: gtag :: tags }
  | "evalx" :: t :: rest => do
    let t ← unhex t
    let (_, rowToks) := splitSemi rest
    let row ← rowOf rowToks
    -- the general meaning is unknown to the model: a predicate no comparison evaluates
    let dummy : Pred := .cmp { field := [], op := .eq, lit := .int 0 }
    let c ← newCond t (some dummy)
    let v := match obsTok implObs "agree" with
      | some "t" => (match obsTok implObs "fastagree" with | some "t" => "ok" | _ => "fail:shortcut-differs-from-general-engine")
      | _ => "fail:decision-differs-from-general-engine"
    some { obs := [shapeLine t, ["cond", "ok"], ["fast", optTok (c.fastPath row)], ["agree", "t"], ["fastagree", "t"]],
           verdict := v, tags := ["opaque", shapeTag t] }
  | ["shape", t] => do
    let t ← unhex t
    some { obs := [shapeLine t], tags := ["text-" ++ shapeTag t] }
  | "sql" :: rest => do
    let (astToks, rowToks) := splitSemi rest
    let (p, compiles, extra) ← astOf astToks
    if !extra.isEmpty || !compiles then none
    let row ← rowOf rowToks
    let d := boolTok (SpecC12.generalDecision p row)
    let v := match obsTok implObs "acc", obsTok implObs "acctwin", obsTok implObs "again" with
      | some a, some b, some c => if a == b && a == c && (a == "t" || a == "f") then "ok" else "fail:where-decision-differs-from-general-engine"
      | _, _, _ => "fail:observation-missing"
    some { obs := [["acc", d], ["acctwin", d], ["again", d]], verdict := v, tags := ["sql"] }
  | "sqllag" :: rest => do
    -- the predicate with every column written lag(col), asked about the row after the one that carries the values: the
    -- decision is the general engine's for the predicate on those values
    let (astToks, rowToks) := splitSemi rest
    let (p, compiles, extra) ← astOf astToks
    if !extra.isEmpty || !compiles then none
    let row ← rowOf rowToks
    let d := boolTok (SpecC12.generalDecision p row)
    let v := match obsTok implObs "acc", obsTok implObs "acctwin" with
      | some a, some b => if a == d && b == d then "ok" else "fail:where-over-analytic-value-differs-from-general-engine"
      | _, _ => "fail:observation-missing"
    some { obs := [["acc", d], ["acctwin", d]], verdict := v, tags := ["sql-over-analytic-value"] }
  | _ => none

def run (c : Case) : CaseOut := Id.run do
  let mut obs : List (List (List String)) := []
  let mut spec := "ok"
  let mut tags : List String := []
  for (op, implObs) in c.ops do
    match stepOp op implObs with
    | none => obs := obs ++ [[["bad-op"]]]
    | some s =>
      obs := obs ++ [s.obs]
      for t in s.tags do
        unless tags.contains t do tags := t :: tags
      if spec == "ok" && s.verdict != "ok" then spec := s.verdict
  return { obs := obs, spec := spec, tags := tags.reverse }

end DrvC12
