import Driver.PipeCodec
set_option autoImplicit false
open Proto

/-
C05 driver.  cfg lines:  `item …` (one per SELECT item, in order), `where …`, `sql <hex>` (ignored).
ops:
  row <row>            impl obs: `sync <res>` (same instance as all earlier rows), `alone <res>` (fresh instance)
  async <sentinel row> impl obs: `sink <id> <n> <rows…>` per synchronous-sink invocation, `chan <n> <rows…>` per batch read
  full <cap> <sentinel row>   impl obs: `chan …` for what an unread result channel of capacity cap holds at the end
<res> = none | execerr | panic | <row tokens>
-/
namespace DrvC05
open Pipe PipeSpec DrvPipe

def envOf (w : Option WhereC) : Env :=
  { whereP := w.map fun wc => evalWhere wc
    exprEval := fun _ _ => .null
    unnest := fun r => [r]
    sortRows := fun rs => rs }

def renderOutcome : Outcome → List String
  | .filtered => ["none"]
  | .panic => ["panic"]
  | .result r => renderRow r

def renderSpec : Option Row → List String
  | none => ["none"]
  | some r => renderRow r

def renderLookup : Except Unit (Option Value) → List String
  | .error _ => ["panic"]
  | .ok none => ["missing"]
  | .ok (some v) => "found" :: renderValue v

def renderBatch (b : Batch) : List String := toString b.length :: b.flatMap renderRow

def isSublist (a b : List (List String)) : Bool :=
  match a, b with
  | [], _ => true
  | _ :: _, [] => false
  | x :: xs, y :: ys => if x == y then isSublist xs ys else isSublist (x :: xs) ys

def run (c : Case) : CaseOut := Id.run do
  let items := (c.cfg.filterMap fun l => match l with | "item" :: rest => parseItem rest | _ => none)
  let nItemLines := (c.cfg.filter fun l => l.head? == some "item").length
  let whereC : Option WhereC :=
    match (c.cfg.filterMap fun l => match l with | "where" :: rest => parseWhere rest | _ => none) with
    | w :: _ => w
    | [] => none
  if items.length != nItemLines then
    return { obs := c.ops.map fun _ => [["bad-cfg"]], spec := "fail:bad-cfg" }
  let cfg := toConfig items
  let env := envOf whereC
  let whereTrue : Row → Bool := fun r => match whereC with | none => true | some wc => evalWhere wc r
  let execErr := match checkOutputNames cfg with | .error _ => true | .ok _ => false
  let wf := itemsWF items && !dupNames items
  let mut obs : List (List (List String)) := []
  let mut spec := "ok"
  let mut tags : List String := []
  let mut rows : List Row := []
  let addTag (tags : List String) (t : String) : List String := if tags.contains t then tags else t :: tags
  tags := addTag tags (if wf then "items-wf" else "items-outside-grammar")
  if execErr then tags := addTag tags "execute-rejects-ambiguous"
  for (op, implObs) in c.ops do
    match op with
    | "row" :: toks =>
      match parseRow toks with
      | none => obs := obs ++ [[["bad-row"]]]
      | some row =>
        rows := rows ++ [row]
        let m := if execErr then ["execerr"] else renderOutcome (directSync cfg env row)
        -- the EmitSync path hands its result to the synchronous sinks inline: the only sink of that instance sees the row
        -- the call returns, and nothing when the call returns none or fails
        let delivered := if execErr then [] else
          [("ssink" :: (match m.head? with | some "none" => ["none"] | some "err" => ["none"] | some "panic" => ["none"] | _ => m))]
        obs := obs ++ [[("sync" :: m), ("alone" :: m)] ++ delivered]
        tags := addTag tags (if m == ["none"] then "row-filtered" else "row-passes")
        -- oracle: history-free, and equal to the declarative result
        let sy := implObs.filter fun l => l.head? == some "sync"
        let al := implObs.filter fun l => l.head? == some "alone"
        if spec == "ok" then
          if sy.map (·.drop 1) != al.map (·.drop 1) then spec := "fail:result-depends-on-history"
          else if wf && !execErr then
            let want := renderSpec (directSpec whereTrue items row)
            if sy != [("sync" :: want)] then spec := "fail:sync-result-differs-from-spec"
            else if implObs.filter (fun l => l.head? == some "ssink") != [("ssink" :: want)] then spec := "fail:sync-sink-not-handed-the-emitsync-result"
    | "async" :: toks =>
      match parseRow toks with
      | none => obs := obs ++ [[["bad-row"]]]
      | some sent =>
        if execErr then obs := obs ++ [[["execerr"]]] else
        let all := rows ++ [sent]
        let dc : DCfg := { inCap := 1000, chanCap := 100, nSinks := 2 }
        let ops := all.map DOp.emit ++ all.flatMap fun _ => [DOp.consume true, DOp.recv]
        let s := drun cfg env dc {} ops
        let lines := (s.sinkLog.map fun (i, b) => "sink" :: toString i :: renderBatch b) ++
                     (s.received.map fun b => "chan" :: renderBatch b)
        obs := obs ++ [lines]
        tags := addTag tags "async"
        if spec == "ok" && wf then
          let want := all.filterMap fun r => directSpec whereTrue items r
          let wantSink := want.flatMap fun r => [("sink" :: "0" :: renderBatch [r]), ("sink" :: "1" :: renderBatch [r])]
          let wantChan := want.map fun r => "chan" :: renderBatch [r]
          if implObs.filter (fun l => l.head? == some "sink") != wantSink then spec := "fail:sink-deliveries-not-the-ordered-image-of-the-input"
          else if implObs.filter (fun l => l.head? == some "chan") != wantChan then spec := "fail:channel-batches-not-the-ordered-image-of-the-input"
    | "full" :: cap :: toks =>
      match parseRow toks, cap.toNat? with
      | some sent, some k =>
        if execErr then obs := obs ++ [[["execerr"]]] else
        let all := rows ++ [sent]
        let dc : DCfg := { inCap := 1000, chanCap := k, nSinks := 1 }
        let ops := all.map DOp.emit ++ all.map (fun _ => DOp.consume true) ++ (List.range k).map fun _ => DOp.recv
        let s := drun cfg env dc {} ops
        obs := obs ++ [s.received.map fun b => "chan" :: renderBatch b]
        tags := addTag tags (if (all.filterMap fun r => directSpec whereTrue items r).length > k then "chan-overflow" else "chan-fits")
        if spec == "ok" && wf then
          let want := (all.filterMap fun r => directSpec whereTrue items r).map fun r => "chan" :: renderBatch [r]
          if !isSublist implObs want then spec := "fail:channel-reordered-or-invented-results"
      | _, _ => obs := obs ++ [[["bad-op"]]]
    | "tpath" :: n :: rest =>
      -- the lookup of a `path` op on the same value held in typed Go containers (harness side): same answer
      match n.toNat? with
      | none => obs := obs ++ [[["bad-op"]]]
      | some k =>
        match parseComps k rest [] with
        | some (f :: r, vt) =>
          match parseValue vt with
          | some (data, []) =>
            let m := renderLookup (getNestedField data (renderPath f r))
            obs := obs ++ [[m]]
            tags := addTag tags "path-typed-containers"
            let okWF := compWF f && r.all compWF
            if spec == "ok" && okWF then
              let want := match walkComps data (f :: r) with | some v => "found" :: renderValue v | none => ["missing"]
              if implObs != [want] then spec := "fail:fieldpath-lookup-in-typed-containers-differs-from-structural-walk"
          | _ => obs := obs ++ [[["bad-value"]]]
        | _ => obs := obs ++ [[["bad-path"]]]
    | "path" :: n :: rest =>
      match n.toNat? with
      | none => obs := obs ++ [[["bad-op"]]]
      | some k =>
        match parseComps k rest [] with
        | some (f :: r, vt) =>
          match parseValue vt with
          | some (data, []) =>
            let m := renderLookup (getNestedField data (renderPath f r))
            obs := obs ++ [[m]]
            tags := addTag tags ("path-" ++ (m.headD "?"))
            let okWF := compWF f && r.all compWF
            if spec == "ok" && okWF then
              let want := match walkComps data (f :: r) with | some v => "found" :: renderValue v | none => ["missing"]
              if implObs != [want] then spec := "fail:fieldpath-lookup-differs-from-structural-walk"
          | _ => obs := obs ++ [[["bad-value"]]]
        | _ => obs := obs ++ [[["bad-path"]]]
    | "rawpath" :: h :: vt =>
      match unhex h, parseValue vt with
      | some p, some (data, []) =>
        let m := renderLookup (getNestedField data p)
        obs := obs ++ [[m]]
        tags := addTag tags ("rawpath-" ++ (match parseFieldPath p with
          | .ok _ => "parsed" | .error .unmatched => "unmatched-bracket" | .error .invalid => "invalid-bracket" | .error .sliceBounds => "slice-panic"))
      | _, _ => obs := obs ++ [[["bad-op"]]]
    | _ => obs := obs ++ [[["bad-op"]]]
  return { obs := obs, spec := spec, tags := tags }

end DrvC05
