import Driver.Win
namespace DrvC08
def run (c : Proto.Case) : Proto.CaseOut := DrvWin.run c
end DrvC08
