import Driver.Win
namespace DrvC01
def run (c : Proto.Case) : Proto.CaseOut := DrvWin.run c
end DrvC01
