/-
Value / row / item codec of the line protocol shared by the C05 and C20 drivers (IO glue, no theorem
depends on it).  Values cross the protocol in pre-order:
  n | i:<dec> | f:<16 hex> | s:<hex> | b:t | b:f | L:<k> v1 … vk | M:<k> key1 v1 … keyk vk
Map keys are hex strings; maps are printed with keys sorted bytewise (Go maps are unordered).
-/
import Driver.Proto
import SsqlVerif.Model.Pipeline
import SsqlVerif.Spec.Pipeline
set_option autoImplicit false
open Proto

namespace DrvPipe
open Pipe PipeSpec

def after2 (t : String) : String := String.ofList (t.toList.drop 2)

def hex16 (n : Nat) : String :=
  String.ofList ((List.range 16).reverse.map fun k => hexDigit (n / 16 ^ k % 16))

def parseHex16 (s : String) : Option Nat :=
  s.toList.foldl (fun acc c => match acc, hexVal c with
    | some a, some d => some (a * 16 + d)
    | _, _ => none) (some 0)

mutual
  partial def parseValue : List String → Option (Value × List String)
    | [] => none
    | t :: rest =>
      if t == "n" then some (.null, rest)
      else if t == "b:t" then some (.bool true, rest)
      else if t == "b:f" then some (.bool false, rest)
      else if t.startsWith "i:" then (after2 t).toInt?.map fun i => (.int i, rest)
      else if t.startsWith "f:" then (parseHex16 (after2 t)).map fun n => (.float (UInt64.ofNat n), rest)
      else if t.startsWith "s:" then (unhex (after2 t)).map fun s => (.str s, rest)
      else if t.startsWith "L:" then
        match (after2 t).toNat? with
        | none => none
        | some k => (parseList k rest []).map fun (xs, r) => (.list xs, r)
      else if t.startsWith "M:" then
        match (after2 t).toNat? with
        | none => none
        | some k => (parseMap k rest []).map fun (kvs, r) => (.map kvs, r)
      else none
  partial def parseList : Nat → List String → List Value → Option (List Value × List String)
    | 0, rest, acc => some (acc.reverse, rest)
    | k + 1, rest, acc =>
      match parseValue rest with
      | none => none
      | some (v, r) => parseList k r (v :: acc)
  partial def parseMap : Nat → List String → List (Pipe.Str × Value) → Option (List (Pipe.Str × Value) × List String)
    | 0, rest, acc => some (acc.reverse, rest)
    | k + 1, rest, acc =>
      match rest with
      | [] => none
      | key :: r =>
        match unhex key, parseValue r with
        | some ks, some (v, r') => parseMap k r' ((ks, v) :: acc)
        | _, _ => none
end

def strLt (a b : Pipe.Str) : Bool := (a.map Char.toNat) < (b.map Char.toNat)

def insertSorted (kv : Pipe.Str × Value) : List (Pipe.Str × Value) → List (Pipe.Str × Value)
  | [] => [kv]
  | x :: xs => if strLt kv.1 x.1 then kv :: x :: xs else x :: insertSorted kv xs

def sortKeys (kvs : List (Pipe.Str × Value)) : List (Pipe.Str × Value) := kvs.foldl (fun acc kv => insertSorted kv acc) []

partial def renderValue : Value → List String
  | .null => ["n"]
  | .bool b => [if b then "b:t" else "b:f"]
  | .int i => [s!"i:{i}"]
  | .float b => ["f:" ++ hex16 b.toNat]
  | .str s => ["s:" ++ hex s]
  | .list xs => s!"L:{xs.length}" :: xs.flatMap renderValue
  | .map kvs => s!"M:{kvs.length}" :: (sortKeys kvs).flatMap fun (k, v) => hex k :: renderValue v

def renderRow (r : Row) : List String := renderValue (.map r)

def parseRow (toks : List String) : Option Row :=
  match parseValue toks with
  | some (.map kvs, []) => some kvs
  | _ => none

/-- canonical form of a value for comparisons (sorted keys, recursively) -/
def canon (v : Value) : List String := renderValue v

/-! ### items:  star | path <ncomps> (<name> <nsubs> (i <int> | k <hex>)*)* <alias> | bq <name> <alias> | lit <hex> <alias>
alias: `-` | `a:<hex>` | `q:<hex>` (back-quoted) -/

def parseAlias (t : String) : Option (Option Pipe.Str × Bool) :=
  if t == "-" then some (none, false)
  else if t.startsWith "a:" then (unhex (after2 t)).map fun a => (some a, false)
  else if t.startsWith "q:" then (unhex (after2 t)).map fun a => (some a, true)
  else none

partial def parseSubs : Nat → List String → List Sub → Option (List Sub × List String)
  | 0, rest, acc => some (acc.reverse, rest)
  | k + 1, "i" :: n :: rest, acc => n.toInt?.bind fun i => parseSubs k rest (.idx i :: acc)
  | k + 1, "k" :: h :: rest, acc => (unhex h).bind fun s => parseSubs k rest (.key s :: acc)
  | _, _, _ => none

partial def parseComps : Nat → List String → List Comp → Option (List Comp × List String)
  | 0, rest, acc => some (acc.reverse, rest)
  | k + 1, name :: ns :: rest, acc =>
    match unhex name, ns.toNat? with
    | some nm, some n =>
      match parseSubs n rest [] with
      | some (subs, r) => parseComps k r ({ name := nm, subs := subs } :: acc)
      | none => none
    | _, _ => none
  | _, _, _ => none

def parseItem : List String → Option Item
  | ["star"] => some { src := .star }
  | "path" :: n :: rest =>
    match n.toNat? with
    | none => none
    | some k =>
      match parseComps k rest [] with
      | some (f :: r, [al]) => (parseAlias al).map fun (a, bq) => { src := .path f r, alias := a, aliasBq := bq }
      | _ => none
  | ["bq", name, al] =>
    match unhex name, parseAlias al with
    | some nm, some (a, bq) => some { src := .bqcol nm, alias := a, aliasBq := bq }
    | _, _ => none
  | ["lit", h, al] =>
    match unhex h, parseAlias al with
    | some s, some (a, bq) => some { src := .lit s, alias := a, aliasBq := bq }
    | _, _ => none
  | _ => none

/-! ### WHERE of the form `<dotted column> OP <literal>`; the theorems treat WHERE as an abstract predicate,
this evaluator only instantiates it for the driver -/

structure WhereC where
  col : List Pipe.Str          -- dotted plain names
  op : String
  lit : Value

def walkNames : Value → List Pipe.Str → Option Value
  | v, [] => some v
  | .map kvs, n :: ns => (lookupKey n kvs).bind fun v' => walkNames v' ns
  | _, _ => none

def numOf : Value → Option Float
  | .int i => some (Float.ofInt i)
  | .float b => some (Float.ofBits b)
  | _ => none

def cmpOp {α : Type} (op : String) (lt : α → α → Bool) (eq : α → α → Bool) (a b : α) : Bool :=
  match op with
  | "=" => eq a b
  | "!=" => !eq a b
  | "<" => lt a b
  | "<=" => lt a b || eq a b
  | ">" => lt b a
  | ">=" => lt b a || eq a b
  | _ => false

/-- SQL truth of `col OP lit` on a row: a NULL / missing / differently typed column is not true -/
def evalWhere (w : WhereC) (row : Row) : Bool :=
  match walkNames (.map row) w.col with
  | none => false
  | some v =>
    match v, w.lit with
    | .int a, .int b => cmpOp w.op (fun x y => decide (x < y)) (fun x y => x == y) a b   -- integers compare exactly, whatever their size
    | _, _ =>
    match numOf v, numOf w.lit with
    | some a, some b => cmpOp w.op (fun x y => x < y) (fun x y => x == y) a b
    | _, _ =>
      match v, w.lit with
      | .str a, .str b => cmpOp w.op strLt (fun x y => x == y) a b
      | _, _ => false

partial def parseNames : Nat → List String → List Pipe.Str → Option (List Pipe.Str × List String)
  | 0, rest, acc => some (acc.reverse, rest)
  | k + 1, h :: rest, acc => (unhex h).bind fun s => parseNames k rest (s :: acc)
  | _, _, _ => none

def parseWhere : List String → Option (Option WhereC)
  | ["none"] => some none
  | n :: rest =>
    match n.toNat? with
    | none => none
    | some k =>
      match parseNames k rest [] with
      | some (names, op :: litToks) =>
        match parseValue litToks with
        | some (v, []) => some (some { col := names, op := op, lit := v })
        | _ => none
      | _ => none
  | _ => none

def dupNames (items : List Item) : Bool :=
  let ns := items.map outName
  ns.any fun n => (ns.filter (· == n)).length > 1

end DrvPipe
