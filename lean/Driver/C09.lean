import Driver.Proto
import Driver.KeysCommon
import SsqlVerif.Model.GroupKey
import SsqlVerif.Model.GroupPartition
import SsqlVerif.Model.Counting
import SsqlVerif.Spec.Counting
set_option autoImplicit false
open Proto GroupKey

/-
Driver of C09.  cfg: mode win|sql, arity, n.  ops: `row <id> v…`, `reap`, `flush`, `stats`, `trig` (management calls, no effect).
win: `flush` → `e <id…>` per batch delivered since the previous flush, in delivery order.
sql: `flush` → `d <delivery#> g v… c <count> ids <id…> f <first> l <last>` per result row.
-/
namespace DrvC09
open DrvKeys

abbrev St := Counting.Bufs (List Char) Row

def optStr : Option Int → String
  | some i => toString i
  | none => "<nil>"

/-- model of one sink delivery of the SQL query: the window batch through the aggregator -/
def sqlLines (d : Nat) (batch : List Row) : List (List String) :=
  sortLines ((DrvKeys.aggResults batch).map fun g =>
    ["d", toString d] ++ DrvKeys.resultLine g ++ ["f", optStr g.2.head?, "l", optStr g.2.getLast?])

/-- the oracle (tuple level, no reap in the case): every batch holds rows of one tuple only, and per
tuple the batches are, in order, the full chunks of N of its rows -/
def chunkSpec (n : Nat) (rows : List Row) (batches : List (List Int)) (keep : List Int → Bool := fun _ => true) : String :=
  let nrows := normRows rows
  let tupleOf (i : Int) : Option (List Val) := (nrows.find? fun r => r.2 == i).map Prod.fst
  if !(batches.all fun b => b.all fun i => (tupleOf i).isSome) then "fail:unknown-row-in-result"
  else if !(batches.all fun b => match b with
      | [] => false
      | i :: rest => rest.all fun j => tupleOf j == tupleOf i) then "fail:batch-mixes-keys"
  else
    let tuples := (nrows.map Prod.fst).eraseDups
    let bad := tuples.filter fun t =>
      let got := batches.filter fun b => (b.head?.bind tupleOf) == some t
      got != (CountingSpec.fullChunks n (CountingSpec.rowsOf nrows t)).filter keep
    if bad.isEmpty then "ok" else "fail:results-of-a-key-differ-from-its-chunks-of-N"

def parseE (l : List String) : Option (List Int) :=
  match l with
  | "e" :: ids => ids.mapM String.toInt?
  | _ => none

/-- `d <k> g v… c <n> ids <id…> f <x> l <y>` → (delivery, ids, count, first, last) -/
def parseD (l : List String) : Option (Nat × List Int × Nat × String × String) :=
  match l with
  | "d" :: k :: rest =>
    let body := rest.takeWhile (· != "f")
    match rest.dropWhile (· != "f"), DrvKeys.parseResult body with
    | ["f", f, "l", la], some (_, cnt, ids) => k.toNat?.map fun k => (k, ids, cnt, f, la)
    | _, _ => none
  | _ => none

def run (c : Case) : CaseOut := Id.run do
  let mode := cfgGet c "mode" "win"
  let n := (cfgGet c "n" "1").toNat?.getD 1
  -- cfg `nest 1`: every GROUP BY column is a dotted path; the window key is built as the code builds it
  let nest := cfgGet c "nest" "0" == "1"
  let arity := (cfgGet c "arity" "0").toNat?.getD 0
  let quals := List.replicate arity nest
  -- cfg `having T` (sql mode): `HAVING l >= T` with l = last_value(id): a chunk is delivered iff its last id is at least T
  let havingT : Option Int := (cfgGet c "having" "").toInt?
  let keep (ids : List Int) : Bool := match havingT with
    | none => true
    | some t => match ids.getLast? with | some l => decide (t ≤ l) | none => false
  let mut obs : List (List (List String)) := []
  let mut spec := "ok"
  let mut tags : List String := []
  let mut st : St := []
  let mut rows : List Row := []
  let mut pending : List (List Row) := []
  let mut delivered : Nat := 0
  let mut implBatches : List (List Int) := []
  let mut reaped := false
  let mut fired := false
  let mut carried := false
  for (op, implObs) in c.ops do
    match op with
    | "row" :: id :: vs =>
      match parseVals vs, id.toInt? with
      | some t, some i =>
        let r : Row := (t, i)
        rows := rows ++ [r]
        let k := encCounting (Counting.windowTuple Val.null quals t)
        if !(Counting.bufOf st k).isEmpty then carried := true
        let res := Counting.add n st k r
        st := res.1
        match res.2 with
        | some b => pending := pending ++ [b]; fired := true
        | none => pure ()
        obs := obs ++ [[]]
      | _, _ => obs := obs ++ [[["bad-op"]]]
    | ["reap"] =>
      st := Counting.reap st (st.map Prod.fst)
      reaped := true
      obs := obs ++ [[]]
    | ["stats"] => obs := obs ++ [[]]   -- GetStats / ResetStats: no effect on the window's rows
    | ["trig"] => obs := obs ++ [[]]    -- Trigger is a no-op on a counting window
    | ["flush"] =>
      if implObs.contains ["barrier-timeout"] then spec := "fail:row-accounting-never-balanced(rows-lost-or-duplicated)"
      if implObs.contains ["sentinel-lost"] then spec := "fail:result-after-all-rows-never-delivered"
      if mode == "sql" then
        let mut ls : List (List String) := []
        for b in pending do
          if keep (b.map Prod.snd) then
            ls := ls ++ sqlLines delivered b
            delivered := delivered + 1
        obs := obs ++ [ls]
        match implObs.mapM parseD with
        | none => if spec == "ok" then spec := "fail:unreadable-result"
        | some ds =>
          -- a delivery must be one result row with count = |ids| = N, first/last = ends of ids
          if !(ds.all fun d => d.2.2.1 == n && d.2.1.length == n &&
                d.2.2.2.1 == optStr d.2.1.head? && d.2.2.2.2 == optStr d.2.1.getLast?) then
            spec := "fail:result-does-not-aggregate-N-rows"
          else if (ds.map fun d => d.1) != List.range ds.length then spec := "fail:delivery-with-several-results"
          implBatches := implBatches ++ ds.map fun d => d.2.1
      else
        obs := obs ++ [pending.map fun b => "e" :: b.map fun r => toString r.2]
        match implObs.mapM parseE with
        | none => if spec == "ok" then spec := "fail:unreadable-result(row-without-id)"
        | some bs => implBatches := implBatches ++ bs
      pending := []
    | _ => obs := obs ++ [[["bad-op"]]]
  -- rows after the last flush are unobserved: the oracle speaks only about cases that end with a flush
  let endsWithFlush := (c.ops.getLast?.map Prod.fst) == some ["flush"]
  if !reaped && endsWithFlush && spec == "ok" then spec := chunkSpec n rows implBatches keep
  tags := [s!"mode-{mode}", if reaped then "reap-outside-quantifier" else "no-reap"]
  if fired then tags := "fired" :: tags
  if carried then tags := "buffer-carried-over" :: tags
  if n == 1 then tags := "N-1" :: tags
  let nrows := normRows rows
  let tuples := (nrows.map Prod.fst).eraseDups
  if tuples.any fun t => (CountingSpec.rowsOf nrows t).length % n == 0 && !(CountingSpec.rowsOf nrows t).isEmpty then
    tags := "exact-multiple" :: tags
  if tuples.any fun t => (CountingSpec.rowsOf nrows t).length < n then tags := "fewer-than-N" :: tags
  if tuples.length > 1 then tags := "several-keys" :: tags
  -- known-finding classifier: negation of the hypothesis of `windowKey_determines_group_partial`
  let cls := if quals.all (fun q => !q) then "none" else "qualified-group-column"
  return { obs := obs, spec := spec, tags := tags, cls := cls }

end DrvC09
