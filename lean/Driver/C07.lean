import Driver.Proto
import SsqlVerif.Model.PostAgg
import SsqlVerif.Spec.PostAgg
set_option autoImplicit false
open Proto

/-! Driver for C07: replays one query (cfg lines, structured AST next to the SQL text) and its
batches on the post-aggregation model at binary64, and evaluates the relational oracle
`Spec.valid` on the rows the implementation delivered. -/
namespace DrvC07
open PostAgg

/-- binary64 carried as its bit pattern (decidable equality = same bits, as the JSON rendering
of DISTINCT sees it; `eq` below is IEEE equality, as HAVING sees it) -/
structure F64 where
  bits : UInt64
  deriving DecidableEq, Inhabited

def F64.f (x : F64) : Float := Float.ofBits x.bits
def F64.of (x : Float) : F64 := ⟨x.toBits⟩

def f64 : Num F64 where
  zero := F64.of 0.0
  one := F64.of 1.0
  add a b := F64.of (a.f + b.f)
  sub a b := F64.of (a.f - b.f)
  mul a b := F64.of (a.f * b.f)
  div a b := F64.of (a.f / b.f)
  lt a b := a.f < b.f
  eq a b := a.f == b.f
  render a := (toString a.f).toList     -- only for mixed-type ORDER BY keys (tagged when reached)

/-! parsing -/

def hexNat (s : List Char) : Option Nat :=
  s.foldl (fun acc c => match acc, hexVal c with
    | some n, some d => some (n * 16 + d)
    | _, _ => none) (some 0)

def parseF (s : String) : Option F64 :=
  match s.toList with
  | 'f' :: ':' :: rest => if rest.length = 16 then (hexNat rest).map (fun n => ⟨UInt64.ofNat n⟩) else none
  | _ => none

def hexDigits16 (n : Nat) : String :=
  String.ofList ((List.range 16).reverse.map fun i => hexDigit (n / 16 ^ i % 16))

def showF (x : F64) : String := "f:" ++ hexDigits16 x.bits.toNat

def parseVal (s : String) : Option (Option (Val F64)) :=   -- none = bad token; some none = missing
  if s == "m" then some none
  else if s == "n" then some (some .null)
  else if s == "b:t" then some (some (.bool true))
  else if s == "b:f" then some (some (.bool false))
  else match s.toList with
    | 's' :: ':' :: rest => (unhex (String.ofList rest)).map (fun t => some (.str t))
    | 'i' :: ':' :: rest => (String.ofList rest).toInt?.map (fun n => some (.num (F64.of (Float.ofInt n))))
    | 'u' :: ':' :: rest => (String.ofList rest).toNat?.map (fun n => some (.num (F64.of (Float.ofNat n))))   -- a Go uint64 (up to 2^64-1)
    | _ => (parseF s).map (fun x => some (.num x))

def showVal : Val F64 → String
  | .num x => showF x
  | .str s => "s:" ++ hex s
  | .bool b => if b then "b:t" else "b:f"
  | .null => "n"

def parseOp : String → Option Op
  | "add" => some .add | "sub" => some .sub | "mul" => some .mul | "div" => some .div | _ => none

def parseFn : String → Option AggFn
  | "sum" => some .sum | "avg" => some .avg | "min" => some .min | "max" => some .max
  | "count" => some .count | _ => none

def parseCmp : String → Option Cmp
  | "gt" => some .gt | "ge" => some .ge | "lt" => some .lt | "le" => some .le
  | "eq" => some .eq | "ne" => some .ne | _ => none

partial def parseArg : List String → Option (Arg F64 × List String)
  | "col" :: c :: rest => (unhex c).map (fun n => (.col n, rest))
  | "star" :: rest => some (.star, rest)
  | "lit" :: x :: rest => (parseF x).map (fun v => (.lit v, rest))
  | "bin" :: o :: rest => do
    let o ← parseOp o
    let (l, rest) ← parseArg rest
    let (r, rest) ← parseArg rest
    some (.bin o l r, rest)
  | _ => none

partial def parseExpr : List String → Option (Expr F64 × List String)
  | "agg" :: f :: rest => do
    let f ← parseFn f
    let (a, rest) ← parseArg rest
    some (.agg f a, rest)
  | "lit" :: x :: rest => (parseF x).map (fun v => (.lit v, rest))
  | "ref" :: n :: rest => (unhex n).map (fun n => (.ref n, rest))
  | "bin" :: o :: rest => do
    let o ← parseOp o
    let (l, rest) ← parseExpr rest
    let (r, rest) ← parseExpr rest
    some (.bin o l r, rest)
  | _ => none

partial def parsePred : List String → Option (Pred F64 × List String)
  | "cmp" :: c :: rest => do
    let c ← parseCmp c
    let (l, rest) ← parseExpr rest
    let (r, rest) ← parseExpr rest
    some (.cmp c l r, rest)
  | "and" :: rest => do
    let (p, rest) ← parsePred rest
    let (q, rest) ← parsePred rest
    some (.and p q, rest)
  | "or" :: rest => do
    let (p, rest) ← parsePred rest
    let (q, rest) ← parsePred rest
    some (.or p q, rest)
  | _ => none

structure Cfg where
  q : Query F64
  cols : List Name

def parseCfg (c : Case) : Option Cfg := do
  let mut q : Query F64 := { gcol := ['d'], items := [], having := none, orderBy := [], limit := none, distinct := false }
  let mut cols : List Name := []
  for l in c.cfg do
    match l with
    | ["gcol", n] => q := { q with gcol := (← unhex n) }
    | "cols" :: cs => cols := (← cs.mapM unhex)
    | "item" :: a :: e =>
      let (e, rest) ← parseExpr e
      if !rest.isEmpty then none
      q := { q with items := q.items ++ [((← unhex a), e)] }
    | "having" :: p =>
      let (p, rest) ← parsePred p
      if !rest.isEmpty then none
      q := { q with having := some p }
    | ["order", k, d] => q := { q with orderBy := q.orderBy ++ [((← unhex k), d == "d")] }
    | ["limit", n] => q := { q with limit := some (← parseNat n) }
    | ["distinct", b] => q := { q with distinct := b == "t" }
    | _ => pure ()
  some { q := q, cols := cols }

/-- `batch n (d v…)×n [sent m (d v…)×m]` → the rows of the batch proper -/
def parseRows (cols : List Name) (gcol : Name) : Nat → List String → Option (List (InRow F64) × List String)
  | 0, rest => some ([], rest)
  | n+1, toks => do
    match toks with
    | d :: rest =>
      let dv ← parseVal d
      let vals ← (rest.take cols.length).mapM parseVal
      if vals.length != cols.length then none
      let cells := (cols.zip vals).filterMap (fun (c, v) => v.map (fun v => (c, v)))
      let row : InRow F64 := (match dv with | some v => [(gcol, v)] | none => []) ++ cells
      let (more, rest') ← parseRows cols gcol n (rest.drop cols.length)
      some (row :: more, rest')
    | [] => none

/-- observed rows: `row k v k v …` -/
def parseObsRow : List String → Option (List (Name × Val F64))
  | [] => some []
  | k :: v :: rest => do
    let k ← unhex k
    let v ← parseVal v
    let more ← parseObsRow rest
    match v with
    | some v => some ((k, v) :: more)
    | none => none
  | _ => none

def insertSorted (x : String × String) : List (String × String) → List (String × String)
  | [] => [x]
  | y :: ys => if x.1 < y.1 then x :: y :: ys else y :: insertSorted x ys

def rowLine (cells : List (Name × Val F64)) : List String :=
  let kv := cells.foldr (fun (k, v) acc => insertSorted (hex k, showVal v) acc) []
  "row" :: kv.flatMap (fun (k, v) => [k, v])

def visibleCells (r : Row F64) : List (Name × Val F64) :=
  r.filterMap fun (k, v) => match k with
    | .col n => some (n, v)
    | .ph f _ => some (("__ph_" ++ reprStr f ++ "__").toList, v)
    | .hv f _ => some (("__having_" ++ reprStr f ++ "__").toList, v)

/-- an observed row in the spec's column order; `none` if its column set is not the query's -/
def toSRow (q : Query F64) (cells : List (Name × Val F64)) : Option (Spec.SRow F64) :=
  let names := q.gcol :: q.items.map (·.1)
  if cells.length != names.length then none else
  names.mapM (fun n => (lookupIn n cells).map (fun v => (n, v)))

def isCompound (e : Expr F64) : Bool := !isPlain e

def exprHasArgExpr : Expr F64 → Bool
  | .agg _ (.bin _ _ _) => true
  | .bin _ l r => exprHasArgExpr l || exprHasArgExpr r
  | _ => false

def mixedKinds (q : Query F64) (rows : List (Spec.SRow F64)) : Bool :=
  q.orderBy.any fun (k, _) =>
    let kinds := rows.filterMap (fun r => (lookupIn k r).map fun v => match v with
      | .num _ => 0 | .bool _ => 1 | _ => 2)
    match kinds with
    | [] => false
    | k0 :: ks => ks.any (· != k0)

def hasTies (q : Query F64) (rows : List (Spec.SRow F64)) : Bool :=
  let rec go : List (Spec.SRow F64) → Bool
    | [] => false
    | r :: rs => rs.any (fun s => !Spec.specLess f64 q r s && !Spec.specLess f64 q s r) || go rs
  go rows

/-- `sort n ncols col… cell…`: rows with an `id` column (their input position) -/
def parseSortOp (toks : List String) : Option (List (Spec.SRow F64)) := do
  match toks with
  | n :: nc :: rest =>
    let n ← parseNat n
    let nc ← parseNat nc
    let cols ← (rest.take nc).mapM unhex
    let cells ← (rest.drop nc).mapM parseVal
    if cells.length != n * nc then none
    some ((List.range n).map fun r =>
      (['i', 'd'], Val.num (F64.of (Float.ofNat r))) ::
        ((cols.zip ((cells.drop (r * nc)).take nc)).filterMap fun (c, v) => v.map fun v => (c, v)))
  | _ => none

/-- `distinct n ncols col… cell…`: rows without an id column -/
def parseDistinctOp (toks : List String) : Option (List (Spec.SRow F64)) := do
  match toks with
  | n :: nc :: rest =>
    let n ← parseNat n
    let nc ← parseNat nc
    let cols ← (rest.take nc).mapM unhex
    let cells ← (rest.drop nc).mapM parseVal
    if cells.length != n * nc then none
    some ((List.range n).map fun r =>
      ((cols.zip ((cells.drop (r * nc)).take nc)).filterMap fun (c, v) => v.map fun v => (c, v)))
  | _ => none

/-- positions of the rows DISTINCT keeps: the first occurrence of every row value, in input order -/
def keptPositions (rows : List (Spec.SRow F64)) : List Nat :=
  (List.range rows.length).filter fun i =>
    match rows[i]? with
    | some r => !((rows.take i).any fun q => q == r)
    | none => false

def rowId (r : Spec.SRow F64) : Nat :=
  match lookupIn ['i', 'd'] r with
  | some (.num x) => x.f.toUInt64.toNat
  | _ => 0

/-- oracle for the sorter alone: a permutation, sorted, ties in input order -/
def stableSortedIds (less : Spec.SRow F64 → Spec.SRow F64 → Bool) (rows : List (Spec.SRow F64)) (ids : List Nat) : Option String :=
  let n := rows.length
  if ids.length != n || !(List.range n).all (fun i => ids.contains i) then some "not-a-permutation" else
  let out := ids.filterMap fun i => rows[i]?
  if !Spec.sortedBy less out then some "not-sorted" else
  let rec ties : List (Spec.SRow F64) → Bool
    | [] => true
    | x :: xs => xs.all (fun y => less x y || rowId x < rowId y) && ties xs
  if !ties out then some "ties-not-in-input-order" else none

def run (c : Case) : CaseOut := Id.run do
  match parseCfg c with
  | none => return { obs := c.ops.map fun _ => [["bad-cfg"]], spec := "fail:bad-cfg" }
  | some cfg =>
  let q := cfg.q
  let mut obs : List (List (List String)) := []
  let mut spec := "ok"
  let mut tags : List String := []
  let addTag (ts : List String) (t : String) : List String := if ts.contains t then ts else t :: ts
  if q.items.any (fun it => isCompound it.2) then tags := addTag tags "select-compound"
  if q.items.any (fun it => exprHasArgExpr it.2) then tags := addTag tags "select-agg-over-expr"
  match q.having with
  | some p =>
    tags := addTag tags "having"
    if (predCalls p).any (fun c => match c.2 with | .bin _ _ _ => true | _ => false) then tags := addTag tags "having-agg-over-expr"
  | none => pure ()
  if q.distinct then tags := addTag tags "distinct"
  tags := addTag tags s!"orderby-{q.orderBy.length}"
  match q.limit with
  | some 0 => tags := addTag tags "limit-0"
  | some _ => tags := addTag tags "limit"
  | none => pure ()
  for (op, implObs) in c.ops do
    match op with
    | "batch" :: n :: rest =>
      match (parseNat n).bind (fun n => parseRows cfg.cols q.gcol n rest) with
      | none => obs := obs ++ [[["bad-op"]]]
      | some (rows, _) =>
        let gs := groupBatch q.gcol rows
        -- the implementation's delivered rows, and the pre-sort order they witness
        let implRows := implObs.filterMap fun l => match l with
          | "row" :: cells => parseObsRow cells
          | _ => none
        let seenKeys := implRows.filterMap (fun r => lookupIn q.gcol r)
        let first := seenKeys.filterMap (fun k => gs.find? (fun g => g.key == k))
        let gs' := first ++ gs.filter (fun g => !seenKeys.contains g.key)
        let out := PostAgg.run f64 q gs'
        let lines := if out.isEmpty then [["none"]] else
          ["deliver", toString out.length] :: out.map (fun r => rowLine (visibleCells r))
        obs := obs ++ [lines]
        -- distribution
        let cand := Spec.candidates f64 q gs
        tags := addTag tags s!"groups-{min gs.length 6}"
        if cand.length < gs.length then tags := addTag tags "having-filters"
        if cand.isEmpty then tags := addTag tags "batch-empty"
        match q.limit with
        | some n => if n < cand.length then tags := addTag tags "limit-cuts"
        | none => pure ()
        if !q.orderBy.isEmpty && hasTies q cand then tags := addTag tags "order-ties"
        if mixedKinds q cand then tags := addTag tags "mixed-key-kinds"
        if cand.any (fun r => r.any (fun kv => kv.2 == .null)) then tags := addTag tags "null-output"
        -- oracle on the implementation's observables
        if spec == "ok" then
          if implObs.any (fun l => l.head? == some "sentinel-lost") then spec := "fail:sentinel-lost"
          else
            match implRows.mapM (toSRow q) with
            | none => spec := "fail:unexpected-or-missing-column"
            | some srows =>
              match Spec.validClause f64 q gs srows with
              | some cl => spec := "fail:" ++ cl
              | none => pure ()
    | "distinct" :: rest =>
      match parseDistinctOp rest with
      | none => obs := obs ++ [[["bad-op"]]]
      | some rows =>
        let kept := keptPositions rows
        obs := obs ++ [[("kept" :: kept.map toString)]]
        tags := addTag tags "distinct-step-alone"
        if kept.length < rows.length then tags := addTag tags "distinct-drops-a-duplicate"
        if spec == "ok" then
          match implObs with
          | [("kept" :: ids)] =>
            let ids := ids.filterMap parseNat
            -- a row is dropped iff it equals an earlier row column by column
            if !(ids.all fun i => kept.contains i) then spec := "fail:distinct-keeps-a-duplicate"
            else if !(kept.all fun i => ids.contains i) then spec := "fail:distinct-drops-a-row-that-differs"
            else if ids != kept then spec := "fail:distinct-reorders"
          | _ => spec := "fail:distinct-no-output"
    | "sort" :: rest =>
      match parseSortOp rest with
      | none => obs := obs ++ [[["bad-op"]]]
      | some rows =>
        let less := Spec.specLess f64 q
        let out := sortBy less rows
        obs := obs ++ [[("order" :: out.map (fun r => toString (rowId r)))]]
        tags := addTag tags "sorter"
        if q.orderBy.any (fun (k, _) => rows.any (fun r => (lookupIn k r).isNone) && rows.any (fun r => (lookupIn k r).isSome)) then
          tags := addTag tags "sorter-missing-and-present"
        if hasTies q rows then tags := addTag tags "sorter-ties"
        if mixedKinds q rows then tags := addTag tags "mixed-key-kinds"
        if spec == "ok" then
          match implObs with
          | [("order" :: ids)] =>
            match stableSortedIds less rows (ids.filterMap parseNat) with
            | some cl => spec := "fail:sorter-" ++ cl
            | none => pure ()
          | _ => spec := "fail:sorter-no-output"
    | _ => obs := obs ++ [[["bad-op"]]]
  let cls := "none"
  return { obs := obs, spec := spec, cls := cls, tags := tags }

end DrvC07
