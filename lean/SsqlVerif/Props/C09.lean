/-
C09 — Counting windows emit, per key, consecutive batches of exactly N rows.
Property theorems only; helper lemmas live in `Proofs/Counting.lean` (and C04's `Proofs/GroupKey*`).
An op list is one schedule of the window goroutine's critical sections: one `row` per row taken
from the FIFO `triggerChan`, so the theorems range over every interleaving of keys.
-/
import SsqlVerif.Proofs.Counting
import SsqlVerif.Proofs.GroupKeyTyped
import SsqlVerif.Generated.Facts
set_option autoImplicit false

namespace C09
open Counting CountingSpec

/-- For every threshold N ≥ 1, every history without STATETTL reaping and every (encoded) key:
the results delivered for the key are, in order, the full chunks of N of that key's rows in
arrival order — result i aggregates rows (i-1)·N+1 … i·N. -/
theorem counting_eq_chunks {σ ρ : Type} [DecidableEq σ] (n : Nat) (hn : 0 < n)
    (ops : List (Op σ ρ)) (hnr : noReap ops = true) (k : σ) :
    emissionsOf (run n [] ops) k = fullChunks n (rowsOfOps ops k) := by
  have := run_eq_chunks_gen n hn k ops [] (short_nil n hn) hnr
  simpa [bufOf] using this

/-- Rows of other keys interleaved in between have no influence: two histories with the same
rows of key `k` (in the same order) deliver the same results for `k`. -/
theorem counting_interleaving_irrelevant {σ ρ : Type} [DecidableEq σ] (n : Nat) (hn : 0 < n)
    (ops ops' : List (Op σ ρ)) (h1 : noReap ops = true) (h2 : noReap ops' = true) (k : σ)
    (hk : rowsOfOps ops k = rowsOfOps ops' k) :
    emissionsOf (run n [] ops) k = emissionsOf (run n [] ops') k := by
  rw [counting_eq_chunks n hn ops h1, counting_eq_chunks n hn ops' h2, hk]

/-- Fewer than N rows of a key never produce a result for it. -/
theorem counting_lt_N_silent {σ ρ : Type} [DecidableEq σ] (n : Nat) (hn : 0 < n)
    (ops : List (Op σ ρ)) (hnr : noReap ops = true) (k : σ) (hlt : (rowsOfOps ops k).length < n) :
    emissionsOf (run n [] ops) k = [] := by
  rw [counting_eq_chunks n hn ops hnr, fullChunks_short n _ hlt]

/-- Every result aggregates exactly N rows. -/
theorem counting_batches_have_N {σ ρ : Type} [DecidableEq σ] (n : Nat) (hn : 0 < n)
    (ops : List (Op σ ρ)) (hnr : noReap ops = true) (k : σ) :
    ∀ b ∈ emissionsOf (run n [] ops) k, b.length = n := by
  rw [counting_eq_chunks n hn ops hnr]
  exact chunk_length n _

/-- No row contributes to two results, none is skipped: the results of a key, concatenated, are
exactly the first ⌊m/N⌋·N of its m rows (only the trailing m mod N rows are still waiting). -/
theorem counting_no_row_twice {σ ρ : Type} [DecidableEq σ] (n : Nat) (hn : 0 < n)
    (ops : List (Op σ ρ)) (hnr : noReap ops = true) (k : σ) :
    (emissionsOf (run n [] ops) k).flatten
      = (rowsOfOps ops k).take ((rowsOfOps ops k).length / n * n) := by
  rw [counting_eq_chunks n hn ops hnr]
  exact fullChunks_flatten n hn _ _ rfl

open GroupKey GroupBy in
/-- Tuple level (with C04's injectivity of the repaired `getKey`): rows keyed by typed GROUP BY
tuples (one scalar type per column, NULL = missing normalised) — the results delivered under the
key of tuple `t` are the full chunks of the rows whose tuple is `t`. -/
theorem counting_eq_chunks_tuple {ρ : Type} (n : Nat) (hn : 0 < n) (rows : List (List Val × ρ))
    (t : List Val) (hNt : normTuple t = t) (hN : ∀ r ∈ rows, normTuple r.1 = r.1)
    (hT : ∀ r ∈ rows, sameTypeT r.1 t = true ∧ fltOkT r.1 t) :
    emissionsOf (run n [] (rows.map fun x => Op.row (encCounting x.1) x.2)) (encCounting t)
      = fullChunks n (rowsOf rows t) := by
  rw [counting_eq_chunks n hn _ (noReap_map_row encCounting rows), rowsOfOps_map_row]
  unfold rowsOf
  congr 2
  apply List.filter_congr
  intro r hr
  simp only [decide_eq_decide]
  constructor
  · intro h
    have := C04_encCounting_injective r.1 t (hT r hr).1 (hT r hr).2 h
    rwa [hN r hr, hNt] at this
  · intro h; rw [h]
where
  C04_encCounting_injective (t t' : List Val) (ht : sameTypeT t t' = true) (hf : fltOkT t t')
      (h : encCounting t = encCounting t') : normTuple t = normTuple t' :=
    map_render_injective renderCast renderCast_injective t t' ht hf
      (encWindow_injective _ _ _ (by simp [sameTypeT_length t t' ht]) h)

/-! ### qualified GROUP BY columns (recorded finding `qualified-group-column`)

Full statement: the window key determines the tuple of group values, whichever GROUP BY columns
are dotted paths.  It fails on the code as it is (a qualified column always contributes NULL), so
with `GROUP BY m.location, CountingWindow(N)` all groups share one count buffer.  What holds is
the partial statement under the decidable hypothesis "no GROUP BY column is qualified" — the
hypothesis under which `counting_eq_chunks_tuple` speaks about real group tuples. -/

def windowKey_determines_group_full : Prop :=
  ∀ (qualified : List Bool) (t t' : List GroupKey.Val), t.length = t'.length →
    windowTuple GroupKey.Val.null qualified t = windowTuple GroupKey.Val.null qualified t' → t = t'

theorem windowKey_determines_group_partial (qualified : List Bool)
    (H : qualified.all (fun q => !q) = true) (t : List GroupKey.Val) :
    windowTuple GroupKey.Val.null qualified t = t := by
  induction qualified generalizing t with
  | nil => cases t <;> rfl
  | cons q qs ih =>
    simp only [List.all_cons, Bool.and_eq_true, Bool.not_eq_true'] at H
    cases t with
    | nil => rfl
    | cons v vs => simp [windowTuple, H.1, ih H.2 vs]

theorem windowKey_determines_group_fails : ¬ windowKey_determines_group_full := by
  intro h
  have := h [true] [.str ['a']] [.str ['b']] rfl (by decide)
  exact absurd this (by decide)

-- the consequence on the window: N = 2, groups a and b under one qualified column share a buffer,
-- the batch mixes them (each group's result then aggregates 1 row instead of waiting for 2)
example : run 2 [] [Op.row (GroupKey.encCounting (windowTuple .null [true] [.str ['a']])) 1,
                    Op.row (GroupKey.encCounting (windowTuple .null [true] [.str ['b']])) 2]
    = [(GroupKey.encCounting [.null], [1, 2])] := by decide

/-! non-vacuity -/
-- N = 2, keys a/b interleaved: a gets [1,3] then [5,7]; b gets [2,4]; 9 (a) and 6 (b) keep waiting
example : run 2 [] [Op.row 'a' 1, .row 'b' 2, .row 'a' 3, .row 'b' 4, .row 'a' 5, .row 'b' 6, .row 'a' 7, .row 'a' 9]
    = [('a', [1, 3]), ('b', [2, 4]), ('a', [5, 7])] := by decide
example : fullChunks 2 [1, 3, 5, 7, 9] = [[1, 3], [5, 7]] := by decide
example : fullChunks 1 [4, 5] = [[4], [5]] ∧ fullChunks 3 [4, 5] = [] := by decide
-- the hypothesis "no key state is reaped" is needed: a reap between the rows loses row 1
example : emissionsOf (run 2 [] [Op.row 'a' 1, .reap ['a'], .row 'a' 3, .row 'a' 5]) 'a' = [[3, 5]] ∧
    fullChunks 2 [1, 3, 5] = [[1, 3]] := by decide

end C09

/-! tie to the source: the integer literals of the goroutine loop (`countStateTTL > 0`, `/ 2`,
`make(…, 0, threshold)` — no `threshold ± 1`) and the no-key constant -/
theorem C09.facts_counting :
    Facts.window_CountingWindow_Start_intlits = [0, 2, 0] ∧
    Facts.window_CountingWindow_getKey_strlits = ["__global__"] := by decide
