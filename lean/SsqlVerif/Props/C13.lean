/-
C13 — LIKE and IS [NOT] NULL have SQL semantics on every evaluation path.
Property theorems only; helper lemmas live in `Proofs/Like*.lean`.
-/
import SsqlVerif.Proofs.LikeRewrite
import SsqlVerif.Model.IsNull
import SsqlVerif.Generated.Facts
set_option autoImplicit false

namespace C13
open Like

/-- The matcher loop (all three copies share this model; each copy is tied to it by the
correspondence check) decides exactly the declarative LIKE relation — for every text and
every pattern over every alphabet, including texts that contain `%` and `_`. -/
theorem like_loop_eq_spec {α : Type} [DecidableEq α] (pct und : α) (t p : List α) :
    likeImpl pct und t p = likeSpec pct und p t :=
  likeImpl_eq_spec pct und t p

/-- byte-level instance used by the driver -/
theorem like_loop_eq_spec_bytes (t p : List Char) :
    likeImpl '%' '_' t p = likeSpec '%' '_' p t :=
  likeImpl_eq_spec '%' '_' t p

/-- The operator rewriting (`==`, `startsWith`, `endsWith`, `contains`, `true`, `like_match`)
chosen by `convertLikeToFunction` decides the same relation, for every pattern class
(empty, `%`, `%%…`, leading/trailing/both-side runs of `%`, inner wildcards). -/
theorem convertLike_sound {α : Type} [DecidableEq α] (pct und : α) (p t : List α) :
    evalRewritten pct und t (convertLike pct und p) = likeSpec pct und p t :=
  convertLike_sound' pct und (likeImpl_eq_spec pct und) p t

/-- hence the direct matcher and the rewritten form agree with each other -/
theorem rewritten_eq_loop {α : Type} [DecidableEq α] (pct und : α) (p t : List α) :
    evalRewritten pct und t (convertLike pct und p) = likeImpl pct und t p := by
  rw [convertLike_sound, like_loop_eq_spec]

open IsNull in
/-- IS NULL is "absent or NULL" on all three paths, and IS NOT NULL its negation. -/
theorem isnull_paths_agree (c : Cell) :
    rewrittenIsNull c = isNullSpec c ∧ fnIsNull c = isNullSpec c ∧ handIsNull c = isNullSpec c ∧
    rewrittenIsNotNull c = !isNullSpec c ∧ fnIsNotNull c = !isNullSpec c ∧
    handIsNotNull c = !isNullSpec c := by
  cases c <;> decide

/-! non-vacuity / sanity: concrete instances, including the text-contains-`%` corner -/
example : likeSpec '%' '_' ['%','b','_'] ['%','a','b','c'] = true := by decide
example : likeImpl '%' '_' ['%','a','b','c'] ['%','b','_'] = true := by decide
example : likeImpl '%' '_' ['%','a'] ['%'] = true := by decide
example : likeSpec '%' '_' ['a','%'] ['b'] = false := by decide
example : convertLike '%' '_' ['a','b','%','%'] = Rewritten.startsWith ['a','b'] := by decide
example : convertLike '%' '_' ['%','%','a'] = Rewritten.endsWith ['a'] := by decide
example : convertLike '%' '_' ['%','a','_','%'] = Rewritten.likeMatch ['%','a','_','%'] := by decide

end C13

/-! tie to the source constants (regenerated on every run from /repo by factsgen):
the wildcard bytes the three loops test, in source order -/
theorem C13.facts_wildcards :
    Facts.condition_matchesLikePattern_strlits = ["%", "_", "%"] ∧
    Facts.expr_matchLikePattern_strlits = ["%", "_", "%"] ∧
    Facts.functions_ExprBridge_matchesLikePattern_strlits = ["%", "_", "%"] := by decide
