/-
C11 — SQL parser: total, layout-insensitive, faithful.  Lexer layer (the part Lean carries).
Property theorems only; helper lemmas live in `Proofs/Lexer*.lean`.
-/
import SsqlVerif.Spec.Lexer
import SsqlVerif.Generated.Facts
set_option autoImplicit false

namespace C11
open Lexer LexSpec

/-! tie to the source (regenerated on every run from the Go source by factsgen) -/

/-- the keyword table of `lookupIdent`, in source order -/
theorem facts_keywords :
    Facts.rsql_Lexer_lookupIdent_strlits =
      ["SELECT", "FROM", "WHERE", "GROUP", "BY", "AS", "OR", "AND", "TUMBLINGWINDOW", "SLIDINGWINDOW",
       "COUNTINGWINDOW", "SESSIONWINDOW", "GLOBAL", "WINDOW", "TRIGGER", "WITH", "TIMESTAMP", "TIMEUNIT",
       "MAXOUTOFORDERNESS", "ALLOWEDLATENESS", "IDLETIMEOUT", "STATETTL", "ORDER", "DISTINCT", "LIMIT",
       "HAVING", "LIKE", "IS", "NULL", "NOT", "CASE", "WHEN", "THEN", "ELSE", "END", "OVER", "PARTITION"] ∧
    kwCodes.length = Facts.rsql_Lexer_lookupIdent_strlits.length := by decide

/-- the `TokenType` enumeration: the 62 kinds of the model carry 62 pairwise distinct codes in `0..61`
(so the kind ↔ Go token type translation of the driver is a bijection), and the lexical error types
are the four distinct constants of `error.go` -/
theorem facts_token_codes :
    (allKinds.map Kind.code).Nodup ∧ allKinds.length = 62 ∧
    (∀ c ∈ allKinds.map Kind.code, 0 ≤ c ∧ c < 62) ∧
    ([LexErr.unexpectedChar, .invalidNumber, .unterminated, .typo].map LexErr.code) = [1, 7, 8, 6] := by decide

end C11
