/-
C11 — SQL parser: total, layout-insensitive, faithful.  This file carries the *lexer layer*
(`rsql/lexer.go`, modelled completely in `Model/Lexer.lean`); the parser proper (`parser.go`, `ast.go`)
is not modelled — its faithfulness and layout-insensitivity are checked per run by the
translation-validation oracle `Spec/ParserTV.lean`, and its totality is searched, not proved.
Property theorems only; helper lemmas live in `Proofs/Lexer*.lean`.
-/
import SsqlVerif.Proofs.LexerRender
import SsqlVerif.Generated.Facts
set_option autoImplicit false

namespace C11
open Lexer LexSpec

/-! ## totality and termination of the lexer -/

/-- Every `NextToken` call that does not return EOF consumes at least one byte and never reads past
the end of the input — for every input (any bytes, NUL and invalid UTF-8 included). -/
theorem lex_progress (s : List Byte) :
    (nextToken s).2 ≤ s.length ∧ ((nextToken s).1.kind ≠ .eof → 1 ≤ (nextToken s).2) :=
  ⟨nextToken_le s, nextToken_pos s⟩

/-- `lexAll` — defined by *structural* recursion on the input, so Lean's termination check is the
termination proof, no fuel — is exactly the loop "call `NextToken` until it returns `TokenEOF`" on the
remaining input. -/
theorem lex_terminates (s : List Byte) :
    lexAll s = if (nextToken s).1.kind = .eof then [eofTok]
               else (nextToken s).1 :: lexAll (s.drop (nextToken s).2) :=
  lexAll_unfold s

/-- Totality: every byte string yields a finite token list — some non-EOF tokens (at most one per input
byte) followed by exactly one EOF token.  The lexer has no failing branch: unterminated literals,
invalid numbers and unexpected characters still produce this shape (they only add entries to the
error list, `Lexer.nextErrs`). -/
theorem lex_total (s : List Byte) :
    ∃ ts, lexAll s = ts ++ [eofTok] ∧ (∀ t ∈ ts, t.kind ≠ .eof) ∧ ts.length ≤ s.length :=
  lexAll_shape s.length s (Nat.le_refl _)

/-- Faithfulness of the lexer: what a `NextToken` call consumes is skipped junk (whitespace, unexpected
characters) followed by *exactly* the token's value — token values are contiguous slices of the input,
nothing is rewritten, reordered or invented. -/
theorem lex_token_is_slice (s : List Byte) :
    s.take (nextToken s).2 = s.take (junkLen s) ++ (nextToken s).1.val :=
  nextToken_slice s

/-! ## layout insensitivity -/

/-- For every list of well-formed source tokens, **any** whitespace layout that keeps apart the token pairs
named by the explicit separation predicate `needSep`, and **any** case variation of the words, the lexer
returns exactly the source tokens: kind from the source token (a word spelling a keyword in any letter case
is that keyword), value = the spelling as written. -/
theorem lex_layout_insensitive (ps : List Placed) (trail : List Byte)
    (hv : AllValid ps = true) (hl : LayoutOk ps trail = true) (hs : Sep ps = true) :
    lexAll (render ps trail) = expected ps :=
  lexAll_render ps trail hv hl hs

/-- Two layouts / keyword spellings of the same statement give the same token kinds, and — when the case
variation touches keywords only — the same tokens up to keyword spelling. -/
theorem lex_layout_pair (ps₁ ps₂ : List Placed) (t₁ t₂ : List Byte)
    (hsrc : ps₁.map (·.src) = ps₂.map (·.src))
    (hv₁ : AllValid ps₁ = true) (hl₁ : LayoutOk ps₁ t₁ = true) (hs₁ : Sep ps₁ = true)
    (hv₂ : AllValid ps₂ = true) (hl₂ : LayoutOk ps₂ t₂ = true) (hs₂ : Sep ps₂ = true) :
    (lexAll (render ps₁ t₁)).map Token.kind = (lexAll (render ps₂ t₂)).map Token.kind ∧
    ((∀ p ∈ ps₁, maskKwOnly p = true) → (∀ p ∈ ps₂, maskKwOnly p = true) →
      (lexAll (render ps₁ t₁)).map normTok = (lexAll (render ps₂ t₂)).map normTok) := by
  rw [lexAll_render ps₁ t₁ hv₁ hl₁ hs₁, lexAll_render ps₂ t₂ hv₂ hl₂ hs₂]
  constructor
  · rw [expected_kinds, expected_kinds]
    have : ps₁.map (fun p => p.src.kind) = (ps₁.map (·.src)).map Src.kind := by simp
    rw [this, hsrc]; simp
  · intro h₁ h₂
    rw [expected_norm ps₁ h₁, expected_norm ps₂ h₂, hsrc]

/-- A keyword is recognised in every letter case, and no case variation turns an identifier into a
keyword or a keyword into another one. -/
theorem lex_keyword_case_insensitive (m : List Bool) (w : List Byte) :
    wordKind (applyMask m w) = wordKind w :=
  wordKind_applyMask m w

/-! ## literals and quoted identifiers are opaque -/

/-- Bytes between two quotes (either quote character; no quote of that kind and no NUL inside) lex to exactly
one `String` token with that text — whatever keywords, operators, whitespace or quotes of the other kind they
contain — and lexing resumes right after the closing quote. -/
theorem lex_literal_opaque (q : Byte) (hq : q = 39 ∨ q = 34) (body pre rest : List Byte)
    (hb : ∀ c ∈ body, c ≠ q ∧ c ≠ 0) (hp : ∀ c ∈ pre, isWs c = true) :
    lexAll (pre ++ (q :: (body ++ [q]) ++ rest)) = ⟨.string, q :: (body ++ [q])⟩ :: lexAll rest :=
  lexAll_str q hq body pre rest hb hp

/-- The same for backtick identifiers: one `QuotedIdent` token, whatever is between the backticks. -/
theorem lex_backtick_opaque (body pre rest : List Byte)
    (hb : ∀ c ∈ body, c ≠ 96 ∧ c ≠ 0) (hp : ∀ c ∈ pre, isWs c = true) :
    lexAll (pre ++ (96 :: (body ++ [96]) ++ rest)) = ⟨.qident, 96 :: (body ++ [96])⟩ :: lexAll rest :=
  lexAll_qid body pre rest hb hp

/-! ## non-vacuity: concrete instances (kernel-evaluated on the model) -/

section examples
private def b (s : String) : List Byte := bytesOf s

/-- `select a FROM t` in two layouts/spellings: same kinds -/
example : (lexAll (b "select a\n\tFROM t")).map Token.kind = (lexAll (b "SeLeCt  a from\r\nt ")).map Token.kind := by decide
example : (lexAll (b "select a FROM t")).map Token.kind = [.kw 0, .ident, .kw 1, .ident, .eof] := by decide
/-- the hypotheses of `lex_layout_insensitive` are satisfiable, with tokens touching and case varied -/
example : let ps : List Placed := [⟨.word (b "WHERE"), [], [true, false, true]⟩, ⟨.word (b "x"), [32], []⟩,
                                   ⟨.op .ge, [], []⟩, ⟨.num true (b "1.5"), [], []⟩, ⟨.str 39 (b "LIMIT 1"), [10], []⟩]
    AllValid ps = true ∧ LayoutOk ps [13, 10] = true ∧ Sep ps = true ∧
    render ps [13, 10] = b "wHeRE x>=-1.5\n'LIMIT 1'\r\n" ∧
    lexAll (render ps [13, 10]) = expected ps := by decide
/-- …and `Sep` is needed: without whitespace `a` `b` glue into one identifier, `-` `1` into a number -/
example : lexAll (b "ab") = [⟨.ident, b "ab"⟩, eofTok] ∧ lexAll (b "a-1") = [⟨.ident, b "a"⟩, ⟨.number, b "-1"⟩, eofTok]
    ∧ lexAll (b "a - 1") = [⟨.ident, b "a"⟩, ⟨.minus, b "-"⟩, ⟨.number, b "1"⟩, eofTok] := by decide
/-- a literal full of keywords is one token; an identifier containing a keyword is one identifier -/
example : lexAll (b "'x ORDER BY y LIMIT 1' limit_x `from`") =
    [⟨.string, b "'x ORDER BY y LIMIT 1'"⟩, ⟨.ident, b "limit_x"⟩, ⟨.qident, b "`from`"⟩, eofTok] := by decide
/-- totality on junk: NUL ends the input, invalid bytes are skipped, an unterminated literal is still a token -/
example : lexAll [35, 255, 97, 0, 98] = [⟨.ident, [97]⟩, eofTok] ∧ lexAll (b "! 'abc") = [⟨.string, b "'abc"⟩, eofTok] := by decide
example : nextToken (b "  !x") = (⟨.ident, b "x"⟩, 4) ∧ junkLen (b "  !x") = 3 := by decide
end examples

/-! ## tie to the source (regenerated on every run from the Go source by factsgen) -/

/-- the keyword table of `lookupIdent`, in source order; one token constant per case -/
theorem facts_keywords :
    Facts.rsql_Lexer_lookupIdent_strlits =
      ["SELECT", "FROM", "WHERE", "GROUP", "BY", "AS", "OR", "AND", "TUMBLINGWINDOW", "SLIDINGWINDOW",
       "COUNTINGWINDOW", "SESSIONWINDOW", "GLOBAL", "WINDOW", "TRIGGER", "WITH", "TIMESTAMP", "TIMEUNIT",
       "MAXOUTOFORDERNESS", "ALLOWEDLATENESS", "IDLETIMEOUT", "STATETTL", "ORDER", "DISTINCT", "LIMIT",
       "HAVING", "LIKE", "IS", "NULL", "NOT", "CASE", "WHEN", "THEN", "ELSE", "END", "OVER", "PARTITION"] ∧
    kwCodes.length = Facts.rsql_Lexer_lookupIdent_strlits.length := by decide

/-- the misspellings `checkForTypos` reports (its case labels, each group followed by the suggestion;
the last literal is the message format) -/
theorem facts_typos :
    Facts.rsql_Lexer_checkForTypos_strlits =
      ["SELCT", "SELECCT", "SELET", "SELECT", "FORM", "FRON", "FRMO", "FROM", "WHER", "WHRE", "WEHRE", "WHERE",
       "GROPU", "GRUP", "GRPUP", "GROUP", "ODER", "ORDR", "OREDR", "ORDER", "DSITINCT", "DISTINC", "DISTINT",
       "DISTINCT", "Unknown keyword '%s'"] := by decide

/-- the `TokenType` enumeration: the 62 kinds of the model carry 62 pairwise distinct codes in `0..61`
(so the kind ↔ Go token type translation of the driver is a bijection), and the lexical error types
are the four distinct constants of `error.go` -/
theorem facts_token_codes :
    (allKinds.map Kind.code).Nodup ∧ allKinds.length = 62 ∧
    (∀ c ∈ allKinds.map Kind.code, 0 ≤ c ∧ c < 62) ∧
    ([LexErr.unexpectedChar, .invalidNumber, .unterminated, .typo].map LexErr.code) = [1, 7, 8, 6] := by decide

end C11
