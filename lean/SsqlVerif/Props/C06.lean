/-
C06 — scalar expressions follow SQL arithmetic, comparison, logic, CASE and NULL rules.
Property theorems only; helper lemmas live in `Proofs/Expr*.lean`.

All statements are for every number type `ν` with the operations of `NumOps` (no laws; exact
arithmetic is one instance, the driver's `Float` another).  The only facts about numbers any
theorem uses are the four `Num01` facts (`1 == 1`, `0 == 0`, `1 != 0`, `0 != 1`), because the
hand-written evaluator compares booleans through their float images.

What is proved of the *model*:   the hand-written evaluator (`ev`, modes w/v/b and the WHEN loops)
computes the SQL value on every sort-correct expression (NOT included: its operand is evaluated
three-valued), for every row (NULL, missing, any value kinds) on which the SQL value is defined;  the strict expr-lang table (`xl`, WHERE position
and the bridge in SELECT position) computes the SQL value whenever no sub-expression is NULL;  the
SELECT router returns the SQL value whenever the bridge does;  the two memo tables are transparent.
What is *not* proved (tied by correspondence only): that `xl` describes the third-party expr-lang VM,
that `render`/the Go parsers round-trip, that `env.fn` is what the registered Go functions compute.
-/
import SsqlVerif.Proofs.ExprXl
import SsqlVerif.Proofs.ExprCache
import SsqlVerif.Generated.Facts
set_option autoImplicit false

namespace C06
open Ex

/-! ### an exact-arithmetic instance for the non-vacuity examples -/

instance intOps : NumOps Int where
  add := (· + ·)
  sub := (· - ·)
  mul := (· * ·)
  div := (· / ·)
  ofNat := Int.ofNat
  isZero := (· == 0)
  isNaN := fun _ => false
  eq := (· == ·)
  lt := fun a b => decide (a < b)
  le := fun a b => decide (a ≤ b)

instance : Num01 Int := ⟨by decide, by decide, by decide, by decide⟩

def ca : Str := ['a']
def cb : Str := ['b']
def cs : Str := ['s']
def cn : Str := ['n']
def cy : Str := ['y']

/-- example environment: no string parses as a number, one function `c` = two-argument COALESCE -/
def env0 : Env Int where
  parseNum := fun _ => none
  parseBool := fun _ => none
  fmtNum := fun _ => []
  fn := fun f args =>
    match f, args with
    | ['c'], [.null, y] => some y
    | ['c'], [x, _] => some x
    | _, _ => none

def n (k : Nat) : Expr := .lit ⟨k, 0⟩
/-- a = 3, b = 2, s = 'q', n = NULL, y missing -/
def row0 : Row Int := [(ca, .num 3), (cb, .num 2), (cs, .str ['q']), (cn, .null)]

/-! ## the hand-written evaluator -/

/-- FULL statement (visible, false on the code as it is): whenever the SQL value is defined, the
hand-written evaluator produces it (an UNKNOWN condition may show as FALSE). -/
def implEval_eq_sqlEval_full : Prop :=
  ∀ (env : Env Int) (row : Row Int) (e : Expr) (v : Value Int),
    sqlValue env row e = .ok v → agrees v (handEval env row e)

/-- PARTIAL (proved): on sort-correct expressions (`shapeOK`: value operands for arithmetic,
comparison, calls and simple-CASE values; condition-shaped operands for AND/OR/NOT and WHEN),
for every number type, row and environment. -/
theorem implEval_eq_sqlEval_partial {ν : Type} [NumOps ν] [Num01 ν] (env : Env ν) (row : Row ν) (e : Expr)
    (v : Value ν) (h : sqlValue env row e = .ok v) (hs : shapeOK e .e = true) :
    agrees v (handEval env row e) :=
  ((good_all env row e).1 v h hs).ag

/-- on value expressions (no condition inside) the agreement is exact, NULL flagged as NULL -/
theorem implEval_exact {ν : Type} [NumOps ν] [Num01 ν] (env : Env ν) (row : Row ν) (e : Expr)
    (v : Value ν) (h : sqlValue env row e = .ok v) (hs : shapeOK e .e = true)
    (hb : boolTyped e = false) : handEval env row e = valueRes v :=
  ((good_all env row e).1 v h hs).exact hb

/-- as a condition (CASE WHEN, operand of AND/OR) the evaluator says TRUE exactly when SQL does -/
theorem implEval_condition {ν : Type} [NumOps ν] [Num01 ν] (env : Env ν) (row : Row ν) (e : Expr)
    (v : Value ν) (h : sqlValue env row e = .ok v) (hs : shapeOK e .e = true)
    (hb : boolShaped e = true) (ht : isTruth v = true) :
    ev env row e .b = .val (.bool v.isTrue) false :=
  ((good_all env row e).1 v h hs).bmode hb ht

/-- negation witness for the full statement: `f = (n > 1)` with `f` FALSE and `n` NULL is UNKNOWN in
SQL; the evaluator hands the comparison its operand's two-valued "not true" (FALSE) and answers
TRUE — class `condition-as-operand` (= ¬ `shapeOK`: a condition used as a value operand). -/
theorem implEval_eq_sqlEval_fails : ¬ implEval_eq_sqlEval_full := by
  intro h
  have := h env0 [(['f'], .bool false), (cn, .null)]
    (.cmp .eq (.col ['f']) (.paren (.cmp .gt (.col cn) (n 1)))) .null (by decide)
  revert this
  decide

/-- every expression of the grammar (chain links under their CASE) is built by `expr/parser.go` -/
theorem parser_covers_grammar (e : Expr) : handParses e = true := by
  induction e <;> simp_all [handParses]

/-- the evaluator's two value modes coincide (after the missing-column and CASE repairs) -/
theorem value_modes_agree {ν : Type} [NumOps ν] (env : Env ν) (row : Row ν) (e : Expr) :
    ev env row e .v = ev env row e .w := ev_v_eq_w env row e

/-- parentheses are transparent in every mode -/
theorem paren_transparent {ν : Type} [NumOps ν] (env : Env ν) (row : Row ν) (e : Expr) :
    ev env row (.paren e) .w = ev env row e .w ∧ ev env row (.paren e) .v = ev env row e .v ∧
    ev env row (.paren e) .b = ev env row e .b := ⟨rfl, rfl, rfl⟩

/-- a NULL (or missing) operand makes `+ - * /` NULL — whatever the other operand is, as long as it
evaluates at all -/
theorem null_propagates_arith {ν : Type} [NumOps ν] (env : Env ν) (row : Row ν) (op : AOp) (l r : Expr)
    (v : Value ν) (hl : ev env row l .w = .val v true ∨ ev env row r .w = .val v true)
    (hle : ev env row l .w ≠ .err) (hre : ev env row r .w ≠ .err) :
    ev env row (.arith op l r) .w = .val .null true := by
  simp only [ev]
  cases h1 : ev env row l .w with
  | err => exact absurd h1 hle
  | val a an =>
    cases h2 : ev env row r .w with
    | err => exact absurd h2 hre
    | val b bn =>
      rcases hl with h | h
      · rw [h1] at h; cases h; simp [arithStep]
      · rw [h2] at h; cases h; simp [arithStep]

/-- a missing column is a NULL operand -/
theorem missing_is_null {ν : Type} [NumOps ν] (env : Env ν) (row : Row ν) (c : Str)
    (h : lookup c row = none) : ev env row (.col c) .w = .val .null true ∧ ev env row (.col c) .v = .val .null true := by
  simp [ev, colRes, h]

/-- a comparison with a NULL operand is never TRUE: it is FALSE, or the other operand failed -/
theorem null_compare_not_true {ν : Type} [NumOps ν] (env : Env ν) (row : Row ν) (op : COp) (l r : Expr) (n : Bool)
    (hl : ev env row l .v = .val .null n ∨ ev env row r .v = .val .null n) :
    ev env row (.cmp op l r) .w = .val (.bool false) false ∨ ev env row (.cmp op l r) .w = .err := by
  simp only [ev]
  cases h1 : ev env row l .v with
  | err => right; simp [cmpStep]
  | val a an =>
    cases h2 : ev env row r .v with
    | err => right; simp [cmpStep]
    | val b bn =>
      left
      rcases hl with h | h
      · rw [h1] at h; cases h; simp [cmpStep, compareValues]
      · rw [h2] at h; cases h; cases a <;> simp [cmpStep, compareValues]

/-- build the arm chain of a CASE from a list of (WHEN, THEN) pairs and an optional ELSE -/
def mkChain : List (Expr × Expr) → Option Expr → Expr
  | [], none => .endL
  | [], some e => .elseL e
  | (c, r) :: rest, els => .whenL c r (mkChain rest els)

/-- searched CASE returns the THEN of the first arm whose condition is true: all earlier
conditions evaluated to not-true, this one to TRUE -/
theorem case_first_true {ν : Type} [NumOps ν] (env : Env ν) (row : Row ν)
    (pre post : List (Expr × Expr)) (c r : Expr) (els : Option Expr)
    (hpre : ∀ p ∈ pre, ∃ n, ev env row p.1 .b = .val (.bool false) n)
    (hc : ∃ n, ev env row c .b = .val (.bool true) n) :
    ev env row (.caseS (mkChain (pre ++ (c, r) :: post) els)) .w = ev env row r .w := by
  simp only [ev]
  induction pre with
  | nil => obtain ⟨n, hc⟩ := hc; simp [mkChain, ev, hc]
  | cons p pre ih =>
    obtain ⟨n, hp⟩ := hpre p (by simp)
    have := ih (fun q hq => hpre q (by simp [hq]))
    obtain ⟨pc, pr⟩ := p
    simp only [List.cons_append, mkChain, ev]
    simp only at hp
    rw [hp]
    exact this

/-- … else ELSE, else NULL: when no condition is true -/
theorem case_else_null {ν : Type} [NumOps ν] (env : Env ν) (row : Row ν)
    (arms : List (Expr × Expr)) (els : Option Expr)
    (h : ∀ p ∈ arms, ∃ n, ev env row p.1 .b = .val (.bool false) n) :
    ev env row (.caseS (mkChain arms els)) .w =
      match els with
      | some e => ev env row e .w
      | none => .val .null true := by
  simp only [ev]
  induction arms with
  | nil => cases els <;> simp [mkChain, ev]
  | cons p arms ih =>
    obtain ⟨n, hp⟩ := h p (by simp)
    have := ih (fun q hq => h q (by simp [hq]))
    obtain ⟨pc, pr⟩ := p
    simp only [mkChain, ev]
    simp only at hp
    rw [hp]
    exact this

/-- the same two facts hold of the reference semantics (the spec is the thing they are facts of) -/
theorem sql_case_else_null {ν : Type} [NumOps ν] (env : Env ν) (row : Row ν)
    (arms : List (Expr × Expr)) (els : Option Expr)
    (h : ∀ p ∈ arms, sqlEval env row p.1 .e = .ok (.bool false) ∨ sqlEval env row p.1 .e = .ok .null) :
    sqlValue env row (.caseS (mkChain arms els)) =
      match els with
      | some e => sqlValue env row e
      | none => .ok .null := by
  simp only [sqlValue, sqlEval]
  induction arms with
  | nil => cases els <;> simp [mkChain, sqlEval]
  | cons p arms ih =>
    have := ih (fun q hq => h q (by simp [hq]))
    obtain ⟨pc, pr⟩ := p
    simp only [mkChain, sqlEval]
    rcases h (pc, pr) (by simp) with hp | hp <;> simp only at hp <;> rw [hp] <;> exact this

/-! ## the expr-lang table: WHERE position and the bridge -/

/-- FULL statement (false on the code as it is): WHERE keeps a row iff the predicate is TRUE in SQL -/
def where_eq_sqlEval_full : Prop :=
  ∀ (env : Env Int) (row : Row Int) (e : Expr) (b : Bool),
    sqlKeeps env row e = some b → whereEval env row e = b

/-- PARTIAL (proved): when no sub-expression of the predicate is NULL on the row -/
theorem where_eq_sqlEval_partial {ν : Type} [NumOps ν] (env : Env ν) (row : Row ν) (e : Expr) (b : Bool)
    (h : sqlKeeps env row e = some b) (hn : allNonNull env row e = true) :
    whereEval env row e = b := by
  unfold sqlKeeps sqlValue at h
  cases hv : sqlEval env row e .e with
  | bad w => simp [hv] at h
  | ok v =>
    have := (xl_sound env row e v hv hn).1
    simp only [whereEval, this]
    cases v <;> simp_all

/-- negation witness (the observed defect): `a > 2 AND s != 'q' OR y = 1` on a row with `a` NULL,
`y = 1` is TRUE in SQL; the failing comparison `nil > 2` aborts the whole predicate -/
theorem where_eq_sqlEval_fails : ¬ where_eq_sqlEval_full := by
  intro h
  have := h env0 [(ca, .null), (cs, .str ['k']), (cy, .num 1)]
    (.or (.and (.cmp .gt (.col ca) (n 2)) (.cmp .ne (.col cs) (.str ['q']))) (.cmp .eq (.col cy) (n 1)))
    true (by decide)
  revert this
  decide

/-- the bridge in SELECT position never returns a value other than the SQL one (it may decline)
when no sub-expression is NULL -/
theorem bridge_sound_nonnull {ν : Type} [NumOps ν] (env : Env ν) (row : Row ν) (e : Expr) (v v' : Value ν)
    (h : sqlValue env row e = .ok v) (hn : allNonNull env row e = true)
    (hx : xl env row true e = some v') : v' = v :=
  (xl_sound env row e v h hn).2 true v' hx

/-! ## the SELECT router -/

/-- Whatever textual route `compileExpressionInfo` picks, the value written to the result row is the
SQL value (conditions up to NULL ≈ FALSE), provided the bridge — when it answers — answers with the
SQL value.  That proviso is exactly what is *not* proved of expr-lang; `bridge_sound_nonnull` discharges
it for the table model on NULL-free rows. -/
theorem engine_select_sound {ν : Type} [NumOps ν] [Num01 ν] [DecidableEq ν] (env : Env ν) (row : Row ν)
    (e : Expr) (v : Value ν) (t : TextFlags) (bridge : Option (Value ν))
    (h : sqlValue env row e = .ok v) (hs : shapeOK e .e = true)
    (hb : ∀ v', bridge = some v' → sameObs (obsV v) (obsV v') = true) :
    sameObs (obsV v) (obsV (engineSelect (routeOf t) (resOpt (handEval env row e)) bridge)) = true := by
  have hand : ∃ hv, resOpt (handEval env row e) = some hv ∧ sameObs (obsV v) (obsV hv) = true := by
    rcases implEval_eq_sqlEval_partial env row e v h hs with hh | ⟨hn, hh⟩
    · refine ⟨v, ?_, by simp [sameObs]⟩
      rw [hh]; cases v <;> simp [resOpt, valueRes, Value.isNull]
    · refine ⟨.bool false, by rw [hh]; simp [resOpt], ?_⟩
      subst hn; simp [sameObs, obsV, Obs.notTrue]
  obtain ⟨hv, hr, hsame⟩ := hand
  cases bridge with
  | none => cases hroute : routeOf t <;> simp [engineSelect, orElse, hr, hsame]
  | some bv =>
    have := hb bv rfl
    cases hroute : routeOf t <;> simp [engineSelect, orElse, hr, hsame, this]

/-- hence: on a NULL-free row the engine's SELECT value is the SQL value on every route, with the
table model as the bridge -/
theorem engine_select_nonnull {ν : Type} [NumOps ν] [Num01 ν] [DecidableEq ν] (env : Env ν) (row : Row ν)
    (e : Expr) (v : Value ν) (t : TextFlags)
    (h : sqlValue env row e = .ok v) (hs : shapeOK e .e = true)
    (hn : allNonNull env row e = true) :
    sameObs (obsV v) (obsV (engineSelect (routeOf t) (resOpt (handEval env row e)) (xl env row true e))) = true := by
  apply engine_select_sound env row e v t _ h hs
  intro v' hx
  have := bridge_sound_nonnull env row e v v' h hn hx
  subst this
  simp [sameObs]

/-- the hand-first routes do not depend on the bridge at all: quote-free, parenthesis-free text -/
theorem engine_select_handfirst {ν : Type} [NumOps ν] [Num01 ν] [DecidableEq ν] (env : Env ν) (row : Row ν)
    (e : Expr) (v : Value ν) (t : TextFlags) (bridge : Option (Value ν))
    (h : sqlValue env row e = .ok v) (hs : shapeOK e .e = true)
    (hr : t.paren = false) (hq : t.quote = false ∨ t.dot = true) :
    sameObs (obsV v) (obsV (engineSelect (routeOf t) (resOpt (handEval env row e)) bridge)) = true := by
  have hand : ∃ hv, resOpt (handEval env row e) = some hv ∧ sameObs (obsV v) (obsV hv) = true := by
    rcases implEval_eq_sqlEval_partial env row e v h hs with hh | ⟨hn, hh⟩
    · refine ⟨v, ?_, by simp [sameObs]⟩
      rw [hh]; cases v <;> simp [resOpt, valueRes, Value.isNull]
    · refine ⟨.bool false, by rw [hh]; simp [resOpt], ?_⟩
      subst hn; simp [sameObs, obsV, Obs.notTrue]
  obtain ⟨hv, hr', hsame⟩ := hand
  obtain ⟨p, d, q⟩ := t
  simp only at hr hq
  subst hr
  cases d <;> cases q <;> simp_all [routeOf, engineSelect, orElse]

/-! ## cache transparency -/

/-- `eval_history_free`: for every sequence of evaluations (any texts, any rows, any interleaving of
any number of engine instances — the tables are process-wide), starting from empty tables, each
result is what the uncached evaluation gives: it does not depend on the rows or expressions
evaluated before, provided compilation is a function of (text, env type). -/
theorem eval_history_free {Text Ty Prog R Rw : Type} [DecidableEq Text] [DecidableEq Ty]
    (prep : Text → Text) (compile : Text → Ty → Option Prog) (run : Option Prog → Rw → R) (tyOf : Rw → Ty)
    (qs : List (Text × Rw)) :
    (Cache.runAll prep compile run tyOf { prog := [], pre := [] } qs).2 =
      qs.map (Cache.evalPure prep compile run tyOf) :=
  Cache.runAll_spec prep compile run tyOf qs _ (Cache.inv_empty prep compile)

/-- … and from any reachable table state: a prefix of evaluations does not change later results -/
theorem eval_history_free_prefix {Text Ty Prog R Rw : Type} [DecidableEq Text] [DecidableEq Ty]
    (prep : Text → Text) (compile : Text → Ty → Option Prog) (run : Option Prog → Rw → R) (tyOf : Rw → Ty)
    (before qs : List (Text × Rw)) :
    (Cache.runAll prep compile run tyOf
        (Cache.runAll prep compile run tyOf { prog := [], pre := [] } before).1 qs).2 =
      qs.map (Cache.evalPure prep compile run tyOf) := by
  apply Cache.runAll_spec
  generalize hs : ({ prog := [], pre := [] } : Cache.State Text Ty Prog) = s
  have hi : Cache.Inv prep compile s := hs ▸ Cache.inv_empty prep compile
  clear hs
  induction before generalizing s with
  | nil => exact hi
  | cons q qs ih => exact ih _ (Cache.evalStep_spec prep compile run tyOf s q hi).2

/-! ## non-vacuity: concrete instances (exact arithmetic, `decide`) -/

-- precedence / NULL arithmetic / missing column
example : handEval env0 row0 (.arith .sub (.col ca) (.arith .mul (.col cb) (n 2))) = .val (.num (-1)) false := by decide
example : sqlValue env0 row0 (.arith .sub (.col ca) (.arith .mul (.col cb) (n 2))) = .ok (.num (-1)) := by decide
example : handEval env0 row0 (.arith .add (.col ca) (.col cn)) = .val .null true := by decide
example : handEval env0 row0 (.arith .add (.arith .add (.col ca) (.col cy)) (n 1)) = .val .null true := by decide
-- comparison with NULL: not true; under OR the other side decides
example : handEval env0 row0 (.cmp .gt (.col cn) (n 1)) = .val (.bool false) false := by decide
example : sqlValue env0 row0 (.cmp .gt (.col cn) (n 1)) = .ok .null := by decide
example : handEval env0 row0 (.or (.cmp .gt (.col cn) (n 1)) (.cmp .eq (.col cb) (n 2))) = .val (.bool true) false := by decide
example : sqlValue env0 row0 (.or (.cmp .gt (.col cn) (n 1)) (.cmp .eq (.col cb) (n 2))) = .ok (.bool true) := by decide
-- CASE: first true arm, ELSE, NULL
example : handEval env0 row0 (.caseS (mkChain [(.cmp .gt (.col ca) (n 5), n 1), (.cmp .gt (.col ca) (n 2), n 2)] (some (n 3))))
    = .val (.num 2) false := by decide
example : handEval env0 row0 (.caseS (mkChain [(.cmp .gt (.col ca) (n 5), n 1)] none)) = .val .null true := by decide
example : handEval env0 row0 (.caseV (.col cs) (mkChain [(.str ['q'], n 7)] none)) = .val (.num 7) false := by decide
example : handEval env0 row0 (.caseV (.col cn) (mkChain [(.col cn, n 7)] (some (n 0)))) = .val (.num 0) false := by decide
-- a call sees the evaluated arguments, NULL included
example : handEval env0 row0 (.call2 ['c'] (.arith .add (.col cn) (n 1)) (n 5)) = .val (.num 5) false := by decide
-- hypotheses of the partial theorem are satisfiable, NOT included; NOT over UNKNOWN is not true
example : shapeOK (.or (.cmp .gt (.col cn) (n 1)) (.not (.cmp .eq (.col cb) (n 2)))) .e = true := by decide
example : handEval env0 row0 (.not (.cmp .eq (.col cb) (n 2))) = .val (.bool false) false := by decide
example : handEval env0 row0 (.not (.paren (.cmp .gt (.col cn) (n 1)))) = .val (.bool false) false := by decide
example : sqlValue env0 row0 (.not (.paren (.cmp .gt (.col cn) (n 1)))) = .ok .null := by decide
example : handEval env0 row0 (.not (.not (.paren (.cmp .gt (.col ca) (n 1))))) = .val (.bool true) false := by decide
example : handEval env0 row0 (.not (.paren (.and (.cmp .gt (.col cn) (n 1)) (.cmp .gt (.col ca) (n 5))))) = .val (.bool true) false := by decide
-- WHERE on a NULL-free row
example : allNonNull env0 row0 (.and (.cmp .gt (.col ca) (n 2)) (.cmp .ne (.col cs) (.str ['k']))) = true := by decide
example : whereEval env0 row0 (.and (.cmp .gt (.col ca) (n 2)) (.cmp .ne (.col cs) (.str ['k']))) = true := by decide
example : whereEval env0 row0 (.not (.paren (.cmp .gt (.col ca) (n 5)))) = true := by decide
-- the router
example : routeOf ⟨true, false, false⟩ = .bridgeThenHand ∧ routeOf ⟨false, true, true⟩ = .handOnly ∧
    routeOf ⟨false, false, false⟩ = .handThenBridge ∧ routeOf ⟨false, false, true⟩ = .bridgeThenHand := by decide
-- the cache model really memoises: second evaluation of the same text hits the table
example : (Cache.runAll (Text := Nat) (Ty := Nat) (Prog := Nat) (fun t => t + 1) (fun t ty => some (t * 10 + ty))
    (fun p r => (p, r)) (fun (r : Nat) => r % 2) { prog := [], pre := [] } [(1, 4), (1, 6), (1, 5)]).1.prog.length = 2 := by decide

end C06

/-! tie to the source (regenerated on every run from the repository by factsgen): the three textual
tests of the SELECT router, the tokens of the WHERE lowering of NOT, the operator tables of the
hand-written evaluator and the `+` test of the bridge's concatenation heuristic -/
theorem C06.facts_routing :
    Facts.stream_Stream_compileExpressionInfo_strlits = ["(", ")", ".", "unnest(", "'\"`"] ∧
    Facts.rsql_lowerLogicalNot_strlits = [")", "NOT", "(", "&&", "||", "!(", "!(", "&&", "||", "(", ")"] ∧
    Facts.expr_isComparisonOperator_strlits = ["==", "=", "!=", "<>", ">", "<", ">=", "<=", "LIKE", "IS"] ∧
    Facts.expr_isLogicalOperator_strlits = ["AND", "OR", "NOT"] ∧
    Facts.expr_evaluateBoolOperator_strlits.take 6 = ["AND", "&&", "OR", "||", "NOT", "!"] ∧
    Facts.functions_ExprBridge_isStringConcatenationExpression_strlits = ["+", "+", "'", "'", "\"", "\"", "_"] := by
  decide

