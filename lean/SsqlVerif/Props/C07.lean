/-
C07 — post-aggregation clauses apply in relational order to each emitted batch.
Property theorems only; helper lemmas live in `Proofs/PostAgg*.lean`.
-/
import SsqlVerif.Model.PostAgg
import SsqlVerif.Spec.PostAgg
set_option autoImplicit false

namespace C07
open PostAgg

theorem limit_prefix {α : Type} (n : Option Nat) (l : List α) : ∃ t, applyLimit n l ++ t = l := by
  cases n with
  | none => exact ⟨[], by simp [applyLimit]⟩
  | some n => exact ⟨l.drop n, by simp [applyLimit]⟩

end C07
