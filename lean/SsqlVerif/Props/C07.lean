/-
C07 — post-aggregation clauses apply in relational order to each emitted batch.
Property theorems only; helper lemmas live in `Proofs/PostAgg*.lean`.

`N : Num ν` is an arbitrary interpretation of the number operations: the arithmetic statements
(`select_arith_on_aggs`, `having_exact`, `pipeline_eq_spec`) hold for every number type and every
meaning of `+ - * /`, `<`, `==` (so for exact arithmetic and for binary64 alike); the sorting
statements need `lt` to be a strict weak order (`NumOrd`: exact arithmetic, binary64 without NaN).
`wf q` is the decidable well-formedness of a query (output column names pairwise different and
different from the group column, SELECT items without column references); the groups of a batch
have pairwise different keys (`groupBatch_keys_nodup`).
-/
import SsqlVerif.Proofs.PostAggPipeline
import SsqlVerif.Generated.Facts
set_option autoImplicit false

namespace C07
open PostAgg

section
variable {ν : Type} (N : Num ν) [DecidableEq ν]

/-- A SELECT item over aggregates — plain call, `agg op literal`, `agg op agg`, nested and
parenthesised forms, aggregates over expression arguments — is delivered as that arithmetic applied
to the group's aggregate values: the visible part of the group's result row (aggregator columns,
placeholder columns, templates evaluated on them, placeholders deleted) *is* the relational row. -/
theorem select_arith_on_aggs (q : Query ν) (hq : wf q = true) (g : Group ν) :
    visible (fullRow N q g) = Spec.specRow N q g :=
  visible_fullRow N q hq g

/-- per item: the column named by the alias holds the item's arithmetic on the aggregates
(`NULL` exactly when some operand has no value) -/
theorem select_item_value (q : Query ν) (hq : wf q = true) (g : Group ν) (n : Name) :
    get (.col n) (fullRow N q g) = lookupIn n (Spec.specRow N q g) := by
  rw [get_col_visible, visible_fullRow N q hq g]

omit [DecidableEq ν] in
/-- the arithmetic is evaluated structurally on the aggregate values -/
theorem select_arith_structure (env : Name → Option (Val ν)) (rows : List (InRow ν)) (o : Op) (l r : Expr ν)
    (f : AggFn) (a : Arg ν) (x : ν) :
    Spec.exprVal N env rows (.bin o l r)
        = bin2 (applyOp N o) (Spec.exprVal N env rows l) (Spec.exprVal N env rows r) ∧
      Spec.exprVal N env rows (.agg f a) = aggEval N f a rows ∧
      Spec.exprVal N env rows (.lit x) = some x :=
  ⟨rfl, rfl, rfl⟩

/-- HAVING keeps exactly the groups whose predicate over aggregates (selected or not) and output
columns is true: the rewritten predicate on the result row with its hidden columns decides the
relational predicate … -/
theorem having_exact_row (q : Query ν) (hq : wf q = true) (g : Group ν) (p : Pred ν) (hp : q.having = some p) :
    havingKeep N p (fullRow N q g) = Spec.specHaving N q g :=
  havingKeep_fullRow N q hq g p hp

/-- … and the HAVING stage delivers, in order, the rows of exactly those groups -/
theorem having_exact (q : Query ν) (hq : wf q = true) (gs : List (Group ν)) :
    (havingStage N q.having (gs.map (fullRow N q))).map visible
      = (gs.filter (Spec.specHaving N q)).map (Spec.specRow N q) :=
  havingStage_visible N q hq gs

/-- no placeholder and no hidden HAVING column is ever delivered (any query, any batch) -/
theorem no_hidden_columns (q : Query ν) (gs : List (Group ν)) :
    ∀ r ∈ run N q gs, allVisible r = true :=
  run_allVisible N q gs

/-- ORDER BY permutes the rows … -/
theorem sort_perm (q : Query ν) (rows : List (Row ν)) : (applyOrderBy N q rows).Perm rows := by
  rw [applyOrderBy_eq]; exact sortBy_perm _ _

/-- `Sorter.less` restricted to rows whose key columns are homogeneous (per key: missing, or all
numbers, or all booleans, or all text) is a strict weak order … -/
theorem less_strict_weak (hN : NumOrd N) (q : Query ν) (S : Row ν → Prop)
    (hh : Homog (ν := ν) get (orderKeys q) S) : WeakOn (rowLess N q) S :=
  lessBy_weakOn N get hN (orderKeys q) S hh

/-- … hence the rows come out sorted: no row sorts strictly before an earlier one
(multi-key, ASC/DESC, missing first) -/
theorem sort_sorted (hN : NumOrd N) (q : Query ν) (rows : List (Row ν))
    (hh : Homog (ν := ν) get (orderKeys q) (fun r => r ∈ rows)) :
    SortedBy (rowLess N q) (applyOrderBy N q rows) := by
  rw [applyOrderBy_eq]
  exact sortBy_sorted _ _ (less_strict_weak N hN q _ hh) rows (fun _ h => h)

/-- LIMIT n keeps the first n rows of that order (all of them without LIMIT, none for LIMIT 0) -/
theorem limit_prefix {α : Type} (n : Option Nat) (l : List α) :
    applyLimit n l <+: l ∧ (applyLimit n l).length = Spec.limitLen n l.length ∧
      applyLimit (some 0) l = [] ∧ applyLimit none l = l :=
  ⟨applyLimit_prefix n l, length_applyLimit n l, by simp [applyLimit], rfl⟩

/-- DISTINCT (the loop over a `seen` set) keeps exactly the first occurrence of every row -/
theorem distinct_first_occurrence {α : Type} [DecidableEq α] (l : List α) :
    distinctStage true l = Spec.dedup l ∧ (Spec.dedup l).Nodup ∧ (∀ x, x ∈ Spec.dedup l ↔ x ∈ l) ∧
      (Spec.dedup l).Sublist l ∧ distinctStage false l = l :=
  ⟨by simp [distinctStage, distinctAux_nil_eq_dedup], nodup_dedup l, mem_dedup l, dedup_sublist l, rfl⟩

/-- the groups of a batch have pairwise different keys -/
theorem groupBatch_keys_nodup (gcol : Name) (batch : List (InRow ν)) :
    ((groupBatch gcol batch).map (·.key)).Nodup := by
  unfold groupBatch
  have step : ∀ (r : InRow ν) (gs : List (Group ν)), (gs.map (·.key)).Nodup →
      ((addToGroups gcol r gs).map (·.key)).Nodup := by
    intro r gs
    induction gs with
    | nil => intro _; simp [addToGroups]
    | cons g gs ih =>
      intro hn
      simp only [List.map_cons, List.nodup_cons] at hn
      unfold addToGroups
      by_cases hk : g.key = (lookupIn gcol r).getD .null
      · rw [if_pos hk]
        simp only [List.map_cons, List.nodup_cons]
        exact hn
      · rw [if_neg hk]
        simp only [List.map_cons, List.nodup_cons]
        refine ⟨?_, ih hn.2⟩
        intro hmem
        -- a key of `addToGroups r gs` is a key of `gs` or the key of `r`
        have keys : ∀ (gs : List (Group ν)) (k : Val ν), k ∈ (addToGroups gcol r gs).map (·.key) →
            k ∈ gs.map (·.key) ∨ k = (lookupIn gcol r).getD .null := by
          intro gs
          induction gs with
          | nil => intro k hk'; right; simpa [addToGroups] using hk'
          | cons g' gs' ih' =>
            intro k hk'
            unfold addToGroups at hk'
            by_cases hk2 : g'.key = (lookupIn gcol r).getD .null
            · rw [if_pos hk2] at hk'; left; simpa using hk'
            · rw [if_neg hk2] at hk'
              simp only [List.map_cons, List.mem_cons] at hk' ⊢
              rcases hk' with rfl | h
              · left; left; rfl
              · rcases ih' k h with h | h
                · left; right; exact h
                · right; exact h
        rcases keys gs g.key hmem with h | h
        · exact hn.1 h
        · exact hk h
  have : ∀ (batch : List (InRow ν)) (gs : List (Group ν)), (gs.map (·.key)).Nodup →
      ((batch.foldl (fun gs r => addToGroups gcol r gs) gs).map (·.key)).Nodup := by
    intro batch
    induction batch with
    | nil => intro gs h; exact h
    | cons r rs ih => intro gs h; exact ih _ (step r gs h)
  exact this batch [] (by simp)

/-- The pipeline of the code — DISTINCT on the full rows, HAVING on the rows with hidden columns,
their removal, stable sort, LIMIT — delivers, for every well-formed query and every batch, exactly
what relational evaluation prescribes:
`limit n (sortBy keys (distinct (rows of the groups satisfying HAVING)))`,
for whatever pre-sort order `gs` the aggregator's map yields the groups in. -/
theorem pipeline_eq_spec (q : Query ν) (hq : wf q = true) (gs : List (Group ν))
    (hk : (gs.map (·.key)).Nodup) :
    (run N q gs).map visible = Spec.run N q gs :=
  run_visible N q hq gs hk

/-- instance for the groups of an actual batch of events (no hypothesis on the batch) -/
theorem pipeline_eq_spec_batch (q : Query ν) (hq : wf q = true) (batch : List (InRow ν)) :
    (run N q (groupBatch q.gcol batch)).map visible = Spec.run N q (groupBatch q.gcol batch) :=
  run_visible N q hq _ (groupBatch_keys_nodup q.gcol batch)

/-- The oracle that the driver evaluates on the implementation's deliveries accepts every legal
outcome: whatever order `gs'` the groups are taken in, the delivered batch consists of candidate
rows without repetition, is sorted, has the length LIMIT allows, and omits no candidate that sorts
strictly before a delivered row. -/
theorem oracle_accepts_every_order (hN : NumOrd N) (q : Query ν) (hq : wf q = true)
    (gs gs' : List (Group ν)) (hp : gs'.Perm gs) (hk : (gs.map (·.key)).Nodup)
    (hh : Homog (ν := ν) lookupIn q.orderBy (fun r => r ∈ Spec.candidates N q gs)) :
    Spec.valid N q gs ((run N q gs').map visible) = true := by
  have hk' : (gs'.map (·.key)).Nodup := (hp.map _).nodup_iff.mpr hk
  rw [run_visible N q hq gs' hk']
  unfold Spec.valid
  rw [validClause_run N hN q gs gs' hp hk hh]
  rfl

/-- … and only legal outcomes: a delivery the oracle accepts is the LIMIT-prefix of the stable
sort of *some* arrangement of the candidate rows (the arrangement stands for the pre-sort order
the aggregator's map happened to yield).  No assumption on the order of numbers is needed. -/
theorem oracle_accepts_only_legal (q : Query ν) (gs : List (Group ν)) (hk : (gs.map (·.key)).Nodup)
    (out : List (Spec.SRow ν)) (hv : Spec.valid N q gs out = true) :
    ∃ L, L.Perm (Spec.candidates N q gs) ∧ applyLimit q.limit (sortBy (Spec.specLess N q) L) = out :=
  valid_only_legal N q gs hk out hv

end

/-! ### non-vacuity: exact integer arithmetic -/

def intNum : Num Int where
  zero := 0
  one := 1
  add := (· + ·)
  sub := (· - ·)
  mul := (· * ·)
  div := (· / ·)
  lt a b := decide (a < b)
  eq a b := decide (a = b)
  render x := (toString x).toList

theorem intNum_ord : NumOrd intNum := by
  constructor
  · intro a b h
    simp only [intNum, decide_eq_true_eq, decide_eq_false_iff_not] at h ⊢
    omega
  · intro a b c h1 h2
    simp only [intNum, decide_eq_false_iff_not] at h1 h2 ⊢
    omega

/-- `SELECT d, AVG(t) * 2 + 32 AS f, SUM(a) AS s … HAVING SUM(a * t) > 100 ORDER BY f DESC LIMIT 1` -/
def exQuery : Query Int where
  gcol := ['d']
  items := [(['f'], .bin .add (.bin .mul (.agg .avg (.col ['t'])) (.lit 2)) (.lit 32)),
            (['s'], .agg .sum (.col ['a']))]
  having := some (.cmp .gt (.agg .sum (.bin .mul (.col ['a']) (.col ['t']))) (.lit 100))
  orderBy := [(['f'], true)]
  limit := some 1
  distinct := true

def exRow (d : Char) (a t : Int) : InRow Int := [(['d'], .str [d]), (['a'], .num a), (['t'], .num t)]

def exBatch : List (InRow Int) :=
  [exRow 'x' 1 10, exRow 'y' 5 30, exRow 'x' 3 50, exRow 'z' 1 10, exRow 'y' 1 10]

example : wf exQuery = true := by decide
-- x: avg(t)=30 → f=92, s=4, sum(a*t)=160 ✓;  y: avg 20 → 72, s=6, 160 ✓;  z: 10 → 52, s=1, 10 ✗
example : (run intNum exQuery (groupBatch exQuery.gcol exBatch)).map visible
    = [[(['d'], .str ['x']), (['f'], .num 92), (['s'], .num 4)]] := by decide
example : Spec.run intNum exQuery (groupBatch exQuery.gcol exBatch)
    = [[(['d'], .str ['x']), (['f'], .num 92), (['s'], .num 4)]] := by decide
-- the hidden HAVING column and the placeholder exist inside the pipeline …
example : get (.hv .sum (.bin .mul (.col ['a']) (.col ['t'])))
    (fullRow intNum exQuery ⟨.str ['x'], [exRow 'x' 1 10, exRow 'x' 3 50]⟩) = some (.num 160) := by decide
example : get (.ph .avg (.col ['t']))
    (aggRow intNum exQuery ⟨.str ['x'], [exRow 'x' 1 10, exRow 'x' 3 50]⟩) = some (.num 30) := by decide
-- … the oracle accepts the delivery, and rejects the unfiltered / unsorted / over-long ones
example : Spec.valid intNum exQuery (groupBatch exQuery.gcol exBatch)
    [[(['d'], .str ['x']), (['f'], .num 92), (['s'], .num 4)]] = true := by decide
example : Spec.validClause intNum exQuery (groupBatch exQuery.gcol exBatch)
    [[(['d'], .str ['y']), (['f'], .num 72), (['s'], .num 6)]] = some "omitted-row-sorts-before-delivered" := by decide
example : Spec.validClause intNum exQuery (groupBatch exQuery.gcol exBatch)
    [[(['d'], .str ['z']), (['f'], .num 52), (['s'], .num 1)]] = some "row-not-a-candidate" := by decide
example : Spec.validClause intNum { exQuery with limit := none } (groupBatch exQuery.gcol exBatch)
    [[(['d'], .str ['y']), (['f'], .num 72), (['s'], .num 6)], [(['d'], .str ['x']), (['f'], .num 92), (['s'], .num 4)]]
    = some "not-sorted" := by decide
example : Spec.validClause intNum exQuery (groupBatch exQuery.gcol exBatch) [] = some "row-count" := by decide
-- sorting: ties keep their order, DESC reverses, a missing key sorts first
example : sortBy (fun a b : Nat × Nat => decide (a.1 < b.1)) [(2, 0), (1, 1), (2, 2), (1, 3)]
    = [(1, 1), (1, 3), (2, 0), (2, 2)] := by decide
example : cmpVal intNum none (some (.num 0)) = .lt ∧ cmpVal intNum (some (.num 3)) (some (.num 2)) = .gt ∧
    cmpVal intNum (some (.str ['a'])) (some (.str ['b'])) = .lt ∧
    cmpVal intNum (some (.bool false)) (some (.bool true)) = .lt := by decide
example : Spec.dedup [1, 2, 1, 3, 2] = [1, 2, 3] ∧ distinctStage true [1, 2, 1, 3, 2] = [1, 2, 3] := by decide
example : applyLimit (some 2) [1, 2, 3] = [1, 2] ∧ applyLimit (some 0) [1, 2, 3] = [] ∧
    applyLimit (some 5) [1, 2, 3] = [1, 2, 3] ∧ applyLimit none [1, 2, 3] = [1, 2, 3] := by decide
-- the homogeneity hypothesis of `sort_sorted` / `oracle_accepts_every_order` is satisfiable
example : Homog (ν := Int) lookupIn exQuery.orderBy
    (fun r => r ∈ Spec.candidates intNum exQuery (groupBatch exQuery.gcol exBatch)) := by
  intro kd hkd
  refine ⟨.num, ?_⟩
  intro r hr
  have hc : Spec.candidates intNum exQuery (groupBatch exQuery.gcol exBatch)
      = [[(['d'], .str ['x']), (['f'], .num 92), (['s'], .num 4)],
         [(['d'], .str ['y']), (['f'], .num 72), (['s'], .num 6)]] := by decide
  rw [hc] at hr
  simp only [exQuery, List.mem_singleton] at hkd
  subst hkd
  simp only [List.mem_cons, List.not_mem_nil, or_false] at hr
  rcases hr with rfl | rfl <;> simp [okKind, lookupIn, kindOf]

end C07

/-! tie to the source (regenerated on every run from the repository by factsgen): the hidden
HAVING columns are created as `__having_%d__` and removed by the prefix `__having_`; the SELECT
placeholders carry the `__` affixes; the sorter's fallback rendering is `%v`; the three-way
results of `compareOrderValues` -/
theorem C07.facts_hidden_names :
    Facts.stream_DataProcessor_processAggregationResults_strlits = ["", "__having_"] ∧
    Facts.rsql_extractHavingAggregates_strlits
      = ["", "(?i)\\b([a-z_]+)\\s*\\(", "", "", "__having_%d__", "", ""] ∧
    Facts.aggregator_PlaceholderPrefix = "__" ∧ Facts.aggregator_PlaceholderSuffix = "__" ∧
    Facts.stream_orderString_strlits = ["%v"] ∧
    Facts.stream_compareOrderValues_intlits = [0, 1, 1, 1, 1, 0, 1, 1, 0, 0, 1, 1, 1, 1, 0] := by decide
