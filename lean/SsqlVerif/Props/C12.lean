/-
C12 — predicate fast paths decide exactly as the general evaluator.
Property theorems only; helper lemmas live in `Proofs/Cond*.lean`.

Numbers: float64 values are exact (`Cond.F64`: NaN, ±Inf, or an integer count of 2^-1074 units),
`float64(int)` is the exact rounding function `Cond.round53`; no theorem mentions Lean's `Float`.
The general evaluator is the expr-lang behaviour table `Cond.generalEval` (validated by
correspondence only, see `cfg/C12.py` assumptions).
-/
import SsqlVerif.Proofs.Cond
import SsqlVerif.Proofs.CondShape
import SsqlVerif.Spec.Cond
import SsqlVerif.Generated.Facts
set_option autoImplicit false
set_option exponentiation.threshold 1100   -- `Cond.scale = 2^1074` is evaluated by the `decide`d examples

namespace C12
open Cond

/-- A single-comparison shortcut that answers, answers what the general evaluator answers (and the
general evaluator does not fail): every column value — missing, NULL, bool, string, the ten integer
widths over their whole range (so beyond 2^53 and the uint64 that wrap), float32/float64 including
NaN and ±Inf, anything else — every operator, every literal (integer literals of any size,
fractional, string). -/
theorem fast_agrees (c : Cmp) (row : Row) (b : Bool)
    (h : fastEval c row = some b) : generalCmp c row = .ok b :=
  fastEval_agrees h

example : fastEval ⟨['x'], .gt, .int 5⟩ [(['x'], .int (.u64 7))] = some true := by decide
example : fastEval ⟨['x'], .eq, .int 9007199254740991⟩ [(['x'], .int (.i64 9007199254740993))] = none := by decide
example : fastEval ⟨['x'], .lt, .flt (.fin 5)⟩ [(['x'], .flt false .nan)] = some false := by decide

/-- the value is of a type (and, for 64-bit integers, a size) the shortcut for this literal handles -/
def fits (v : Val) (lit : Lit) : Bool :=
  match lit, v with
  | .str _, .str _ => true
  | .str _, _ => false
  | _, v => (toFloat64Fast v).isSome

/-- All fall-back exits of the single-comparison shortcut, and only those: it declines exactly when
the column is missing, NULL, or its value does not fit the literal's kind (string literal: not a
string; numeric literal: not one of float64/float32/int/int64/int32/uint/uint64/uint32, or a
64-bit integer outside ±(2^53−1)). -/
theorem fast_declines_iff (c : Cmp) (row : Row) :
    fastEval c row = none ↔
      (row.get c.field = none ∨ row.get c.field = some .null ∨
        ∃ v, row.get c.field = some v ∧ fits v c.lit = false) := by
  unfold fastEval
  cases hg : row.get c.field with
  | none => simp
  | some v =>
    cases hl : c.lit <;> cases v <;>
      simp [fits, fastVal, fastStr, fastNum, toFloat64Fast] <;>
      (split <;> simp_all)

example : fits (.int (.i8 5)) (.int 5) = false ∧ fits (.int (.i32 5)) (.int 5) = true ∧
    fits (.int (.u64 9007199254740992)) (.flt (.fin 0)) = false ∧ fits (.str []) (.int 5) = false ∧
    fits (.flt true .nan) (.int 5) = true := by decide

/-- The same for a flat `&&` / `||` chain: it answers only if every part answers, and then the
left-to-right short-circuit evaluation of the general evaluator gives the same Boolean. -/
theorem fast_compound_agrees (isAnd : Bool) (cs : List Cmp) (row : Row) (b : Bool) (p : Pred)
    (hp : chainPred isAnd cs = some p)
    (h : fastCompound isAnd cs row = some b) : generalEval p row = .ok b :=
  fastCompound_agrees hp h

example : fastCompound false [⟨['x'], .gt, .int 5⟩, ⟨['y'], .eq, .str ['a']⟩]
    [(['x'], .int (.i8 3)), (['y'], .str ['a'])] = none := by decide
example : fastCompound false [⟨['x'], .gt, .int 5⟩, ⟨['y'], .eq, .str ['a']⟩]
    [(['x'], .int (.i32 3)), (['y'], .str ['a'])] = some true := by decide

/-- `Evaluate` decides as the general evaluator decides, for every condition whose shortcuts were
compiled from the predicate its program evaluates (`CondM.Sound`), and every row. -/
theorem evaluate_eq_general (c : CondM) (hs : c.Sound) (row : Row) :
    c.evaluate row = SpecC12.generalDecision c.pred row :=
  evaluate_eq_general' hs row

/-- non-vacuity: a sound condition exists; it takes the shortcut on one row, the general path on
another, and an evaluation error of the general path rejects a third -/
example : ∃ c : CondM, c.Sound ∧
    c.fastPath [(['x'], .int (.i 7))] = some true ∧
    c.fastPath [(['x'], .int (.i8 7))] = none ∧ c.evaluate [(['x'], .int (.i8 7))] = true ∧
    generalEval c.pred [(['x'], .null)] = .err ∧ c.evaluate [(['x'], .null)] = false :=
  ⟨⟨.cmp ⟨['x'], .gt, .int 5⟩, some ⟨['x'], .gt, .int 5⟩, none⟩,
   ⟨fun f hf => by simp only [Option.some.injEq] at hf; rw [← hf], fun _ _ h => by simp at h⟩,
   by decide, by decide, by decide, by decide, by decide⟩

/-- A predicate whose evaluation fails rejects the row (and `Evaluate` is a total Boolean function:
there is no other outcome, in particular no abort). -/
theorem eval_total_bool (c : CondM) (hs : c.Sound) (row : Row)
    (herr : generalEval c.pred row = .err) : c.evaluate row = false := by
  rw [evaluate_eq_general c hs row, SpecC12.generalDecision, herr]; rfl

example : generalEval (.cmp ⟨['x'], .lt, .int 5⟩) [(['x'], .null)] = .err := by decide
example : generalEval (.or (.cmp ⟨['y'], .eq, .int 1⟩) (.cmp ⟨['x'], .lt, .int 5⟩)) [(['y'], .int (.i 1))] = .ok true := by decide
example : generalEval (.or (.cmp ⟨['x'], .lt, .int 5⟩) (.cmp ⟨['y'], .eq, .int 1⟩)) [(['y'], .int (.i 1))] = .err := by decide

/-- Parentheses around a predicate (the twin that forces the general path) do not change what the
general evaluator answers. -/
theorem paren_equiv (p : Pred) (row : Row) : generalEval (.paren p) row = generalEval p row := rfl

/-- The property as observed: for a sound condition the observables of the Spec — decision,
decision of the parenthesised twin, shortcut answer, evaluation failure of the program — satisfy
`SpecC12.holds`. -/
theorem spec_holds (c : CondM) (hs : c.Sound) (row : Row) :
    SpecC12.holds { ev := c.evaluate row, twin := SpecC12.generalDecision (.paren c.pred) row,
                    fast := c.fastPath row,
                    failed := decide (generalEval c.pred row = .err) } = true := by
  have h1 := evaluate_eq_general c hs row
  simp only [SpecC12.holds, SpecC12.decisionAgrees, SpecC12.shortcutAgrees, SpecC12.failureRejects,
    SpecC12.generalDecision, paren_equiv] at *
  cases hf : c.fastPath row with
  | none =>
    cases hg : generalEval c.pred row <;> simp [h1, hg, Res.decision]
  | some b => simp [h1, fastPath_agrees hs hf, Res.decision]

/-! ### from the predicate *text* to the decision -/

/-- The recogniser that stands for the two shape regexes accepts exactly the texts
`ws column ws OP ws literal ws` (identifier, one of the eight operator spellings, `-?digits[.digits]`
or `'…'` without a quote inside) and returns exactly those three tokens. -/
theorem shape_cmp_iff (t : Str) (r : RawCmp) :
    matchCmp t = some r ↔
      ∃ w1 w2 w3 w4, allWs w1 = true ∧ allWs w2 = true ∧ allWs w3 = true ∧ allWs w4 = true ∧
        t = r.render w1 w2 w3 w4 ∧ r.wf = true := by
  constructor
  · exact matchCmp_sound'
  · rintro ⟨w1, w2, w3, w4, h1, h2, h3, h4, ht, hwf⟩
    rw [ht]
    exact matchCmp_complete' r w1 w2 w3 w4 hwf h1 h2 h3 h4

example : matchCmp [' ', 'x', '1', ' ', '>', '=', '-', '5', '.', '5', '0', '\t'] = some ⟨['x', '1'], .ge, .num true ['5'] (some ['5', '0'])⟩ := by decide
example : matchCmp ['x', ' ', '=', ' ', '=', ' ', '5'] = none := by decide
example : matchCmp ['x', ' ', '=', '=', ' ', '\'', 'i', 't', '\'', '\'', 's', '\''] = none := by decide

/-- `tryFastCompare` fires only on such a text, and only when the literal and the column name are
ones expr-lang reads the same way (`RawCmp.ok`). -/
theorem shape_compare_sound (t : Str) (r : RawCmp) (h : tryFastCompare t = some r) :
    matchCmp t = some r ∧ r.ok = true :=
  tryFastCompare_some h

example : tryFastCompare ['n', 'i', 'l', ' ', '=', '=', ' ', '1'] = none := by decide
example : tryFastCompare ['x', ' ', '=', '=', ' ', '\'', 'a', '\\', 'n', 'b', '\''] = none := by decide
example : tryFastCompare ['x', ' ', '=', '=', ' ', '\'', 'a', '\r', 'b', '\''] = none := by decide
example : (tryFastCompare ['x', ' ', '=', '=', ' ', '\'', 'a', 'b', '\'']).isSome = true := by decide

/-- `tryFastCompound` fires only on a text without parentheses that is `part && part && …`
(all `&&`) or `part || part || …` (all `||`), every part a text `tryFastCompare` fires on. -/
theorem shape_compound_sound (t : Str) (isAnd : Bool) (rs : List RawCmp)
    (h : tryFastCompound t = some (isAnd, rs)) :
    t.contains '(' = false ∧ t.contains ')' = false ∧
    t = joinWith (if isAnd then ['&', '&'] else ['|', '|']) (splitOps t []) ∧
    allParts (splitOps t []) = some rs :=
  tryFastCompound_some h

example : (tryFastCompound ['x', ' ', '>', ' ', '1', ' ', '&', '&', ' ', 'y', ' ', '=', '=', ' ', '\'', 'b', '\'', ' ', '&', '&', 'z', '<', '3']).map (fun x => (x.1, x.2.length)) = some (true, 3) := by decide
example : tryFastCompound ['x', ' ', '>', ' ', '1', ' ', '&', '&', ' ', 'y', ' ', '=', '=', ' ', '\'', 'b', '\'', ' ', '|', '|', ' ', 'z', '<', '3'] = none := by decide
example : tryFastCompound ['(', 'x', ' ', '>', ' ', '1', ')', ' ', '&', '&', ' ', 'y', ' ', '<', ' ', '2'] = none := by decide

/-- From the text: a condition built by `NewExprCondition` from a text whose recognised shapes
denote the predicate expr-lang compiled (`parseAgrees`, the one assumption about expr-lang's parser;
the driver evaluates it on every generated case) decides as the general evaluator decides. -/
theorem newCond_evaluate (t : Str) (p : Pred) (c : CondM) (hparse : parseAgrees t p = true)
    (h : newCond t (some p) = some c) (row : Row) :
    c.evaluate row = SpecC12.generalDecision p row := by
  have hp : c.pred = p := by
    simp only [newCond, Option.map_some, Option.some.injEq] at h
    rw [← h]
  rw [← hp]
  exact evaluate_eq_general c (newCond_sound hparse h) row

example : parseAgrees ['x', ' ', '>', ' ', '1', ' ', '&', '&', ' ', 'y', ' ', '<', ' ', '2']
    (.and (.cmp ⟨['x'], .gt, .int 1⟩) (.cmp ⟨['y'], .lt, .int 2⟩)) = true := by decide
example : parseAgrees ['x', ' ', '>', ' ', '1', ' ', '&', '&', ' ', 'y', ' ', '<', ' ', '2'] (.cmp ⟨['x'], .gt, .int 1⟩) = false := by decide

/-- `float64(i)` is `i` strictly inside ±2^53 … -/
theorem round53_exact (i : Int) (h : exactInt i = true) : round53 i = i := round53_of_exact h

/-- … and an integer strictly inside ±2^53 compares with the float64 image of *any* integer
(the shortcut's `numLit` for an integer literal of any size) exactly as with that integer: no
guard on the literal is needed once the value guard is strict. -/
theorem exact_vs_rounded_literal (x : Int) (hx : exactInt x = true) (n : Int) (op : Op) :
    compareNum (F64.ofInt x) op (F64.ofInt n) = compareInt x op n := by
  simp only [F64.ofInt]
  rw [round53_of_exact hx, compareNum_scaled, compareInt_round53 hx]

example : round53 9007199254740993 = 9007199254740992 := by decide
example : round53 9007199254740995 = 9007199254740996 := by decide
example : round53 (-9007199254740993) = -9007199254740992 := by decide
example : round53 18446744073709551615 = 18446744073709551616 := by decide
example : exactInt 9007199254740991 = true ∧ exactInt 9007199254740992 = false := by decide

/-- Why the value guard is there and why it is strict: with the conversions of the unrepaired
tree (every 64-bit integer through float64) the shortcut answers differently from the general
evaluator (1) for a value beyond 2^53, (2) for the value 2^53 itself against the literal 2^53+1,
(3) for a uint64 that wraps in expr-lang's `int(x)`. So `fast_agrees` is false of `fastEvalOld`. -/
theorem guard_needed :
    ¬ (∀ (c : Cmp) (row : Row) (b : Bool), fastEvalOld c row = some b → generalCmp c row = .ok b) := by
  intro h
  exact absurd (h ⟨['x'], .eq, .int 9007199254740992⟩ [(['x'], .int (.i64 9007199254740993))] true (by decide))
    (by decide)

example : fastEvalOld ⟨['x'], .eq, .int 9007199254740993⟩ [(['x'], .int (.i64 9007199254740992))] = some true ∧
    generalCmp ⟨['x'], .eq, .int 9007199254740993⟩ [(['x'], .int (.i64 9007199254740992))] = .ok false := by decide
example : fastEvalOld ⟨['x'], .gt, .int 0⟩ [(['x'], .int (.u64 9223372036854775808))] = some true ∧
    generalCmp ⟨['x'], .gt, .int 0⟩ [(['x'], .int (.u64 9223372036854775808))] = .ok false := by decide
example : fastEval ⟨['x'], .eq, .int 9007199254740993⟩ [(['x'], .int (.i64 9007199254740992))] = none := by decide

end C12

/-- tie to the source (regenerated on every run from the repo by factsgen): the two regexes the
recognisers of `Model/CondShape.lean` were written for and the split regex; the bound of the value
guard of `toFloat64Fast` (2^53); the column names `tryFastCompare` leaves to expr-lang; the bytes
(backslash, CR) that make a quoted literal non-raw -/
theorem C12.facts_regexes :
    Facts.condition_fastFieldOpNum = "^\\s*([A-Za-z_][A-Za-z0-9_]*)\\s*(>=|<=|!=|<>|==|=|>|<)\\s*(-?\\d+(?:\\.\\d+)?)\\s*$" ∧
    Facts.condition_fastFieldOpStr = "^\\s*([A-Za-z_][A-Za-z0-9_]*)\\s*(>=|<=|!=|<>|==|=|>|<)\\s*'([^']*)'\\s*$" ∧
    Facts.condition_fastAndOr = "\\s*(&&|\\|\\|)\\s*" := by decide

theorem C12.facts_guards :
    Facts.condition_maxExactFloatInt = Cond.exactLimit ∧
    Facts.condition_isExprLiteralName_strlits.map String.toList = Cond.litNames ∧
    Facts.condition_isRawStringLiteral_strlits = ["\\\r"] := by decide
